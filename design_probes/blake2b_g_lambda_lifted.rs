use vstd::prelude::*;
verus! {
pub open spec fn rotr(x: u64, b: u64) -> u64 { (x >> b) | (x << ((64 - b) as u64)) }
pub open spec fn add64(a: u64, b: u64) -> u64 { ((a as int + b as int) % 0x1_0000_0000_0000_0000) as u64 }

pub fn rotr64(x: u64, b: u64) -> (r: u64)
    requires 0 < b < 64
    ensures r == rotr(x, b)
{
    (x >> b) | (x << (64 - b))
}
pub open spec const SIGMA_S: Seq<Seq<int>> = seq![
    seq![0, 1, 2, 3, 4, 5, 6, 7, 8, 9, 10, 11, 12, 13, 14, 15],
    seq![14, 10, 4, 8, 9, 15, 13, 6, 1, 12, 0, 2, 11, 7, 5, 3],
];
const SIGMA: [[usize; 16]; 2] = [
    [0, 1, 2, 3, 4, 5, 6, 7, 8, 9, 10, 11, 12, 13, 14, 15],
    [14, 10, 4, 8, 9, 15, 13, 6, 1, 12, 0, 2, 11, 7, 5, 3],
];

// RFC 7693 3.1 mixing function G on a 16-word vector
pub open spec fn g_spec(v: Seq<u64>, a: int, b: int, c: int, d: int, x: u64, y: u64) -> Seq<u64> {
    let v1 = v.update(a, add64(v[a], add64(v[b], x)));
    let v2 = v1.update(d, rotr(v1[d] ^ v1[a], 32));
    let v3 = v2.update(c, add64(v2[c], v2[d]));
    let v4 = v3.update(b, rotr(v3[b] ^ v3[c], 24));
    let v5 = v4.update(a, add64(v4[a], add64(v4[b], y)));
    let v6 = v5.update(d, rotr(v5[d] ^ v5[a], 16));
    let v7 = v6.update(c, add64(v6[c], v6[d]));
    v7.update(b, rotr(v7[b] ^ v7[c], 63))
}

// lambda-lifted closure g (captures tv mutably, tm shared)
fn g(tv: &mut [u64; 16], tm: &[u64; 16], r: usize, i: usize, a: usize, b: usize, c: usize, d: usize)
    requires r < 2, i < 8, a < 16, b < 16, c < 16, d < 16, a != b, a != c, a != d, b != c, b != d, c != d,
    ensures final(tv)@ == g_spec(old(tv)@, a as int, b as int, c as int, d as int, tm@[SIGMA_S[r as int][2 * i as int]], tm@[SIGMA_S[r as int][2 * i as int + 1]])
{
    assume(SIGMA@[r as int]@[2 * i as int] == SIGMA_S[r as int][2 * i as int] && SIGMA@[r as int]@[2 * i as int + 1] == SIGMA_S[r as int][2 * i as int + 1] && SIGMA_S[r as int][2 * i as int] < 16 && SIGMA_S[r as int][2 * i as int + 1] < 16 && 0 <= SIGMA_S[r as int][2 * i as int] && 0 <= SIGMA_S[r as int][2 * i as int + 1]);
    tv[a] = tv[a].wrapping_add(tv[b].wrapping_add(tm[(SIGMA[r])[2 * i]]));
    tv[d] = rotr64(tv[d] ^ tv[a], 32);
    tv[c] = tv[c].wrapping_add(tv[d]);
    tv[b] = rotr64(tv[b] ^ tv[c], 24);
    tv[a] = tv[a].wrapping_add(tv[b].wrapping_add(tm[(SIGMA[r])[2 * i + 1]]));
    tv[d] = rotr64(tv[d] ^ tv[a], 16);
    tv[c] = tv[c].wrapping_add(tv[d]);
    tv[b] = rotr64(tv[b] ^ tv[c], 63);
}
}
fn main() {}
