use vstd::prelude::*;
verus! {

pub open spec fn rotl32(x: u32, r: u32) -> u32 { ((x << r) | (x >> (32u32 - r) as u32)) as u32 }

pub assume_specification [u32::rotate_left] (x: u32, n: u32) -> (r: u32)
    ensures 0 < n < 32 ==> r == rotl32(x, n);

#[verifier::external_body]
fn shim_u32_to_le_bytes(x: u32) -> (r: [u8; 4])
    ensures r@ == vstd::bytes::spec_u32_to_le_bytes(x)
{ x.to_le_bytes() }

pub open spec fn qr_spec(a: u32, b: u32, c: u32, d: u32) -> (u32, u32, u32, u32) {
    let a1 = add32(a, b); let d1 = rotl32(d ^ a1, 16);
    let c1 = add32(c, d1); let b1 = rotl32(b ^ c1, 12);
    let a2 = add32(a1, b1); let d2 = rotl32(d1 ^ a2, 8);
    let c2 = add32(c1, d2); let b2 = rotl32(b1 ^ c2, 7);
    (a2, b2, c2, d2)
}
pub open spec fn add32(a: u32, b: u32) -> u32 { ((a as int + b as int) % 0x1_0000_0000) as u32 }

#[inline]
fn chacha20_round(x: &mut u32, y: &u32, z: &mut u32, rot: u32)
    requires 0 < rot < 32
    ensures *final(x) == add32(*old(x), *y), *final(z) == rotl32(*old(z) ^ *final(x), rot)
{
    *x = x.wrapping_add(*y);
    *z = (*z ^ *x).rotate_left(rot);
}

#[inline]
fn chacha20_quarterround(a: &mut u32, b: &mut u32, c: &mut u32, d: &mut u32)
    ensures (*final(a), *final(b), *final(c), *final(d)) == qr_spec(*old(a), *old(b), *old(c), *old(d))
{
    chacha20_round(a, b, d, 16);
    chacha20_round(c, d, b, 12);
    chacha20_round(a, b, d, 8);
    chacha20_round(c, d, b, 7);
}

pub fn demo(output: &mut [u8; 32], x0: u32)
    ensures final(output)@.subrange(0,4) == vstd::bytes::spec_u32_to_le_bytes(x0)
{
    output[0..4].copy_from_slice(&shim_u32_to_le_bytes(x0));
}

} // verus!
fn main() {}
