
use vstd::prelude::*;
verus! {
#[verifier::external_type_specification]
#[verifier::external_body]
pub struct ExError(crate::error::Error);

pub assume_specification<const LENGTH: usize> [<[u8] as crate::types::ByteArray<LENGTH>>::as_array] (s: &[u8]) -> (r: &[u8; LENGTH])
    ensures r@ == s@.subrange(0, LENGTH as int), s@.len() == LENGTH ==> r@ == s@;
impl BytesSpecImpl for [u8] { open spec fn bview(&self) -> Seq<u8> { self@ } }

#[verifier::external_body]
pub fn mk_error() -> crate::error::Error { crate::error::Error::Message(String::new()) }

pub uninterp spec fn secretbox_open_ok(mac: Seq<u8>, c: Seq<u8>, n: Seq<u8>, k: Seq<u8>) -> bool;
pub uninterp spec fn secretbox_plain(c: Seq<u8>, n: Seq<u8>, k: Seq<u8>) -> Seq<u8>;

pub assume_specification [crate::classic::crypto_secretbox::crypto_secretbox_open_detached] (message: &mut [u8], mac: &crate::classic::crypto_secretbox::Mac, ciphertext: &[u8], nonce: &crate::classic::crypto_secretbox::Nonce, key: &crate::classic::crypto_secretbox::Key) -> (r: std::result::Result<(), crate::error::Error>)
    requires old(message)@.len() == ciphertext@.len()
    ensures r.is_ok() <==> secretbox_open_ok(mac@, ciphertext@, nonce@, key@),
            r.is_ok() ==> final(message)@ == secretbox_plain(ciphertext@, nonce@, key@),
            r.is_err() ==> final(message)@ == old(message)@;
}

verus! {
use generic_array::typenum::{UInt, UTerm, B0, B1};
type U512ish = UInt<UInt<UInt<UInt<UInt<UInt<UInt<UInt<UInt<UTerm, B1>, B0>, B0>, B0>, B0>, B0>, B0>, B0>, B0>;

#[verifier::reject_recursive_types(T)]
#[verifier::external_type_specification]
#[verifier::external_body]
#[verifier::allow(undeclared_external_trait)]
pub struct ExStreamCipherCoreWrapper<T>(salsa20::cipher::StreamCipherCoreWrapper<T>)
where
    <<T as salsa20::cipher::BlockSizeUser>::BlockSize as generic_array::typenum::IsLess<U512ish>>::Output: generic_array::typenum::NonZero,
    <T as salsa20::cipher::BlockSizeUser>::BlockSize: generic_array::typenum::IsLess<U512ish>,
    T: salsa20::cipher::BlockSizeUser;

#[verifier::reject_recursive_types(R)]
#[verifier::external_type_specification]
#[verifier::external_body]
#[verifier::allow(undeclared_external_trait)]
pub struct ExXSalsaCore<R>(salsa20::XSalsaCore<R>) where R: generic_array::typenum::Unsigned;

#[verifier::reject_recursive_types(B)]
#[verifier::reject_recursive_types(U)]
#[verifier::external_type_specification]
#[verifier::external_body]
pub struct ExUInt<U, B>(generic_array::typenum::UInt<U, B>);
#[verifier::external_type_specification]
#[verifier::external_body]
pub struct ExUTerm(generic_array::typenum::UTerm);
#[verifier::external_type_specification]
#[verifier::external_body]
pub struct ExB1(generic_array::typenum::B1);
#[verifier::external_type_specification]
#[verifier::external_body]
pub struct ExB0(generic_array::typenum::B0);

#[verifier::reject_recursive_types(T)]
#[verifier::reject_recursive_types(N)]
#[verifier::external_type_specification]
#[verifier::external_body]
#[verifier::allow(undeclared_external_trait)]
pub struct ExGenericArray<T, N: generic_array::ArrayLength<T>>(generic_array::GenericArray<T, N>);

#[verifier::external_type_specification]
#[verifier::external_body]
pub struct ExChoice(subtle::Choice);
}

verus! {
use salsa20::cipher::StreamCipherCoreWrapper as SCW;

pub uninterp spec fn ga_view<T, N: generic_array::ArrayLength<T>>(g: &generic_array::GenericArray<T, N>) -> Seq<T>;

#[verifier::allow(undeclared_external_trait)]
pub assume_specification<T, N> [generic_array::GenericArray::<T, N>::from_slice] (s: &[T]) -> (g: &generic_array::GenericArray<T, N>)
    where N: generic_array::ArrayLength<T>,
    ensures ga_view(g) == s@;

pub uninterp spec fn sc_key<T>(c: &SCW<T>) -> Seq<u8>
  where
    <<T as salsa20::cipher::BlockSizeUser>::BlockSize as generic_array::typenum::IsLess<U512ish>>::Output: generic_array::typenum::NonZero,
    <T as salsa20::cipher::BlockSizeUser>::BlockSize: generic_array::typenum::IsLess<U512ish>,
    T: salsa20::cipher::BlockSizeUser;
pub uninterp spec fn sc_nonce<T>(c: &SCW<T>) -> Seq<u8>
  where
    <<T as salsa20::cipher::BlockSizeUser>::BlockSize as generic_array::typenum::IsLess<U512ish>>::Output: generic_array::typenum::NonZero,
    <T as salsa20::cipher::BlockSizeUser>::BlockSize: generic_array::typenum::IsLess<U512ish>,
    T: salsa20::cipher::BlockSizeUser;
pub uninterp spec fn sc_pos<T>(c: &SCW<T>) -> int
  where
    <<T as salsa20::cipher::BlockSizeUser>::BlockSize as generic_array::typenum::IsLess<U512ish>>::Output: generic_array::typenum::NonZero,
    <T as salsa20::cipher::BlockSizeUser>::BlockSize: generic_array::typenum::IsLess<U512ish>,
    T: salsa20::cipher::BlockSizeUser;


pub uninterp spec fn xs_key(c: &salsa20::XSalsa20) -> Seq<u8>;
pub uninterp spec fn xs_nonce(c: &salsa20::XSalsa20) -> Seq<u8>;
pub uninterp spec fn xs_pos(c: &salsa20::XSalsa20) -> int;
pub uninterp spec fn xsalsa20_stream(k: Seq<u8>, n: Seq<u8>, i: int) -> u8;
pub closed spec fn xs_block(k: Seq<u8>, n: Seq<u8>, pos: int, len: int) -> Seq<u8> { Seq::new(len as nat, |i: int| xsalsa20_stream(k, n, pos + i)) }
pub closed spec fn zeros(len: int) -> Seq<u8> { Seq::new(len as nat, |i: int| 0u8) }

#[verifier::external_body]
pub fn shim_xsalsa20_new(key: &[u8; 32], nonce: &[u8; 24]) -> (c: salsa20::XSalsa20)
    ensures xs_key(&c) == key@, xs_nonce(&c) == nonce@, xs_pos(&c) == 0
{
    use salsa20::cipher::KeyIvInit;
    salsa20::XSalsa20::new(generic_array::GenericArray::from_slice(key), generic_array::GenericArray::from_slice(nonce))
}

#[verifier::external_body]
pub fn shim_apply_keystream(c: &mut salsa20::XSalsa20, buf: &mut [u8])
    ensures
        xs_key(final(c)) == xs_key(old(c)), xs_nonce(final(c)) == xs_nonce(old(c)),
        xs_pos(final(c)) == xs_pos(old(c)) + old(buf)@.len(),
        final(buf)@.len() == old(buf)@.len(),
        forall|i: int| 0 <= i < old(buf)@.len() ==> #[trigger] final(buf)@[i] == old(buf)@[i] ^ xsalsa20_stream(xs_key(old(c)), xs_nonce(old(c)), xs_pos(old(c)) + i),
{
    use salsa20::cipher::StreamCipher;
    c.apply_keystream(buf)
}
}

verus! {
#[verifier::external_type_specification]
#[verifier::external_body]
pub struct ExStackByteArray<const LENGTH: usize>(crate::types::StackByteArray<LENGTH>);
pub uninterp spec fn sba_view<const LENGTH: usize>(a: &crate::types::StackByteArray<LENGTH>) -> Seq<u8>;
pub assume_specification<const LENGTH: usize> [crate::types::StackByteArray::<LENGTH>::new] () -> (r: crate::types::StackByteArray<LENGTH>)
    ensures sba_view(&r) == zeros(LENGTH as int);
#[verifier::external_body]
pub fn shim_apply_keystream_sba<const LENGTH: usize>(c: &mut salsa20::XSalsa20, a: &mut crate::types::StackByteArray<LENGTH>)
    ensures
        xs_key(final(c)) == xs_key(old(c)), xs_nonce(final(c)) == xs_nonce(old(c)),
        xs_pos(final(c)) == xs_pos(old(c)) + LENGTH,
        sba_view(final(a)).len() == LENGTH,
        sba_view(old(a)) == zeros(LENGTH as int) ==> sba_view(final(a)) == xs_block(xs_key(old(c)), xs_nonce(old(c)), xs_pos(old(c)), LENGTH as int),
        forall|i: int| 0 <= i < LENGTH ==> #[trigger] sba_view(final(a))[i] == sba_view(old(a))[i] ^ xsalsa20_stream(xs_key(old(c)), xs_nonce(old(c)), xs_pos(old(c)) + i),
{ use salsa20::cipher::StreamCipher; c.apply_keystream(a) }
pub assume_specification<const LENGTH: usize> [<crate::types::StackByteArray<LENGTH> as zeroize::Zeroize>::zeroize] (a: &mut crate::types::StackByteArray<LENGTH>);

#[verifier::external_type_specification]
#[verifier::external_body]
pub struct ExPoly1305(crate::poly1305::poly1305_soft::Poly1305);
pub uninterp spec fn poly1305_spec(key: Seq<u8>, msg: Seq<u8>) -> Seq<u8>;
pub uninterp spec fn p_key(p: &crate::poly1305::poly1305_soft::Poly1305) -> Seq<u8>;
pub uninterp spec fn p_msg(p: &crate::poly1305::poly1305_soft::Poly1305) -> Seq<u8>;
#[verifier::external_body]
pub fn shim_poly_new(k: &crate::types::StackByteArray<32>) -> (p: crate::poly1305::poly1305_soft::Poly1305)
    ensures p_key(&p) == sba_view(k), p_msg(&p) == Seq::<u8>::empty(), p_msg(&p).len() == 0
{ crate::poly1305::poly1305_soft::Poly1305::new(k) }
pub assume_specification [crate::poly1305::poly1305_soft::Poly1305::update] (p: &mut crate::poly1305::poly1305_soft::Poly1305, m: &[u8])
    ensures p_key(final(p)) == p_key(old(p)), p_msg(final(p)) == p_msg(old(p)) + m@, p_msg(old(p)).len() == 0 ==> p_msg(final(p)) == m@;
pub assume_specification [crate::poly1305::poly1305_soft::Poly1305::finalize] (p: &mut crate::poly1305::poly1305_soft::Poly1305, out: &mut [u8])
    requires old(out)@.len() == 16
    ensures final(out)@ == poly1305_spec(p_key(old(p)), p_msg(old(p)));
#[verifier::external_body]
pub fn shim_ct_eq16(a: &[u8; 16], b: &[u8; 16]) -> (r: u8)
    ensures r == 1 <==> a@ == b@
{ use subtle::ConstantTimeEq; a.ct_eq(b).unwrap_u8() }
}

verus! {
#[verifier::external_trait_specification]
#[verifier::external_trait_extension(BytesSpec via BytesSpecImpl)]
pub trait ExBytes {
    type ExternalTraitSpecificationFor: crate::types::Bytes;
    spec fn bview(&self) -> Seq<u8>;
    fn as_slice(&self) -> (r: &[u8]) ensures r@ == self.bview();
    fn len(&self) -> (r: usize) ensures r == self.bview().len();
    fn is_empty(&self) -> (r: bool) ensures r == (self.bview().len() == 0);
}

#[verifier::external_trait_specification]
pub trait ExByteArray<const LENGTH: usize>: crate::types::Bytes {
    type ExternalTraitSpecificationFor: crate::types::ByteArray<LENGTH>;
    fn as_array(&self) -> (r: &[u8; LENGTH]) requires self.bview().len() >= LENGTH ensures r@ == self.bview().subrange(0, LENGTH as int), self.bview().len() == LENGTH ==> r@ == self.bview();
}

#[verifier::external_trait_specification]
pub trait ExMutBytes: crate::types::Bytes {
    type ExternalTraitSpecificationFor: crate::types::MutBytes;
    fn as_mut_slice(&mut self) -> (r: &mut [u8]) ensures r@ == old(self).bview(), final(self).bview() == final(r)@;
    fn copy_from_slice(&mut self, other: &[u8]) requires old(self).bview().len() == other@.len() ensures final(self).bview() == other@;
}

#[verifier::external_trait_specification]
pub trait ExNewBytes: crate::types::MutBytes {
    type ExternalTraitSpecificationFor: crate::types::NewBytes;
    fn new_bytes() -> (r: Self) where Self: Sized ensures r.bview().len() == 0;
}

#[verifier::external_trait_specification]
pub trait ExResizableBytes {
    type ExternalTraitSpecificationFor: crate::types::ResizableBytes;
    fn resize(&mut self, new_len: usize, value: u8);
}
}
