use vstd::prelude::*;
verus! {

#[verifier::external_type_specification]
#[verifier::external_body]
pub struct ExIoError(std::io::Error);

pub assume_specification [std::io::Error::last_os_error] () -> std::io::Error;

#[verifier::external_type_specification]
#[verifier::external_body]
pub struct Exc_void(std::ffi::c_void);

pub uninterp spec fn slice_addr<T>(s: &[T]) -> int;
pub assume_specification<T> [<[T]>::as_ptr] (s: &[T]) -> (p: *const T)
    ensures p as int == slice_addr(s);

pub uninterp spec fn kernel_prot_set(addr: int, len: int, prot: int) -> bool;
pub uninterp spec fn page_size() -> int;

pub open spec fn pages(n: int) -> int { (n + page_size() - 1) / page_size() }

pub open spec fn prot_requested(addr: int, n: int, prot: int) -> bool {
    n == 0 || exists|len: int| kernel_prot_set(addr, len, prot) && pages(len) >= pages(n)
}

#[verifier::external_body]
unsafe fn c_mprotect(addr: *mut core::ffi::c_void, len: usize, prot: i32) -> (r: i32)
    ensures r == 0 ==> kernel_prot_set(addr as int, len as int, prot as int)
{ unimplemented!() }

const PROT_READ: i32 = 1;

fn dryoc_mprotect_readonly(data: &[u8]) -> (res: Result<(), std::io::Error>) 
    ensures res.is_ok() ==> prot_requested(slice_addr(data), data@.len() as int, PROT_READ as int)
{
    if data.is_empty() {
        // no-op
        return Ok(());
    }
    {
        let ret = unsafe { c_mprotect(data.as_ptr() as *mut core::ffi::c_void, data.len(), PROT_READ) };
        match ret {
            0 => Ok(()),
            _ => Err(std::io::Error::last_os_error()),
        }
    }
}

} // verus!
fn main() {}
