use vstd::prelude::*;
verus! {
pub open spec fn C44() -> int { 0x100000000000 }            // 2^44
pub open spec fn C88() -> int { 0x100000000000int * 0x100000000000int }  // 2^88
pub open spec fn PRIME() -> int { 0x100000000000int * 0x100000000000int * 0x40000000000int - 5 }
pub open spec fn lv(a0: int, a1: int, a2: int) -> int { a0 + a1 * C44() + a2 * C88() }

proof fn lemma_dist9(x: int, y: int, z: int, u: int, v: int, w: int)
    ensures (x+y+z)*(u+v+w) == x*u + x*v + x*w + y*u + y*v + y*w + z*u + z*v + z*w
{
    assert((x+y+z)*(u+v+w) == x*(u+v+w) + y*(u+v+w) + z*(u+v+w)) by (nonlinear_arith);
    assert(x*(u+v+w) == x*u + x*v + x*w) by (nonlinear_arith);
    assert(y*(u+v+w) == y*u + y*v + y*w) by (nonlinear_arith);
    assert(z*(u+v+w) == z*u + z*v + z*w) by (nonlinear_arith);
}
proof fn lemma_pp(a: int, k1: int, b: int, k2: int)
    ensures (a*k1)*(b*k2) == (a*b)*(k1*k2)
{
    assert((a*k1)*(b*k2) == (a*b)*(k1*k2)) by (nonlinear_arith);
}
proof fn lemma_p1(a: int, b: int, k: int)
    ensures a*(b*k) == (a*b)*k, (a*k)*b == (a*b)*k
{
    assert(a*(b*k) == (a*b)*k) by (nonlinear_arith);
    assert((a*k)*b == (a*b)*k) by (nonlinear_arith);
}

// schoolbook product with the 20*r folding: 2^132 = 4p + 20
proof fn lemma_mul_fold(h0: int, h1: int, h2: int, r0: int, r1: int, r2: int)
    ensures
        lv(h0,h1,h2) * lv(r0,r1,r2) ==
            lv(h0*r0 + h1*(r2*20) + h2*(r1*20), h0*r1 + h1*r0 + h2*(r2*20), h0*r2 + h1*r1 + h2*r0)
            + PRIME() * (4*(h1*r2) + 4*(h2*r1) + (4*C44())*(h2*r2))
{
    let c = C44(); let cc = C88();
    lemma_dist9(h0, h1*c, h2*cc, r0, r1*c, r2*cc);
    lemma_p1(h0, r1, c); lemma_p1(h0, r2, cc);
    lemma_p1(h1, r0, c); lemma_pp(h1, c, r1, c); lemma_pp(h1, c, r2, cc);
    lemma_p1(h2, r0, cc); lemma_pp(h2, cc, r1, c); lemma_pp(h2, cc, r2, cc);
    assert(c*c == cc);
    assert(c*cc == 4*PRIME() + 20);
    assert(cc*c == 4*PRIME() + 20);
    assert(C88()*C88() == C44()*(4*PRIME() + 20)) by (compute_only);
    let a12 = h1*r2; let a21 = h2*r1; let a22 = h2*r2;
    assert(h1*(r2*20) == a12*20) by (nonlinear_arith) requires a12 == h1*r2;
    assert(h2*(r1*20) == a21*20) by (nonlinear_arith) requires a21 == h2*r1;
    assert(h2*(r2*20) == a22*20) by (nonlinear_arith) requires a22 == h2*r2;
    assert(a12*(c*cc) == a12*20 + PRIME()*(4*a12)) by (nonlinear_arith) requires c*cc == 4*PRIME() + 20;
    assert(a21*(cc*c) == a21*20 + PRIME()*(4*a21)) by (nonlinear_arith) requires cc*c == 4*PRIME() + 20;
    assert(a22*(cc*cc) == (a22*20)*c + PRIME()*((4*c)*a22)) by (nonlinear_arith) requires cc*cc == c*(4*PRIME() + 20);
    assert(PRIME() * (4*a12 + 4*a21 + (4*c)*a22) == PRIME()*(4*a12) + PRIME()*(4*a21) + PRIME()*((4*c)*a22)) by (nonlinear_arith);
    assert((h0*r1 + h1*r0 + a22*20) * c == (h0*r1)*c + (h1*r0)*c + (a22*20)*c) by (nonlinear_arith);
    assert((h0*r2 + h1*r1 + h2*r0) * cc == (h0*r2)*cc + (h1*r1)*cc + (h2*r0)*cc) by (nonlinear_arith);
}

proof fn lemma_mul_le(x: int, xb: int, y: int, yb: int)
    requires 0 <= x <= xb, 0 <= y <= yb
    ensures 0 <= x*y <= xb*yb
{
    assert(0 <= x*y <= xb*yb) by (nonlinear_arith) requires 0 <= x <= xb, 0 <= y <= yb;
}

#[inline]
fn mul(x: u64, y: u64) -> (r: u128) ensures r as int == (x as int) * (y as int)
{
    proof { lemma_mul_le(x as int, 0xffffffffffffffff, y as int, 0xffffffffffffffff); }
    u128::from(x) * u128::from(y)
}
#[inline]
fn shr(in_: u128, shift: u64) -> (r: u64)
    requires shift < 128, (in_ >> (shift as u128)) <= 0xffffffffffffffff
    ensures r as u128 == in_ >> (shift as u128)
{
    (in_ >> shift) as u64
}
pub open spec fn lo_spec(d: u128) -> u64 { (d & 0xffffffffffffffff) as u64 }
#[inline]
fn lo(in_: u128) -> (r: u64) ensures r as u128 == (in_ & 0xffffffffffffffff), r == lo_spec(in_)
{
    proof { assert((in_ as u64) as u128 == (in_ & 0xffffffffffffffff)) by (bit_vector); }
    in_ as u64
}

proof fn bv_split_t(t0: u64, t1: u64, hibit: u64)
    requires hibit == 0 || hibit == 0x10000000000
    ensures
        (t0 & 0xfffffffffff) as int + ((((t0 >> 44) | (t1 << 20)) & 0xfffffffffff) as int) * C44()
          + ((((t1 >> 24) & 0x3ffffffffff) | hibit) as int) * C88()
          == t0 as int + (t1 as int) * 0x10000000000000000 + (hibit as int) * C88(),
        (t0 & 0xfffffffffff) <= 0xfffffffffff,
        (((t0 >> 44) | (t1 << 20)) & 0xfffffffffff) <= 0xfffffffffff,
        (((t1 >> 24) & 0x3ffffffffff) | hibit) <= 0x1ffffffffff,
{
    assert(t0 == (t0 & 0xfffffffffff) + (t0 >> 44) * 0x100000000000) by (bit_vector);
    assert((((t0 >> 44) | (t1 << 20)) & 0xfffffffffff) == (t0 >> 44) + (t1 & 0xffffff) * 0x100000) by (bit_vector);
    assert(t1 == (t1 & 0xffffff) + (t1 >> 24) * 0x1000000) by (bit_vector);
    assert((((t1 >> 24) & 0x3ffffffffff) | hibit) == (t1 >> 24) + hibit) by (bit_vector) requires hibit == 0 || hibit == 0x10000000000;
    assert((t1 >> 24) <= 0xffffffffff) by (bit_vector);
    assert((t0 & 0xfffffffffff) <= 0xfffffffffff) by (bit_vector);
    assert((((t0 >> 44) | (t1 << 20)) & 0xfffffffffff) <= 0xfffffffffff) by (bit_vector);
    assert(0x100000int * C44() == 0x10000000000000000) by (compute_only);
    assert(0x1000000int * 0x10000000000000000 == C88()) by (compute_only);
}

proof fn bv_carry128(d: u128, k: u128, bound: u128)
    requires k == 44 || k == 42, d < 0x1_0000_0000_0000_0000_0000_0000u128
    ensures
        k == 44 ==> d as int == (d & 0xfffffffffff) as int + ((d >> 44) as int) * C44() && (d >> 44) <= 0xfffffffffffff && ((d & 0xffffffffffffffff) & 0xfffffffffff) == (d & 0xfffffffffff),
        k == 42 ==> d as int == (d & 0x3ffffffffff) as int + ((d >> 42) as int) * 0x40000000000 && (d >> 42) <= 0x3fffffffffffff && ((d & 0xffffffffffffffff) & 0x3ffffffffff) == (d & 0x3ffffffffff),
{
    if k == 44 {
        assert(d == (d & 0xfffffffffff) + (d >> 44) * 0x100000000000) by (bit_vector);
        assert((d >> 44) <= 0xfffffffffffff) by (bit_vector) requires d < 0x1_0000_0000_0000_0000_0000_0000u128;
        assert(((d & 0xffffffffffffffff) & 0xfffffffffff) == (d & 0xfffffffffff)) by (bit_vector);
    } else {
        assert(d == (d & 0x3ffffffffff) + (d >> 42) * 0x40000000000) by (bit_vector);
        assert((d >> 42) <= 0x3fffffffffffff) by (bit_vector) requires d < 0x1_0000_0000_0000_0000_0000_0000u128;
        assert(((d & 0xffffffffffffffff) & 0x3ffffffffff) == (d & 0x3ffffffffff)) by (bit_vector);
    }
}

proof fn bv_lo_mask(d: u128, r: u64)
    requires r as u128 == (d & 0xffffffffffffffff)
    ensures (r & 0xfffffffffff) as u128 == (d & 0xfffffffffff), (r & 0x3ffffffffff) as u128 == (d & 0x3ffffffffff),
            (r & 0xfffffffffff) <= 0xfffffffffff, (r & 0x3ffffffffff) <= 0x3ffffffffff
{
    assert((r & 0xfffffffffff) as u128 == (d & 0xfffffffffff)) by (bit_vector) requires r as u128 == (d & 0xffffffffffffffff);
    assert((r & 0x3ffffffffff) as u128 == (d & 0x3ffffffffff)) by (bit_vector) requires r as u128 == (d & 0xffffffffffffffff);
    assert((r & 0xfffffffffff) <= 0xfffffffffff) by (bit_vector);
    assert((r & 0x3ffffffffff) <= 0x3ffffffffff) by (bit_vector);
}

pub open spec fn wf_r(r0: u64, r1: u64, r2: u64) -> bool { r0 <= 0xffc0fffffff && r1 <= 0xfffffc0ffff && r2 <= 0x00ffffffc0f }
pub open spec fn wf_h(h0: u64, h1: u64, h2: u64) -> bool { h0 <= 0xfffffffffff && h1 <= 0x1fffffffffff && h2 <= 0x3ffffffffff }

// one iteration of the loop body of Poly1305::blocks (statements verbatim, self.h[..] stores omitted)
fn step(h0i: u64, h1i: u64, h2i: u64, r0: u64, r1: u64, r2: u64, t0: u64, t1: u64, hibit: u64) -> (res: (u64, u64, u64))
    requires wf_h(h0i, h1i, h2i), wf_r(r0, r1, r2), hibit == 0 || hibit == 0x10000000000
    ensures
        wf_h(res.0, res.1, res.2),
        lv(res.0 as int, res.1 as int, res.2 as int) % PRIME()
          == ((lv(h0i as int, h1i as int, h2i as int) + t0 as int + (t1 as int) * 0x10000000000000000 + (hibit as int) * C88()) * lv(r0 as int, r1 as int, r2 as int)) % PRIME(),
{
    let mut h0 = h0i; let mut h1 = h1i; let mut h2 = h2i;
    proof { assert((5u64 << 2) == 20) by (bit_vector); }
    let s1 = r1 * (5 << 2);
    let s2 = r2 * (5 << 2);
    proof { bv_split_t(t0, t1, hibit); }

    h0 = h0.wrapping_add(t0 & 0xfffffffffff);
    h1 = h1.wrapping_add(((t0 >> 44) | (t1 << 20)) & 0xfffffffffff);
    h2 = h2.wrapping_add(((t1 >> 24) & 0x3ffffffffff) | hibit);
    let ghost (m0, m1, m2) = (h0 as int, h1 as int, h2 as int);
    proof {
        assert(lv(m0, m1, m2) == lv(h0i as int, h1i as int, h2i as int) + t0 as int + (t1 as int) * 0x10000000000000000 + (hibit as int) * C88()) by (nonlinear_arith)
            requires m0 == h0i as int + (t0 & 0xfffffffffff) as int, m1 == h1i as int + (((t0 >> 44) | (t1 << 20)) & 0xfffffffffff) as int,
                     m2 == h2i as int + (((t1 >> 24) & 0x3ffffffffff) | hibit) as int,
                     (t0 & 0xfffffffffff) as int + ((((t0 >> 44) | (t1 << 20)) & 0xfffffffffff) as int) * C44() + ((((t1 >> 24) & 0x3ffffffffff) | hibit) as int) * C88() == t0 as int + (t1 as int) * 0x10000000000000000 + (hibit as int) * C88();
        lemma_mul_le(m0, 0x1ffffffffffe, r0 as int, 0xffc0fffffff); lemma_mul_le(m1, 0x2ffffffffffe, s2 as int, 20int*0x00ffffffc0f); lemma_mul_le(m2, 0x5fffffffffe, s1 as int, 20int*0xfffffc0ffff);
        lemma_mul_le(m0, 0x1ffffffffffe, r1 as int, 0xfffffc0ffff); lemma_mul_le(m1, 0x2ffffffffffe, r0 as int, 0xffc0fffffff); lemma_mul_le(m2, 0x5fffffffffe, s2 as int, 20int*0x00ffffffc0f);
        lemma_mul_le(m0, 0x1ffffffffffe, r2 as int, 0x00ffffffc0f); lemma_mul_le(m1, 0x2ffffffffffe, r1 as int, 0xfffffc0ffff); lemma_mul_le(m2, 0x5fffffffffe, r0 as int, 0xffc0fffffff);
    }

    // h *= r
    let d0 = mul(h0, r0) + mul(h1, s2) + mul(h2, s1);
    let mut d1 = mul(h0, r1) + mul(h1, r0) + mul(h2, s2);
    let mut d2 = mul(h0, r2) + mul(h1, r1) + mul(h2, r0);
    let ghost (e0, e1, e2) = (d0 as int, d1 as int, d2 as int);
    proof { lemma_mul_fold(m0, m1, m2, r0 as int, r1 as int, r2 as int); }

    // (partial) h %= p
    proof { bv_carry128(d0, 44, 0); }
    let mut c = shr(d0, 44);
    let ghost l0 = lo_spec(d0);
    h0 = lo(d0) & 0xfffffffffff;
    proof { bv_lo_mask(d0, l0); }
    d1 += c as u128;
    proof { bv_carry128(d1, 44, 0); }
    c = shr(d1, 44);
    let ghost l1 = lo_spec(d1);
    h1 = lo(d1) & 0xfffffffffff;
    proof { bv_lo_mask(d1, l1); }
    d2 += c as u128;
    proof { bv_carry128(d2, 42, 0); }
    c = shr(d2, 42);
    let ghost l2 = lo_spec(d2);
    h2 = lo(d2) & 0x3ffffffffff;
    proof { bv_lo_mask(d2, l2); }
    let ghost c2 = c as int;
    let ghost (a0, a1, a2) = (h0 as int, h1 as int, h2 as int);
    let ghost (k0, k1) = ((d0 >> 44) as int, (d1 >> 44) as int);
    h0 += c * 5;
    let ghost h0b = h0;
    proof {
        assert(h0b == (h0b & 0xfffffffffff) + (h0b >> 44) * 0x100000000000) by (bit_vector);
        assert((h0b >> 44) <= 0xfffff) by (bit_vector);
        assert((h0b & 0xfffffffffff) <= 0xfffffffffff) by (bit_vector);
    }
    c = h0 >> 44;
    h0 &= 0xfffffffffff;
    h1 += c;
    proof {
        let k3 = c as int;
        let f0 = h0 as int;
        assert(0x40000000000int * C88() == PRIME() + 5) by (compute_only);
        assert(C44() * C44() == C88()) by (compute_only);
        // carries are exact
        assert(e0 == a0 + k0 * C44());
        assert(e1 + k0 == a1 + k1 * C44());
        assert(e2 + k1 == a2 + c2 * 0x40000000000);
        assert(a0 + 5 * c2 == f0 + k3 * C44());
        let kk = 4*(m1*(r2 as int)) + 4*(m2*(r1 as int)) + (4*C44())*(m2*(r2 as int));
        // fold lemma instance
        assert(e0 == m0*(r0 as int) + m1*((r2 as int)*20) + m2*((r1 as int)*20));
        assert(e1 == m0*(r1 as int) + m1*(r0 as int) + m2*((r2 as int)*20));
        assert(e2 == m0*(r2 as int) + m1*(r1 as int) + m2*(r0 as int));
        let total = lv(m0, m1, m2) * lv(r0 as int, r1 as int, r2 as int);
        assert(total == lv(e0, e1, e2) + PRIME() * kk);
        assert(k1 * C44() * C44() == k1 * C88()) by (nonlinear_arith) requires C44() * C44() == C88();
        assert((c2 * 0x40000000000) * C88() == c2 * (PRIME() + 5)) by (nonlinear_arith) requires 0x40000000000int * C88() == PRIME() + 5;
        assert((a1 + k1 * C44()) * C44() == a1 * C44() + k1 * C44() * C44()) by (nonlinear_arith);
        assert((a2 + c2 * 0x40000000000) * C88() == a2 * C88() + (c2 * 0x40000000000) * C88()) by (nonlinear_arith);
        assert((e1 + k0) * C44() == e1 * C44() + k0 * C44()) by (nonlinear_arith);
        assert((e2 + k1) * C88() == e2 * C88() + k1 * C88()) by (nonlinear_arith);
        assert((a1 + k3) * C44() == a1 * C44() + k3 * C44()) by (nonlinear_arith);
        assert(c2 * (PRIME() + 5) == c2 * PRIME() + 5 * c2) by (nonlinear_arith);
        assert(lv(e0, e1, e2) == lv(f0, a1 + k3, a2) + c2 * PRIME());
        assert(PRIME() * kk + c2 * PRIME() == PRIME() * (kk + c2)) by (nonlinear_arith);
        assert(total == PRIME() * (kk + c2) + lv(f0, a1 + k3, a2));
        vstd::arithmetic::div_mod::lemma_mod_multiples_vanish(kk + c2, lv(f0, a1 + k3, a2), PRIME());
    }
    (h0, h1, h2)
}
}
fn main() {}
