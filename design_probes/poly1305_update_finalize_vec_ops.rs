use vstd::prelude::*;
use vstd::std_specs::cmp::OrdSpec;
verus! {
#[verifier::allow(undeclared_external_trait)]
pub assume_specification<T: Ord + core::marker::Destruct> [std::cmp::min] (a: T, b: T) -> (r: T)
    ensures r == (if a.cmp_spec(&b) == core::cmp::Ordering::Greater { b } else { a });

#[verifier::external_body]
fn shim_u64_to_le_bytes(x: u64) -> (r: [u8; 8])
    ensures r@ == vstd::bytes::spec_u64_to_le_bytes(x)
{ x.to_le_bytes() }
const BLOCK_SIZE: usize = 16;

pub struct Poly1305 {
    r: [u64; 3],
    h: [u64; 3],
    pad: [u64; 2],
    buffer: Vec<u8>,
}

impl Poly1305 {
    pub closed spec fn buf(&self) -> Seq<u8> { self.buffer@ }
    pub fn update(&mut self, input: &[u8]) 
        requires old(self).buf().len() < 16
    {
        let mut m = input;
        if !self.buffer.is_empty() {
            let input_block_end = std::cmp::min(BLOCK_SIZE - self.buffer.len(), input.len());
            // copy start of incoming block into previous block
            self.buffer.extend_from_slice(&m[..input_block_end]);

            if self.buffer.len() < BLOCK_SIZE {
                // don't have enough data yet, do nothing
                return;
            }

            // process block
            let b = self.buffer.clone();
            self.blocks(&b, false);
            self.buffer.clear();

            m = &m[input_block_end..]
        }

        // process all full blocks
        let full_blocks_end = m.len() - (m.len() % BLOCK_SIZE);
        self.blocks(&m[..full_blocks_end], false);

        if full_blocks_end < m.len() {
            // copy leftover into buffer
            self.buffer.extend_from_slice(&m[full_blocks_end..]);
        }
    }

    #[verifier::external_body]
    fn blocks(&mut self, input: &[u8], partial: bool)
       requires input@.len() % 16 == 0
       ensures final(self).buffer == old(self).buffer
    { }

    pub fn finalize(&mut self, output: &mut [u8]) 
        requires old(self).buf().len() < 16, old(output)@.len() >= 16
    {
        // process any remaining block
        if !self.buffer.is_empty() {
            self.buffer.push(1);
            if self.buffer.len() % BLOCK_SIZE != 0 {
                self.buffer.resize(
                    self.buffer.len() + (BLOCK_SIZE - self.buffer.len() % BLOCK_SIZE),
                    0,
                );
            }

            self.blocks(&self.buffer.clone(), true);
        }
        let mut h0 = self.h[0];
        output[0..8].copy_from_slice(&shim_u64_to_le_bytes(h0));
    }
}

} // verus!
fn main() {}
