use vstd::prelude::*;
verus! {
pub struct St { buf: Vec<u8>, n: u64 }
impl St {
    pub closed spec fn represents(&self, absorbed: Seq<u8>) -> bool {
        self.buf@ == absorbed && self.n == 0
    }
    pub fn update(&mut self, input: &[u8])
        ensures forall|a: Seq<u8>| old(self).represents(a) ==> #[trigger] final(self).represents(a + input@)
    {
        self.buf.extend_from_slice(input);
        proof { assert forall|a: Seq<u8>| old(self).represents(a) implies #[trigger] final(self).represents(a + input@) by { assert(self.buf@ =~= a + input@); } }
    }
    pub fn fin(self) -> (r: usize)
        ensures forall|a: Seq<u8>| self.represents(a) ==> r == a.len()
    { self.buf.len() }
}
pub fn two(st: &mut St, x: &[u8], y: &[u8])
    ensures forall|a: Seq<u8>| old(st).represents(a) ==> final(st).represents(a + (x@ + y@))
{
    st.update(x);
    st.update(y);
    proof { assert forall|a: Seq<u8>| old(st).represents(a) implies final(st).represents(a + (x@ + y@)) by {
        assert((a + x@) + y@ =~= a + (x@ + y@));
    } }
}
const fn cmin(a: usize, b: usize) -> (r: usize) ensures r == (if a > b { b } else { a }) { if a > b { b } else { a } }
pub exec const MAXV: usize ensures MAXV == 5 { cmin(5, 9) }
}
fn main() {}
