use vstd::prelude::*;
verus! {
fn rotl64(x: u64, b: u64) -> u64 requires 0 < b < 64 {
    (x << b) | (x >> (64 - b))
}
pub fn sip(mut v0: u64, mut v1: u64, mut v2: u64, mut v3: u64, m: u64) -> u64 {
    let round = |v0: &mut u64, v1: &mut u64, v2: &mut u64, v3: &mut u64| {
        *v0 = v0.wrapping_add(*v1);
        *v1 = rotl64(*v1, 13);
        *v1 ^= *v0;
        *v0 = rotl64(*v0, 32);
    };
    v3 ^= m;
    round(&mut v0, &mut v1, &mut v2, &mut v3);
    round(&mut v0, &mut v1, &mut v2, &mut v3);
    v0 ^= m;
    v0 ^ v1 ^ v2 ^ v3
}
}
fn main() {}
