use vstd::prelude::*;
use vstd::std_specs::cmp::OrdSpec;
verus! {
pub assume_specification<T: Ord + core::marker::Destruct> [std::cmp::min] (a: T, b: T) -> (r: T)
    ensures r == (if a.cmp_spec(&b) == core::cmp::Ordering::Greater { b } else { a });

pub fn xor_buf(out: &mut [u8], in_: &[u8])
    ensures
        final(out)@.len() == old(out)@.len(),
        forall|i: int| 0 <= i < old(out)@.len() && i < in_@.len() ==> final(out)@[i] == old(out)@[i] ^ in_@[i],
        forall|i: int| in_@.len() <= i < old(out)@.len() ==> final(out)@[i] == old(out)@[i],
{
    let len = std::cmp::min(out.len(), in_.len());
    for i in 0..len
        invariant
            len <= out@.len(), len <= in_@.len(),
            out@.len() == old(out)@.len(),
            forall|j: int| 0 <= j < i ==> out@[j] == old(out)@[j] ^ in_@[j],
            forall|j: int| i <= j < out@.len() ==> out@[j] == old(out)@[j],
    {
        out[i] ^= in_[i];
    }
}

pub fn load_u64_le(bytes: &[u8]) -> (r: u64)
    requires bytes@.len() >= 8
{
    (bytes[0] as u64)
        | ((bytes[1] as u64) << 8)
        | ((bytes[2] as u64) << 16)
        | ((bytes[3] as u64) << 24)
        | ((bytes[4] as u64) << 32)
        | ((bytes[5] as u64) << 40)
        | ((bytes[6] as u64) << 48)
        | ((bytes[7] as u64) << 56)
}

pub fn rotr64(x: u64, b: u64) -> u64
    requires 0 < b < 64
{
    (x >> b) | (x << (64 - b))
}

pub fn pad16(n: usize) -> (r: usize)
    ensures r < 16, (n + r) % 16 == 0
{
    (0x10 - (n % 16)) & 0xf
}

} // verus!
fn main() {}
