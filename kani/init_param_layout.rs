
#[cfg(kani)]
mod verif_kani {
    use super::*;

    fn barrier_stub<T: ?Sized>(_v: &T) {}

    /// COMPLETE proof (Kani/CBMC; the loop bounds 16 and 8 are constants of the harness, all 34 parameter bytes are
    /// symbolic): `State::init_param` lays the BLAKE2b parameter block out as RFC 7693 §2.5 / libsodium
    /// (digest_length, key_length, fanout, depth, leaf_length[4], node_offset[8], node_depth, inner_length,
    /// reserved[14], salt[16], personal[16] — every one of the 64 bytes symbolic) and XORs its little-endian words into IV; counters,
    /// flags, last_node are zero and the buffer is empty. This is exactly the contract that the Verus side ASSUMES for
    /// `State::init_param` (the function reads a #[repr(packed)] struct through an unsafe pointer cast).
    #[kani::proof]
    #[kani::unwind(17)]
    #[kani::stub(zeroize::optimization_barrier, barrier_stub)]
    fn init_param_layout() {
        // every field of the parameter block is symbolic (64 bytes in total)
        let params = Params {
            digest_length: kani::any(),
            key_length: kani::any(),
            fanout: kani::any(),
            depth: kani::any(),
            leaf_length: kani::any(),
            node_offset: kani::any(),
            node_depth: kani::any(),
            inner_length: kani::any(),
            reserved: kani::any(),
            salt: kani::any(),
            personal: kani::any(),
        };
        let st = State::init_param(&params);
        // the parameter block as bytes: fields in declaration order (RFC 7693 §2.5)
        let mut bytes = [0u8; 64];
        bytes[0] = params.digest_length;
        bytes[1] = params.key_length;
        bytes[2] = params.fanout;
        bytes[3] = params.depth;
        let (leaf, node, res, salt, pers) = (params.leaf_length, params.node_offset, params.reserved, params.salt, params.personal);
        let mut i = 0;
        while i < 16 {
            if i < 4 {
                bytes[4 + i] = leaf[i];
            }
            if i < 8 {
                bytes[8 + i] = node[i];
            }
            if i < 14 {
                bytes[18 + i] = res[i];
            }
            bytes[32 + i] = salt[i];
            bytes[48 + i] = pers[i];
            i += 1;
        }
        bytes[16] = params.node_depth;
        bytes[17] = params.inner_length;
        let mut w = 0;
        while w < 8 {
            let mut v: u64 = 0;
            let mut b = 0;
            while b < 8 {
                v |= (bytes[8 * w + b] as u64) << (8 * b);
                b += 1;
            }
            assert!(st.h[w] == IV[w] ^ v);
            w += 1;
        }
        assert!(st.t[0] == 0 && st.t[1] == 0 && st.f[0] == 0 && st.f[1] == 0 && st.last_node == 0);
        assert!(st.buf.is_empty());
    }
}
