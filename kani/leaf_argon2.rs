
#[cfg(kani)]
mod verif_kani_leaf {
    //! Kani twin (COMPLETE: loop-free, every field symbolic under the precondition of contracts/argon2.vc) of the contract
    //! of `index_alpha`: RFC 9106 §3.4.2 written in 128-bit arithmetic.
    use super::*;

    #[kani::proof]
    fn vk_index_alpha() {
        let mut instance = Argon2Instance::default();
        instance.segment_length = kani::any();
        instance.lane_length = kani::any();
        let position = Argon2Position {
            pass: kani::any(),
            lane: kani::any(),
            slice: kani::any(),
            index: kani::any(),
        };
        let (pseudo_rand, same_lane): (u32, bool) = (kani::any(), kani::any());
        let seg = instance.segment_length as u128;
        kani::assume(instance.segment_length >= 2);
        kani::assume(instance.lane_length as u128 == 4 * seg);
        kani::assume(position.slice < 4);
        kani::assume(position.index < instance.segment_length);
        kani::assume(!(position.pass == 0 && position.slice == 0) || (position.index >= 2 && same_lane));
        let r = index_alpha(&instance, &position, pseudo_rand, same_lane);
        // RFC 9106 3.4.2
        let (slice, index, j1) = (position.slice as u128, position.index as u128, pseudo_rand as u128);
        let finished = if position.pass == 0 { slice * seg } else { 3 * seg };
        let size = if same_lane { finished + index - 1 } else { finished - (if index == 0 { 1 } else { 0 }) };
        let x = (j1 * j1) >> 32;
        let y = (size * x) >> 32;
        let zz = size - 1 - y;
        let start = if position.pass == 0 || slice == 3 { 0 } else { (slice + 1) * seg };
        assert!(r as u128 == (start + zz) % (4 * seg));
    }
}
