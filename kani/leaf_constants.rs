
#[cfg(kani)]
mod verif_kani_leaf {
    //! Kani proofs (COMPLETE) of the contracts Verus ASSUMES for the two const fns (`[a, b][(a > b) as usize]`).
    use super::*;

    #[kani::proof]
    fn vk_const_min() {
        let (a, b): (usize, usize) = (kani::any(), kani::any());
        assert!(min(a, b) == if a > b { b } else { a });
    }

    #[kani::proof]
    fn vk_const_max() {
        let (a, b): (usize, usize) = (kani::any(), kani::any());
        assert!(max(a, b) == if a < b { b } else { a });
    }
}
