
#[cfg(kani)]
mod verif_kani_leaf {
    //! Kani twin (COMPLETE) of the contract of `convert_costs` (libsodium: t_cost = opslimit, m_cost = memlimit / 1024).
    use super::*;

    #[kani::proof]
    fn vk_convert_costs() {
        let (opslimit, memlimit): (u64, usize) = (kani::any(), kani::any());
        kani::assume(opslimit <= 0xFFFF_FFFF);
        kani::assume(memlimit / 1024 <= 0xFFFF_FFFF);
        let r = convert_costs(opslimit, memlimit);
        assert!(r.0 as u64 == opslimit);
        assert!(r.1 as usize == memlimit / 1024);
    }
}
