
#[cfg(kani)]
mod verif_kani_leaf {
    //! Kani twin (COMPLETE: loop-free, all 32 scalar bytes symbolic) of the contract of `clamp` (RFC 7748 §5 decodeScalar25519).
    use super::*;

    #[kani::proof]
    fn vk_clamp() {
        let n: [u8; 32] = kani::any();
        let s = clamp(&n);
        let i: usize = kani::any();
        kani::assume(i < 32);
        let want = if i == 0 {
            n[0] & 248
        } else if i == 31 {
            (n[31] & 127) | 64
        } else {
            n[i]
        };
        assert!(s[i] == want);
    }
}
