
#[cfg(kani)]
mod verif_kani_leaf {
    //! Kani twin (COMPLETE) of the contract of `clamp_hash`: the first 32 bytes of the hash, clamped as RFC 8032 §5.1.5.
    use super::*;

    fn barrier_stub<T: ?Sized>(_v: &T) {}

    #[kani::proof]
    #[kani::unwind(65)]
    #[kani::stub(zeroize::optimization_barrier, barrier_stub)]
    fn vk_clamp_hash() {
        let h: [u8; 64] = kani::any();
        let s = clamp_hash(h);
        let i: usize = kani::any();
        kani::assume(i < 32);
        let want = if i == 0 {
            h[0] & 248
        } else if i == 31 {
            (h[31] & 127) | 64
        } else {
            h[i]
        };
        assert!(s[i] == want);
    }
}
