
#[cfg(kani)]
mod verif_kani_leaf {
    //! Kani twins of the Verus contracts of the loop-free arithmetic helpers of utils.rs. Each harness is COMPLETE
    //! (no loop, every input symbolic over its full domain) and asserts the same postcondition as contracts/utils.vc.
    //! They are run only as tie-breakers: when the Verus proof of the unit they back no longer goes through on the
    //! current text (failed or undecided), CBMC decides the contract for that text and, if it is violated, supplies
    //! the concrete counterexample that Verus cannot give (replayed natively with `cargo kani playback`).
    use super::*;

    #[kani::proof]
    fn vk_pad16() {
        let n: usize = kani::any();
        kani::assume(n <= usize::MAX - 16); // lengths of real buffers (<= isize::MAX)
        let r = pad16(n);
        assert!(r < 16);
        assert!((n + r) % 16 == 0);
    }

    #[kani::proof]
    fn vk_load_u64_le() {
        let b: [u8; 8] = kani::any();
        assert!(load_u64_le(&b) == u64::from_le_bytes(b));
    }

    #[kani::proof]
    fn vk_load_u32_le() {
        let c: [u8; 4] = kani::any();
        assert!(load_u32_le(&c) == u32::from_le_bytes(c));
    }

    #[kani::proof]
    fn vk_rotr64() {
        let (x, b): (u64, u64) = (kani::any(), kani::any());
        kani::assume(0 < b && b < 64);
        assert!(rotr64(x, b) == x.rotate_right(b as u32));
    }
}
