#!/bin/sh
# Builds the witness binary offline into /verif/cache/replay-target.
set -e
cd "$(dirname "$0")"
export CARGO_NET_OFFLINE=true
export CARGO_TARGET_DIR=/verif/cache/replay-target
exec cargo build --release --offline "$@"
