#!/usr/bin/env python3
"""run_witness.py <PROP> [--tier quick|thorough] [--seed N] [--case NAME --input name=HEX ...]

(Re)builds the witness binary (the dryoc path dependency changes between
runs; cargo build is incremental) and runs it with a timeout.  The LAST line
printed on stdout is the JSON verdict:

  {"status":"found", ...}   exit 1
  {"status":"none", ...}    exit 0
  {"status":"error", ...}   exit 2   (build failure, timeout, crash, bad usage)
"""
import json
import os
import subprocess
import sys

HERE = os.path.dirname(os.path.abspath(__file__))
TARGET = "/verif/cache/replay-target"
# VERIF_REPO (development / evaluation of seeded changes in a worktree): build a copy of this crate whose dryoc path
# dependency points at that tree, with its own target directory. Registered checks always use /repo.
_REPO = os.environ.get("VERIF_REPO", "/repo")
if os.path.realpath(_REPO) != "/repo":
    import hashlib, shutil
    _tag = hashlib.sha1(os.path.realpath(_REPO).encode()).hexdigest()[:10]
    _copy = os.path.join(os.environ.get("VERIF_SCRATCH", "/var/tmp"), "replay_" + _tag)
    if os.path.isdir(_copy):
        shutil.rmtree(_copy)
    shutil.copytree(HERE, _copy, ignore=shutil.ignore_patterns("out", "target"))
    _ct = os.path.join(_copy, "Cargo.toml")
    _t = open(_ct).read().replace('path = "/repo"', 'path = "%s"' % os.path.realpath(_REPO))
    open(_ct, "w").write(_t)
    shutil.copy(os.path.join(_REPO, "Cargo.lock"), os.path.join(_copy, "Cargo.lock")) if False else None
    HERE = _copy
    TARGET = "/verif/cache/replay-target-" + _tag
    _fl = os.environ.get("VERIF_WITNESS_FLAVOUR", "")
    _sfx = ("-" + _fl) if _fl in ("nightly", "simd") else ""
    if not os.path.isdir(TARGET + _sfx) and os.path.isdir("/verif/cache/replay-target" + _sfx):
        # start from the compiled dependencies of the main target (only dryoc and the witness itself are rebuilt)
        subprocess.run(["cp", "-a", "/verif/cache/replay-target" + _sfx, TARGET + _sfx])
# second flavour (configurations of dryoc that need the nightly toolchain): VERIF_WITNESS_FLAVOUR=nightly
FLAVOUR = os.environ.get("VERIF_WITNESS_FLAVOUR", "")
CARGO = ["cargo", "build", "--release", "--offline"]
if FLAVOUR == "nightly":
    TARGET = TARGET + "-nightly"
    CARGO = ["cargo", "+nightly", "build", "--release", "--offline", "--features", "nightly"]
elif FLAVOUR == "simd":
    # third flavour: dryoc built with its portable-SIMD BLAKE2b backend (feature simd_backend, nightly toolchain)
    TARGET = TARGET + "-simd"
    CARGO = ["cargo", "+nightly", "build", "--release", "--offline", "--features", "simd"]
BINARY = os.path.join(TARGET, "release", "witness")
BUILD_TIMEOUT = 900
RUN_TIMEOUT = {"quick": 60, "thorough": 400}


def emit(obj, code):
    print(json.dumps(obj, sort_keys=True))
    sys.stdout.flush()
    sys.exit(code)


def error(detail):
    emit({"status": "error", "detail": detail}, 2)


def build():
    env = dict(os.environ)
    env["CARGO_NET_OFFLINE"] = "true"
    env["CARGO_TARGET_DIR"] = TARGET
    try:
        p = subprocess.run(
            CARGO,
            cwd=HERE,
            env=env,
            stdout=subprocess.PIPE,
            stderr=subprocess.STDOUT,
            timeout=BUILD_TIMEOUT,
            text=True,
            errors="replace",
        )
    except subprocess.TimeoutExpired:
        error("cargo build timed out after %d s" % BUILD_TIMEOUT)
    except OSError as e:
        error("cannot run cargo: %s" % e)
    if p.returncode != 0 or not os.path.exists(BINARY):
        lines = [l for l in p.stdout.splitlines() if l.strip()]
        errs = [l for l in lines if l.startswith("error")]
        tail = "\n".join(lines[-40:])
        error("cargo build failed: %s\n%s" % ("; ".join(errs[:5]), tail[-3000:]))


def last_json(stdout):
    for line in reversed(stdout.splitlines()):
        line = line.strip()
        if line.startswith("{"):
            try:
                return json.loads(line)
            except ValueError:
                continue
    return None


def traced_rerun(args, timeout):
    """The process died without a verdict (abort / segfault cannot be caught
    in-process).  Run again with tracing and report the case it died in."""
    env = dict(os.environ)
    env["WITNESS_TRACE"] = "1"
    last = None
    try:
        p = subprocess.Popen([BINARY] + args, env=env, stdout=subprocess.DEVNULL, stderr=subprocess.PIPE,
                             text=True, errors="replace")
        try:
            for line in p.stderr:
                if line.startswith("TRACE "):
                    last = line[len("TRACE "):].strip()
            p.wait(timeout=timeout)
        finally:
            if p.poll() is None:
                p.kill()
    except OSError:
        return None, None
    return last, p.returncode


def main():
    argv = sys.argv[1:]
    if not argv or argv[0].startswith("-"):
        error("usage: run_witness.py <PROP> [--tier quick|thorough] [--seed N] [--case NAME --input name=HEX ...]")
    prop = argv[0].upper()
    tier = "quick"
    if "--tier" in argv:
        i = argv.index("--tier")
        if i + 1 < len(argv):
            tier = argv[i + 1]
    timeout = RUN_TIMEOUT.get(tier, 400)

    build()

    try:
        p = subprocess.run([BINARY] + argv, stdout=subprocess.PIPE, stderr=subprocess.PIPE, timeout=timeout,
                           text=True, errors="replace")
    except subprocess.TimeoutExpired:
        error("witness %s timed out after %d s (tier %s)" % (prop, timeout, tier))
    except OSError as e:
        error("cannot run %s: %s" % (BINARY, e))

    verdict = last_json(p.stdout)
    if verdict is not None and verdict.get("status") in ("found", "none", "error"):
        code = {"found": 1, "none": 0, "error": 2}[verdict["status"]]
        emit(verdict, code)

    # no verdict: hard crash inside the code under test
    last, rc = traced_rerun(argv, timeout)
    if last is not None:
        case, _, inputs = last.partition(" --input ")
        inp = {}
        for tok in inputs.split():
            name, _, val = tok.partition("=")
            inp[name] = val
        emit({
            "status": "found",
            "property": prop,
            "case": case,
            "input": inp,
            "expected": "Ok or Err",
            "actual": "process terminated (exit status %s)" % rc,
            "detail": "the witness process died (abort/segfault, exit status %s) while running this case; "
                      "stderr: %s" % (p.returncode, p.stderr.strip()[-500:]),
            "rerun_cmd": "%s %s --case %s --input %s" % (BINARY, prop, case, inputs),
        }, 1)
    error("witness exited with status %s without a verdict; stderr: %s" % (p.returncode, p.stderr.strip()[-1000:]))


if __name__ == "__main__":
    main()
