#[cfg(all(feature = "simd_backend", feature = "nightly"))]
pub(crate) mod blake2b_simd;
#[cfg(all(feature = "simd_backend", feature = "nightly"))]
pub(crate) use blake2b_simd::*;

#[cfg(not(all(feature = "simd_backend", feature = "nightly")))]
pub(crate) mod blake2b_soft;
#[cfg(not(all(feature = "simd_backend", feature = "nightly")))]
pub(crate) use blake2b_soft::*;
