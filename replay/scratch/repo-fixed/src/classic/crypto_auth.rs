//! # Secret-key authentication
//!
//! Implements secret-key authentication using HMAC-SHA512-256, compatible
//! with libsodium's `crypto_auth_*` functions.
//!
//! # Classic API single-part example
//!
//! ```
//! use dryoc::classic::crypto_auth::{Mac, crypto_auth, crypto_auth_keygen, crypto_auth_verify};
//!
//! let key = crypto_auth_keygen();
//! let mut mac = Mac::default();
//!
//! crypto_auth(&mut mac, b"Data to authenticate", &key);
//!
//! // This should be valid
//! crypto_auth_verify(&mac, b"Data to authenticate", &key).expect("failed to authenticate");
//!
//! // This should not be valid
//! crypto_auth_verify(&mac, b"Invalid data", &key).expect_err("should not authenticate");
//! ```
//!
//! # Classic API multi-part example
//!
//! ```
//! use dryoc::classic::crypto_auth::{
//!     Mac, crypto_auth_final, crypto_auth_init, crypto_auth_keygen, crypto_auth_update,
//!     crypto_auth_verify,
//! };
//!
//! let key = crypto_auth_keygen();
//! let mut mac = Mac::default();
//!
//! let mut state = crypto_auth_init(&key);
//! crypto_auth_update(&mut state, b"Multi-part");
//! crypto_auth_update(&mut state, b"data");
//! crypto_auth_final(state, &mut mac);
//!
//! // This should be valid
//! crypto_auth_verify(&mac, b"Multi-partdata", &key).expect("failed to authenticate");
//!
//! // This should not be valid
//! crypto_auth_verify(&mac, b"Invalid data", &key).expect_err("should not authenticate");
//! ```
use subtle::ConstantTimeEq;

use crate::constants::{CRYPTO_AUTH_BYTES, CRYPTO_AUTH_HMACSHA512256_BYTES, CRYPTO_AUTH_KEYBYTES};
use crate::error::Error;
use crate::sha512::Sha512;
use crate::types::*;

struct HmacSha512State {
    octx: Sha512,
    ictx: Sha512,
}

/// Key for secret-key message authentication.
pub type Key = [u8; CRYPTO_AUTH_KEYBYTES];
/// Message authentication code type for use with secret-key authentication.
pub type Mac = [u8; CRYPTO_AUTH_BYTES];

fn crypto_auth_hmacsha512256(output: &mut Mac, message: &[u8], key: &Key) {
    let mut state = crypto_auth_hmacsha512256_init(key);
    crypto_auth_hmacsha512256_update(&mut state, message);
    crypto_auth_hmacsha512256_final(state, output);
}

fn crypto_auth_hmacsha512256_verify(mac: &Mac, input: &[u8], key: &Key) -> Result<(), Error> {
    let mut computed_mac = Mac::default();
    crypto_auth_hmacsha512256(&mut computed_mac, input, key);
    if mac.ct_eq(&computed_mac).unwrap_u8() == 1 {
        Ok(())
    } else {
        Err(dryoc_error!("authentication codes do not match"))
    }
}

fn crypto_auth_hmacsha512256_init(key: &[u8]) -> HmacSha512State {
    let mut pad = [0x36u8; 128];
    let mut khash = [0u8; 64];
    let keylen = key.len();

    let key = if keylen > 128 {
        Sha512::compute_into_bytes(&mut khash, key);
        &khash
    } else {
        key
    };

    let mut ictx = Sha512::new();
    for i in 0..keylen {
        pad[i] ^= key[i]
    }
    ictx.update(&pad);

    let mut octx = Sha512::new();
    pad.fill(0x5c);
    for i in 0..keylen {
        pad[i] ^= key[i]
    }
    octx.update(&pad);

    HmacSha512State { octx, ictx }
}

fn crypto_auth_hmacsha512256_update(state: &mut HmacSha512State, input: &[u8]) {
    state.ictx.update(input)
}
fn crypto_auth_hmacsha512256_final(
    mut state: HmacSha512State,
    output: &mut [u8; CRYPTO_AUTH_HMACSHA512256_BYTES],
) {
    let mut ihash = [0u8; 64];
    state.ictx.finalize_into_bytes(&mut ihash);
    state.octx.update(&ihash);
    state.octx.finalize_into_bytes(&mut ihash);
    output.copy_from_slice(&ihash[..CRYPTO_AUTH_HMACSHA512256_BYTES])
}

/// Authenticates `message` using `key`, and places the result into
/// `mac`.
///
/// Equivalent to libsodium's `crypto_auth`.
pub fn crypto_auth(mac: &mut Mac, message: &[u8], key: &Key) {
    crypto_auth_hmacsha512256(mac, message, key)
}

/// Verifies that `mac` is the correct authenticator for `message` using `key`.
/// Returns `Ok(())` if the message authentication code is valid.
///
/// Equivalent to libsodium's `crypto_auth_verify`.
pub fn crypto_auth_verify(mac: &Mac, input: &[u8], key: &Key) -> Result<(), Error> {
    crypto_auth_hmacsha512256_verify(mac, input, key)
}

/// Internal state for [`crypto_auth`].
pub struct AuthState {
    state: HmacSha512State,
}

/// Generates a random key using
/// [`copy_randombytes`](crate::rng::copy_randombytes), suitable for use with
/// [`crypto_auth_init`] and [`crypto_auth`].
///
/// Equivalent to libsodium's `crypto_auth_keygen`.
pub fn crypto_auth_keygen() -> Key {
    Key::gen()
}

/// Initialize the incremental interface for HMAC-SHA512-256 secret-key.
///
/// Initializes the incremental interface for HMAC-SHA512-256 secret-key
/// authentication, using `key`. Returns a state struct which is required for
/// subsequent calls to [`crypto_auth_update`] and
/// [`crypto_auth_final`].
pub fn crypto_auth_init(key: &Key) -> AuthState {
    AuthState {
        state: crypto_auth_hmacsha512256_init(key),
    }
}

/// Updates `state` for the secret-key authentication function, based on
/// `input`.
pub fn crypto_auth_update(state: &mut AuthState, input: &[u8]) {
    crypto_auth_hmacsha512256_update(&mut state.state, input)
}

/// Finalizes the message authentication code for `state`, and places the result
/// into `output`.
pub fn crypto_auth_final(state: AuthState, output: &mut [u8; CRYPTO_AUTH_BYTES]) {
    crypto_auth_hmacsha512256_final(state.state, output)
}

#[cfg(test)]
mod tests {
    use rand::TryRngCore;

    use super::*;

    #[test]
    fn test_crypto_auth() {
        use rand_core::OsRng;
        use sodiumoxide::crypto::auth;
        use sodiumoxide::crypto::auth::Key as SOKey;

        use crate::rng::copy_randombytes;

        for _ in 0..20 {
            let mlen = (OsRng.try_next_u32().unwrap() % 5000) as usize;
            let mut message = vec![0u8; mlen];
            copy_randombytes(&mut message);
            let key = crypto_auth_keygen();

            let so_tag =
                auth::authenticate(&message, &SOKey::from_slice(&key).expect("key failed"));

            let mut mac = Mac::new_byte_array();
            crypto_auth(&mut mac, &message, &key);

            assert_eq!(mac, so_tag.0);

            crypto_auth_verify(&mac, &message, &key).expect("verify failed");
            crypto_auth_verify(&mac, b"invalid message", &key)
                .expect_err("verify should have failed");
        }
    }
}
