//! # Authenticated public-key cryptography functions
//!
//! Implements libsodium's public-key authenticated crypto boxes.
//!
//! For details, refer to [libsodium docs](https://libsodium.gitbook.io/doc/public-key_cryptography/authenticated_encryption).
//!
//! ## Classic API example
//!
//! ```
//! use dryoc::classic::crypto_box::*;
//! use dryoc::constants::CRYPTO_BOX_MACBYTES;
//! use dryoc::types::*;
//!
//! // Create a random sender keypair
//! let (sender_pk, sender_sk) = crypto_box_keypair();
//!
//! // Create a random recipient keypair
//! let (recipient_pk, recipient_sk) = crypto_box_keypair();
//!
//! // Generate a random nonce
//! let nonce = Nonce::gen();
//!
//! let message = "hello".as_bytes();
//! // Encrypt message
//! let mut ciphertext = vec![0u8; message.len() + CRYPTO_BOX_MACBYTES];
//! crypto_box_easy(&mut ciphertext, message, &nonce, &recipient_pk, &sender_sk)
//!     .expect("encrypt failed");
//!
//! // Decrypt message
//! let mut decrypted_message = vec![0u8; ciphertext.len() - CRYPTO_BOX_MACBYTES];
//! crypto_box_open_easy(
//!     &mut decrypted_message,
//!     &ciphertext,
//!     &nonce,
//!     &sender_pk,
//!     &recipient_sk,
//! )
//! .expect("decrypt failed");
//!
//! assert_eq!(message, decrypted_message);
//! ```

use zeroize::Zeroize;

use super::crypto_generichash::{
    crypto_generichash_final, crypto_generichash_init, crypto_generichash_update,
};
use crate::classic::crypto_box_impl::*;
use crate::classic::crypto_secretbox::*;
use crate::classic::crypto_secretbox_impl::*;
use crate::constants::*;
use crate::error::Error;
use crate::types::*;

/// Crypto box message authentication code.
pub type Mac = [u8; CRYPTO_BOX_MACBYTES];

/// Nonce for crypto boxes.
pub type Nonce = [u8; CRYPTO_BOX_NONCEBYTES];
/// Public key for public key authenticated crypto boxes.
pub type PublicKey = [u8; CRYPTO_BOX_PUBLICKEYBYTES];
/// Secret key for public key authenticated crypto boxes.
pub type SecretKey = [u8; CRYPTO_BOX_SECRETKEYBYTES];

/// In-place variant of [`crypto_box_keypair`]
pub fn crypto_box_keypair_inplace(public_key: &mut PublicKey, secret_key: &mut SecretKey) {
    crypto_box_curve25519xsalsa20poly1305_keypair_inplace(public_key, secret_key)
}

/// In-place variant of [`crypto_box_seed_keypair`]
pub fn crypto_box_seed_keypair_inplace(
    public_key: &mut PublicKey,
    secret_key: &mut SecretKey,
    seed: &[u8],
) {
    crypto_box_curve25519xsalsa20poly1305_seed_keypair_inplace(public_key, secret_key, seed)
}

/// Generates a public/secret key pair using OS provided data using
/// [`rand_core::OsRng`].
pub fn crypto_box_keypair() -> (PublicKey, SecretKey) {
    crypto_box_curve25519xsalsa20poly1305_keypair()
}

/// Deterministically derives a keypair from `seed`, which can be of arbitrary
/// length.
///
/// Compatible with libsodium's `crypto_box_seed_keypair`.
pub fn crypto_box_seed_keypair(seed: &[u8]) -> (PublicKey, SecretKey) {
    crypto_box_curve25519xsalsa20poly1305_seed_keypair(seed)
}

/// Computes a shared secret for the given `public_key` and `private_key`.
/// Resulting shared secret can be used with the precalculation interface.
///
/// Compatible with libsodium's `crypto_box_beforenm`.
pub fn crypto_box_beforenm(public_key: &PublicKey, secret_key: &SecretKey) -> Key {
    crypto_box_curve25519xsalsa20poly1305_beforenm(public_key, secret_key)
}

/// Precalculation variant of
/// [`crypto_box_easy`].
///
/// Compatible with libsodium's `crypto_box_detached_afternm`.
pub fn crypto_box_detached_afternm(
    ciphertext: &mut [u8],
    mac: &mut Mac,
    message: &[u8],
    nonce: &Nonce,
    key: &Key,
) {
    crypto_secretbox_detached(ciphertext, mac, message, nonce, key)
}

/// In-place variant of [`crypto_box_detached_afternm`].
pub fn crypto_box_detached_afternm_inplace(
    ciphertext: &mut [u8],
    mac: &mut Mac,
    nonce: &Nonce,
    key: &Key,
) {
    crypto_secretbox_detached_inplace(ciphertext, mac, nonce, key)
}

/// Detached variant of [`crypto_box_easy`].
///
/// Compatible with libsodium's `crypto_box_detached`.
pub fn crypto_box_detached(
    ciphertext: &mut [u8],
    mac: &mut Mac,
    message: &[u8],
    nonce: &Nonce,
    recipient_public_key: &PublicKey,
    sender_secret_key: &SecretKey,
) {
    let mut key = crypto_box_beforenm(recipient_public_key, sender_secret_key);

    crypto_box_detached_afternm(ciphertext, mac, message, nonce, &key);

    key.zeroize();
}

/// In-place variant of [`crypto_box_detached`].
pub fn crypto_box_detached_inplace(
    message: &mut [u8],
    mac: &mut Mac,
    nonce: &Nonce,
    recipient_public_key: &PublicKey,
    sender_secret_key: &SecretKey,
) -> Result<(), Error> {
    let mut key = crypto_box_beforenm(recipient_public_key, sender_secret_key);

    crypto_box_detached_afternm_inplace(message, mac, nonce, &key);

    key.zeroize();

    Ok(())
}
/// Encrypts a message in a box.
///
/// Encrypts `message` with recipient's public key `recipient_public_key`,
/// sender's secret key `sender_secret_key`, and `nonce`. The result is placed
/// into `ciphertext` which must be the length of the message plus
/// [`CRYPTO_BOX_MACBYTES`] bytes, for the message tag.
///
/// Compatible with libsodium's `crypto_box_easy`.
pub fn crypto_box_easy(
    ciphertext: &mut [u8],
    message: &[u8],
    nonce: &Nonce,
    recipient_public_key: &PublicKey,
    sender_secret_key: &SecretKey,
) -> Result<(), Error> {
    if ciphertext.len() < CRYPTO_BOX_MACBYTES {
        Err(dryoc_error!(format!(
            "ciphertext length {} less than minimum {}",
            ciphertext.len(),
            CRYPTO_BOX_MACBYTES
        )))
    } else if message.len() > CRYPTO_BOX_MESSAGEBYTES_MAX {
        Err(dryoc_error!(format!(
            "message length {} exceeds max message length {}",
            message.len(),
            CRYPTO_BOX_MESSAGEBYTES_MAX
        )))
    } else {
        let (mac, ciphertext) = ciphertext.split_at_mut(CRYPTO_BOX_MACBYTES);
        let mac = MutByteArray::as_mut_array(mac);
        crypto_box_detached(
            ciphertext,
            mac,
            message,
            nonce,
            recipient_public_key,
            sender_secret_key,
        );

        Ok(())
    }
}

pub(crate) fn crypto_box_seal_nonce(nonce: &mut Nonce, epk: &PublicKey, rpk: &SecretKey) {
    let mut state = crypto_generichash_init(None, CRYPTO_BOX_NONCEBYTES).expect("state");
    crypto_generichash_update(&mut state, epk);
    crypto_generichash_update(&mut state, rpk);
    crypto_generichash_final(state, nonce).expect("hash error");
}

/// Encrypts and seals a message in a box.
///
/// Encrypts `message` with recipient's public key `recipient_public_key`, using
/// an ephemeral keypair and nonce. The length of `ciphertext` must be the
/// length of the message plus [`CRYPTO_BOX_SEALBYTES`] bytes for the message
/// tag and ephemeral public key.
///
/// Compatible with libsodium's `crypto_box_seal`.
pub fn crypto_box_seal(
    ciphertext: &mut [u8],
    message: &[u8],
    recipient_public_key: &PublicKey,
) -> Result<(), Error> {
    if ciphertext.len() < message.len() + CRYPTO_BOX_SEALBYTES {
        Err(dryoc_error!(format!(
            "ciphertext length invalid ({} != {}",
            ciphertext.len(),
            message.len() + CRYPTO_BOX_SEALBYTES,
        )))
    } else {
        let mut nonce = Nonce::new_byte_array();
        let (mut epk, mut esk) = crypto_box_keypair();
        crypto_box_seal_nonce(&mut nonce, &epk, recipient_public_key);

        crypto_box_easy(
            &mut ciphertext[CRYPTO_BOX_PUBLICKEYBYTES..],
            message,
            &nonce,
            recipient_public_key,
            &esk,
        )?;

        ciphertext[..CRYPTO_BOX_PUBLICKEYBYTES].copy_from_slice(&epk);

        epk.zeroize();
        esk.zeroize();
        nonce.zeroize();

        Ok(())
    }
}

/// Encrypts a message in-place in a box.
///
/// Encrypts `message` with recipient's public key `recipient_public_key` and
/// sender's secret key `sender_secret_key` using `nonce` in-place in `data`,
/// without allocated additional memory for the message.
///
/// The caller of this function is responsible for allocating `data` such that
/// there's enough capacity for the message plus the additional
/// [`CRYPTO_BOX_MACBYTES`] bytes for the authentication tag.
///
/// For this reason, the last [`CRYPTO_BOX_MACBYTES`] bytes from the input
/// is ignored. The length of `data` should be the length of your message plus
/// [`CRYPTO_BOX_MACBYTES`] bytes.
pub fn crypto_box_easy_inplace(
    data: &mut [u8],
    nonce: &Nonce,
    recipient_public_key: &PublicKey,
    sender_secret_key: &SecretKey,
) -> Result<(), Error> {
    if data.len() < CRYPTO_BOX_MACBYTES {
        Err(dryoc_error!(format!(
            "Message length {} less than {}, impossibly small",
            data.len(),
            CRYPTO_BOX_MACBYTES
        )))
    } else if data.len() > CRYPTO_BOX_MESSAGEBYTES_MAX {
        Err(dryoc_error!(format!(
            "Message length {} exceeds max message length {}",
            data.len(),
            CRYPTO_BOX_MESSAGEBYTES_MAX
        )))
    } else {
        data.rotate_right(CRYPTO_BOX_MACBYTES);

        let (mac, data) = data.split_at_mut(CRYPTO_BOX_MACBYTES);
        let mac = MutByteArray::as_mut_array(mac);

        crypto_box_detached_inplace(data, mac, nonce, recipient_public_key, sender_secret_key)?;

        Ok(())
    }
}

/// Precalculation variant of [`crypto_box_open_easy`].
///
/// Compatible with libsodium's `crypto_box_open_detached_afternm`.
pub fn crypto_box_open_detached_afternm(
    message: &mut [u8],
    mac: &Mac,
    ciphertext: &[u8],
    nonce: &Nonce,
    key: &Key,
) -> Result<(), Error> {
    crypto_secretbox_open_detached(message, mac, ciphertext, nonce, key)
}

/// In-place variant of [`crypto_box_open_detached_afternm`].
pub fn crypto_box_open_detached_afternm_inplace(
    data: &mut [u8],
    mac: &Mac,
    nonce: &Nonce,
    key: &Key,
) -> Result<(), Error> {
    crypto_secretbox_open_detached_inplace(data, mac, nonce, key)
}

/// Detached variant of [`crypto_box_open_easy`].
///
/// Compatible with libsodium's `crypto_box_open_detached`.
pub fn crypto_box_open_detached(
    message: &mut [u8],
    mac: &Mac,
    ciphertext: &[u8],
    nonce: &Nonce,
    recipient_public_key: &PublicKey,
    sender_secret_key: &SecretKey,
) -> Result<(), Error> {
    let mut key = crypto_box_beforenm(recipient_public_key, sender_secret_key);

    crypto_box_open_detached_afternm(message, mac, ciphertext, nonce, &key)?;

    key.zeroize();

    Ok(())
}

/// In-place variant of [`crypto_box_open_detached`].
pub fn crypto_box_open_detached_inplace(
    data: &mut [u8],
    mac: &Mac,
    nonce: &Nonce,
    recipient_public_key: &PublicKey,
    sender_secret_key: &SecretKey,
) -> Result<(), Error> {
    let mut key = crypto_box_beforenm(recipient_public_key, sender_secret_key);

    crypto_box_open_detached_afternm_inplace(data, mac, nonce, &key)?;

    key.zeroize();

    Ok(())
}

/// Decrypts `ciphertext` with recipient's secret key `recipient_secret_key` and
/// sender's public key `sender_public_key` using `nonce`.
///
/// Compatible with libsodium's `crypto_box_open_easy`.
pub fn crypto_box_open_easy(
    message: &mut [u8],
    ciphertext: &[u8],
    nonce: &Nonce,
    sender_public_key: &PublicKey,
    recipient_secret_key: &SecretKey,
) -> Result<(), Error> {
    if ciphertext.len() < CRYPTO_BOX_MACBYTES {
        Err(dryoc_error!(format!(
            "Impossibly small box ({} < {}",
            ciphertext.len(),
            CRYPTO_BOX_MACBYTES
        )))
    } else {
        let (mac, ciphertext) = ciphertext.split_at(CRYPTO_BOX_MACBYTES);
        let mac = ByteArray::as_array(mac);

        crypto_box_open_detached(
            message,
            mac,
            ciphertext,
            nonce,
            sender_public_key,
            recipient_secret_key,
        )
    }
}

/// Decrypts a sealed box.
///
/// Decrypts a sealed box from `ciphertext` with recipient's secret key
/// `recipient_secret_key`, placing the result into `message`. The nonce and
/// public are derived from `ciphertext`. `message` length should be equal to
/// the length of `ciphertext` minus [`CRYPTO_BOX_SEALBYTES`] bytes for the
/// message tag and ephemeral public key.
///
/// Compatible with libsodium's `crypto_box_seal_open`.
pub fn crypto_box_seal_open(
    message: &mut [u8],
    ciphertext: &[u8],
    recipient_public_key: &PublicKey,
    recipient_secret_key: &SecretKey,
) -> Result<(), Error> {
    if ciphertext.len() < CRYPTO_BOX_SEALBYTES {
        Err(dryoc_error!(format!(
            "Impossibly small box ({} < {}",
            ciphertext.len(),
            CRYPTO_BOX_SEALBYTES,
        )))
    } else if message.len() != ciphertext.len() - CRYPTO_BOX_SEALBYTES {
        Err(dryoc_error!(format!(
            "message length invalid ({} != {}",
            message.len(),
            ciphertext.len() - CRYPTO_BOX_SEALBYTES,
        )))
    } else {
        let mut nonce = Nonce::new_byte_array();
        let mut epk = PublicKey::new_byte_array();
        epk.copy_from_slice(&ciphertext[..CRYPTO_BOX_PUBLICKEYBYTES]);

        crypto_box_seal_nonce(&mut nonce, &epk, recipient_public_key);

        crypto_box_open_easy(
            message,
            &ciphertext[CRYPTO_BOX_PUBLICKEYBYTES..],
            &nonce,
            &epk,
            recipient_secret_key,
        )
    }
}

/// Decrypts a sealed box in-place.
///
/// Decrypts `ciphertext` with recipient's secret key `recipient_secret_key` and
/// sender's public key `sender_public_key` with `nonce` in-place in `data`,
/// without allocated additional memory for the message.
///
/// The caller of this function is responsible for allocating `data` such that
/// there's enough capacity for the message plus the additional
/// [`CRYPTO_BOX_MACBYTES`] bytes for the authentication tag.
///
/// After opening the box, the last [`CRYPTO_BOX_MACBYTES`] bytes can be
/// discarded or ignored at the caller's preference.
pub fn crypto_box_open_easy_inplace(
    data: &mut [u8],
    nonce: &Nonce,
    sender_public_key: &PublicKey,
    recipient_secret_key: &SecretKey,
) -> Result<(), Error> {
    if data.len() < CRYPTO_BOX_MACBYTES {
        Err(dryoc_error!(format!(
            "Impossibly small box ({} < {}",
            data.len(),
            CRYPTO_BOX_MACBYTES
        )))
    } else {
        let (mac, d) = data.split_at_mut(CRYPTO_BOX_MACBYTES);
        let mac = ByteArray::as_array(mac);

        crypto_box_open_detached_inplace(d, mac, nonce, sender_public_key, recipient_secret_key)?;

        data.rotate_left(CRYPTO_BOX_MACBYTES);

        Ok(())
    }
}

#[cfg(test)]
mod tests {
    use super::*;
    use crate::rng::*;

    #[test]
    fn test_crypto_box_easy() {
        for i in 0..20 {
            use base64::Engine as _;
            use base64::engine::general_purpose;
            use sodiumoxide::crypto::box_;
            use sodiumoxide::crypto::box_::{Nonce as SONonce, PublicKey, SecretKey};

            let (sender_pk, sender_sk) = crypto_box_keypair();
            let (recipient_pk, recipient_sk) = crypto_box_keypair();
            let nonce = Nonce::gen();
            let words = vec!["hello1".to_string(); i];
            let message = words.join(" :D ");
            let mut ciphertext = vec![0u8; message.len() + CRYPTO_BOX_MACBYTES];
            crypto_box_easy(
                &mut ciphertext,
                message.as_bytes(),
                &nonce,
                &recipient_pk,
                &sender_sk,
            )
            .expect("encrypt failed");

            let so_ciphertext = box_::seal(
                message.as_bytes(),
                &SONonce::from_slice(&nonce).unwrap(),
                &PublicKey::from_slice(&recipient_pk).unwrap(),
                &SecretKey::from_slice(&sender_sk).unwrap(),
            );

            assert_eq!(
                general_purpose::STANDARD_NO_PAD.encode(&ciphertext),
                general_purpose::STANDARD_NO_PAD.encode(&so_ciphertext)
            );

            let mut m = vec![0u8; ciphertext.len() - CRYPTO_BOX_MACBYTES];
            crypto_box_open_easy(
                &mut m,
                ciphertext.as_slice(),
                &nonce,
                &sender_pk,
                &recipient_sk,
            )
            .expect("decrypt failed");
            let so_m = box_::open(
                ciphertext.as_slice(),
                &SONonce::from_slice(&nonce).unwrap(),
                &PublicKey::from_slice(&recipient_pk).unwrap(),
                &SecretKey::from_slice(&sender_sk).unwrap(),
            )
            .unwrap();

            assert_eq!(m, message.as_bytes());
            assert_eq!(m, so_m);
        }
    }

    #[test]
    fn test_crypto_box_easy_inplace() {
        for i in 0..20 {
            use base64::Engine as _;
            use base64::engine::general_purpose;
            use sodiumoxide::crypto::box_;
            use sodiumoxide::crypto::box_::{Nonce as SONonce, PublicKey, SecretKey};

            let (sender_pk, sender_sk) = crypto_box_keypair();
            let (recipient_pk, recipient_sk) = crypto_box_keypair();
            let nonce = Nonce::gen();
            let words = vec!["hello1".to_string(); i];
            let message: Vec<u8> = words.join(" :D ").as_bytes().to_vec();
            let message_copy = message.clone();

            let mut ciphertext = message.clone();
            ciphertext.resize(message.len() + CRYPTO_BOX_MACBYTES, 0);
            crypto_box_easy_inplace(&mut ciphertext, &nonce, &recipient_pk, &sender_sk)
                .expect("encrypt failed");
            let so_ciphertext = box_::seal(
                message_copy.as_slice(),
                &SONonce::from_slice(&nonce).unwrap(),
                &PublicKey::from_slice(&recipient_pk).unwrap(),
                &SecretKey::from_slice(&sender_sk).unwrap(),
            );

            assert_eq!(
                general_purpose::STANDARD_NO_PAD.encode(&ciphertext),
                general_purpose::STANDARD_NO_PAD.encode(&so_ciphertext)
            );

            let mut ciphertext_clone = ciphertext.clone();
            crypto_box_open_easy_inplace(&mut ciphertext_clone, &nonce, &sender_pk, &recipient_sk)
                .expect("decrypt failed");
            ciphertext_clone.resize(message.len(), 0);

            let so_m = box_::open(
                ciphertext.as_slice(),
                &SONonce::from_slice(&nonce).unwrap(),
                &PublicKey::from_slice(&recipient_pk).unwrap(),
                &SecretKey::from_slice(&sender_sk).unwrap(),
            )
            .expect("decrypt failed");

            assert_eq!(
                general_purpose::STANDARD_NO_PAD.encode(&ciphertext_clone),
                general_purpose::STANDARD_NO_PAD.encode(&message_copy)
            );
            assert_eq!(
                general_purpose::STANDARD_NO_PAD.encode(&so_m),
                general_purpose::STANDARD_NO_PAD.encode(&message_copy)
            );
        }
    }

    #[test]
    fn test_crypto_box_easy_invalid() {
        for _ in 0..20 {
            let (sender_pk, _sender_sk) = crypto_box_keypair();
            let (_recipient_pk, recipient_sk) = crypto_box_keypair();
            let nonce = Nonce::gen();

            let mut ciphertext: Vec<u8> = vec![];
            let message: Vec<u8> = vec![];

            crypto_box_open_easy(&mut ciphertext, &message, &nonce, &sender_pk, &recipient_sk)
                .expect_err("expected an error");
        }
    }
    #[test]
    fn test_crypto_box_easy_inplace_invalid() {
        for _ in 0..20 {
            use base64::Engine as _;
            use base64::engine::general_purpose;

            let (sender_pk, _sender_sk) = crypto_box_keypair();
            let (_recipient_pk, recipient_sk) = crypto_box_keypair();
            let nonce = Nonce::gen();

            let mut ciphertext: Vec<u8> = vec![];

            crypto_box_open_easy_inplace(&mut ciphertext, &nonce, &sender_pk, &recipient_sk)
                .expect_err("expected an error");

            ciphertext.resize(1024, 0);
            copy_randombytes(ciphertext.as_mut_slice());
            let ciphertext_copy = ciphertext.clone();

            crypto_box_open_easy_inplace(&mut ciphertext, &nonce, &sender_pk, &recipient_sk)
                .expect_err("expected an error");

            assert_eq!(ciphertext.len(), ciphertext_copy.len());
            assert_eq!(
                general_purpose::STANDARD_NO_PAD.encode(&ciphertext[0..CRYPTO_BOX_MACBYTES]),
                general_purpose::STANDARD_NO_PAD.encode(&ciphertext_copy[0..CRYPTO_BOX_MACBYTES])
            );
        }
    }

    #[test]
    fn test_crypto_box_seed_keypair() {
        use base64::Engine as _;
        use base64::engine::general_purpose;
        use sodiumoxide::crypto::box_::{Seed, keypair_from_seed};

        for _ in 0..10 {
            let seed = randombytes_buf(CRYPTO_BOX_SEEDBYTES);

            let (pk, sk) = crypto_box_seed_keypair(&seed);
            let (so_pk, so_sk) = keypair_from_seed(&Seed::from_slice(&seed).unwrap());

            assert_eq!(
                general_purpose::STANDARD_NO_PAD.encode(pk),
                general_purpose::STANDARD_NO_PAD.encode(so_pk.as_ref())
            );
            assert_eq!(
                general_purpose::STANDARD_NO_PAD.encode(sk),
                general_purpose::STANDARD_NO_PAD.encode(so_sk.as_ref())
            );
        }
    }

    #[test]
    fn test_crypto_box_seal() {
        for i in 0..20 {
            use sodiumoxide::crypto::box_::{PublicKey, SecretKey};
            use sodiumoxide::crypto::sealedbox::curve25519blake2bxsalsa20poly1305;

            let (recipient_pk, recipient_sk) = crypto_box_keypair();
            let words = vec!["hello1".to_string(); i];
            let message = words.join(" :D ");
            let mut ciphertext = vec![0u8; message.len() + CRYPTO_BOX_SEALBYTES];
            crypto_box_seal(&mut ciphertext, message.as_bytes(), &recipient_pk)
                .expect("encrypt failed");

            let mut m = vec![0u8; ciphertext.len() - CRYPTO_BOX_SEALBYTES];
            crypto_box_seal_open(&mut m, ciphertext.as_slice(), &recipient_pk, &recipient_sk)
                .expect("decrypt failed");
            let so_m = curve25519blake2bxsalsa20poly1305::open(
                ciphertext.as_slice(),
                &PublicKey::from_slice(&recipient_pk).unwrap(),
                &SecretKey::from_slice(&recipient_sk).unwrap(),
            )
            .unwrap();

            assert_eq!(m, message.as_bytes());
            assert_eq!(m, so_m);
        }
    }

    #[test]
    fn test_crypto_box_seal_open() {
        for i in 0..20 {
            use sodiumoxide::crypto::box_::{PublicKey, SecretKey};
            use sodiumoxide::crypto::sealedbox::curve25519blake2bxsalsa20poly1305;

            let (recipient_pk, recipient_sk) = crypto_box_keypair();
            let words = vec!["hello1".to_string(); i];
            let message = words.join(" :D ");
            let so_ciphertext = curve25519blake2bxsalsa20poly1305::seal(
                message.as_bytes(),
                &PublicKey::from_slice(&recipient_pk).unwrap(),
            );

            let mut m = vec![0u8; so_ciphertext.len() - CRYPTO_BOX_SEALBYTES];
            crypto_box_seal_open(
                &mut m,
                so_ciphertext.as_slice(),
                &recipient_pk,
                &recipient_sk,
            )
            .expect("decrypt failed");
            let so_m = curve25519blake2bxsalsa20poly1305::open(
                so_ciphertext.as_slice(),
                &PublicKey::from_slice(&recipient_pk).unwrap(),
                &SecretKey::from_slice(&recipient_sk).unwrap(),
            )
            .unwrap();

            assert_eq!(m, message.as_bytes());
            assert_eq!(m, so_m);
        }
    }
}
