use zeroize::Zeroize;

use super::crypto_core::crypto_scalarmult;
use crate::classic::crypto_box::{PublicKey, SecretKey};
use crate::classic::crypto_core::crypto_core_hsalsa20;
use crate::classic::crypto_hash::crypto_hash_sha512;
use crate::classic::crypto_secretbox::Key;
use crate::constants::{
    CRYPTO_BOX_SEEDBYTES, CRYPTO_CORE_HSALSA20_INPUTBYTES, CRYPTO_CORE_HSALSA20_OUTPUTBYTES,
    CRYPTO_HASH_SHA512_BYTES, CRYPTO_SCALARMULT_BYTES,
};
use crate::dryocstream::ByteArray;
use crate::rng::copy_randombytes;
use crate::scalarmult_curve25519::*;

pub(crate) fn crypto_box_curve25519xsalsa20poly1305_beforenm(
    public_key: &PublicKey,
    secret_key: &SecretKey,
) -> Key {
    let mut s = [0u8; CRYPTO_SCALARMULT_BYTES];
    crypto_scalarmult(&mut s, secret_key.as_array(), public_key.as_array());

    let mut hash = [0u8; CRYPTO_CORE_HSALSA20_OUTPUTBYTES];
    crypto_core_hsalsa20(&mut hash, &[0u8; CRYPTO_CORE_HSALSA20_INPUTBYTES], &s, None);

    hash
}

#[inline]
pub(crate) fn crypto_box_curve25519xsalsa20poly1305_keypair_inplace(
    public_key: &mut PublicKey,
    secret_key: &mut SecretKey,
) {
    copy_randombytes(secret_key);
    crypto_scalarmult_curve25519_base(public_key, secret_key);
}

#[inline]
pub(crate) fn crypto_box_curve25519xsalsa20poly1305_seed_keypair_inplace(
    public_key: &mut PublicKey,
    secret_key: &mut SecretKey,
    seed: &[u8],
) {
    let mut hash = [0u8; CRYPTO_HASH_SHA512_BYTES];
    crypto_hash_sha512(&mut hash, seed);

    secret_key.copy_from_slice(&hash[0..CRYPTO_BOX_SEEDBYTES]);

    hash.zeroize();

    crypto_scalarmult_curve25519_base(public_key, secret_key);
}
pub(crate) fn crypto_box_curve25519xsalsa20poly1305_keypair() -> (PublicKey, SecretKey) {
    let mut secret_key = SecretKey::default();
    let mut public_key = PublicKey::default();

    crypto_box_curve25519xsalsa20poly1305_keypair_inplace(&mut public_key, &mut secret_key);

    (public_key, secret_key)
}

pub(crate) fn crypto_box_curve25519xsalsa20poly1305_seed_keypair(
    seed: &[u8],
) -> (PublicKey, SecretKey) {
    let mut secret_key = [0u8; CRYPTO_BOX_SEEDBYTES];
    let mut public_key = [0u8; CRYPTO_BOX_SEEDBYTES];

    crypto_box_curve25519xsalsa20poly1305_seed_keypair_inplace(
        &mut public_key,
        &mut secret_key,
        seed,
    );

    (public_key, secret_key)
}
