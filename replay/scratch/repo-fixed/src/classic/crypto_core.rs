use crate::constants::{
    CRYPTO_CORE_HCHACHA20_INPUTBYTES, CRYPTO_CORE_HCHACHA20_KEYBYTES,
    CRYPTO_CORE_HCHACHA20_OUTPUTBYTES, CRYPTO_CORE_HSALSA20_INPUTBYTES,
    CRYPTO_CORE_HSALSA20_KEYBYTES, CRYPTO_CORE_HSALSA20_OUTPUTBYTES, CRYPTO_SCALARMULT_BYTES,
    CRYPTO_SCALARMULT_SCALARBYTES,
};
use crate::scalarmult_curve25519::{
    crypto_scalarmult_curve25519, crypto_scalarmult_curve25519_base,
};
use crate::types::*;
use crate::utils::load_u32_le;

/// Stack-allocated HChaCha20 input.
pub type HChaCha20Input = [u8; CRYPTO_CORE_HCHACHA20_INPUTBYTES];
/// Stack-allocated HChaCha20 key.
pub type HChaCha20Key = [u8; CRYPTO_CORE_HCHACHA20_KEYBYTES];
/// Stack-allocated HChaCha20 output.
pub type HChaCha20Output = [u8; CRYPTO_CORE_HCHACHA20_OUTPUTBYTES];
/// Stack-allocated HSalsa20 input.
pub type HSalsa20Input = [u8; CRYPTO_CORE_HSALSA20_INPUTBYTES];
/// Stack-allocated HSalsa20 key.
pub type HSalsa20Key = [u8; CRYPTO_CORE_HSALSA20_KEYBYTES];
/// Stack-allocated HSalsa20 output.
pub type HSalsa20Output = [u8; CRYPTO_CORE_HSALSA20_OUTPUTBYTES];

/// Computes the public key for a previously generated secret key.
///
/// Compatible with libsodium's `crypto_scalarmult_base`.
pub fn crypto_scalarmult_base(
    q: &mut [u8; CRYPTO_SCALARMULT_BYTES],
    n: &[u8; CRYPTO_SCALARMULT_SCALARBYTES],
) {
    crypto_scalarmult_curve25519_base(q, n)
}

/// Computes a shared secret `q`, given `n`, our secret key, and `p`, their
/// public key, using a Diffie-Hellman key exchange.
///
/// Compatible with libsodium's `crypto_scalarmult`.
pub fn crypto_scalarmult(
    q: &mut [u8; CRYPTO_SCALARMULT_BYTES],
    n: &[u8; CRYPTO_SCALARMULT_SCALARBYTES],
    p: &[u8; CRYPTO_SCALARMULT_BYTES],
) {
    crypto_scalarmult_curve25519(q, n, p)
}

#[inline]
fn chacha20_round(x: &mut u32, y: &u32, z: &mut u32, rot: u32) {
    *x = x.wrapping_add(*y);
    *z = (*z ^ *x).rotate_left(rot);
}

#[inline]
fn chacha20_quarterround(a: &mut u32, b: &mut u32, c: &mut u32, d: &mut u32) {
    chacha20_round(a, b, d, 16);
    chacha20_round(c, d, b, 12);
    chacha20_round(a, b, d, 8);
    chacha20_round(c, d, b, 7);
}

/// Implements the HChaCha20 function.
///
/// Compatible with libsodium's `crypto_core_hchacha20`.
pub fn crypto_core_hchacha20(
    output: &mut HChaCha20Output,
    input: &HChaCha20Input,
    key: &HChaCha20Key,
    constants: Option<(u32, u32, u32, u32)>,
) {
    let input = input.as_array();
    let key = key.as_array();
    assert_eq!(input.len(), 16);
    assert_eq!(key.len(), 32);
    let (mut x0, mut x1, mut x2, mut x3) =
        constants.unwrap_or((0x61707865, 0x3320646e, 0x79622d32, 0x6b206574));
    let (
        mut x4,
        mut x5,
        mut x6,
        mut x7,
        mut x8,
        mut x9,
        mut x10,
        mut x11,
        mut x12,
        mut x13,
        mut x14,
        mut x15,
    ) = (
        load_u32_le(&key[0..4]),
        load_u32_le(&key[4..8]),
        load_u32_le(&key[8..12]),
        load_u32_le(&key[12..16]),
        load_u32_le(&key[16..20]),
        load_u32_le(&key[20..24]),
        load_u32_le(&key[24..28]),
        load_u32_le(&key[28..32]),
        load_u32_le(&input[0..4]),
        load_u32_le(&input[4..8]),
        load_u32_le(&input[8..12]),
        load_u32_le(&input[12..16]),
    );

    for _ in 0..10 {
        chacha20_quarterround(&mut x0, &mut x4, &mut x8, &mut x12);
        chacha20_quarterround(&mut x1, &mut x5, &mut x9, &mut x13);
        chacha20_quarterround(&mut x2, &mut x6, &mut x10, &mut x14);
        chacha20_quarterround(&mut x3, &mut x7, &mut x11, &mut x15);
        chacha20_quarterround(&mut x0, &mut x5, &mut x10, &mut x15);
        chacha20_quarterround(&mut x1, &mut x6, &mut x11, &mut x12);
        chacha20_quarterround(&mut x2, &mut x7, &mut x8, &mut x13);
        chacha20_quarterround(&mut x3, &mut x4, &mut x9, &mut x14);
    }

    output[0..4].copy_from_slice(&x0.to_le_bytes());
    output[4..8].copy_from_slice(&x1.to_le_bytes());
    output[8..12].copy_from_slice(&x2.to_le_bytes());
    output[12..16].copy_from_slice(&x3.to_le_bytes());
    output[16..20].copy_from_slice(&x12.to_le_bytes());
    output[20..24].copy_from_slice(&x13.to_le_bytes());
    output[24..28].copy_from_slice(&x14.to_le_bytes());
    output[28..32].copy_from_slice(&x15.to_le_bytes());
}

#[inline]
fn salsa20_rotl32(x: u32, y: u32, rot: u32) -> u32 {
    x.wrapping_add(y).rotate_left(rot)
}

/// Implements the HSalsa20 function.
///
/// Compatible with libsodium's `crypto_core_hsalsa20`.
pub fn crypto_core_hsalsa20(
    output: &mut HSalsa20Output,
    input: &HSalsa20Input,
    key: &HSalsa20Key,
    constants: Option<(u32, u32, u32, u32)>,
) {
    let (mut x0, mut x5, mut x10, mut x15) =
        constants.unwrap_or((0x61707865, 0x3320646e, 0x79622d32, 0x6b206574));
    let (
        mut x1,
        mut x2,
        mut x3,
        mut x4,
        mut x11,
        mut x12,
        mut x13,
        mut x14,
        mut x6,
        mut x7,
        mut x8,
        mut x9,
    ) = (
        load_u32_le(&key[0..4]),
        load_u32_le(&key[4..8]),
        load_u32_le(&key[8..12]),
        load_u32_le(&key[12..16]),
        load_u32_le(&key[16..20]),
        load_u32_le(&key[20..24]),
        load_u32_le(&key[24..28]),
        load_u32_le(&key[28..32]),
        load_u32_le(&input[0..4]),
        load_u32_le(&input[4..8]),
        load_u32_le(&input[8..12]),
        load_u32_le(&input[12..16]),
    );

    for _ in (0..20).step_by(2) {
        x4 ^= salsa20_rotl32(x0, x12, 7);
        x8 ^= salsa20_rotl32(x4, x0, 9);
        x12 ^= salsa20_rotl32(x8, x4, 13);
        x0 ^= salsa20_rotl32(x12, x8, 18);
        x9 ^= salsa20_rotl32(x5, x1, 7);
        x13 ^= salsa20_rotl32(x9, x5, 9);
        x1 ^= salsa20_rotl32(x13, x9, 13);
        x5 ^= salsa20_rotl32(x1, x13, 18);
        x14 ^= salsa20_rotl32(x10, x6, 7);
        x2 ^= salsa20_rotl32(x14, x10, 9);
        x6 ^= salsa20_rotl32(x2, x14, 13);
        x10 ^= salsa20_rotl32(x6, x2, 18);
        x3 ^= salsa20_rotl32(x15, x11, 7);
        x7 ^= salsa20_rotl32(x3, x15, 9);
        x11 ^= salsa20_rotl32(x7, x3, 13);
        x15 ^= salsa20_rotl32(x11, x7, 18);
        x1 ^= salsa20_rotl32(x0, x3, 7);
        x2 ^= salsa20_rotl32(x1, x0, 9);
        x3 ^= salsa20_rotl32(x2, x1, 13);
        x0 ^= salsa20_rotl32(x3, x2, 18);
        x6 ^= salsa20_rotl32(x5, x4, 7);
        x7 ^= salsa20_rotl32(x6, x5, 9);
        x4 ^= salsa20_rotl32(x7, x6, 13);
        x5 ^= salsa20_rotl32(x4, x7, 18);
        x11 ^= salsa20_rotl32(x10, x9, 7);
        x8 ^= salsa20_rotl32(x11, x10, 9);
        x9 ^= salsa20_rotl32(x8, x11, 13);
        x10 ^= salsa20_rotl32(x9, x8, 18);
        x12 ^= salsa20_rotl32(x15, x14, 7);
        x13 ^= salsa20_rotl32(x12, x15, 9);
        x14 ^= salsa20_rotl32(x13, x12, 13);
        x15 ^= salsa20_rotl32(x14, x13, 18);
    }

    output[0..4].copy_from_slice(&x0.to_le_bytes());
    output[4..8].copy_from_slice(&x5.to_le_bytes());
    output[8..12].copy_from_slice(&x10.to_le_bytes());
    output[12..16].copy_from_slice(&x15.to_le_bytes());
    output[16..20].copy_from_slice(&x6.to_le_bytes());
    output[20..24].copy_from_slice(&x7.to_le_bytes());
    output[24..28].copy_from_slice(&x8.to_le_bytes());
    output[28..32].copy_from_slice(&x9.to_le_bytes());
}

#[cfg(test)]
mod tests {
    use super::*;
    use crate::classic::crypto_box::*;

    #[test]
    fn test_crypto_scalarmult_base() {
        use base64::Engine as _;
        use base64::engine::general_purpose;
        for _ in 0..20 {
            use sodiumoxide::crypto::scalarmult::curve25519::{Scalar, scalarmult_base};

            let (pk, sk) = crypto_box_keypair();

            let mut public_key = [0u8; CRYPTO_SCALARMULT_BYTES];
            crypto_scalarmult_base(&mut public_key, &sk);

            assert_eq!(&pk, &public_key);

            let ge = scalarmult_base(&Scalar::from_slice(&sk).unwrap());

            assert_eq!(
                general_purpose::STANDARD.encode(ge.as_ref()),
                general_purpose::STANDARD.encode(public_key)
            );
        }
    }

    #[test]
    fn test_crypto_scalarmult() {
        use base64::Engine as _;
        use base64::engine::general_purpose;
        for _ in 0..20 {
            use sodiumoxide::crypto::scalarmult::curve25519::{GroupElement, Scalar, scalarmult};

            let (_our_pk, our_sk) = crypto_box_keypair();
            let (their_pk, _their_sk) = crypto_box_keypair();

            let mut shared_secret = [0u8; CRYPTO_SCALARMULT_BYTES];
            crypto_scalarmult(&mut shared_secret, &our_sk, &their_pk);

            let ge = scalarmult(
                &Scalar::from_slice(&our_sk).unwrap(),
                &GroupElement::from_slice(&their_pk).unwrap(),
            )
            .expect("scalarmult failed");

            assert_eq!(
                general_purpose::STANDARD.encode(ge.as_ref()),
                general_purpose::STANDARD.encode(shared_secret)
            );
        }
    }

    #[test]
    fn test_crypto_core_hchacha20() {
        use base64::Engine as _;
        use base64::engine::general_purpose;
        use libsodium_sys::crypto_core_hchacha20 as so_crypto_core_hchacha20;

        use crate::rng::copy_randombytes;

        for _ in 0..10 {
            let mut key = [0u8; 32];
            let mut data = [0u8; 16];
            copy_randombytes(&mut key);
            copy_randombytes(&mut data);

            let mut out = [0u8; CRYPTO_CORE_HCHACHA20_OUTPUTBYTES];
            crypto_core_hchacha20(&mut out, &data, &key, None);

            let mut so_out = [0u8; 32];
            unsafe {
                let ret = so_crypto_core_hchacha20(
                    so_out.as_mut_ptr(),
                    data.as_ptr(),
                    key.as_ptr(),
                    std::ptr::null(),
                );
                assert_eq!(ret, 0);
            }
            assert_eq!(
                general_purpose::STANDARD.encode(out),
                general_purpose::STANDARD.encode(so_out)
            );
        }
    }

    #[test]
    fn test_crypto_core_hsalsa20() {
        use base64::Engine as _;
        use base64::engine::general_purpose;
        use libsodium_sys::crypto_core_hsalsa20 as so_crypto_core_hsalsa20;

        use crate::rng::copy_randombytes;

        for _ in 0..10 {
            let mut key = [0u8; CRYPTO_CORE_HSALSA20_KEYBYTES];
            let mut data = [0u8; CRYPTO_CORE_HSALSA20_INPUTBYTES];
            copy_randombytes(&mut key);
            copy_randombytes(&mut data);

            let mut out = [0u8; CRYPTO_CORE_HSALSA20_OUTPUTBYTES];
            crypto_core_hsalsa20(&mut out, &data, &key, None);

            let mut so_out = [0u8; 32];
            unsafe {
                let ret = so_crypto_core_hsalsa20(
                    so_out.as_mut_ptr(),
                    data.as_ptr(),
                    key.as_ptr(),
                    std::ptr::null(),
                );
                assert_eq!(ret, 0);
            }
            assert_eq!(
                general_purpose::STANDARD.encode(out),
                general_purpose::STANDARD.encode(so_out)
            );
        }
    }
}
