//! # Generic hashing
//!
//! Implements libsodium's generic hashing functions, based on blake2b. Can also
//! be used as an HMAC function, if a key is provided.
//!
//! For details, refer to [libsodium docs](https://libsodium.gitbook.io/doc/hashing/generic_hashing).
//!
//! # Classic API example, one-time interface
//!
//! ```
//! use base64::Engine as _;
//! use base64::engine::general_purpose;
//! use dryoc::classic::crypto_generichash::*;
//! use dryoc::constants::CRYPTO_GENERICHASH_BYTES;
//!
//! // Use the default hash length
//! let mut output = [0u8; CRYPTO_GENERICHASH_BYTES];
//! // Compute the hash using the one-time interface
//! crypto_generichash(&mut output, b"a string of bytes", None).ok();
//!
//! assert_eq!(
//!     general_purpose::STANDARD.encode(output),
//!     "GdztjR9nU/rLh8VJt8e74+/seKTUnHgBexhGSpxLau0="
//! );
//! ```
//!
//! # Classic API example, incremental interface
//!
//! ```
//! use base64::Engine as _;
//! use base64::engine::general_purpose;
//! use dryoc::classic::crypto_generichash::*;
//! use dryoc::constants::CRYPTO_GENERICHASH_BYTES;
//!
//! // Use the default hash length
//! let mut output = [0u8; CRYPTO_GENERICHASH_BYTES];
//! // Initialize the state for the incremental interface
//! let mut state = crypto_generichash_init(None, CRYPTO_GENERICHASH_BYTES).expect("state");
//! // Update the hash
//! crypto_generichash_update(&mut state, b"a string of bytes");
//! // Finalize, compute the hash and copy it into `output`
//! crypto_generichash_final(state, &mut output).expect("final failed");
//!
//! assert_eq!(
//!     general_purpose::STANDARD.encode(output),
//!     "GdztjR9nU/rLh8VJt8e74+/seKTUnHgBexhGSpxLau0="
//! );
//! ```
use super::generichash_blake2b::*;
use crate::blake2b;
use crate::constants::CRYPTO_GENERICHASH_KEYBYTES;
use crate::error::Error;

/**
Computes a hash from `input` and `key`, copying the result into `output`.

| Parameter | Typical length | Minimum length | Maximum length |
|-|-|-|-|
| `output` | [`CRYPTO_GENERICHASH_BYTES`](crate::constants::CRYPTO_GENERICHASH_BYTES) | [`CRYPTO_GENERICHASH_BYTES_MIN`](crate::constants::CRYPTO_GENERICHASH_BYTES_MIN) | [ `CRYPTO_GENERICHASH_BYTES_MAX`](crate::constants::CRYPTO_GENERICHASH_BYTES_MAX) |
| `key` | [`CRYPTO_GENERICHASH_KEYBYTES`] | [`CRYPTO_GENERICHASH_KEYBYTES_MIN`](crate::constants::CRYPTO_GENERICHASH_KEYBYTES_MIN) | [ `CRYPTO_GENERICHASH_KEYBYTES_MAX`](crate::constants::CRYPTO_GENERICHASH_KEYBYTES_MAX) |

Compatible with libsodium's `crypto_generichash_final`
*/
#[inline]
pub fn crypto_generichash(
    output: &mut [u8],
    input: &[u8],
    key: Option<&[u8]>,
) -> Result<(), Error> {
    crypto_generichash_blake2b(output, input, key)
}

/// State struct for the generic hash algorithm, based on BLAKE2B.
pub struct GenericHashState {
    state: blake2b::State,
}

/**
Initializes the state for the generic hash function using `outlen` for the expected hash output length, and optional `key`, returning it upon success.

| Parameter | Typical length | Minimum length | Maximum length |
|-|-|-|-|
| `outlen` | [`CRYPTO_GENERICHASH_BYTES`](crate::constants::CRYPTO_GENERICHASH_BYTES) | [`CRYPTO_GENERICHASH_BYTES_MIN`](crate::constants::CRYPTO_GENERICHASH_BYTES_MIN) | [`CRYPTO_GENERICHASH_BYTES_MAX`](crate::constants::CRYPTO_GENERICHASH_BYTES_MAX) |
| `key` | [`CRYPTO_GENERICHASH_KEYBYTES`] | [`CRYPTO_GENERICHASH_KEYBYTES_MIN`](crate::constants::CRYPTO_GENERICHASH_KEYBYTES_MIN) | [ `CRYPTO_GENERICHASH_KEYBYTES_MAX`](crate::constants::CRYPTO_GENERICHASH_KEYBYTES_MAX) |

Equivalent to libsodium's `crypto_generichash_final`
*/
#[inline]
pub fn crypto_generichash_init(
    key: Option<&[u8]>,
    outlen: usize,
) -> Result<GenericHashState, Error> {
    let state = crypto_generichash_blake2b_init(key, outlen, None, None)?;
    Ok(GenericHashState { state })
}

/// Updates the internal hash state with `input`.
///
/// Equivalent to libsodium's `crypto_generichash_final`
#[inline]
pub fn crypto_generichash_update(state: &mut GenericHashState, input: &[u8]) {
    crypto_generichash_blake2b_update(&mut state.state, input)
}

/// Finalizes the hash computation, copying the result into `output`. The length
/// of `output` should match `outlen` from the call to
/// [`crypto_generichash_init`].
///
/// Equivalent to libsodium's `crypto_generichash_final`
#[inline]
pub fn crypto_generichash_final(state: GenericHashState, output: &mut [u8]) -> Result<(), Error> {
    crypto_generichash_blake2b_final(state.state, output)
}

/// Generates a random hash key using the OS's random number source.
///
/// Equivalent to libsodium's `crypto_generichash_keygen`
pub fn crypto_generichash_keygen() -> [u8; CRYPTO_GENERICHASH_KEYBYTES] {
    let mut key = [0u8; CRYPTO_GENERICHASH_KEYBYTES];
    crate::rng::copy_randombytes(&mut key);
    key
}

#[cfg(test)]
mod tests {
    use rand::TryRngCore;

    use super::*;

    #[test]
    fn test_generichash() {
        use libsodium_sys::crypto_generichash as so_crypto_generichash;
        use rand_core::OsRng;

        use crate::constants::{CRYPTO_GENERICHASH_BYTES_MAX, CRYPTO_GENERICHASH_BYTES_MIN};
        use crate::rng::copy_randombytes;

        for _ in 0..20 {
            let outlen = CRYPTO_GENERICHASH_BYTES_MIN
                + (OsRng.try_next_u32().unwrap() as usize
                    % (CRYPTO_GENERICHASH_BYTES_MAX - CRYPTO_GENERICHASH_BYTES_MIN));
            let mut output = vec![0u8; outlen];

            let mut input = vec![0u8; (OsRng.try_next_u32().unwrap() % 5000) as usize];

            copy_randombytes(&mut input);

            let mut so_output = output.clone();

            crypto_generichash(&mut output, &input, None).ok();

            unsafe {
                so_crypto_generichash(
                    so_output.as_mut_ptr(),
                    so_output.len(),
                    input.as_ptr(),
                    input.len() as u64,
                    std::ptr::null(),
                    0,
                );
            }

            assert_eq!(output, so_output);
        }
    }

    #[test]
    fn test_generichash_key() {
        use libsodium_sys::crypto_generichash as so_crypto_generichash;
        use rand_core::OsRng;

        use crate::constants::{
            CRYPTO_GENERICHASH_BYTES_MAX, CRYPTO_GENERICHASH_BYTES_MIN,
            CRYPTO_GENERICHASH_KEYBYTES_MAX, CRYPTO_GENERICHASH_KEYBYTES_MIN,
        };
        use crate::rng::copy_randombytes;

        for _ in 0..20 {
            let outlen = CRYPTO_GENERICHASH_BYTES_MIN
                + (OsRng.try_next_u32().unwrap() as usize
                    % (CRYPTO_GENERICHASH_BYTES_MAX - CRYPTO_GENERICHASH_BYTES_MIN));
            let mut output = vec![0u8; outlen];

            let mut input = vec![0u8; (OsRng.try_next_u32().unwrap() % 5000) as usize];

            let keylen = CRYPTO_GENERICHASH_KEYBYTES_MIN
                + (OsRng.try_next_u32().unwrap() as usize
                    % (CRYPTO_GENERICHASH_KEYBYTES_MAX - CRYPTO_GENERICHASH_KEYBYTES_MIN));
            let mut key = vec![0u8; keylen];

            copy_randombytes(&mut input);
            copy_randombytes(&mut key);

            let mut so_output = output.clone();

            crypto_generichash(&mut output, &input, Some(&key)).ok();

            unsafe {
                so_crypto_generichash(
                    so_output.as_mut_ptr(),
                    so_output.len(),
                    input.as_ptr(),
                    input.len() as u64,
                    key.as_ptr(),
                    key.len(),
                );
            }

            assert_eq!(output, so_output);
        }
    }
}
