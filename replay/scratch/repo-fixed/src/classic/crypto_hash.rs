use crate::constants::CRYPTO_HASH_SHA512_BYTES;
use crate::sha512::*;

/// Type alias for SHA512 digest output.
pub type Digest = [u8; CRYPTO_HASH_SHA512_BYTES];

/// Computes a SHA-512 hash from `input`.
pub fn crypto_hash_sha512(output: &mut Digest, input: &[u8]) {
    let mut state = crypto_hash_sha512_init();
    crypto_hash_sha512_update(&mut state, input);
    crypto_hash_sha512_final(state, output);
}

/// Internal state for `crypto_hash_*` functions.
#[derive(Default)]
pub struct Sha512State {
    pub(super) hasher: Sha512,
}

/// Initializes a SHA-512 hasher.
pub fn crypto_hash_sha512_init() -> Sha512State {
    Sha512State::default()
}

/// Updates `state` of SHA-512 hasher with `input`.
pub fn crypto_hash_sha512_update(state: &mut Sha512State, input: &[u8]) {
    state.hasher.update(input);
}

/// Finalizes `state` of SHA-512, and writes the digest to `output` consuming
/// `state`.
pub fn crypto_hash_sha512_final(state: Sha512State, output: &mut Digest) {
    state.hasher.finalize_into_bytes(output)
}

#[cfg(test)]
mod tests {
    use super::*;

    #[test]
    fn test_crypto_hash_sha512() {
        use sodiumoxide::crypto::hash;

        use crate::rng::randombytes_buf;

        let r = randombytes_buf(64);

        let their_digest = hash::hash(&r);
        let mut our_digest = [0u8; CRYPTO_HASH_SHA512_BYTES];
        crypto_hash_sha512(&mut our_digest, &r);

        assert_eq!(their_digest.as_ref(), our_digest);
    }

    #[test]
    fn test_crypto_hash_sha512_update() {
        use sodiumoxide::crypto::hash;

        use crate::rng::randombytes_buf;

        let mut their_state = hash::State::new();
        let mut our_state = crypto_hash_sha512_init();

        for _ in 0..10 {
            let r = randombytes_buf(64);
            their_state.update(&r);
            crypto_hash_sha512_update(&mut our_state, &r);
        }

        let their_digest = their_state.finalize();
        let mut our_digest = [0u8; CRYPTO_HASH_SHA512_BYTES];
        crypto_hash_sha512_final(our_state, &mut our_digest);

        assert_eq!(their_digest.as_ref(), our_digest);
    }
}
