//! # Key derivation function
//!
//! Implements libsodium's key derivation functions (`crypto_kdf_*`).
//!
//! For details, refer to [libsodium docs](https://doc.libsodium.org/key_derivation).
//!
//! # Classic API example
//!
//! ```
//! use base64::Engine as _;
//! use base64::engine::general_purpose;
//! use dryoc::classic::crypto_kdf::*;
//!
//! // Generate a random main key
//! let main_key = crypto_kdf_keygen();
//! // Provide 8 bytes of context data, can be any data
//! let context = b"hello123";
//!
//! // Derive 20 subkeys
//! for i in 0..20 {
//!     let mut key = Key::default();
//!     crypto_kdf_derive_from_key(&mut key, i, context, &main_key).expect("kdf failed");
//!     println!("Subkey {}: {}", i, general_purpose::STANDARD.encode(&key));
//! }
//! ```

use crate::blake2b;
use crate::constants::{
    CRYPTO_GENERICHASH_BLAKE2B_PERSONALBYTES, CRYPTO_GENERICHASH_BLAKE2B_SALTBYTES,
    CRYPTO_KDF_BLAKE2B_BYTES_MAX, CRYPTO_KDF_BLAKE2B_BYTES_MIN, CRYPTO_KDF_CONTEXTBYTES,
    CRYPTO_KDF_KEYBYTES,
};
use crate::error::Error;

/// Key type for the main key used for deriving subkeys.
pub type Key = [u8; CRYPTO_KDF_KEYBYTES];
/// Context for key derivation.
pub type Context = [u8; CRYPTO_KDF_CONTEXTBYTES];

/// Generates a random key, suitable for use as a main key with
/// [`crypto_kdf_derive_from_key`].
pub fn crypto_kdf_keygen() -> Key {
    use crate::rng::copy_randombytes;
    let mut key = Key::default();
    copy_randombytes(&mut key);
    key
}

/// Derives `subkey` from `main_key`, using `context` and `subkey_id` such that
/// `subkey` will always be the same for the given set of inputs, but `main_key`
/// cannot be derived from `subkey`.
pub fn crypto_kdf_derive_from_key(
    subkey: &mut [u8],
    subkey_id: u64,
    context: &Context,
    main_key: &Key,
) -> Result<(), Error> {
    if subkey.len() < CRYPTO_KDF_BLAKE2B_BYTES_MIN || subkey.len() > CRYPTO_KDF_BLAKE2B_BYTES_MAX {
        Err(dryoc_error!(format!(
            "invalid subkey length {}, should be at least {} and no more than {}",
            subkey.len(),
            CRYPTO_KDF_BLAKE2B_BYTES_MIN,
            CRYPTO_KDF_BLAKE2B_BYTES_MAX
        )))
    } else {
        let mut ctx_padded = [0u8; CRYPTO_GENERICHASH_BLAKE2B_PERSONALBYTES];
        let mut salt = [0u8; CRYPTO_GENERICHASH_BLAKE2B_SALTBYTES];

        ctx_padded[..CRYPTO_KDF_CONTEXTBYTES].copy_from_slice(context);
        salt[..8].copy_from_slice(&subkey_id.to_le_bytes());

        let state = blake2b::State::init(
            subkey.len() as u8,
            Some(main_key),
            Some(&salt),
            Some(&ctx_padded),
        )?;
        state.finalize(subkey)
    }
}

#[cfg(test)]
mod tests {
    use super::*;

    #[test]
    fn test_derive_key() {
        use sodiumoxide::crypto::{kdf, secretbox};
        let main_key = crypto_kdf_keygen();
        let context = b"hello123";

        for i in 0..20 {
            let mut key = Key::default();
            crypto_kdf_derive_from_key(&mut key, i, context, &main_key).expect("kdf failed");

            let mut so_key = secretbox::Key([0; secretbox::KEYBYTES]);
            kdf::derive_from_key(
                &mut so_key.0[..],
                i,
                *context,
                &kdf::blake2b::Key::from_slice(&main_key).expect("key failed"),
            )
            .expect("so kdf failed");

            assert_eq!(so_key.0, key);
        }
    }
}
