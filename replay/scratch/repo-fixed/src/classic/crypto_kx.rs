//! # Key exchange
//!
//! This module implements libsodium's key exchange functions, which uses a
//! combination of Curve25519, Diffie-Hellman, and Blake2b to generate shared
//! session keys.
//!
//! ## Classic API example
//!
//! ```
//! use dryoc::classic::crypto_kx::*;
//!
//! // Generate random client & server keypairs
//! let (client_pk, client_sk) = crypto_kx_keypair();
//! let (server_pk, server_sk) = crypto_kx_keypair();
//!
//! // Variables for client & server rx/tx session keys
//! let (mut crx, mut ctx, mut srx, mut stx) = (
//!     SessionKey::default(),
//!     SessionKey::default(),
//!     SessionKey::default(),
//!     SessionKey::default(),
//! );
//!
//! // Calculate the client Rx & Tx keys
//! crypto_kx_client_session_keys(&mut crx, &mut ctx, &client_pk, &client_sk, &server_pk)
//!     .expect("client kx failed");
//!
//! // Calculate the server Rx & Tx keys
//! crypto_kx_server_session_keys(&mut srx, &mut stx, &server_pk, &server_sk, &client_pk)
//!     .expect("server kx failed");
//!
//! assert_eq!(crx, stx);
//! assert_eq!(ctx, srx);
//! ```

use zeroize::Zeroize;

use super::crypto_core::{crypto_scalarmult, crypto_scalarmult_base};
use super::crypto_generichash::{
    crypto_generichash, crypto_generichash_final, crypto_generichash_init,
    crypto_generichash_update,
};
use crate::constants::{
    CRYPTO_KX_PUBLICKEYBYTES, CRYPTO_KX_SECRETKEYBYTES, CRYPTO_KX_SEEDBYTES,
    CRYPTO_KX_SESSIONKEYBYTES, CRYPTO_SCALARMULT_BYTES,
};
use crate::error::Error;
use crate::types::*;

/// Public key type for key exchange
pub type PublicKey = [u8; CRYPTO_KX_PUBLICKEYBYTES];
/// Secret key type for key exchange
pub type SecretKey = [u8; CRYPTO_KX_SECRETKEYBYTES];
/// Session data type for key exchange
pub type SessionKey = [u8; CRYPTO_KX_SESSIONKEYBYTES];

/// Computes and returns a keypair of `(PublicKey, SecretKey)` based on `seed`
/// upon success. Uses the Blake2b function to derive a secret from `seed`.
///
/// Compatible with libsodium's `crypto_kx_seed_keypair`.
pub fn crypto_kx_seed_keypair(
    seed: &[u8; CRYPTO_KX_SEEDBYTES],
) -> Result<(PublicKey, SecretKey), Error> {
    let mut sk = SecretKey::default();
    let mut pk = PublicKey::default();

    crypto_generichash(&mut sk, seed, None)?;

    crypto_scalarmult_base(&mut pk, &sk);

    Ok((pk, sk))
}

/// Returns a randomly generated keypair, suitable for use with key exchange.
///
/// Equivalent to libsodium's `crypto_kx_keypair`.
pub fn crypto_kx_keypair() -> (PublicKey, SecretKey) {
    let sk = SecretKey::gen();
    let mut pk = PublicKey::default();

    crypto_scalarmult_base(&mut pk, &sk);

    (pk, sk)
}

fn crypto_kx(
    x1: &mut SessionKey,
    x2: &mut SessionKey,
    client_pk: &PublicKey,
    server_pk: &PublicKey,
    mut shared_secret: [u8; CRYPTO_SCALARMULT_BYTES],
) -> Result<(), Error> {
    let mut keys = [0u8; 2 * CRYPTO_KX_SESSIONKEYBYTES];

    let mut hasher = crypto_generichash_init(None, 2 * CRYPTO_KX_SESSIONKEYBYTES)?;
    crypto_generichash_update(&mut hasher, &shared_secret);
    shared_secret.zeroize();
    crypto_generichash_update(&mut hasher, client_pk);
    crypto_generichash_update(&mut hasher, server_pk);
    crypto_generichash_final(hasher, &mut keys)?;

    x1.copy_from_slice(&keys[..CRYPTO_KX_SESSIONKEYBYTES]);
    x2.copy_from_slice(&keys[CRYPTO_KX_SESSIONKEYBYTES..]);

    keys.zeroize();

    Ok(())
}

/// Computes client session keys for `rx` and `tx`, using `client_pk`,
/// `client_sk`, and `server_pk`. Returns unit `()` upon success.
///
/// Compatible with libsodium's `crypto_kx_client_session_keys`.
pub fn crypto_kx_client_session_keys(
    rx: &mut SessionKey,
    tx: &mut SessionKey,
    client_pk: &PublicKey,
    client_sk: &SecretKey,
    server_pk: &PublicKey,
) -> Result<(), Error> {
    let mut shared_secret = [0u8; CRYPTO_SCALARMULT_BYTES];

    crypto_scalarmult(&mut shared_secret, client_sk, server_pk);
    if shared_secret == [0u8; CRYPTO_SCALARMULT_BYTES] {
        return Err(dryoc_error!("weak public key"));
    }

    crypto_kx(rx, tx, client_pk, server_pk, shared_secret)
}

/// Computes server session keys for `rx` and `tx`, using `client_pk`,
/// `client_sk`, and `server_pk`. Returns unit `()` upon success.
///
/// Compatible with libsodium's `crypto_kx_server_session_keys`.
pub fn crypto_kx_server_session_keys(
    rx: &mut SessionKey,
    tx: &mut SessionKey,
    server_pk: &PublicKey,
    server_sk: &SecretKey,
    client_pk: &PublicKey,
) -> Result<(), Error> {
    let mut shared_secret = [0u8; CRYPTO_SCALARMULT_BYTES];

    crypto_scalarmult(&mut shared_secret, server_sk, client_pk);
    if shared_secret == [0u8; CRYPTO_SCALARMULT_BYTES] {
        return Err(dryoc_error!("weak public key"));
    }

    crypto_kx(tx, rx, client_pk, server_pk, shared_secret)
}

#[cfg(test)]
mod tests {
    use super::*;

    #[test]
    fn test_kx() {
        for _ in 0..20 {
            let (client_pk, client_sk) = crypto_kx_keypair();
            let (server_pk, server_sk) = crypto_kx_keypair();

            let (mut crx, mut ctx, mut srx, mut stx) = (
                SessionKey::default(),
                SessionKey::default(),
                SessionKey::default(),
                SessionKey::default(),
            );

            crypto_kx_client_session_keys(&mut crx, &mut ctx, &client_pk, &client_sk, &server_pk)
                .expect("client kx failed");

            crypto_kx_server_session_keys(&mut srx, &mut stx, &server_pk, &server_sk, &client_pk)
                .expect("server kx failed");

            assert_eq!(crx, stx);
            assert_eq!(ctx, srx);

            use sodiumoxide::crypto::kx;

            let client_pk = kx::PublicKey::from_slice(&client_pk).expect("client pk failed");
            let client_sk = kx::SecretKey::from_slice(&client_sk).expect("client sk failed");
            let server_pk = kx::PublicKey::from_slice(&server_pk).expect("server pk failed");
            let server_sk = kx::SecretKey::from_slice(&server_sk).expect("server sk failed");

            let (rx1, tx1) = match kx::client_session_keys(&client_pk, &client_sk, &server_pk) {
                Ok((rx, tx)) => (rx, tx),
                Err(()) => panic!("bad server signature"),
            };

            // server performs the same operation
            let (rx2, tx2) = match kx::server_session_keys(&server_pk, &server_sk, &client_pk) {
                Ok((rx, tx)) => (rx, tx),
                Err(()) => panic!("bad client signature"),
            };

            assert_eq!(rx1.as_ref(), crx);
            assert_eq!(rx2.as_ref(), srx);
            assert_eq!(tx1.as_ref(), ctx);
            assert_eq!(tx2.as_ref(), stx);
        }
    }
}
