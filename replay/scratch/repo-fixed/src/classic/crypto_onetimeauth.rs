//! # One-time authentication
//!
//! Implements one-time authentication using the Poly1305 algorithm, compatible
//! with libsodium's `crypto_onetimeauth_*` functions.
//!
//! # Classic API single-part example
//!
//! ```
//! use base64::Engine as _;
//! use base64::engine::general_purpose;
//! use dryoc::classic::crypto_onetimeauth::{
//!     Mac, crypto_onetimeauth, crypto_onetimeauth_keygen, crypto_onetimeauth_verify,
//! };
//!
//! let key = crypto_onetimeauth_keygen();
//! let mut mac = Mac::default();
//!
//! crypto_onetimeauth(&mut mac, b"Data to authenticate", &key);
//!
//! // This should be valid
//! crypto_onetimeauth_verify(&mac, b"Data to authenticate", &key).expect("failed to authenticate");
//!
//! // This should not be valid
//! crypto_onetimeauth_verify(&mac, b"Invalid data", &key).expect_err("should not authenticate");
//! ```
//!
//! # Classic API multi-part example
//!
//! ```
//! use base64::Engine as _;
//! use base64::engine::general_purpose;
//! use dryoc::classic::crypto_onetimeauth::{
//!     Mac, crypto_onetimeauth_final, crypto_onetimeauth_init, crypto_onetimeauth_keygen,
//!     crypto_onetimeauth_update, crypto_onetimeauth_verify,
//! };
//!
//! let key = crypto_onetimeauth_keygen();
//! let mut mac = Mac::default();
//!
//! let mut state = crypto_onetimeauth_init(&key);
//! crypto_onetimeauth_update(&mut state, b"Multi-part");
//! crypto_onetimeauth_update(&mut state, b"data");
//! crypto_onetimeauth_final(state, &mut mac);
//!
//! // This should be valid
//! crypto_onetimeauth_verify(&mac, b"Multi-partdata", &key).expect("failed to authenticate");
//!
//! // This should not be valid
//! crypto_onetimeauth_verify(&mac, b"Invalid data", &key).expect_err("should not authenticate");
//! ```
use subtle::ConstantTimeEq;

use crate::constants::{
    CRYPTO_ONETIMEAUTH_BYTES, CRYPTO_ONETIMEAUTH_KEYBYTES, CRYPTO_ONETIMEAUTH_POLY1305_BYTES,
    CRYPTO_ONETIMEAUTH_POLY1305_KEYBYTES,
};
use crate::error::Error;
use crate::poly1305::Poly1305;
use crate::types::*;
struct OnetimeauthPoly1305State {
    mac: Poly1305,
}

/// Key type for use with one-time authentication.
pub type Key = [u8; CRYPTO_ONETIMEAUTH_POLY1305_KEYBYTES];
/// Message authentication code type for use with one-time authentication.
pub type Mac = [u8; CRYPTO_ONETIMEAUTH_POLY1305_BYTES];

fn crypto_onetimeauth_poly1305(output: &mut Mac, message: &[u8], key: &Key) {
    let mut poly1305 = Poly1305::new(key);
    poly1305.update(message);
    poly1305.finalize(output)
}
fn crypto_onetimeauth_poly1305_verify(mac: &Mac, input: &[u8], key: &Key) -> Result<(), Error> {
    let mut poly1305 = Poly1305::new(key);
    poly1305.update(input);
    let computed_mac = poly1305.finalize_to_array();

    if mac.ct_eq(&computed_mac).unwrap_u8() == 1 {
        Ok(())
    } else {
        Err(dryoc_error!("authentication codes do not match"))
    }
}

fn crypto_onetimeauth_poly1305_init(key: &Key) -> OnetimeauthPoly1305State {
    OnetimeauthPoly1305State {
        mac: Poly1305::new(key),
    }
}

fn crypto_onetimeauth_poly1305_update(state: &mut OnetimeauthPoly1305State, input: &[u8]) {
    state.mac.update(input)
}
fn crypto_onetimeauth_poly1305_final(
    mut state: OnetimeauthPoly1305State,
    output: &mut [u8; CRYPTO_ONETIMEAUTH_POLY1305_BYTES],
) {
    state.mac.finalize(output)
}

/// Authenticates `message` using `key`, and places the result into
/// `mac`. `key` should only be used once.
///
/// Equivalent to libsodium's `crypto_onetimeauth`.
pub fn crypto_onetimeauth(mac: &mut Mac, message: &[u8], key: &Key) {
    crypto_onetimeauth_poly1305(mac, message, key)
}

/// Verifies that `mac` is the correct authenticator for `message` using `key`.
/// Returns `Ok(())` if the message authentication code is valid.
///
/// Equivalent to libsodium's `crypto_onetimeauth_verify`.
pub fn crypto_onetimeauth_verify(mac: &Mac, input: &[u8], key: &Key) -> Result<(), Error> {
    crypto_onetimeauth_poly1305_verify(mac, input, key)
}

/// Internal state for [`crypto_onetimeauth`].
pub struct OnetimeauthState {
    state: OnetimeauthPoly1305State,
}

/// Generates a random key using
/// [`copy_randombytes`](crate::rng::copy_randombytes), suitable for use with
/// [`crypto_onetimeauth_init`] and [`crypto_onetimeauth`]. The key should only
/// be used once.
///
/// Equivalent to libsodium's `crypto_onetimeauth_keygen`.
pub fn crypto_onetimeauth_keygen() -> Key {
    Key::gen()
}

/// Initializes the incremental Poly1305-based one-time authentication.
///
/// Initialize the incremental interface for Poly1305-based one-time
/// authentication, using `key`. Returns a state struct which is required for
/// subsequent calls to [`crypto_onetimeauth_update`] and
/// [`crypto_onetimeauth_final`]. The key should only be used once.
///
/// Equivalent to libsodium's `crypto_onetimeauth_init`.
pub fn crypto_onetimeauth_init(key: &[u8; CRYPTO_ONETIMEAUTH_KEYBYTES]) -> OnetimeauthState {
    OnetimeauthState {
        state: crypto_onetimeauth_poly1305_init(key),
    }
}

/// Updates `state` for the one-time authentication function, based on `input`.
///
/// Equivalent to libsodium's `crypto_onetimeauth_update`.
pub fn crypto_onetimeauth_update(state: &mut OnetimeauthState, input: &[u8]) {
    crypto_onetimeauth_poly1305_update(&mut state.state, input)
}

/// Finalizes the message authentication code for `state`, and places the result
/// into `output`.
///
/// Equivalent to libsodium's `crypto_onetimeauth_final`.
pub fn crypto_onetimeauth_final(
    state: OnetimeauthState,
    output: &mut [u8; CRYPTO_ONETIMEAUTH_BYTES],
) {
    crypto_onetimeauth_poly1305_final(state.state, output)
}

#[cfg(test)]
mod tests {
    use super::*;

    #[test]
    fn test_onetimeauth() {
        use sodiumoxide::crypto::onetimeauth;

        use crate::rng::copy_randombytes;

        for _ in 0..20 {
            let mut key = [0u8; 32];
            copy_randombytes(&mut key);
            let mut input = [0u8; 1024];
            copy_randombytes(&mut input);

            let so_mac = onetimeauth::authenticate(
                &input,
                &onetimeauth::poly1305::Key::from_slice(&key).expect("so key failed"),
            );

            let mut mac = [0u8; CRYPTO_ONETIMEAUTH_BYTES];
            crypto_onetimeauth(&mut mac, &input, &key);

            assert_eq!(so_mac.0, mac);

            crypto_onetimeauth_verify(&mac, &input, &key).expect("verify failed");
        }
    }

    #[test]
    fn test_onetimeauth_incremental() {
        use sodiumoxide::crypto::onetimeauth;

        use crate::rng::copy_randombytes;

        for _ in 0..20 {
            let mut key = [0u8; 32];
            copy_randombytes(&mut key);
            let mut input = [0u8; 1024];
            copy_randombytes(&mut input);

            let so_mac = onetimeauth::authenticate(
                &input,
                &onetimeauth::poly1305::Key::from_slice(&key).expect("so key failed"),
            );

            let mut mac = [0u8; CRYPTO_ONETIMEAUTH_BYTES];
            let mut state = crypto_onetimeauth_init(&key);
            crypto_onetimeauth_update(&mut state, &input);
            crypto_onetimeauth_final(state, &mut mac);

            assert_eq!(so_mac.0, mac);

            crypto_onetimeauth_verify(&mac, &input, &key).expect("verify failed");
        }
    }
}
