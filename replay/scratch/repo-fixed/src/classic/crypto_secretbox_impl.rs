use generic_array::GenericArray;
use salsa20::XSalsa20;
use salsa20::cipher::{KeyIvInit, StreamCipher};
use subtle::ConstantTimeEq;
use zeroize::Zeroize;

use crate::classic::crypto_secretbox::{Key, Mac, Nonce};
use crate::error::Error;
use crate::poly1305::Poly1305;

pub(crate) fn crypto_secretbox_detached_inplace(
    data: &mut [u8],
    mac: &mut Mac,
    nonce: &Nonce,
    key: &Key,
) {
    let mut cipher = XSalsa20::new(
        GenericArray::from_slice(key),
        GenericArray::from_slice(nonce),
    );

    let mut mac_key = crate::poly1305::Key::new();
    cipher.apply_keystream(&mut mac_key);

    let mut computed_mac = Poly1305::new(&mac_key);

    mac_key.zeroize();

    cipher.apply_keystream(data);

    computed_mac.update(data);
    computed_mac.finalize(mac);
}

pub(crate) fn crypto_secretbox_open_detached_inplace(
    data: &mut [u8],
    mac: &Mac,
    nonce: &Nonce,
    key: &Key,
) -> Result<(), Error> {
    let mut cipher = XSalsa20::new(
        GenericArray::from_slice(key),
        GenericArray::from_slice(nonce),
    );

    let mut mac_key = crate::poly1305::Key::new();
    cipher.apply_keystream(&mut mac_key);

    let mut computed_mac = Poly1305::new(&mac_key);
    mac_key.zeroize();

    computed_mac.update(data);
    let computed_mac = computed_mac.finalize_to_array();

    cipher.apply_keystream(data);

    if mac.ct_eq(&computed_mac).unwrap_u8() == 1 {
        Ok(())
    } else {
        Err(dryoc_error!("decryption error (authentication failure)"))
    }
}
