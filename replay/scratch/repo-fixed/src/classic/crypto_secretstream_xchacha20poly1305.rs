//! # Secret stream functions
//!
//! Implements authenticated encrypted streams as per
//! <https://libsodium.gitbook.io/doc/secret-key_cryptography/secretstream>.
//!
//! This API is compatible with libsodium's implementation.
//!
//! # Classic API example
//!
//! ```
//! use dryoc::classic::crypto_secretstream_xchacha20poly1305::*;
//! use dryoc::constants::{
//!     CRYPTO_SECRETSTREAM_XCHACHA20POLY1305_ABYTES,
//!     CRYPTO_SECRETSTREAM_XCHACHA20POLY1305_TAG_FINAL,
//!     CRYPTO_SECRETSTREAM_XCHACHA20POLY1305_TAG_MESSAGE,
//! };
//! let message1 = b"Arbitrary data to encrypt";
//! let message2 = b"split into";
//! let message3 = b"three messages";
//!
//! // Generate a key
//! let mut key = Key::default();
//! crypto_secretstream_xchacha20poly1305_keygen(&mut key);
//!
//! // Create stream push state
//! let mut state = State::new();
//! let mut header = Header::default();
//! crypto_secretstream_xchacha20poly1305_init_push(&mut state, &mut header, &key);
//!
//! let (mut c1, mut c2, mut c3) = (
//!     vec![0u8; message1.len() + CRYPTO_SECRETSTREAM_XCHACHA20POLY1305_ABYTES],
//!     vec![0u8; message2.len() + CRYPTO_SECRETSTREAM_XCHACHA20POLY1305_ABYTES],
//!     vec![0u8; message3.len() + CRYPTO_SECRETSTREAM_XCHACHA20POLY1305_ABYTES],
//! );
//! // Encrypt a series of messages
//! crypto_secretstream_xchacha20poly1305_push(
//!     &mut state,
//!     &mut c1,
//!     message1,
//!     None,
//!     CRYPTO_SECRETSTREAM_XCHACHA20POLY1305_TAG_MESSAGE,
//! )
//! .expect("Encrypt failed");
//! crypto_secretstream_xchacha20poly1305_push(
//!     &mut state,
//!     &mut c2,
//!     message2,
//!     None,
//!     CRYPTO_SECRETSTREAM_XCHACHA20POLY1305_TAG_MESSAGE,
//! )
//! .expect("Encrypt failed");
//! crypto_secretstream_xchacha20poly1305_push(
//!     &mut state,
//!     &mut c3,
//!     message3,
//!     None,
//!     CRYPTO_SECRETSTREAM_XCHACHA20POLY1305_TAG_FINAL,
//! )
//! .expect("Encrypt failed");
//!
//! // Create stream pull state, using the same key as above with a new state.
//! let mut state = State::new();
//! crypto_secretstream_xchacha20poly1305_init_pull(&mut state, &header, &key);
//!
//! let (mut m1, mut m2, mut m3) = (
//!     vec![0u8; message1.len()],
//!     vec![0u8; message2.len()],
//!     vec![0u8; message3.len()],
//! );
//! let (mut tag1, mut tag2, mut tag3) = (0u8, 0u8, 0u8);
//!
//! // Decrypt the stream of messages
//! crypto_secretstream_xchacha20poly1305_pull(&mut state, &mut m1, &mut tag1, &c1, None)
//!     .expect("Decrypt failed");
//! crypto_secretstream_xchacha20poly1305_pull(&mut state, &mut m2, &mut tag2, &c2, None)
//!     .expect("Decrypt failed");
//! crypto_secretstream_xchacha20poly1305_pull(&mut state, &mut m3, &mut tag3, &c3, None)
//!     .expect("Decrypt failed");
//!
//! assert_eq!(message1, m1.as_slice());
//! assert_eq!(message2, m2.as_slice());
//! assert_eq!(message3, m3.as_slice());
//!
//! assert_eq!(tag1, CRYPTO_SECRETSTREAM_XCHACHA20POLY1305_TAG_MESSAGE);
//! assert_eq!(tag2, CRYPTO_SECRETSTREAM_XCHACHA20POLY1305_TAG_MESSAGE);
//! assert_eq!(tag3, CRYPTO_SECRETSTREAM_XCHACHA20POLY1305_TAG_FINAL);
//! ```

use subtle::ConstantTimeEq;
use zeroize::{Zeroize, ZeroizeOnDrop};

use crate::classic::crypto_core::{HChaCha20Key, crypto_core_hchacha20};
use crate::constants::{
    CRYPTO_CORE_HCHACHA20_INPUTBYTES, CRYPTO_SECRETSTREAM_XCHACHA20POLY1305_ABYTES,
    CRYPTO_SECRETSTREAM_XCHACHA20POLY1305_COUNTERBYTES,
    CRYPTO_SECRETSTREAM_XCHACHA20POLY1305_HEADERBYTES,
    CRYPTO_SECRETSTREAM_XCHACHA20POLY1305_INONCEBYTES,
    CRYPTO_SECRETSTREAM_XCHACHA20POLY1305_KEYBYTES,
    CRYPTO_SECRETSTREAM_XCHACHA20POLY1305_MESSAGEBYTES_MAX,
    CRYPTO_SECRETSTREAM_XCHACHA20POLY1305_TAG_REKEY, CRYPTO_STREAM_CHACHA20_IETF_KEYBYTES,
    CRYPTO_STREAM_CHACHA20_IETF_NONCEBYTES,
};
use crate::error::*;
use crate::rng::copy_randombytes;
use crate::types::*;
use crate::utils::{increment_bytes, pad16, xor_buf};

/// A secret for authenticated secret streams.
pub type Key = [u8; CRYPTO_SECRETSTREAM_XCHACHA20POLY1305_KEYBYTES];
/// A nonce for authenticated secret streams.
pub type Nonce = [u8; CRYPTO_STREAM_CHACHA20_IETF_NONCEBYTES];
/// Container for stream header data
pub type Header = [u8; CRYPTO_SECRETSTREAM_XCHACHA20POLY1305_HEADERBYTES];

/// Stream state data
#[derive(PartialEq, Eq, Clone, Default, Zeroize, ZeroizeOnDrop)]
pub struct State {
    k: Key,
    nonce: Nonce,
}

impl State {
    /// Returns a new stream state with an empty key and nonce.
    pub fn new() -> Self {
        Self::default()
    }
}

/// Generates a random stream key using [crate::rng::copy_randombytes].
pub fn crypto_secretstream_xchacha20poly1305_keygen(key: &mut Key) {
    copy_randombytes(key);
}

fn state_counter(nonce: &mut Nonce) -> &mut [u8] {
    &mut nonce[..CRYPTO_SECRETSTREAM_XCHACHA20POLY1305_COUNTERBYTES]
}

fn state_inonce(nonce: &mut Nonce) -> &mut [u8] {
    &mut nonce[CRYPTO_SECRETSTREAM_XCHACHA20POLY1305_COUNTERBYTES
        ..CRYPTO_SECRETSTREAM_XCHACHA20POLY1305_INONCEBYTES
            + CRYPTO_SECRETSTREAM_XCHACHA20POLY1305_COUNTERBYTES]
}

fn _crypto_secretstream_xchacha20poly1305_counter_reset(state: &mut State) {
    let counter = state_counter(&mut state.nonce);
    counter.fill(0);
    counter[0] = 1;
}

/// Initializes a push stream for streaming encryption.
///
/// Initializes a push stream into `state` using `key` and returns a stream
/// header. The stream header can be used to initialize a pull stream using the
/// same key (i.e., using [crypto_secretstream_xchacha20poly1305_init_pull]).
///
/// Compatible with libsodium's
/// `crypto_secretstream_xchacha20poly1305_init_push`.
pub fn crypto_secretstream_xchacha20poly1305_init_push(
    state: &mut State,
    header: &mut Header,
    key: &Key,
) {
    copy_randombytes(header);

    let mut k = HChaCha20Key::default();
    crypto_core_hchacha20(
        k.as_mut_array(),
        ByteArray::as_array(&header[..16]),
        key,
        None,
    );
    // Copy key into state
    state.k.copy_from_slice(&k);
    _crypto_secretstream_xchacha20poly1305_counter_reset(state);

    let inonce = state_inonce(&mut state.nonce);
    inonce.copy_from_slice(
        &header[CRYPTO_CORE_HCHACHA20_INPUTBYTES
            ..(CRYPTO_CORE_HCHACHA20_INPUTBYTES
                + CRYPTO_SECRETSTREAM_XCHACHA20POLY1305_INONCEBYTES)],
    );
}

/// Initializes a pull stream for streaming decryption.
///
/// Initializes a pull stream from `header` into `state` using `key` and returns
/// a stream header. The stream header can be generated using
/// [crypto_secretstream_xchacha20poly1305_init_push].
///
/// Compatible with libsodium's
/// `crypto_secretstream_xchacha20poly1305_init_pull`.
pub fn crypto_secretstream_xchacha20poly1305_init_pull(
    state: &mut State,
    header: &Header,
    key: &Key,
) {
    let mut k = HChaCha20Key::default();
    crypto_core_hchacha20(
        k.as_mut_array(),
        ByteArray::as_array(&header[0..16]),
        key,
        None,
    );
    state.k.copy_from_slice(&k);

    _crypto_secretstream_xchacha20poly1305_counter_reset(state);

    let inonce = state_inonce(&mut state.nonce);
    inonce.copy_from_slice(
        &header[CRYPTO_CORE_HCHACHA20_INPUTBYTES
            ..(CRYPTO_CORE_HCHACHA20_INPUTBYTES
                + CRYPTO_SECRETSTREAM_XCHACHA20POLY1305_INONCEBYTES)],
    );
}

/// Manually rekeys a stream.
///
/// Compatible with libsodium's
/// `crypto_secretstream_xchacha20poly1305_init_push`.
pub fn crypto_secretstream_xchacha20poly1305_rekey(state: &mut State) {
    use chacha20::cipher::{KeyIvInit, StreamCipher};
    use chacha20::{ChaCha20, Key, Nonce};

    let mut new_state = [0u8; CRYPTO_STREAM_CHACHA20_IETF_KEYBYTES
        + CRYPTO_SECRETSTREAM_XCHACHA20POLY1305_INONCEBYTES];

    new_state[..CRYPTO_STREAM_CHACHA20_IETF_KEYBYTES].copy_from_slice(&state.k);
    new_state[CRYPTO_STREAM_CHACHA20_IETF_KEYBYTES..]
        .copy_from_slice(state_inonce(&mut state.nonce));

    let key = Key::from_slice(&state.k);
    let nonce = Nonce::from_slice(&state.nonce);
    let mut cipher = ChaCha20::new(key, nonce);
    cipher.apply_keystream(&mut new_state);

    state
        .k
        .copy_from_slice(&new_state[0..CRYPTO_STREAM_CHACHA20_IETF_KEYBYTES]);
    state_inonce(&mut state.nonce)
        .copy_from_slice(&new_state[CRYPTO_STREAM_CHACHA20_IETF_KEYBYTES..]);

    _crypto_secretstream_xchacha20poly1305_counter_reset(state);
}

/// Encrypts `message` from the stream for `state`, with `tag` and optional
/// `associated_data`, placing the result into `ciphertext`.
///
/// Compatible with libsodium's `crypto_secretstream_xchacha20poly1305_push`.
///
/// NOTE: The libsodium version of this function contains an alignment bug which
/// was left in place, and is reflected in this implementation for compatibility
/// purposes. Refer to [commit
/// 290197ba3ee72245fdab5e971c8de43a82b19874](https://github.com/jedisct1/libsodium/commit/290197ba3ee72245fdab5e971c8de43a82b19874#diff-dbd9b6026ac3fd057df0ddf00e4d671af16e5df99b4cc7d08b73b61f193d10f5)
pub fn crypto_secretstream_xchacha20poly1305_push(
    state: &mut State,
    ciphertext: &mut [u8],
    message: &[u8],
    associated_data: Option<&[u8]>,
    tag: u8,
) -> Result<(), Error> {
    use chacha20::cipher::{KeyIvInit, StreamCipher, StreamCipherSeek};
    use chacha20::{ChaCha20, Key, Nonce};

    use crate::poly1305::Poly1305;

    let _pad0 = [0u8; 16];

    if ciphertext.len() != message.len() + CRYPTO_SECRETSTREAM_XCHACHA20POLY1305_ABYTES {
        return Err(dryoc_error!(format!(
            "Ciphertext length was {}, should be {}",
            ciphertext.len(),
            message.len() + CRYPTO_SECRETSTREAM_XCHACHA20POLY1305_ABYTES
        )));
    }

    if message.len() > CRYPTO_SECRETSTREAM_XCHACHA20POLY1305_MESSAGEBYTES_MAX {
        return Err(dryoc_error!(format!(
            "Message length {} exceeds max length {}",
            message.len(),
            CRYPTO_SECRETSTREAM_XCHACHA20POLY1305_MESSAGEBYTES_MAX
        )));
    }

    let associated_data = associated_data.unwrap_or(&[]);

    let mut mac_key = crate::poly1305::Key::new();
    let _pad0 = [0u8; 16];

    let key = Key::from_slice(&state.k);
    let nonce = Nonce::from_slice(&state.nonce);
    let mut cipher = ChaCha20::new(key, nonce);

    cipher.apply_keystream(&mut mac_key);
    let mut mac = Poly1305::new(&mac_key);
    mac_key.zeroize();

    mac.update(associated_data);
    mac.update(&_pad0[..pad16(associated_data.len())]);

    let mut block = [0u8; 64];
    block[0] = tag;
    cipher.seek(64);
    cipher.apply_keystream(&mut block);
    mac.update(&block);

    let mlen = message.len();
    ciphertext[0] = block[0];
    ciphertext[1..(1 + mlen)].copy_from_slice(message);

    cipher.seek(128);
    cipher.apply_keystream(&mut ciphertext[1..(1 + mlen)]);

    let mut size_data = [0u8; 16];
    size_data[..8].copy_from_slice(&associated_data.len().to_le_bytes());
    size_data[8..16].copy_from_slice(&(block.len() + mlen).to_le_bytes());

    mac.update(&ciphertext[1..(1 + mlen)]);
    // this is to workaround an unfortunate padding bug in libsodium, there's a
    // note in commit 290197ba3ee72245fdab5e971c8de43a82b19874. There's no
    // safety issue, so we can just pretend it's not a bug.
    let buffer_mac_pad = ((0x10 - block.len() as i64 + mlen as i64) & 0xf) as usize;
    mac.update(&_pad0[0..buffer_mac_pad]);
    mac.update(&size_data);

    mac.finalize(&mut ciphertext[1 + mlen..]);

    let inonce = state_inonce(&mut state.nonce);
    xor_buf(inonce, &ciphertext[1 + mlen..]);

    let counter = state_counter(&mut state.nonce);
    increment_bytes(counter);

    if tag & CRYPTO_SECRETSTREAM_XCHACHA20POLY1305_TAG_REKEY
        == CRYPTO_SECRETSTREAM_XCHACHA20POLY1305_TAG_REKEY
        || state_counter(&mut state.nonce)
            .ct_eq(&[0u8; CRYPTO_SECRETSTREAM_XCHACHA20POLY1305_COUNTERBYTES])
            .unwrap_u8()
            == 1
    {
        crypto_secretstream_xchacha20poly1305_rekey(state);
    }

    Ok(())
}

/// Decrypts `ciphertext` from the stream for `state` with optional
/// `additional_data`, placing the result into `message` (which must be manually
/// resized) and `tag`. Returns the length of the message.
///
/// Due to a quirk in libsodium's implementation, you need to manually resize
/// `message` to the message length after decrypting when using this function.
///
/// Compatible with libsodium's `crypto_secretstream_xchacha20poly1305_pull`.
///
/// NOTE: The libsodium version of this function contains an alignment bug which
/// was left in place, and is reflected in this implementation for compatibility
/// purposes. Refer to [commit
/// 290197ba3ee72245fdab5e971c8de43a82b19874](https://github.com/jedisct1/libsodium/commit/290197ba3ee72245fdab5e971c8de43a82b19874#diff-dbd9b6026ac3fd057df0ddf00e4d671af16e5df99b4cc7d08b73b61f193d10f5)
pub fn crypto_secretstream_xchacha20poly1305_pull(
    state: &mut State,
    message: &mut [u8],
    tag: &mut u8,
    ciphertext: &[u8],
    associated_data: Option<&[u8]>,
) -> Result<usize, Error> {
    use chacha20::cipher::{KeyIvInit, StreamCipher, StreamCipherSeek};
    use chacha20::{ChaCha20, Key, Nonce};

    use crate::poly1305::Poly1305;

    let _pad0 = [0u8; 16];

    if message.len() < ciphertext.len() - CRYPTO_SECRETSTREAM_XCHACHA20POLY1305_ABYTES {
        return Err(dryoc_error!(format!(
            "Message length was {}, should be at least {}",
            message.len(),
            ciphertext.len() - CRYPTO_SECRETSTREAM_XCHACHA20POLY1305_ABYTES
        )));
    }

    if ciphertext.len() > CRYPTO_SECRETSTREAM_XCHACHA20POLY1305_MESSAGEBYTES_MAX {
        return Err(dryoc_error!(format!(
            "Message length {} exceeds max length {}",
            ciphertext.len(),
            CRYPTO_SECRETSTREAM_XCHACHA20POLY1305_MESSAGEBYTES_MAX
        )));
    }

    let associated_data = associated_data.unwrap_or(&[]);

    let mut mac_key = crate::poly1305::Key::new();

    let key = Key::from_slice(&state.k);
    let nonce = Nonce::from_slice(&state.nonce);
    let mut cipher = ChaCha20::new(key, nonce);

    cipher.apply_keystream(&mut mac_key);
    let mut mac = Poly1305::new(&mac_key);
    mac_key.zeroize();

    mac.update(associated_data);
    mac.update(&_pad0[..pad16(associated_data.len())]);

    let mut block = [0u8; 64];
    block[0] = ciphertext[0];

    cipher.seek(64);
    cipher.apply_keystream(&mut block);

    *tag = block[0];
    block[0] = ciphertext[0];

    mac.update(&block);

    let mlen = ciphertext.len() - CRYPTO_SECRETSTREAM_XCHACHA20POLY1305_ABYTES;
    message[..mlen].copy_from_slice(&ciphertext[1..1 + mlen]);

    // this is to workaround an unfortunate padding bug in libsodium, there's a
    // note in commit 290197ba3ee72245fdab5e971c8de43a82b19874. There's no
    // safety issue, so we can just pretend it's not a bug.
    let buffer_mac_pad = ((0x10 - block.len() as i64 + mlen as i64) & 0xf) as usize;
    mac.update(&message[..mlen]);
    mac.update(&_pad0[..buffer_mac_pad]);

    let mut size_data = [0u8; 16];
    size_data[..8].copy_from_slice(&associated_data.len().to_le_bytes());
    size_data[8..16].copy_from_slice(&(block.len() + mlen).to_le_bytes());
    mac.update(&size_data);
    let mac = mac.finalize_to_array();

    cipher.seek(128);
    cipher.apply_keystream(&mut message[..mlen]);

    if ciphertext[1 + mlen..].ct_eq(&mac).unwrap_u8() == 0 {
        return Err(dryoc_error!("Message authentication mismatch"));
    }

    let inonce = state_inonce(&mut state.nonce);
    xor_buf(inonce, &mac);

    let counter = state_counter(&mut state.nonce);
    increment_bytes(counter);

    if *tag & CRYPTO_SECRETSTREAM_XCHACHA20POLY1305_TAG_REKEY
        == CRYPTO_SECRETSTREAM_XCHACHA20POLY1305_TAG_REKEY
        || state_counter(&mut state.nonce)
            .ct_eq(&[0u8; CRYPTO_SECRETSTREAM_XCHACHA20POLY1305_COUNTERBYTES])
            .unwrap_u8()
            == 1
    {
        crypto_secretstream_xchacha20poly1305_rekey(state);
    }

    Ok(mlen)
}

#[cfg(test)]
mod tests {
    use super::*;
    use crate::dryocstream::Tag;

    #[test]
    fn test_sizes() {
        use static_assertions::*;

        use crate::constants::*;

        const_assert!(
            CRYPTO_SECRETSTREAM_XCHACHA20POLY1305_HEADERBYTES
                == CRYPTO_CORE_HCHACHA20_INPUTBYTES
                    + CRYPTO_SECRETSTREAM_XCHACHA20POLY1305_INONCEBYTES
        );

        const_assert!(
            CRYPTO_SECRETSTREAM_XCHACHA20POLY1305_HEADERBYTES
                == CRYPTO_AEAD_XCHACHA20POLY1305_IETF_NPUBBYTES
        );

        const_assert!(
            CRYPTO_STREAM_CHACHA20_IETF_NONCEBYTES
                == CRYPTO_SECRETSTREAM_XCHACHA20POLY1305_INONCEBYTES
                    + CRYPTO_SECRETSTREAM_XCHACHA20POLY1305_COUNTERBYTES
        );

        const_assert!(
            CRYPTO_SECRETSTREAM_XCHACHA20POLY1305_MESSAGEBYTES_MAX
                <= CRYPTO_AEAD_CHACHA20POLY1305_IETF_MESSAGEBYTES_MAX
        );

        const_assert!(
            CRYPTO_ONETIMEAUTH_POLY1305_BYTES >= CRYPTO_SECRETSTREAM_XCHACHA20POLY1305_INONCEBYTES
        );
    }

    #[test]
    fn test_secretstream_basic_push() {
        use base64::Engine as _;
        use base64::engine::general_purpose;
        use libsodium_sys::{
            crypto_secretstream_xchacha20poly1305_init_pull as so_crypto_secretstream_xchacha20poly1305_init_pull,
            crypto_secretstream_xchacha20poly1305_pull as so_crypto_secretstream_xchacha20poly1305_pull,
            crypto_secretstream_xchacha20poly1305_push as so_crypto_secretstream_xchacha20poly1305_push,
            crypto_secretstream_xchacha20poly1305_state,
        };

        use crate::constants::CRYPTO_STREAM_CHACHA20_IETF_NONCEBYTES;
        use crate::dryocstream::Tag;

        let mut key = Key::default();
        crypto_secretstream_xchacha20poly1305_keygen(&mut key);

        let mut push_state = State::new();
        let mut push_header = Header::default();
        crypto_secretstream_xchacha20poly1305_init_push(&mut push_state, &mut push_header, &key);
        let push_state_init = push_state.clone();

        let message = b"hello";
        let mut output = vec![0u8; message.len() + CRYPTO_SECRETSTREAM_XCHACHA20POLY1305_ABYTES];
        let aad = b"";
        let tag = Tag::MESSAGE.bits();
        crypto_secretstream_xchacha20poly1305_push(
            &mut push_state,
            &mut output,
            message,
            Some(aad),
            tag,
        )
        .expect("push failed");

        let mut so_output = output.clone();
        unsafe {
            use libc::{c_uchar, c_ulonglong};
            let mut so_state = crypto_secretstream_xchacha20poly1305_state {
                k: [0u8; CRYPTO_STREAM_CHACHA20_IETF_KEYBYTES],
                nonce: [0u8; CRYPTO_STREAM_CHACHA20_IETF_NONCEBYTES],
                _pad: [0u8; 8],
            };
            so_state.k.copy_from_slice(&push_state_init.k);
            so_state.nonce.copy_from_slice(&push_state_init.nonce);
            let mut clen_p: c_ulonglong = 0;
            let ret = so_crypto_secretstream_xchacha20poly1305_push(
                &mut so_state,
                so_output.as_mut_ptr(),
                &mut clen_p,
                message.as_ptr(),
                message.len() as u64,
                aad.as_ptr(),
                aad.len() as u64,
                0,
            );
            assert_eq!(ret, 0);
            so_output.resize(clen_p as usize, 0);
            assert_eq!(
                general_purpose::STANDARD.encode(&so_output),
                general_purpose::STANDARD.encode(&output)
            );
            assert_eq!(
                general_purpose::STANDARD.encode(so_state.k),
                general_purpose::STANDARD.encode(push_state.k)
            );
            assert_eq!(
                general_purpose::STANDARD.encode(so_state.nonce),
                general_purpose::STANDARD.encode(push_state.nonce)
            );

            let mut so_state = crypto_secretstream_xchacha20poly1305_state {
                k: [0u8; CRYPTO_STREAM_CHACHA20_IETF_KEYBYTES],
                nonce: [0u8; CRYPTO_STREAM_CHACHA20_IETF_NONCEBYTES],
                _pad: [0u8; 8],
            };
            let mut mlen_p: c_ulonglong = 0;
            let mut tag_p: c_uchar = 0;
            let ret = so_crypto_secretstream_xchacha20poly1305_init_pull(
                &mut so_state,
                push_header.as_ptr(),
                key.as_ptr(),
            );
            assert_eq!(ret, 0);
            assert_eq!(
                general_purpose::STANDARD.encode(so_state.k),
                general_purpose::STANDARD.encode(push_state_init.k)
            );
            assert_eq!(
                general_purpose::STANDARD.encode(so_state.nonce),
                general_purpose::STANDARD.encode(push_state_init.nonce)
            );
            assert!(so_output.len() >= CRYPTO_SECRETSTREAM_XCHACHA20POLY1305_ABYTES);
            let ret = so_crypto_secretstream_xchacha20poly1305_pull(
                &mut so_state,
                so_output.as_mut_ptr(),
                &mut mlen_p,
                &mut tag_p,
                output.as_ptr(),
                output.len() as u64,
                aad.as_ptr(),
                aad.len() as u64,
            );
            assert_eq!(ret, 0);
            so_output.resize(mlen_p as usize, 0);
        }
        assert_eq!(
            general_purpose::STANDARD.encode(message),
            general_purpose::STANDARD.encode(&so_output)
        );

        let mut pull_state = State::default();
        crypto_secretstream_xchacha20poly1305_init_pull(&mut pull_state, &push_header, &key);

        assert_eq!(
            general_purpose::STANDARD.encode(pull_state.k),
            general_purpose::STANDARD.encode(push_state_init.k)
        );
        assert_eq!(
            general_purpose::STANDARD.encode(pull_state.nonce),
            general_purpose::STANDARD.encode(push_state_init.nonce)
        );

        let mut pull_result_message =
            vec![0u8; output.len() - CRYPTO_SECRETSTREAM_XCHACHA20POLY1305_ABYTES];
        let mut pull_result_tag = 0u8;
        crypto_secretstream_xchacha20poly1305_pull(
            &mut pull_state,
            &mut pull_result_message,
            &mut pull_result_tag,
            &output,
            Some(&[]),
        )
        .expect("pull failed");

        assert_eq!(Tag::MESSAGE, Tag::from_bits(tag).expect("tag"));
        assert_eq!(
            general_purpose::STANDARD.encode(&pull_result_message),
            general_purpose::STANDARD.encode(message)
        );
    }

    #[test]
    fn test_rekey() {
        use base64::Engine as _;
        use base64::engine::general_purpose;
        use libsodium_sys::{
            crypto_secretstream_xchacha20poly1305_rekey as so_crypto_secretstream_xchacha20poly1305_rekey,
            crypto_secretstream_xchacha20poly1305_state,
        };

        use crate::constants::CRYPTO_STREAM_CHACHA20_IETF_NONCEBYTES;

        let mut key = Key::default();
        crypto_secretstream_xchacha20poly1305_keygen(&mut key);

        let mut push_state = State::default();
        let mut push_header: Header = Header::default();
        crypto_secretstream_xchacha20poly1305_init_push(&mut push_state, &mut push_header, &key);
        let push_state_init = push_state.clone();

        crypto_secretstream_xchacha20poly1305_rekey(&mut push_state);

        let mut so_state = crypto_secretstream_xchacha20poly1305_state {
            k: [0u8; CRYPTO_STREAM_CHACHA20_IETF_KEYBYTES],
            nonce: [0u8; CRYPTO_STREAM_CHACHA20_IETF_NONCEBYTES],
            _pad: [0u8; 8],
        };
        so_state.k.copy_from_slice(&push_state_init.k);
        so_state.nonce.copy_from_slice(&push_state_init.nonce);
        unsafe {
            so_crypto_secretstream_xchacha20poly1305_rekey(&mut so_state);
        }
        assert_eq!(
            general_purpose::STANDARD.encode(so_state.k),
            general_purpose::STANDARD.encode(push_state.k)
        );
        assert_eq!(
            general_purpose::STANDARD.encode(so_state.nonce),
            general_purpose::STANDARD.encode(push_state.nonce)
        );
    }

    #[test]
    fn test_secretstream_lots_of_messages_push() {
        use base64::Engine as _;
        use base64::engine::general_purpose;
        use libc::{c_uchar, c_ulonglong};
        use libsodium_sys::{
            crypto_secretstream_xchacha20poly1305_init_pull as so_crypto_secretstream_xchacha20poly1305_init_pull,
            crypto_secretstream_xchacha20poly1305_pull as so_crypto_secretstream_xchacha20poly1305_pull,
            crypto_secretstream_xchacha20poly1305_state,
        };

        use crate::constants::CRYPTO_STREAM_CHACHA20_IETF_NONCEBYTES;
        use crate::dryocstream::Tag;

        let mut key = Key::default();
        crypto_secretstream_xchacha20poly1305_keygen(&mut key);

        let mut push_state = State::new();
        let mut push_header = Header::default();
        crypto_secretstream_xchacha20poly1305_init_push(&mut push_state, &mut push_header, &key);
        let push_state_init = push_state.clone();

        let mut pull_state = State::default();
        crypto_secretstream_xchacha20poly1305_init_pull(&mut pull_state, &push_header, &key);

        assert_eq!(
            general_purpose::STANDARD.encode(pull_state.k),
            general_purpose::STANDARD.encode(push_state_init.k)
        );
        assert_eq!(
            general_purpose::STANDARD.encode(pull_state.nonce),
            general_purpose::STANDARD.encode(push_state_init.nonce)
        );

        let mut so_state = crypto_secretstream_xchacha20poly1305_state {
            k: [0u8; CRYPTO_STREAM_CHACHA20_IETF_KEYBYTES],
            nonce: [0u8; CRYPTO_STREAM_CHACHA20_IETF_NONCEBYTES],
            _pad: [0u8; 8],
        };
        so_state.k.copy_from_slice(&push_state_init.k);
        so_state.nonce.copy_from_slice(&push_state_init.nonce);

        let mut so_state = crypto_secretstream_xchacha20poly1305_state {
            k: [0u8; CRYPTO_STREAM_CHACHA20_IETF_KEYBYTES],
            nonce: [0u8; CRYPTO_STREAM_CHACHA20_IETF_NONCEBYTES],
            _pad: [0u8; 8],
        };
        let mut mlen_p: c_ulonglong = 0;
        let mut tag_p: c_uchar = 0;
        unsafe {
            let ret = so_crypto_secretstream_xchacha20poly1305_init_pull(
                &mut so_state,
                push_header.as_ptr(),
                key.as_ptr(),
            );
            assert_eq!(ret, 0);
        }
        assert_eq!(
            general_purpose::STANDARD.encode(so_state.k),
            general_purpose::STANDARD.encode(push_state_init.k)
        );
        assert_eq!(
            general_purpose::STANDARD.encode(so_state.nonce),
            general_purpose::STANDARD.encode(push_state_init.nonce)
        );

        for i in 0..100 {
            let message = format!("hello {}", i);
            let aad = format!("aad {}", i);
            let tag = if i % 7 == 0 { Tag::REKEY } else { Tag::MESSAGE };

            let mut output =
                vec![0u8; message.len() + CRYPTO_SECRETSTREAM_XCHACHA20POLY1305_ABYTES];
            crypto_secretstream_xchacha20poly1305_push(
                &mut push_state,
                &mut output,
                message.as_bytes(),
                Some(aad.as_bytes()),
                tag.bits(),
            )
            .expect("push failed");

            let mut so_output = output.clone();
            unsafe {
                assert!(so_output.len() >= CRYPTO_SECRETSTREAM_XCHACHA20POLY1305_ABYTES);
                let ret = so_crypto_secretstream_xchacha20poly1305_pull(
                    &mut so_state,
                    so_output.as_mut_ptr(),
                    &mut mlen_p,
                    &mut tag_p,
                    output.as_ptr(),
                    output.len() as u64,
                    aad.as_ptr(),
                    aad.len() as u64,
                );
                assert_eq!(ret, 0);
                so_output.resize(mlen_p as usize, 0);
            }
            assert_eq!(
                general_purpose::STANDARD.encode(&message),
                general_purpose::STANDARD.encode(&so_output)
            );

            let mut pull_result_message =
                vec![0u8; output.len() - CRYPTO_SECRETSTREAM_XCHACHA20POLY1305_ABYTES];
            let mut pull_result_tag = 0u8;
            crypto_secretstream_xchacha20poly1305_pull(
                &mut pull_state,
                &mut pull_result_message,
                &mut pull_result_tag,
                &output,
                Some(aad.as_bytes()),
            )
            .expect("pull failed");

            assert_eq!(tag, Tag::from_bits(pull_result_tag).expect("tag"));
            assert_eq!(
                general_purpose::STANDARD.encode(&pull_result_message),
                general_purpose::STANDARD.encode(&message)
            );
        }
    }

    #[test]
    fn test_secretstream_basic_pull() {
        use base64::Engine as _;
        use base64::engine::general_purpose;
        use libc::c_ulonglong;
        use libsodium_sys::{
            crypto_secretstream_xchacha20poly1305_init_push as so_crypto_secretstream_xchacha20poly1305_init_push,
            crypto_secretstream_xchacha20poly1305_push as so_crypto_secretstream_xchacha20poly1305_push,
            crypto_secretstream_xchacha20poly1305_state,
        };

        use crate::constants::CRYPTO_STREAM_CHACHA20_IETF_NONCEBYTES;

        let mut key = Key::default();
        crypto_secretstream_xchacha20poly1305_keygen(&mut key);

        let mut so_state = crypto_secretstream_xchacha20poly1305_state {
            k: [0u8; CRYPTO_STREAM_CHACHA20_IETF_KEYBYTES],
            nonce: [0u8; CRYPTO_STREAM_CHACHA20_IETF_NONCEBYTES],
            _pad: [0u8; 8],
        };
        let mut so_header = Header::default();
        unsafe {
            so_crypto_secretstream_xchacha20poly1305_init_push(
                &mut so_state,
                so_header.as_mut_ptr(),
                key.as_ptr(),
            );
        }

        let mut pull_state = State::new();
        crypto_secretstream_xchacha20poly1305_init_pull(&mut pull_state, &so_header, &key);

        let message = b"hello";
        let aad = b"aad";
        let mut so_output = vec![0u8; message.len() + CRYPTO_SECRETSTREAM_XCHACHA20POLY1305_ABYTES];
        let mut clen_p: c_ulonglong = 0;

        unsafe {
            let ret = so_crypto_secretstream_xchacha20poly1305_push(
                &mut so_state,
                so_output.as_mut_ptr(),
                &mut clen_p,
                message.as_ptr(),
                message.len() as u64,
                aad.as_ptr(),
                aad.len() as u64,
                0,
            );
            assert_eq!(ret, 0);
            so_output.resize(clen_p as usize, 0);
        }

        let mut output = vec![0u8; so_output.len()];
        let mut tag = 0u8;
        let mlen = crypto_secretstream_xchacha20poly1305_pull(
            &mut pull_state,
            &mut output,
            &mut tag,
            &so_output,
            Some(aad),
        )
        .expect("decrypt failed");
        output.resize(mlen, 0);

        assert_eq!(
            general_purpose::STANDARD.encode(&output),
            general_purpose::STANDARD.encode(message)
        );
        assert_eq!(tag, 0);
    }

    #[test]
    fn test_secretstream_lots_of_messages_pull() {
        use base64::Engine as _;
        use base64::engine::general_purpose;
        use libc::c_ulonglong;
        use libsodium_sys::{
            crypto_secretstream_xchacha20poly1305_init_push as so_crypto_secretstream_xchacha20poly1305_init_push,
            crypto_secretstream_xchacha20poly1305_push as so_crypto_secretstream_xchacha20poly1305_push,
            crypto_secretstream_xchacha20poly1305_state,
        };

        use crate::constants::CRYPTO_STREAM_CHACHA20_IETF_NONCEBYTES;
        use crate::dryocstream::Tag;

        let mut key = Key::default();
        crypto_secretstream_xchacha20poly1305_keygen(&mut key);

        let mut so_state = crypto_secretstream_xchacha20poly1305_state {
            k: [0u8; CRYPTO_STREAM_CHACHA20_IETF_KEYBYTES],
            nonce: [0u8; CRYPTO_STREAM_CHACHA20_IETF_NONCEBYTES],
            _pad: [0u8; 8],
        };
        let mut so_header = Header::default();
        unsafe {
            so_crypto_secretstream_xchacha20poly1305_init_push(
                &mut so_state,
                so_header.as_mut_ptr(),
                key.as_ptr(),
            );
        }

        let mut pull_state = State::new();
        crypto_secretstream_xchacha20poly1305_init_pull(&mut pull_state, &so_header, &key);

        for i in 0..100 {
            let message = format!("hello {}", i);
            let aad = format!("aad {}", i);
            let mut so_output =
                vec![0u8; message.len() + CRYPTO_SECRETSTREAM_XCHACHA20POLY1305_ABYTES];
            let mut clen_p: c_ulonglong = 0;

            let tag = if i % 7 == 0 { Tag::REKEY } else { Tag::MESSAGE };

            unsafe {
                let ret = so_crypto_secretstream_xchacha20poly1305_push(
                    &mut so_state,
                    so_output.as_mut_ptr(),
                    &mut clen_p,
                    message.as_ptr(),
                    message.len() as u64,
                    aad.as_ptr(),
                    aad.len() as u64,
                    tag.bits(),
                );
                assert_eq!(ret, 0);
                so_output.resize(clen_p as usize, 0);
            }

            let mut output =
                vec![0u8; so_output.len() - CRYPTO_SECRETSTREAM_XCHACHA20POLY1305_ABYTES];
            let mut outtag = 0u8;
            crypto_secretstream_xchacha20poly1305_pull(
                &mut pull_state,
                &mut output,
                &mut outtag,
                &so_output,
                Some(aad.as_bytes()),
            )
            .expect("decrypt failed");

            assert_eq!(
                general_purpose::STANDARD.encode(so_state.k),
                general_purpose::STANDARD.encode(pull_state.k)
            );
            assert_eq!(
                general_purpose::STANDARD.encode(so_state.nonce),
                general_purpose::STANDARD.encode(pull_state.nonce)
            );

            assert_eq!(
                general_purpose::STANDARD.encode(&output),
                general_purpose::STANDARD.encode(&message)
            );
            assert_eq!(outtag, tag.bits());
        }
    }

    #[test]
    fn test_secretstream_large_aad() {
        let mut key = Key::default();
        crypto_secretstream_xchacha20poly1305_keygen(&mut key);

        let mut push_state = State::new();
        let mut push_header = Header::default();
        crypto_secretstream_xchacha20poly1305_init_push(&mut push_state, &mut push_header, &key);

        let message = b"hello world";
        let large_aad = vec![0x42u8; 328]; // 328 bytes of 0x42

        let mut ciphertext =
            vec![0u8; message.len() + CRYPTO_SECRETSTREAM_XCHACHA20POLY1305_ABYTES];
        crypto_secretstream_xchacha20poly1305_push(
            &mut push_state,
            &mut ciphertext,
            message,
            Some(&large_aad),
            Tag::MESSAGE.bits(),
        )
        .expect("push failed");

        let mut pull_state = State::new();
        crypto_secretstream_xchacha20poly1305_init_pull(&mut pull_state, &push_header, &key);

        let mut decrypted = vec![0u8; message.len()];
        let mut tag = 0u8;

        crypto_secretstream_xchacha20poly1305_pull(
            &mut pull_state,
            &mut decrypted,
            &mut tag,
            &ciphertext,
            Some(&large_aad),
        )
        .expect("pull failed");

        assert_eq!(message.as_slice(), decrypted.as_slice());
        assert_eq!(tag, Tag::MESSAGE.bits());

        // Test with wrong AAD should fail
        let mut wrong_aad = large_aad.clone();
        wrong_aad[100] = 0x43; // Change one byte

        let mut decrypted = vec![0u8; message.len()];
        let mut tag = 0u8;

        assert!(
            crypto_secretstream_xchacha20poly1305_pull(
                &mut pull_state,
                &mut decrypted,
                &mut tag,
                &ciphertext,
                Some(&wrong_aad),
            )
            .is_err()
        );
    }

    #[test]
    fn test_secretstream_small_aad() {
        let mut key = Key::default();
        crypto_secretstream_xchacha20poly1305_keygen(&mut key);

        let mut push_state = State::new();
        let mut push_header = Header::default();
        crypto_secretstream_xchacha20poly1305_init_push(&mut push_state, &mut push_header, &key);

        let message = b"hello world";
        let small_aad = b"abc"; // 3 bytes of AAD

        let mut ciphertext =
            vec![0u8; message.len() + CRYPTO_SECRETSTREAM_XCHACHA20POLY1305_ABYTES];
        crypto_secretstream_xchacha20poly1305_push(
            &mut push_state,
            &mut ciphertext,
            message,
            Some(small_aad),
            Tag::MESSAGE.bits(),
        )
        .expect("push failed");

        let mut pull_state = State::new();
        crypto_secretstream_xchacha20poly1305_init_pull(&mut pull_state, &push_header, &key);

        let mut decrypted = vec![0u8; message.len()];
        let mut tag = 0u8;

        crypto_secretstream_xchacha20poly1305_pull(
            &mut pull_state,
            &mut decrypted,
            &mut tag,
            &ciphertext,
            Some(small_aad),
        )
        .expect("pull failed");

        assert_eq!(message.as_slice(), decrypted.as_slice());
        assert_eq!(tag, Tag::MESSAGE.bits());

        // Test with wrong AAD should fail
        let wrong_aad = b"xyz"; // Different 3 byte AAD

        let mut decrypted = vec![0u8; message.len()];
        let mut tag = 0u8;

        assert!(
            crypto_secretstream_xchacha20poly1305_pull(
                &mut pull_state,
                &mut decrypted,
                &mut tag,
                &ciphertext,
                Some(wrong_aad),
            )
            .is_err()
        );
    }
}
