//! # Short-input hashing
//!
//! This module implements libsodium's short input hashing, based on
//! SipHash-2-4.
//!
//! You may want to use short input hashing when:
//!
//! * you need to construct hash tables in a fashion that is collision resistant
//!   (i.e., it's hard for other parties to guess when there may be a hash key
//!   collision, which could lead to DoS or timing attacks)
//! * you want to construct probabilistic data structures, such as bloom filters
//! * you want to perform basic integrity checks on data
//! * you have relatively short inputs
//!
//! The key used with this function should be treated as a secret. If used for
//! constructing hash tables, it's recommended the table size be a prime number
//! to ensure all bits from the output are used.
//!
//! For details, refer to [libsodium docs](https://libsodium.gitbook.io/doc/hashing/short-input_hashing).
//!
//! ## Classic API example
//!
//! ```
//! use dryoc::classic::crypto_shorthash::*;
//! use dryoc::rng::copy_randombytes;
//!
//! // Generate a random key
//! let key = crypto_shorthash_keygen();
//!
//! // Generate some random input data
//! let mut input = vec![0u8; 69];
//! copy_randombytes(&mut input);
//!
//! // Compute the hash, put result into `output`
//! let mut output = Hash::default();
//! crypto_shorthash(&mut output, &input, &key);
//! ```
use crate::constants::{CRYPTO_SHORTHASH_BYTES, CRYPTO_SHORTHASH_KEYBYTES};
use crate::rng::copy_randombytes;
use crate::siphash24::siphash24;

/// Hash type alias for short input hashing.
pub type Hash = [u8; CRYPTO_SHORTHASH_BYTES];
/// Key type alias for short input hashing.
pub type Key = [u8; CRYPTO_SHORTHASH_KEYBYTES];

/// Generates a random key for short input hashing.
pub fn crypto_shorthash_keygen() -> Key {
    let mut key = Key::default();
    copy_randombytes(&mut key);
    key
}

/// Computes a short input hash for `input` and `key`, placing the result into
/// `output`, using SipHash-2-4.
pub fn crypto_shorthash(output: &mut Hash, input: &[u8], key: &Key) {
    siphash24(output, input, key)
}

#[cfg(test)]
mod tests {
    use rand::TryRngCore;

    use super::*;

    #[test]
    fn test_shorthash() {
        use rand_core::OsRng;
        use sodiumoxide::crypto::shorthash;

        for _ in 0..20 {
            let key = crypto_shorthash_keygen();
            let mut input = vec![0u8; (OsRng.try_next_u32().unwrap() % 69) as usize];
            copy_randombytes(&mut input);
            let mut output = Hash::default();

            crypto_shorthash(&mut output, &input, &key);

            let so_output = shorthash::shorthash(
                &input,
                &shorthash::Key::from_slice(&key).expect("so key failed"),
            );

            assert_eq!(output, so_output.0);
        }
    }
}
