//! # Public-key signatures
//!
//! This module implements libsodium's public-key signatures, based on Ed25519.
//!
//! ## Classic API example
//!
//! ```
//! use dryoc::classic::crypto_sign::*;
//! use dryoc::constants::CRYPTO_SIGN_BYTES;
//!
//! // Generate a random signing keypair
//! let (public_key, secret_key) = crypto_sign_keypair();
//! let message = b"These violent delights have violent ends...";
//!
//! // Signed message buffer needs to be correct length
//! let mut signed_message = vec![0u8; message.len() + CRYPTO_SIGN_BYTES];
//!
//! // Sign the message, placing the result into `signed_message`
//! crypto_sign(&mut signed_message, message, &secret_key).expect("sign failed");
//!
//! // Allocate a new buffer for opening the message
//! let mut opened_message = vec![0u8; message.len()];
//!
//! // Open the signed message, verifying the signature
//! crypto_sign_open(&mut opened_message, &signed_message, &public_key).expect("verify failed");
//!
//! assert_eq!(&opened_message, message);
//!
//! // Create an invalid message
//! let mut invalid_signed_message = signed_message.clone();
//! invalid_signed_message[5] = !invalid_signed_message[5];
//!
//! // An invalid message can't be verified
//! crypto_sign_open(&mut opened_message, &invalid_signed_message, &public_key)
//!     .expect_err("open should not succeed");
//! ```
//!
//! ## Classic API example, detached mode
//!
//! ```
//! use dryoc::classic::crypto_sign::*;
//! use dryoc::constants::CRYPTO_SIGN_BYTES;
//!
//! // Generate a random signing keypair
//! let (public_key, secret_key) = crypto_sign_keypair();
//! let message = b"Brevity is the soul of wit.";
//! let mut signature = [0u8; CRYPTO_SIGN_BYTES];
//!
//! // Sign our message
//! crypto_sign_detached(&mut signature, message, &secret_key).expect("sign failed");
//!
//! // Verify the signature
//! crypto_sign_verify_detached(&signature, message, &public_key).expect("verify failed");
//! ```

use super::crypto_sign_ed25519::*;
pub use super::crypto_sign_ed25519::{PublicKey, SecretKey};
use crate::constants::CRYPTO_SIGN_BYTES;
use crate::error::Error;

/// In-place variant of [`crypto_sign_keypair`].
pub fn crypto_sign_keypair_inplace(public_key: &mut PublicKey, secret_key: &mut SecretKey) {
    crypto_sign_ed25519_keypair_inplace(public_key, secret_key)
}

/// In-place variant of [`crypto_sign_seed_keypair`].
pub fn crypto_sign_seed_keypair_inplace(
    public_key: &mut PublicKey,
    secret_key: &mut SecretKey,
    seed: &[u8; 32],
) {
    crypto_sign_ed25519_seed_keypair_inplace(public_key, secret_key, seed)
}

/// Randomly generates a new Ed25519 `(PublicKey, SecretKey)` keypair that can
/// be used for message signing.
pub fn crypto_sign_keypair() -> (PublicKey, SecretKey) {
    crypto_sign_ed25519_keypair()
}

/// Returns a keypair derived from `seed`, which can be used for message
/// signing.
pub fn crypto_sign_seed_keypair(seed: &[u8; 32]) -> (PublicKey, SecretKey) {
    crypto_sign_ed25519_seed_keypair(seed)
}

/// Signs `message`, placing the result into `signed_message`. The length of
/// `signed_message` should be the length of the message plus
/// [`CRYPTO_SIGN_BYTES`].
///
/// This function is compatible with libsodium`s `crypto_sign`, however the
/// `ED25519_NONDETERMINISTIC` feature is not supported.
pub fn crypto_sign(
    signed_message: &mut [u8],
    message: &[u8],
    secret_key: &SecretKey,
) -> Result<(), Error> {
    if signed_message.len() != message.len() + CRYPTO_SIGN_BYTES {
        Err(dryoc_error!(format!(
            "signed_message length incorrect (expect {}, got {})",
            message.len() + CRYPTO_SIGN_BYTES,
            signed_message.len()
        )))
    } else {
        crypto_sign_ed25519(signed_message, message, secret_key)
    }
}

/// Verifies the signature of `signed_message`, placing the result into
/// `message`. The length of `message` should be the length of the signed
/// message minus [`CRYPTO_SIGN_BYTES`].
///
/// This function is compatible with libsodium`s `crypto_sign_open`, however the
/// `ED25519_NONDETERMINISTIC` feature is not supported.
pub fn crypto_sign_open(
    message: &mut [u8],
    signed_message: &[u8],
    public_key: &PublicKey,
) -> Result<(), Error> {
    if signed_message.len() < CRYPTO_SIGN_BYTES {
        Err(dryoc_error!(format!(
            "signed_message length invalid ({} < {})",
            signed_message.len(),
            CRYPTO_SIGN_BYTES,
        )))
    } else if message.len() != signed_message.len() - CRYPTO_SIGN_BYTES {
        Err(dryoc_error!(format!(
            "message length incorrect (expect {}, got {})",
            signed_message.len() - CRYPTO_SIGN_BYTES,
            message.len()
        )))
    } else {
        crypto_sign_ed25519_open(message, signed_message, public_key)
    }
}

/// Signs `message`, placing the signature into `signature` upon success.
/// Detached variant of [`crypto_sign_open`].
///
/// This function is compatible with libsodium`s `crypto_sign_detached`, however
/// the `ED25519_NONDETERMINISTIC` feature is not supported.
pub fn crypto_sign_detached(
    signature: &mut Signature,
    message: &[u8],
    secret_key: &SecretKey,
) -> Result<(), Error> {
    crypto_sign_ed25519_detached(signature, message, secret_key)
}

/// Verifies that `signature` is a valid signature for `message` using the given
/// `public_key`.
///
/// This function is compatible with libsodium`s `crypto_sign_verify_detached`,
/// however the `ED25519_NONDETERMINISTIC` feature is not supported.
pub fn crypto_sign_verify_detached(
    signature: &Signature,
    message: &[u8],
    public_key: &PublicKey,
) -> Result<(), Error> {
    crypto_sign_ed25519_verify_detached(signature, message, public_key)
}

/// State for incremental signing interface.
pub struct SignerState {
    state: Ed25519SignerState,
}

/// Initializes the incremental signing interface.
pub fn crypto_sign_init() -> SignerState {
    SignerState {
        state: crypto_sign_ed25519ph_init(),
    }
}

/// Updates the signature for `state` with `message`.
pub fn crypto_sign_update(state: &mut SignerState, message: &[u8]) {
    crypto_sign_ed25519ph_update(&mut state.state, message)
}

/// Finalizes the incremental signature for `state`, using `secret_key`, copying
/// the result into `signature` upon success, and consuming the state.
pub fn crypto_sign_final_create(
    state: SignerState,
    signature: &mut Signature,
    secret_key: &SecretKey,
) -> Result<(), Error> {
    crypto_sign_ed25519ph_final_create(state.state, signature, secret_key)
}

/// Verifies the computed signature for `state` and `public_key` matches
/// `signature`, consuming the state.
pub fn crypto_sign_final_verify(
    state: SignerState,
    signature: &Signature,
    public_key: &PublicKey,
) -> Result<(), Error> {
    crypto_sign_ed25519ph_final_verify(state.state, signature, public_key)
}

#[cfg(test)]
mod tests {
    use super::*;

    #[test]
    fn test_crypto_sign() {
        use base64::Engine as _;
        use base64::engine::general_purpose;
        use sodiumoxide::crypto::sign;

        for _ in 0..10 {
            let (public_key, secret_key) = crypto_sign_keypair();
            let message = b"important message";
            let mut signed_message = vec![0u8; message.len() + CRYPTO_SIGN_BYTES];
            crypto_sign(&mut signed_message, message, &secret_key).expect("sign failed");

            let so_signed_message = sign::sign(
                message,
                &sign::SecretKey::from_slice(&secret_key).expect("secret key failed"),
            );

            assert_eq!(
                general_purpose::STANDARD.encode(&signed_message),
                general_purpose::STANDARD.encode(&so_signed_message)
            );

            let so_m = sign::verify(
                &signed_message,
                &sign::PublicKey::from_slice(&public_key).expect("public key failed"),
            )
            .expect("verify failed");

            assert_eq!(so_m, message);
        }
    }

    #[test]
    fn test_crypto_sign_open() {
        use base64::Engine as _;
        use base64::engine::general_purpose;
        use sodiumoxide::crypto::sign;

        for _ in 0..10 {
            let (public_key, secret_key) = crypto_sign_keypair();
            let message = b"important message";
            let mut signed_message = vec![0u8; message.len() + CRYPTO_SIGN_BYTES];
            crypto_sign(&mut signed_message, message, &secret_key).expect("sign failed");

            let so_signed_message = sign::sign(
                message,
                &sign::SecretKey::from_slice(&secret_key).expect("secret key failed"),
            );

            assert_eq!(
                general_purpose::STANDARD.encode(&signed_message),
                general_purpose::STANDARD.encode(&so_signed_message)
            );

            let so_m = sign::verify(
                &signed_message,
                &sign::PublicKey::from_slice(&public_key).expect("public key failed"),
            )
            .expect("verify failed");

            assert_eq!(so_m, message);

            let mut opened_message = vec![0u8; message.len()];

            crypto_sign_open(&mut opened_message, &signed_message, &public_key)
                .expect("verify failed");

            assert_eq!(opened_message, message);
        }
    }

    #[test]
    fn test_crypto_sign_detached() {
        use sodiumoxide::crypto::sign;

        for _ in 0..10 {
            let (public_key, secret_key) = crypto_sign_keypair();
            let message = b"important message";
            let mut signature = [0u8; CRYPTO_SIGN_BYTES];
            crypto_sign_detached(&mut signature, message, &secret_key).expect("sign failed");

            assert!(sign::verify_detached(
                &sign::ed25519::Signature::from_bytes(&signature).expect("secret key failed"),
                message,
                &sign::PublicKey::from_slice(&public_key).expect("public key failed"),
            ));

            crypto_sign_verify_detached(&signature, message, &public_key).expect("verify failed");
        }
    }

    #[test]
    fn test_crypto_sign_incremental() {
        use sodiumoxide::crypto::sign;

        use crate::rng::copy_randombytes;

        for _ in 0..10 {
            let (public_key, secret_key) = crypto_sign_keypair();
            let mut signer = crypto_sign_init();
            let mut verifier = crypto_sign_init();

            let mut so_signer = sign::State::init();
            let mut so_verifier = sign::State::init();

            for _ in 0..3 {
                let mut randos = vec![0u8; 100];
                copy_randombytes(&mut randos);

                crypto_sign_update(&mut signer, &randos);
                crypto_sign_update(&mut verifier, &randos);

                so_signer.update(&randos);
                so_verifier.update(&randos);
            }

            let mut signature = [0u8; CRYPTO_SIGN_BYTES];
            crypto_sign_final_create(signer, &mut signature, &secret_key)
                .expect("final create failed");

            let so_signature = so_signer
                .finalize(&sign::SecretKey::from_slice(&secret_key).expect("secret key failed"));

            assert_eq!(signature, so_signature.to_bytes());

            crypto_sign_final_verify(verifier, &so_signature.to_bytes(), &public_key)
                .expect("verify failed");

            assert!(so_signer.verify(
                &sign::ed25519::Signature::from_bytes(&signature).expect("secret key failed"),
                &sign::PublicKey::from_slice(&public_key).expect("public key failed"),
            ));
        }
    }
}
