//! # Ed25519 to Curve25519 conversion
//!
//! This module implements libsodium's Ed25519 to Curve25519 conversion
//! functions. You can use these functions when you want to sign messages with
//! the same keys used to encrypt messages (i.e., using a public-key box).
//!
//! Generally speaking, you should avoid signing and encrypting with the same
//! keypair. Additionally, an encrypted box doesn't need to be separately signed
//! as it already includes a message authentication code.

use curve25519_dalek::constants::ED25519_BASEPOINT_TABLE;
use curve25519_dalek::edwards::{CompressedEdwardsY, EdwardsPoint};
use curve25519_dalek::scalar::Scalar;
use zeroize::Zeroize;

use crate::constants::{
    CRYPTO_HASH_SHA512_BYTES, CRYPTO_SCALARMULT_CURVE25519_BYTES,
    CRYPTO_SCALARMULT_CURVE25519_SCALARBYTES, CRYPTO_SIGN_ED25519_BYTES,
    CRYPTO_SIGN_ED25519_PUBLICKEYBYTES, CRYPTO_SIGN_ED25519_SECRETKEYBYTES,
    CRYPTO_SIGN_ED25519_SEEDBYTES,
};
use crate::error::Error;
use crate::sha512::Sha512;

/// Type alias for an Ed25519 public key.
pub type PublicKey = [u8; CRYPTO_SIGN_ED25519_PUBLICKEYBYTES];
/// Type alias for an Ed25519 secret key with seed bytes.
pub type SecretKey = [u8; CRYPTO_SIGN_ED25519_SECRETKEYBYTES];
/// Type alias for an Ed25519 signature.
pub type Signature = [u8; CRYPTO_SIGN_ED25519_BYTES];

const DOM2PREFIX: &[u8] = b"SigEd25519 no Ed25519 collisions\x01\x00";

/// In-place variant of [`crypto_sign_ed25519_seed_keypair`].
#[inline]
pub(crate) fn crypto_sign_ed25519_seed_keypair_inplace(
    public_key: &mut PublicKey,
    secret_key: &mut SecretKey,
    seed: &[u8; CRYPTO_SIGN_ED25519_SEEDBYTES],
) {
    let hash: [u8; CRYPTO_HASH_SHA512_BYTES] = Sha512::compute(seed);

    let mut sk = Scalar::from_bytes_mod_order(clamp_hash(hash));

    let pk = (ED25519_BASEPOINT_TABLE * &sk).compress();
    secret_key[..CRYPTO_SIGN_ED25519_SEEDBYTES].copy_from_slice(seed);
    secret_key[CRYPTO_SIGN_ED25519_SEEDBYTES..].copy_from_slice(pk.as_bytes());

    public_key.copy_from_slice(pk.as_bytes());

    sk.zeroize();
}

/// Generates an Ed25519 keypair from `seed` which can be used for signing
/// messages.
pub(crate) fn crypto_sign_ed25519_seed_keypair(
    seed: &[u8; CRYPTO_SIGN_ED25519_SEEDBYTES],
) -> (PublicKey, SecretKey) {
    let mut public_key = PublicKey::default();
    let mut secret_key = [0u8; CRYPTO_SIGN_ED25519_SECRETKEYBYTES];

    crypto_sign_ed25519_seed_keypair_inplace(&mut public_key, &mut secret_key, seed);

    (public_key, secret_key)
}

/// In-place variant of [`crypto_sign_ed25519_keypair`].
#[inline]
pub(crate) fn crypto_sign_ed25519_keypair_inplace(
    public_key: &mut PublicKey,
    secret_key: &mut SecretKey,
) {
    use crate::rng::copy_randombytes;
    let mut seed = [0u8; CRYPTO_SIGN_ED25519_SEEDBYTES];
    copy_randombytes(&mut seed);
    crypto_sign_ed25519_seed_keypair_inplace(public_key, secret_key, &seed)
}

/// Generates a random Ed25519 keypair which can be used for signing
/// messages.
pub(crate) fn crypto_sign_ed25519_keypair() -> (PublicKey, SecretKey) {
    let mut public_key = PublicKey::default();
    let mut secret_key = [0u8; CRYPTO_SIGN_ED25519_SECRETKEYBYTES];
    crypto_sign_ed25519_keypair_inplace(&mut public_key, &mut secret_key);

    (public_key, secret_key)
}

fn clamp_hash(
    mut hash: [u8; CRYPTO_HASH_SHA512_BYTES],
) -> [u8; CRYPTO_SCALARMULT_CURVE25519_SCALARBYTES] {
    let mut scalar = [0u8; CRYPTO_SCALARMULT_CURVE25519_SCALARBYTES];
    scalar.copy_from_slice(&hash[..CRYPTO_SCALARMULT_CURVE25519_SCALARBYTES]);
    hash.zeroize();
    scalar[0] &= 248;
    scalar[31] &= 127;
    scalar[31] |= 64;
    scalar
}

/// Converts an Ed25519 public key `ed25519_public_key` into an X25519 public
/// key, placing the result into `x25519_public_key` upon success.
///
/// Compatible with libsodium's `crypto_sign_ed25519_pk_to_curve25519`
pub fn crypto_sign_ed25519_pk_to_curve25519(
    x25519_public_key: &mut [u8; CRYPTO_SCALARMULT_CURVE25519_BYTES],
    ed25519_public_key: &PublicKey,
) -> Result<(), Error> {
    let ep = CompressedEdwardsY(*ed25519_public_key)
        .decompress()
        .ok_or_else(|| dryoc_error!("failed to convert to Edwards point"))?;
    x25519_public_key.copy_from_slice(ep.to_montgomery().as_bytes());

    Ok(())
}

/// Converts an Ed25519 secret key `ed25519_secret_key` into an X25519 secret
/// key key, placing the result into `x25519_secret_key`.
///
/// Compatible with libsodium's `crypto_sign_ed25519_sk_to_curve25519`
pub fn crypto_sign_ed25519_sk_to_curve25519(
    x25519_secret_key: &mut [u8; CRYPTO_SCALARMULT_CURVE25519_BYTES],
    ed25519_secret_key: &SecretKey,
) {
    let hash: [u8; CRYPTO_HASH_SHA512_BYTES] = Sha512::compute(&ed25519_secret_key[..32]);
    let mut scalar = clamp_hash(hash);
    x25519_secret_key.copy_from_slice(&scalar);
    scalar.zeroize()
}

pub(crate) fn crypto_sign_ed25519(
    signed_message: &mut [u8],
    message: &[u8],
    secret_key: &SecretKey,
) -> Result<(), Error> {
    if signed_message.len() != message.len() + CRYPTO_SIGN_ED25519_BYTES {
        Err(dryoc_error!(format!(
            "signed_message length incorrect (expect {}, got {})",
            message.len() + CRYPTO_SIGN_ED25519_BYTES,
            signed_message.len()
        )))
    } else {
        let (sig, sm) = signed_message.split_at_mut(CRYPTO_SIGN_ED25519_BYTES);
        let sig: &mut [u8; CRYPTO_SIGN_ED25519_BYTES] =
            <&mut [u8; CRYPTO_SIGN_ED25519_BYTES]>::try_from(sig).unwrap();
        sm.copy_from_slice(message);
        crypto_sign_ed25519_detached(sig, message, secret_key)
    }
}

pub(crate) fn crypto_sign_ed25519_detached(
    signature: &mut Signature,
    message: &[u8],
    secret_key: &SecretKey,
) -> Result<(), Error> {
    crypto_sign_ed25519_detached_impl(signature, message, secret_key, false)
}

#[inline]
fn crypto_sign_ed25519_detached_impl(
    signature: &mut Signature,
    message: &[u8],
    secret_key: &SecretKey,
    prehashed: bool,
) -> Result<(), Error> {
    if signature.len() != CRYPTO_SIGN_ED25519_BYTES {
        Err(dryoc_error!(format!(
            "signature length incorrect (expect {}, got {})",
            CRYPTO_SIGN_ED25519_BYTES,
            signature.len()
        )))
    } else {
        let mut az: [u8; CRYPTO_HASH_SHA512_BYTES] = Sha512::compute(&secret_key[..32]);

        let mut hasher = Sha512::new();
        if prehashed {
            hasher.update(DOM2PREFIX);
        }
        hasher.update(&az[32..]);
        hasher.update(message);
        let mut nonce: [u8; CRYPTO_HASH_SHA512_BYTES] = hasher.finalize();

        signature[32..].copy_from_slice(&secret_key[32..]);

        let r = Scalar::from_bytes_mod_order_wide(&nonce);
        let big_r = (ED25519_BASEPOINT_TABLE * &r).compress();

        signature[..32].copy_from_slice(big_r.as_bytes());

        let mut hasher = Sha512::new();
        if prehashed {
            hasher.update(DOM2PREFIX);
        }
        hasher.update(signature);
        hasher.update(message);
        let hram: [u8; CRYPTO_HASH_SHA512_BYTES] = hasher.finalize();

        let k = Scalar::from_bytes_mod_order_wide(&hram);
        let clamped = clamp_hash(az);
        let sig = (k * Scalar::from_bytes_mod_order(clamped)) + r;

        signature[32..].copy_from_slice(sig.as_bytes());

        az.zeroize();
        nonce.zeroize();

        Ok(())
    }
}

pub(crate) fn crypto_sign_ed25519_verify_detached(
    signature: &Signature,
    message: &[u8],
    public_key: &PublicKey,
) -> Result<(), Error> {
    crypto_sign_ed25519_verify_detached_impl(signature, message, public_key, false)
}

fn crypto_sign_ed25519_verify_detached_impl(
    signature: &Signature,
    message: &[u8],
    public_key: &PublicKey,
    prehashed: bool,
) -> Result<(), Error> {
    let s: Scalar = Option::from(Scalar::from_canonical_bytes(
        *<&[u8; CRYPTO_SCALARMULT_CURVE25519_SCALARBYTES]>::try_from(&signature[32..])
            .map_err(|_| dryoc_error!("bad signature"))?,
    ))
    .ok_or_else(|| dryoc_error!("bad signature"))?;
    let big_r = CompressedEdwardsY::from_slice(&signature[..32])?
        .decompress()
        .ok_or_else(|| dryoc_error!("bad signature"))?;
    if big_r.is_small_order() {
        return Err(dryoc_error!("bad signature"));
    }
    let pk = CompressedEdwardsY::from_slice(public_key)?
        .decompress()
        .ok_or_else(|| dryoc_error!("bad public key"))?;
    if pk.is_small_order() {
        return Err(dryoc_error!("bad public key"));
    }

    let mut hasher = Sha512::new();
    if prehashed {
        hasher.update(DOM2PREFIX);
    }
    hasher.update(&signature[..32]);
    hasher.update(public_key);
    hasher.update(message);
    let h: [u8; CRYPTO_HASH_SHA512_BYTES] = hasher.finalize();

    let k = Scalar::from_bytes_mod_order_wide(&h);

    let sig_r = EdwardsPoint::vartime_double_scalar_mul_basepoint(&k, &(-pk), &s);

    if sig_r == big_r {
        Ok(())
    } else {
        Err(dryoc_error!("bad signature"))
    }
}

pub(crate) fn crypto_sign_ed25519_open(
    message: &mut [u8],
    signed_message: &[u8],
    public_key: &PublicKey,
) -> Result<(), Error> {
    if signed_message.len() < CRYPTO_SIGN_ED25519_BYTES {
        Err(dryoc_error!(format!(
            "signed_message length invalid ({} < {})",
            signed_message.len(),
            CRYPTO_SIGN_ED25519_BYTES,
        )))
    } else if message.len() != signed_message.len() - CRYPTO_SIGN_ED25519_BYTES {
        Err(dryoc_error!(format!(
            "message length incorrect (expect {}, got {})",
            signed_message.len() - CRYPTO_SIGN_ED25519_BYTES,
            message.len()
        )))
    } else {
        let (sig, sm) = signed_message.split_at(CRYPTO_SIGN_ED25519_BYTES);
        let sig: &[u8; CRYPTO_SIGN_ED25519_BYTES] =
            <&[u8; CRYPTO_SIGN_ED25519_BYTES]>::try_from(sig).unwrap();
        crypto_sign_ed25519_verify_detached(sig, sm, public_key)?;
        message.copy_from_slice(sm);
        Ok(())
    }
}

pub(crate) struct Ed25519SignerState {
    hasher: Sha512,
}

pub(crate) fn crypto_sign_ed25519ph_init() -> Ed25519SignerState {
    Ed25519SignerState {
        hasher: Sha512::new(),
    }
}

pub(crate) fn crypto_sign_ed25519ph_update(state: &mut Ed25519SignerState, message: &[u8]) {
    state.hasher.update(message)
}

pub(crate) fn crypto_sign_ed25519ph_final_create(
    state: Ed25519SignerState,
    signature: &mut Signature,
    secret_key: &SecretKey,
) -> Result<(), Error> {
    let mut hash: [u8; CRYPTO_HASH_SHA512_BYTES] = state.hasher.finalize();
    let res = crypto_sign_ed25519_detached_impl(signature, &hash, secret_key, true);
    hash.zeroize();
    res
}

pub(crate) fn crypto_sign_ed25519ph_final_verify(
    state: Ed25519SignerState,
    signature: &Signature,
    public_key: &PublicKey,
) -> Result<(), Error> {
    let mut hash: [u8; CRYPTO_HASH_SHA512_BYTES] = state.hasher.finalize();
    let res = crypto_sign_ed25519_verify_detached_impl(signature, &hash, public_key, true);
    hash.zeroize();
    res
}

#[cfg(test)]
mod tests {
    use base64::Engine as _;
    use base64::engine::general_purpose;

    use super::*;
    use crate::rng::copy_randombytes;

    #[test]
    fn test_keypair_seed() {
        use sodiumoxide::crypto::sign;

        for _ in 0..10 {
            let mut seed = [0u8; CRYPTO_SIGN_ED25519_SEEDBYTES];
            copy_randombytes(&mut seed);

            let (pk, sk) = crypto_sign_ed25519_seed_keypair(&seed);

            let (so_pk, so_sk) =
                sign::keypair_from_seed(&sign::Seed::from_slice(&seed).expect("seed failed"));

            assert_eq!(
                general_purpose::STANDARD.encode(pk),
                general_purpose::STANDARD.encode(so_pk.0)
            );
            assert_eq!(
                general_purpose::STANDARD.encode(sk),
                general_purpose::STANDARD.encode(so_sk.0)
            );
        }
    }

    #[test]
    fn test_() {
        use libsodium_sys::{
            crypto_sign_ed25519_pk_to_curve25519 as so_crypto_sign_ed25519_pk_to_curve25519,
            crypto_sign_ed25519_sk_to_curve25519 as so_crypto_sign_ed25519_sk_to_curve25519,
        };

        for _ in 0..10 {
            let (pk, sk) = crypto_sign_ed25519_keypair();
            let mut xpk = [0u8; CRYPTO_SCALARMULT_CURVE25519_BYTES];
            let mut xsk = [0u8; CRYPTO_SCALARMULT_CURVE25519_SCALARBYTES];
            crypto_sign_ed25519_pk_to_curve25519(&mut xpk, &pk).expect("pk failed");
            crypto_sign_ed25519_sk_to_curve25519(&mut xsk, &sk);

            let mut so_xpk = [0u8; CRYPTO_SCALARMULT_CURVE25519_BYTES];
            let mut so_xsk = [0u8; CRYPTO_SCALARMULT_CURVE25519_SCALARBYTES];

            unsafe {
                so_crypto_sign_ed25519_pk_to_curve25519(so_xpk.as_mut_ptr(), pk.as_ptr());
                so_crypto_sign_ed25519_sk_to_curve25519(so_xsk.as_mut_ptr(), sk.as_ptr());
            }

            assert_eq!(
                general_purpose::STANDARD.encode(xpk),
                general_purpose::STANDARD.encode(so_xpk)
            );
            assert_eq!(
                general_purpose::STANDARD.encode(xsk),
                general_purpose::STANDARD.encode(so_xsk)
            );
        }
    }
}
