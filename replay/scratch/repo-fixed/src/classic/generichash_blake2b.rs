use crate::blake2b;
use crate::constants::{
    CRYPTO_GENERICHASH_BLAKE2B_BYTES_MAX, CRYPTO_GENERICHASH_BLAKE2B_BYTES_MIN,
    CRYPTO_GENERICHASH_BLAKE2B_KEYBYTES_MAX, CRYPTO_GENERICHASH_BLAKE2B_KEYBYTES_MIN,
    CRYPTO_GENERICHASH_BLAKE2B_PERSONALBYTES, CRYPTO_GENERICHASH_BLAKE2B_SALTBYTES,
};
use crate::error::Error;

#[inline]
pub(crate) fn crypto_generichash_blake2b_validate_key(key: Option<&[u8]>) -> Result<(), Error> {
    match key {
        Some(key) => {
            if key.len() < CRYPTO_GENERICHASH_BLAKE2B_KEYBYTES_MIN
                || key.len() > CRYPTO_GENERICHASH_BLAKE2B_KEYBYTES_MAX
            {
                return Err(dryoc_error!(format!(
                    "key length is {}, should be at least {} and less than {} bytes",
                    key.len(),
                    CRYPTO_GENERICHASH_BLAKE2B_KEYBYTES_MIN,
                    CRYPTO_GENERICHASH_BLAKE2B_KEYBYTES_MAX
                )));
            }
            Ok(())
        }
        None => Ok(()),
    }
}

#[inline]
pub(crate) fn crypto_generichash_blake2b_validate_outlen(outlen: usize) -> Result<(), Error> {
    if !(CRYPTO_GENERICHASH_BLAKE2B_BYTES_MIN..=CRYPTO_GENERICHASH_BLAKE2B_BYTES_MAX)
        .contains(&outlen)
    {
        return Err(dryoc_error!(format!(
            "output length is {}, expected at least {} and less than {} bytes",
            outlen, CRYPTO_GENERICHASH_BLAKE2B_BYTES_MIN, CRYPTO_GENERICHASH_BLAKE2B_BYTES_MAX
        )));
    }
    Ok(())
}

#[inline]
pub(crate) fn crypto_generichash_blake2b(
    output: &mut [u8],
    input: &[u8],
    key: Option<&[u8]>,
) -> Result<(), Error> {
    crypto_generichash_blake2b_validate_outlen(output.len())?;
    crypto_generichash_blake2b_validate_key(key)?;

    blake2b::hash(output, input, key)
}

#[inline]
pub(crate) fn crypto_generichash_blake2b_init(
    key: Option<&[u8]>,
    outlen: usize,
    salt: Option<&[u8; CRYPTO_GENERICHASH_BLAKE2B_SALTBYTES]>,
    personal: Option<&[u8; CRYPTO_GENERICHASH_BLAKE2B_PERSONALBYTES]>,
) -> Result<blake2b::State, Error> {
    crypto_generichash_blake2b_validate_outlen(outlen)?;
    crypto_generichash_blake2b_validate_key(key)?;

    blake2b::State::init(outlen as u8, key, salt, personal)
}

#[inline]
pub(crate) fn crypto_generichash_blake2b_update(state: &mut blake2b::State, input: &[u8]) {
    state.update(input)
}

#[inline]
pub(crate) fn crypto_generichash_blake2b_final(
    state: blake2b::State,
    output: &mut [u8],
) -> Result<(), Error> {
    state.finalize(output)
}
