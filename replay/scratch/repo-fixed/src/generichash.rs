//! # Generic hashing
//!
//! [`GenericHash`] implements libsodium's generic hashing, based on the Blake2b
//! algorithm. Can also be used as an HMAC function, if a key is provided.
//!
//! # Rustaceous API example, one-time interface
//!
//! ```
//! use base64::Engine as _;
//! use base64::engine::general_purpose;
//! use dryoc::generichash::{GenericHash, Key};
//!
//! // NOTE: The type for `key` param must be specified, the compiler cannot infer it when
//! // we pass `None`.
//! let hash =
//!     GenericHash::hash_with_defaults_to_vec::<_, Key>(b"hello", None).expect("hash failed");
//!
//! assert_eq!(
//!     general_purpose::STANDARD.encode(&hash),
//!     "Mk3PAn3UowqTLEQfNlol6GsXPe+kuOWJSCU0cbgbcs8="
//! );
//! ```
//!
//! # Rustaceous API example, incremental interface
//!
//! ```
//! use base64::Engine as _;
//! use base64::engine::general_purpose;
//! use dryoc::generichash::{GenericHash, Key};
//!
//! // The compiler cannot infer the `Key` type, so we pass it below.
//! let mut hasher = GenericHash::new_with_defaults::<Key>(None).expect("new failed");
//! hasher.update(b"hello");
//! let hash = hasher.finalize_to_vec().expect("finalize failed");
//!
//! assert_eq!(
//!     general_purpose::STANDARD.encode(&hash),
//!     "Mk3PAn3UowqTLEQfNlol6GsXPe+kuOWJSCU0cbgbcs8="
//! );
//! ```

use crate::classic::crypto_generichash::{
    GenericHashState, crypto_generichash, crypto_generichash_final, crypto_generichash_init,
    crypto_generichash_update,
};
use crate::constants::{CRYPTO_GENERICHASH_BYTES, CRYPTO_GENERICHASH_KEYBYTES};
use crate::error::Error;
pub use crate::types::*;

/// Stack-allocated hash output of the recommended output length.
pub type Hash = StackByteArray<CRYPTO_GENERICHASH_BYTES>;
/// Stack-allocated secret key for use with the generic hash algorithm.
pub type Key = StackByteArray<CRYPTO_GENERICHASH_KEYBYTES>;

#[cfg(any(feature = "nightly", all(doc, not(doctest))))]
#[cfg_attr(all(feature = "nightly", doc), doc(cfg(feature = "nightly")))]
pub mod protected {
    //! #  Protected memory type aliases for [`GenericHash`]
    //!
    //! This mod provides re-exports of type aliases for protected memory usage
    //! with [`GenericHash`]. These type aliases are provided for
    //! convenience.
    //!
    //! ## Example
    //!
    //! ```
    //! use dryoc::generichash::GenericHash;
    //! use dryoc::generichash::protected::*;
    //!
    //! // Create a randomly generated key, lock it, protect it as read-only
    //! let key = Key::gen_readonly_locked().expect("gen failed");
    //! let input =
    //!     HeapBytes::from_slice_into_readonly_locked(b"super secret input").expect("input failed");
    //! let hash: Locked<Hash> = GenericHash::hash(&input, Some(&key)).expect("hash failed");
    //! ```
    use super::*;
    pub use crate::protected::*;

    /// Heap-allocated, page-aligned secret key for the generic hash algorithm,
    /// for use with protected memory.
    pub type Key = HeapByteArray<CRYPTO_GENERICHASH_KEYBYTES>;
    /// Heap-allocated, page-aligned hash output for the generic hash algorithm,
    /// for use with protected memory.
    pub type Hash = HeapByteArray<CRYPTO_GENERICHASH_BYTES>;
}

/// Provides a generic hash function implementation based on Blake2b. Compatible
/// with libsodium's generic hash.
pub struct GenericHash<const KEY_LENGTH: usize, const OUTPUT_LENGTH: usize> {
    state: GenericHashState,
}

impl<const KEY_LENGTH: usize, const OUTPUT_LENGTH: usize> GenericHash<KEY_LENGTH, OUTPUT_LENGTH> {
    /// Returns a new hasher instance, with `key`.
    pub fn new<Key: ByteArray<KEY_LENGTH>>(key: Option<&Key>) -> Result<Self, Error> {
        Ok(Self {
            state: crypto_generichash_init(key.map(|k| k.as_slice()), OUTPUT_LENGTH)?,
        })
    }

    /// Updates the hasher state from `input`.
    pub fn update<Input: Bytes + ?Sized>(&mut self, input: &Input) {
        crypto_generichash_update(&mut self.state, input.as_slice())
    }

    /// Computes and returns the final hash value.
    pub fn finalize<Output: NewByteArray<OUTPUT_LENGTH>>(self) -> Result<Output, Error> {
        let mut output = Output::new_byte_array();

        crypto_generichash_final(self.state, output.as_mut_slice())?;

        Ok(output)
    }

    /// Computes and returns the final hash value as a [`Vec`]. Provided for
    /// convenience.
    pub fn finalize_to_vec(self) -> Result<Vec<u8>, Error> {
        self.finalize()
    }

    /// Onet-time interface for the generic hash function. Computes the hash for
    /// `input` with optional `key`. The output length is determined by the type
    /// signature of `Output`.
    ///
    /// # Example
    ///
    /// ```
    /// use base64::Engine as _;
    /// use base64::engine::general_purpose;
    /// use dryoc::generichash::{GenericHash, Hash};
    ///
    /// let output: Hash =
    ///     GenericHash::hash(b"hello", Some(b"a very secret key")).expect("hash failed");
    ///
    /// assert_eq!(
    ///     general_purpose::STANDARD.encode(&output),
    ///     "AECDe+XJsB6nOkbCsbS/OPXdzpcRm3AolW/Bg1LFY9A="
    /// );
    /// ```
    pub fn hash<
        Input: Bytes + ?Sized,
        Key: ByteArray<KEY_LENGTH>,
        Output: NewByteArray<OUTPUT_LENGTH>,
    >(
        input: &Input,
        key: Option<&Key>,
    ) -> Result<Output, Error> {
        let mut output = Output::new_byte_array();
        crypto_generichash(
            output.as_mut_slice(),
            input.as_slice(),
            key.map(|k| k.as_slice()),
        )?;
        Ok(output)
    }

    /// Convenience wrapper for [`GenericHash::hash`].
    pub fn hash_to_vec<Input: Bytes, Key: ByteArray<KEY_LENGTH>>(
        input: &Input,
        key: Option<&Key>,
    ) -> Result<Vec<u8>, Error> {
        Self::hash(input, key)
    }
}

impl GenericHash<CRYPTO_GENERICHASH_KEYBYTES, CRYPTO_GENERICHASH_BYTES> {
    /// Returns an instance of [`GenericHash`] with the default output and key
    /// length parameters.
    pub fn new_with_defaults<Key: ByteArray<CRYPTO_GENERICHASH_KEYBYTES>>(
        key: Option<&Key>,
    ) -> Result<Self, Error> {
        Ok(Self {
            state: crypto_generichash_init(key.map(|k| k.as_slice()), CRYPTO_GENERICHASH_BYTES)?,
        })
    }

    /// Hashes `input` using `key`, with the default length parameters. Provided
    /// for convenience.
    pub fn hash_with_defaults<
        Input: Bytes + ?Sized,
        Key: ByteArray<CRYPTO_GENERICHASH_KEYBYTES>,
        Output: NewByteArray<CRYPTO_GENERICHASH_BYTES>,
    >(
        input: &Input,
        key: Option<&Key>,
    ) -> Result<Output, Error> {
        Self::hash(input, key)
    }

    /// Hashes `input` using `key`, with the default length parameters,
    /// returning a [`Vec`]. Provided for convenience.
    pub fn hash_with_defaults_to_vec<
        Input: Bytes + ?Sized,
        Key: ByteArray<CRYPTO_GENERICHASH_KEYBYTES>,
    >(
        input: &Input,
        key: Option<&Key>,
    ) -> Result<Vec<u8>, Error> {
        Self::hash(input, key)
    }
}

#[cfg(test)]
mod tests {
    use super::*;

    #[test]
    fn test_generichash() {
        use base64::Engine as _;
        use base64::engine::general_purpose;

        let mut hasher = GenericHash::new_with_defaults::<Key>(None).expect("new hash failed");
        hasher.update(b"hello");

        let output: Vec<u8> = hasher.finalize().expect("finalize failed");

        assert_eq!(
            general_purpose::STANDARD.encode(output),
            "Mk3PAn3UowqTLEQfNlol6GsXPe+kuOWJSCU0cbgbcs8="
        );

        let mut hasher = GenericHash::new_with_defaults::<Key>(None).expect("new hash failed");
        hasher.update(b"hello");

        let output = hasher.finalize_to_vec().expect("finalize failed");

        assert_eq!(
            general_purpose::STANDARD.encode(output),
            "Mk3PAn3UowqTLEQfNlol6GsXPe+kuOWJSCU0cbgbcs8="
        );
    }

    #[test]
    fn test_generichash_onetime() {
        use base64::Engine as _;
        use base64::engine::general_purpose;

        let output: Hash =
            GenericHash::hash(b"hello", Some(b"a very secret key")).expect("hash failed");

        assert_eq!(
            general_purpose::STANDARD.encode(&output),
            "AECDe+XJsB6nOkbCsbS/OPXdzpcRm3AolW/Bg1LFY9A="
        );

        let output: Vec<u8> =
            GenericHash::hash_with_defaults::<_, Key, _>(b"hello", None).expect("hash failed");

        assert_eq!(
            general_purpose::STANDARD.encode(output),
            "Mk3PAn3UowqTLEQfNlol6GsXPe+kuOWJSCU0cbgbcs8="
        );

        let output =
            GenericHash::hash_with_defaults_to_vec::<_, Key>(b"hello", None).expect("hash failed");

        assert_eq!(
            general_purpose::STANDARD.encode(output),
            "Mk3PAn3UowqTLEQfNlol6GsXPe+kuOWJSCU0cbgbcs8="
        );
    }
    #[test]
    fn test_generichash_onetime_empty() {
        use base64::Engine as _;
        use base64::engine::general_purpose;

        let output =
            GenericHash::hash_with_defaults_to_vec::<_, Key>(&[], None).expect("hash failed");

        assert_eq!(
            general_purpose::STANDARD.encode(output),
            "DldRwCblQ7Loqy6wYJnaodHl30d3j3eH+qtFzfEv46g="
        );
    }

    #[test]
    fn test_vectors() {
        let test_vec = |input, key, hash| {
            let input = hex::decode(input).expect("decode input");
            let key = hex::decode(key).expect("decode key");
            let expected_hash = hex::decode(hash).expect("decode hash");

            let hash: Vec<u8> =
                GenericHash::<64, 64>::hash(&input, Some(&key)).expect("hash failed");

            assert_eq!(expected_hash, hash);
        };

        test_vec("", "000102030405060708090a0b0c0d0e0f101112131415161718191a1b1c1d1e1f202122232425262728292a2b2c2d2e2f303132333435363738393a3b3c3d3e3f", "10ebb67700b1868efb4417987acf4690ae9d972fb7a590c2f02871799aaa4786b5e996e8f0f4eb981fc214b005f42d2ff4233499391653df7aefcbc13fc51568");
        test_vec("00", "000102030405060708090a0b0c0d0e0f101112131415161718191a1b1c1d1e1f202122232425262728292a2b2c2d2e2f303132333435363738393a3b3c3d3e3f", "961f6dd1e4dd30f63901690c512e78e4b45e4742ed197c3c5e45c549fd25f2e4187b0bc9fe30492b16b0d0bc4ef9b0f34c7003fac09a5ef1532e69430234cebd");
        test_vec("0001", "000102030405060708090a0b0c0d0e0f101112131415161718191a1b1c1d1e1f202122232425262728292a2b2c2d2e2f303132333435363738393a3b3c3d3e3f", "da2cfbe2d8409a0f38026113884f84b50156371ae304c4430173d08a99d9fb1b983164a3770706d537f49e0c916d9f32b95cc37a95b99d857436f0232c88a965");
        test_vec("000102", "000102030405060708090a0b0c0d0e0f101112131415161718191a1b1c1d1e1f202122232425262728292a2b2c2d2e2f303132333435363738393a3b3c3d3e3f", "33d0825dddf7ada99b0e7e307104ad07ca9cfd9692214f1561356315e784f3e5a17e364ae9dbb14cb2036df932b77f4b292761365fb328de7afdc6d8998f5fc1");
        test_vec("00010203", "000102030405060708090a0b0c0d0e0f101112131415161718191a1b1c1d1e1f202122232425262728292a2b2c2d2e2f303132333435363738393a3b3c3d3e3f", "beaa5a3d08f3807143cf621d95cd690514d0b49efff9c91d24b59241ec0eefa5f60196d407048bba8d2146828ebcb0488d8842fd56bb4f6df8e19c4b4daab8ac");
        test_vec("000102030405060708090a0b0c0d0e0f101112131415161718191a1b1c1d1e1f202122232425262728292a2b2c2d2e2f303132333435363738393a3b3c3d3e3f404142434445464748494a4b4c4d4e4f505152535455565758595a5b5c5d5e5f606162636465666768696a6b6c6d6e6f707172737475767778797a7b7c7d7e7f808182838485868788898a8b8c8d8e8f909192939495969798999a9b9c9d9e9fa0a1a2a3a4a5a6a7a8a9aaabacadaeafb0b1b2b3b4b5b6b7b8b9babbbcbdbebfc0c1c2c3c4c5c6c7c8c9cacbcccdcecfd0d1d2d3d4d5d6d7d8d9dadbdcdddedfe0e1e2e3e4e5e6e7e8e9eaebecedeeeff0f1f2f3f4f5f6f7f8f9fafbfc", "000102030405060708090a0b0c0d0e0f101112131415161718191a1b1c1d1e1f202122232425262728292a2b2c2d2e2f303132333435363738393a3b3c3d3e3f", "a6213743568e3b3158b9184301f3690847554c68457cb40fc9a4b8cfd8d4a118c301a07737aeda0f929c68913c5f51c80394f53bff1c3e83b2e40ca97eba9e15");
        test_vec("000102030405060708090a0b0c0d0e0f101112131415161718191a1b1c1d1e1f202122232425262728292a2b2c2d2e2f303132333435363738393a3b3c3d3e3f404142434445464748494a4b4c4d4e4f505152535455565758595a5b5c5d5e5f606162636465666768696a6b6c6d6e6f707172737475767778797a7b7c7d7e7f808182838485868788898a8b8c8d8e8f909192939495969798999a9b9c9d9e9fa0a1a2a3a4a5a6a7a8a9aaabacadaeafb0b1b2b3b4b5b6b7b8b9babbbcbdbebfc0c1c2c3c4c5c6c7c8c9cacbcccdcecfd0d1d2d3d4d5d6d7d8d9dadbdcdddedfe0e1e2e3e4e5e6e7e8e9eaebecedeeeff0f1f2f3f4f5f6f7f8f9fafbfcfd", "000102030405060708090a0b0c0d0e0f101112131415161718191a1b1c1d1e1f202122232425262728292a2b2c2d2e2f303132333435363738393a3b3c3d3e3f", "d444bfa2362a96df213d070e33fa841f51334e4e76866b8139e8af3bb3398be2dfaddcbc56b9146de9f68118dc5829e74b0c28d7711907b121f9161cb92b69a9");
        test_vec("000102030405060708090a0b0c0d0e0f101112131415161718191a1b1c1d1e1f202122232425262728292a2b2c2d2e2f303132333435363738393a3b3c3d3e3f404142434445464748494a4b4c4d4e4f505152535455565758595a5b5c5d5e5f606162636465666768696a6b6c6d6e6f707172737475767778797a7b7c7d7e7f808182838485868788898a8b8c8d8e8f909192939495969798999a9b9c9d9e9fa0a1a2a3a4a5a6a7a8a9aaabacadaeafb0b1b2b3b4b5b6b7b8b9babbbcbdbebfc0c1c2c3c4c5c6c7c8c9cacbcccdcecfd0d1d2d3d4d5d6d7d8d9dadbdcdddedfe0e1e2e3e4e5e6e7e8e9eaebecedeeeff0f1f2f3f4f5f6f7f8f9fafbfcfdfe", "000102030405060708090a0b0c0d0e0f101112131415161718191a1b1c1d1e1f202122232425262728292a2b2c2d2e2f303132333435363738393a3b3c3d3e3f", "142709d62e28fcccd0af97fad0f8465b971e82201dc51070faa0372aa43e92484be1c1e73ba10906d5d1853db6a4106e0a7bf9800d373d6dee2d46d62ef2a461");
    }
}
