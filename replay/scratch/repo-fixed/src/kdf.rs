//! # Key derivation functions
//!
//! [`Kdf`] implements libsodium's key derivation functions, based on the
//! Blake2b hash function.
//!
//! You should use [`Kdf`] when you want to:
//!
//! * create many subkeys from a main key, without having to risk leaking the
//!   main key
//! * ensure that if a subkey were to become compromised, one could not derive
//!   the main key
//!
//! # Rustaceous API example
//!
//! ```
//! use base64::Engine as _;
//! use base64::engine::general_purpose;
//! use dryoc::kdf::*;
//!
//! // Randomly generate a main key and context, using the default stack-allocated
//! // types
//! let key = Kdf::gen_with_defaults();
//! let subkey_id = 0;
//!
//! let subkey = key.derive_subkey_to_vec(subkey_id).expect("derive failed");
//! println!(
//!     "Subkey {}: {}",
//!     subkey_id,
//!     general_purpose::STANDARD.encode(&subkey)
//! );
//! ```
//!
//! ## Additional resources
//!
//! * See <https://doc.libsodium.org/key_derivation> for additional details on
//!   key derivation

#[cfg(feature = "serde")]
use serde::{Deserialize, Serialize};
use zeroize::Zeroize;

use crate::classic::crypto_kdf::crypto_kdf_derive_from_key;
use crate::constants::{CRYPTO_KDF_CONTEXTBYTES, CRYPTO_KDF_KEYBYTES};
use crate::error::Error;
use crate::types::*;

/// Stack-allocated key type alias for key derivation with [`Kdf`].
pub type Key = StackByteArray<CRYPTO_KDF_KEYBYTES>;
/// Stack-allocated context type alias for key derivation with [`Kdf`].
pub type Context = StackByteArray<CRYPTO_KDF_CONTEXTBYTES>;

#[cfg_attr(
    feature = "serde",
    derive(Zeroize, Clone, Debug, Serialize, Deserialize)
)]
#[cfg_attr(not(feature = "serde"), derive(Zeroize, Clone, Debug))]
/// Key derivation implementation based on Blake2b, compatible with libsodium's
/// `crypto_kdf_*` functions.
pub struct Kdf<
    Key: ByteArray<CRYPTO_KDF_KEYBYTES> + Zeroize,
    Context: ByteArray<CRYPTO_KDF_CONTEXTBYTES> + Zeroize,
> {
    main_key: Key,
    context: Context,
}

/// Stack-allocated type alias for [`Kdf`]. Provided for convenience.
pub type StackKdf = Kdf<Key, Context>;

#[cfg(any(feature = "nightly", all(doc, not(doctest))))]
#[cfg_attr(all(feature = "nightly", doc), doc(cfg(feature = "nightly")))]
pub mod protected {
    //! #  Protected memory type aliases for [`Kdf`]
    //!
    //! This mod provides re-exports of type aliases for protected memory usage
    //! with [`Kdf`]. These type aliases are provided for
    //! convenience.
    //!
    //! ## Example
    //!
    //! ```
    //! use base64::Engine as _;
    //! use base64::engine::general_purpose;
    //! use dryoc::kdf::Kdf;
    //! use dryoc::kdf::protected::*;
    //!
    //! // Randomly generate a main key and context, using locked memory
    //! let key: LockedKdf = Kdf::gen();
    //! let subkey_id = 0;
    //!
    //! let subkey: Locked<Key> = key.derive_subkey(subkey_id).expect("derive failed");
    //! println!(
    //!     "Subkey {}: {}",
    //!     subkey_id,
    //!     general_purpose::STANDARD.encode(&subkey)
    //! );
    //! ```
    use super::*;
    pub use crate::protected::*;

    /// Heap-allocated, page-aligned key type alias for key derivation with
    /// [`Kdf`].
    pub type Key = HeapByteArray<CRYPTO_KDF_KEYBYTES>;
    /// Heap-allocated, page-aligned context type alias for key derivation with
    /// [`Kdf`].
    pub type Context = HeapByteArray<CRYPTO_KDF_CONTEXTBYTES>;

    /// Locked [`Kdf`], provided as a type alias for convenience.
    pub type LockedKdf = Kdf<Locked<Key>, Locked<Context>>;
}

impl<
    Key: NewByteArray<CRYPTO_KDF_KEYBYTES> + Zeroize,
    Context: NewByteArray<CRYPTO_KDF_CONTEXTBYTES> + Zeroize,
> Kdf<Key, Context>
{
    /// Randomly generates a new pair of main key and context.
    pub fn gen() -> Self {
        Self {
            main_key: Key::gen(),
            context: Context::gen(),
        }
    }
}

impl<
    Key: ByteArray<CRYPTO_KDF_KEYBYTES> + Zeroize,
    Context: ByteArray<CRYPTO_KDF_CONTEXTBYTES> + Zeroize,
> Kdf<Key, Context>
{
    /// Derives a subkey for `subkey_id`, returning it.
    pub fn derive_subkey<Subkey: NewByteArray<CRYPTO_KDF_KEYBYTES>>(
        &self,
        subkey_id: u64,
    ) -> Result<Subkey, Error> {
        let mut subkey = Subkey::new_byte_array();
        crypto_kdf_derive_from_key(
            subkey.as_mut_array(),
            subkey_id,
            self.context.as_array(),
            self.main_key.as_array(),
        )?;
        Ok(subkey)
    }

    /// Derives a subkey for `subkey_id`, returning it as a [`Vec`]. Provided
    /// for convenience.
    pub fn derive_subkey_to_vec(&self, subkey_id: u64) -> Result<Vec<u8>, Error> {
        self.derive_subkey(subkey_id)
    }

    /// Constructs a new instance from `key` and `context`, consuming them both.
    pub fn from_parts(main_key: Key, context: Context) -> Self {
        Self { main_key, context }
    }

    /// Moves the key and context out of this instance, returning them as a
    /// tuple.
    pub fn into_parts(self) -> (Key, Context) {
        (self.main_key, self.context)
    }
}

impl Kdf<Key, Context> {
    /// Randomly generates a new pair of main key and context.
    pub fn gen_with_defaults() -> Self {
        Self {
            main_key: Key::gen(),
            context: Context::gen(),
        }
    }
}

#[cfg(test)]
mod tests {
    use super::*;

    #[test]
    fn test_kdf() {
        let key = StackKdf::gen();

        let _subkey = key.derive_subkey_to_vec(0).expect("derive failed");
    }
}
