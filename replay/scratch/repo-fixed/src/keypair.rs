//! # Public/secret keypair tools
//!
//! Provides an implementation for handling public/private keypairs based on
//! libsodium's crypto_box, which uses X25519.
//!
//! Refer to the [protected] mod for details on usage with protected memory.

#[cfg(feature = "serde")]
use serde::{Deserialize, Serialize};
use subtle::ConstantTimeEq;
use zeroize::{Zeroize, ZeroizeOnDrop};

use crate::classic::crypto_box::crypto_box_seed_keypair_inplace;
use crate::constants::{
    CRYPTO_BOX_BEFORENMBYTES, CRYPTO_BOX_PUBLICKEYBYTES, CRYPTO_BOX_SECRETKEYBYTES,
    CRYPTO_KX_SESSIONKEYBYTES,
};
use crate::error::Error;
use crate::kx;
use crate::precalc::PrecalcSecretKey;
use crate::types::*;

/// Stack-allocated public key type alias.
pub type PublicKey = StackByteArray<CRYPTO_BOX_PUBLICKEYBYTES>;
/// Stack-allocated secret key type alias.
pub type SecretKey = StackByteArray<CRYPTO_BOX_SECRETKEYBYTES>;
/// Stack-allocated key pair type alias.
pub type StackKeyPair = KeyPair<PublicKey, SecretKey>;

#[cfg_attr(
    feature = "serde",
    derive(Zeroize, ZeroizeOnDrop, Serialize, Deserialize, Debug, Clone)
)]
#[cfg_attr(not(feature = "serde"), derive(Zeroize, ZeroizeOnDrop, Debug, Clone))]
/// Public/private keypair for use with [`crate::dryocbox::DryocBox`], aka
/// libsodium box
pub struct KeyPair<
    PublicKey: ByteArray<CRYPTO_BOX_PUBLICKEYBYTES> + Zeroize,
    SecretKey: ByteArray<CRYPTO_BOX_SECRETKEYBYTES> + Zeroize,
> {
    /// Public key
    pub public_key: PublicKey,
    /// Secret key
    pub secret_key: SecretKey,
}

impl<
    PublicKey: NewByteArray<CRYPTO_BOX_PUBLICKEYBYTES> + Zeroize,
    SecretKey: NewByteArray<CRYPTO_BOX_SECRETKEYBYTES> + Zeroize,
> KeyPair<PublicKey, SecretKey>
{
    /// Creates a new, empty keypair.
    pub fn new() -> Self {
        Self {
            public_key: PublicKey::new_byte_array(),
            secret_key: SecretKey::new_byte_array(),
        }
    }

    /// Generates a random keypair.
    pub fn gen() -> Self {
        use crate::classic::crypto_box::crypto_box_keypair_inplace;

        let mut public_key = PublicKey::new_byte_array();
        let mut secret_key = SecretKey::new_byte_array();
        crypto_box_keypair_inplace(public_key.as_mut_array(), secret_key.as_mut_array());

        Self {
            public_key,
            secret_key,
        }
    }

    /// Derives a keypair from `secret_key`, and consumes it, and returns a new
    /// keypair.
    pub fn from_secret_key(secret_key: SecretKey) -> Self {
        use crate::classic::crypto_core::crypto_scalarmult_base;

        let mut public_key = PublicKey::new_byte_array();
        crypto_scalarmult_base(public_key.as_mut_array(), secret_key.as_array());

        Self {
            public_key,
            secret_key,
        }
    }

    /// Derives a keypair from `seed`, returning
    /// a new keypair.
    pub fn from_seed<Seed: Bytes>(seed: &Seed) -> Self {
        let mut public_key = PublicKey::new_byte_array();
        let mut secret_key = SecretKey::new_byte_array();

        crypto_box_seed_keypair_inplace(
            public_key.as_mut_array(),
            secret_key.as_mut_array(),
            seed.as_slice(),
        );

        Self {
            public_key,
            secret_key,
        }
    }
}

impl KeyPair<StackByteArray<CRYPTO_BOX_PUBLICKEYBYTES>, StackByteArray<CRYPTO_BOX_SECRETKEYBYTES>> {
    /// Randomly generates a new keypair, using default types
    /// (stack-allocated byte arrays). Provided for convenience.
    pub fn gen_with_defaults() -> Self {
        Self::gen()
    }
}

impl<
    'a,
    PublicKey: ByteArray<CRYPTO_BOX_PUBLICKEYBYTES> + std::convert::TryFrom<&'a [u8]> + Zeroize,
    SecretKey: ByteArray<CRYPTO_BOX_SECRETKEYBYTES> + std::convert::TryFrom<&'a [u8]> + Zeroize,
> KeyPair<PublicKey, SecretKey>
{
    /// Constructs a new keypair from key slices, consuming them. Does not check
    /// validity or authenticity of keypair.
    pub fn from_slices(public_key: &'a [u8], secret_key: &'a [u8]) -> Result<Self, Error> {
        Ok(Self {
            public_key: PublicKey::try_from(public_key)
                .map_err(|_e| dryoc_error!("invalid public key"))?,
            secret_key: SecretKey::try_from(secret_key)
                .map_err(|_e| dryoc_error!("invalid secret key"))?,
        })
    }
}

impl<
    PublicKey: ByteArray<CRYPTO_BOX_PUBLICKEYBYTES> + Zeroize,
    SecretKey: ByteArray<CRYPTO_BOX_SECRETKEYBYTES> + Zeroize,
> KeyPair<PublicKey, SecretKey>
{
    /// Creates new client session keys using this keypair and
    /// `server_public_key`, assuming this keypair is for the client.
    pub fn kx_new_client_session<SessionKey: NewByteArray<CRYPTO_KX_SESSIONKEYBYTES> + Zeroize>(
        &self,
        server_public_key: &PublicKey,
    ) -> Result<kx::Session<SessionKey>, Error> {
        kx::Session::new_client(self, server_public_key)
    }

    /// Creates new server session keys using this keypair and
    /// `client_public_key`, assuming this keypair is for the server.
    pub fn kx_new_server_session<SessionKey: NewByteArray<CRYPTO_KX_SESSIONKEYBYTES> + Zeroize>(
        &self,
        client_public_key: &PublicKey,
    ) -> Result<kx::Session<SessionKey>, Error> {
        kx::Session::new_server(self, client_public_key)
    }

    /// Computes a stack-allocated shared secret key using a secret key from
    /// this keypair and `third_party_public_key`.
    ///
    /// Compatible with libsodium's `crypto_box_beforenm`.
    #[inline]
    pub fn precalculate(
        &self,
        third_party_public_key: &PublicKey,
    ) -> PrecalcSecretKey<StackByteArray<CRYPTO_BOX_BEFORENMBYTES>> {
        PrecalcSecretKey::precalculate(third_party_public_key, &self.secret_key)
    }
}

impl<
    PublicKey: NewByteArray<CRYPTO_BOX_PUBLICKEYBYTES> + Zeroize,
    SecretKey: NewByteArray<CRYPTO_BOX_SECRETKEYBYTES> + Zeroize,
> Default for KeyPair<PublicKey, SecretKey>
{
    fn default() -> Self {
        Self::new()
    }
}

#[cfg(any(feature = "nightly", all(doc, not(doctest))))]
#[cfg_attr(all(feature = "nightly", doc), doc(cfg(feature = "nightly")))]
pub mod protected {
    //! #  Protected memory for [`KeyPair`]
    use super::*;
    use crate::classic::crypto_box::crypto_box_keypair_inplace;
    pub use crate::protected::*;

    impl
        KeyPair<
            Locked<HeapByteArray<CRYPTO_BOX_PUBLICKEYBYTES>>,
            Locked<HeapByteArray<CRYPTO_BOX_SECRETKEYBYTES>>,
        >
    {
        /// Returns a new locked keypair.
        pub fn new_locked_keypair() -> Result<Self, std::io::Error> {
            Ok(Self {
                public_key: HeapByteArray::<CRYPTO_BOX_PUBLICKEYBYTES>::new_locked()?,
                secret_key: HeapByteArray::<CRYPTO_BOX_SECRETKEYBYTES>::new_locked()?,
            })
        }

        /// Returns a new randomly generated locked keypair.
        pub fn gen_locked_keypair() -> Result<Self, std::io::Error> {
            let mut res = Self::new_locked_keypair()?;

            crypto_box_keypair_inplace(
                res.public_key.as_mut_array(),
                res.secret_key.as_mut_array(),
            );

            Ok(res)
        }

        /// Computes a heap-allocated, page-aligned, locked shared secret key
        /// using a secret key from this keypair and
        /// `third_party_public_key`.
        ///
        /// Compatible with libsodium's `crypto_box_beforenm`.
        #[inline]
        pub fn precalculate_locked<OtherPublicKey: ByteArray<CRYPTO_BOX_PUBLICKEYBYTES>>(
            &self,
            third_party_public_key: &OtherPublicKey,
        ) -> Result<PrecalcSecretKey<Locked<HeapByteArray<CRYPTO_BOX_BEFORENMBYTES>>>, std::io::Error>
        {
            PrecalcSecretKey::precalculate_locked(third_party_public_key, &self.secret_key)
        }
    }

    impl
        KeyPair<
            LockedRO<HeapByteArray<CRYPTO_BOX_PUBLICKEYBYTES>>,
            LockedRO<HeapByteArray<CRYPTO_BOX_SECRETKEYBYTES>>,
        >
    {
        /// Returns a new randomly generated locked, read-only keypair.
        pub fn gen_readonly_locked_keypair() -> Result<Self, std::io::Error> {
            let mut public_key = HeapByteArray::<CRYPTO_BOX_PUBLICKEYBYTES>::new_locked()?;
            let mut secret_key = HeapByteArray::<CRYPTO_BOX_SECRETKEYBYTES>::new_locked()?;

            crypto_box_keypair_inplace(public_key.as_mut_array(), secret_key.as_mut_array());

            let public_key = public_key.mprotect_readonly()?;
            let secret_key = secret_key.mprotect_readonly()?;

            Ok(Self {
                public_key,
                secret_key,
            })
        }

        /// Computes a heap-allocated, page-aligned, locked, read-only shared
        /// secret key using a secret key from this keypair and
        /// `third_party_public_key`.
        ///
        /// Compatible with libsodium's `crypto_box_beforenm`.
        #[inline]
        pub fn precalculate_readonly_locked<
            OtherPublicKey: ByteArray<CRYPTO_BOX_PUBLICKEYBYTES>,
        >(
            &self,
            third_party_public_key: &OtherPublicKey,
        ) -> Result<
            PrecalcSecretKey<LockedRO<HeapByteArray<CRYPTO_BOX_BEFORENMBYTES>>>,
            std::io::Error,
        > {
            PrecalcSecretKey::precalculate_readonly_locked(third_party_public_key, &self.secret_key)
        }
    }
}

impl<
    PublicKey: ByteArray<CRYPTO_BOX_PUBLICKEYBYTES> + Zeroize,
    SecretKey: ByteArray<CRYPTO_BOX_SECRETKEYBYTES> + Zeroize,
> PartialEq<KeyPair<PublicKey, SecretKey>> for KeyPair<PublicKey, SecretKey>
{
    fn eq(&self, other: &Self) -> bool {
        self.public_key
            .as_slice()
            .ct_eq(other.public_key.as_slice())
            .unwrap_u8()
            == 1
            && self
                .secret_key
                .as_slice()
                .ct_eq(other.secret_key.as_slice())
                .unwrap_u8()
                == 1
    }
}

#[cfg(test)]
mod tests {

    use super::*;
    use crate::kx::Session;

    fn all_eq<T>(t: &[T], v: T) -> bool
    where
        T: PartialEq,
    {
        t.iter().all(|x| *x == v)
    }

    #[test]
    fn test_new() {
        let keypair = KeyPair::<
            StackByteArray<CRYPTO_BOX_PUBLICKEYBYTES>,
            StackByteArray<CRYPTO_BOX_SECRETKEYBYTES>,
        >::new();

        assert!(all_eq(&keypair.public_key, 0));
        assert!(all_eq(&keypair.secret_key, 0));
    }

    #[test]
    fn test_default() {
        let keypair = KeyPair::<
            StackByteArray<CRYPTO_BOX_PUBLICKEYBYTES>,
            StackByteArray<CRYPTO_BOX_SECRETKEYBYTES>,
        >::default();

        assert!(all_eq(&keypair.public_key, 0));
        assert!(all_eq(&keypair.secret_key, 0));
    }

    #[test]
    fn test_gen_keypair() {
        use sodiumoxide::crypto::scalarmult::curve25519::{Scalar, scalarmult_base};

        use crate::classic::crypto_core::crypto_scalarmult_base;

        let keypair = KeyPair::<
            StackByteArray<CRYPTO_BOX_PUBLICKEYBYTES>,
            StackByteArray<CRYPTO_BOX_SECRETKEYBYTES>,
        >::gen();

        let mut public_key = [0u8; CRYPTO_BOX_PUBLICKEYBYTES];
        crypto_scalarmult_base(&mut public_key, keypair.secret_key.as_array());

        assert_eq!(keypair.public_key.as_array(), &public_key);

        let ge = scalarmult_base(&Scalar::from_slice(&keypair.secret_key).unwrap());

        assert_eq!(ge.as_ref(), public_key);
    }

    #[test]
    fn test_from_secret_key() {
        let keypair_1 = KeyPair::<
            StackByteArray<CRYPTO_BOX_PUBLICKEYBYTES>,
            StackByteArray<CRYPTO_BOX_SECRETKEYBYTES>,
        >::gen();
        let keypair_2 = KeyPair::from_secret_key(keypair_1.secret_key.clone());

        assert_eq!(keypair_1.public_key, keypair_2.public_key);
    }

    #[test]
    fn test_keypair_precalculate() {
        let kp1 = KeyPair::gen_with_defaults();
        let kp2 = KeyPair::gen_with_defaults();
        let precalc = kp1.precalculate(&kp2.public_key);
        assert_eq!(precalc.len(), crate::constants::CRYPTO_BOX_BEFORENMBYTES);
    }

    #[cfg(feature = "nightly")]
    #[test]
    fn test_keypair_precalculate_locked() {
        use crate::keypair::protected::*;
        let kp1 = KeyPair::gen_locked_keypair().unwrap();
        let kp2 = KeyPair::gen_locked_keypair().unwrap();
        let precalc = kp1.precalculate_locked(&kp2.public_key).unwrap();
        assert_eq!(precalc.len(), crate::constants::CRYPTO_BOX_BEFORENMBYTES);
    }

    #[test]
    fn test_keypair_kx_new_client_session() {
        let server_kp = KeyPair::gen_with_defaults();
        let client_kp = KeyPair::gen_with_defaults();
        let session: Session<StackByteArray<CRYPTO_KX_SESSIONKEYBYTES>> = client_kp
            .kx_new_client_session(&server_kp.public_key)
            .unwrap();
        assert_eq!(
            session.rx_as_slice().len(),
            crate::constants::CRYPTO_KX_SESSIONKEYBYTES
        );
        assert_eq!(
            session.tx_as_slice().len(),
            crate::constants::CRYPTO_KX_SESSIONKEYBYTES
        );
    }

    #[test]
    fn test_keypair_kx_new_server_session() {
        let client_kp = KeyPair::gen_with_defaults();
        let server_kp = KeyPair::gen_with_defaults();
        let session: Session<StackByteArray<CRYPTO_KX_SESSIONKEYBYTES>> = server_kp
            .kx_new_server_session(&client_kp.public_key)
            .unwrap();
        assert_eq!(
            session.rx_as_slice().len(),
            crate::constants::CRYPTO_KX_SESSIONKEYBYTES
        );
        assert_eq!(
            session.tx_as_slice().len(),
            crate::constants::CRYPTO_KX_SESSIONKEYBYTES
        );
    }

    #[test]
    fn test_keypair_from_seed() {
        let seed = [42u8; 32];
        let kp: StackKeyPair = KeyPair::from_seed(&seed);
        assert!(!kp.public_key.iter().all(|x| *x == 0));
    }

    #[test]
    fn test_keypair_gen_with_defaults() {
        let kp = KeyPair::gen_with_defaults();
        assert!(!kp.public_key.iter().all(|x| *x == 0));
    }
}
