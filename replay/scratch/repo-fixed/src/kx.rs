//! # Key exchange functions
//!
//! [`Session`] implements libsodium's key exchange functions, which use a
//! combination of Curve25519, Diffie-Hellman, and Blake2b to generate shared
//! session keys between two parties who know each other's public keys.
//!
//! You should use [`Session`] when you want to:
//!
//! * derive shared secrets between two parties
//! * use public-key cryptography, but do so with another cipher that only
//!   supports pre-shared secrets
//! * create a session key or token that can't be used to derive the original
//!   inputs should it become compromised
//!
//! # Rustaceous API example
//!
//! ```
//! use dryoc::kx::*;
//!
//! // Generate random client/server keypairs
//! let client_keypair = KeyPair::gen();
//! let server_keypair = KeyPair::gen();
//!
//! // Compute client session keys, into default stack-allocated byte array
//! let client_session_keys =
//!     Session::new_client_with_defaults(&client_keypair, &server_keypair.public_key)
//!         .expect("compute client failed");
//!
//! // Compute server session keys, into default stack-allocated byte array
//! let server_session_keys =
//!     Session::new_server_with_defaults(&server_keypair, &client_keypair.public_key)
//!         .expect("compute client failed");
//!
//! let (client_rx, client_tx) = client_session_keys.into_parts();
//! let (server_rx, server_tx) = server_session_keys.into_parts();
//!
//! // Client Rx should match server Tx keys
//! assert_eq!(client_rx, server_tx);
//! // Client Tx should match server Rx keys
//! assert_eq!(client_tx, server_rx);
//! ```
//!
//! ## Additional resources
//!
//! * See <https://doc.libsodium.org/key_exchange> for additional details on key
//!   exchange

#[cfg(feature = "serde")]
use serde::{Deserialize, Serialize};
use zeroize::Zeroize;

use crate::classic::crypto_kx::{crypto_kx_client_session_keys, crypto_kx_server_session_keys};
use crate::constants::{
    CRYPTO_KX_PUBLICKEYBYTES, CRYPTO_KX_SECRETKEYBYTES, CRYPTO_KX_SESSIONKEYBYTES,
};
use crate::error::Error;
use crate::types::*;

/// Stack-allocated session key type alias
pub type SessionKey = StackByteArray<CRYPTO_KX_SESSIONKEYBYTES>;
/// Stack-allocated public key type alias
pub type PublicKey = StackByteArray<CRYPTO_KX_PUBLICKEYBYTES>;
/// Stack-allocated secret key type alias
pub type SecretKey = StackByteArray<CRYPTO_KX_SECRETKEYBYTES>;
/// Stack-allocated keypair type alias
pub type KeyPair = crate::keypair::KeyPair<PublicKey, SecretKey>;

#[cfg_attr(
    feature = "serde",
    derive(Zeroize, Clone, Debug, Serialize, Deserialize)
)]
#[cfg_attr(not(feature = "serde"), derive(Zeroize, Clone, Debug))]
/// Key derivation implemantation based on Curve25519, Diffie-Hellman, and
/// Blake2b. Compatible with libsodium's `crypto_kx_*` functions.
pub struct Session<SessionKey: ByteArray<CRYPTO_KX_SESSIONKEYBYTES> + Zeroize> {
    rx_key: SessionKey,
    tx_key: SessionKey,
}

/// Stack-allocated type alias for [`Session`]. Provided for convenience.
pub type StackSession = Session<SessionKey>;

#[cfg(any(feature = "nightly", all(doc, not(doctest))))]
#[cfg_attr(all(feature = "nightly", doc), doc(cfg(feature = "nightly")))]
pub mod protected {
    //! #  Protected memory type aliases for [`Session`]
    //!
    //! This mod provides re-exports of type aliases for protected memory usage
    //! with [`Session`]. These type aliases are provided for
    //! convenience.
    //!
    //! ## Example
    //!
    //! ```
    //! use dryoc::kx::Session;
    //! use dryoc::kx::protected::*;
    //!
    //! // Generate random client/server keypairs
    //! let client_keypair =
    //!     LockedROKeyPair::gen_readonly_locked_keypair().expect("couldn't generate client keypair");
    //! let server_keypair =
    //!     LockedROKeyPair::gen_readonly_locked_keypair().expect("couldn't generate server keypair");
    //!
    //! // Compute client session keys, into default stack-allocated byte array
    //! let client_session_keys: LockedSession =
    //!     Session::new_client(&client_keypair, &server_keypair.public_key)
    //!         .expect("compute client failed");
    //!
    //! // Compute server session keys, into default stack-allocated byte array
    //! let server_session_keys: LockedSession =
    //!     Session::new_server(&server_keypair, &client_keypair.public_key)
    //!         .expect("compute client failed");
    //!
    //! let (client_rx, client_tx) = client_session_keys.into_parts();
    //! let (server_rx, server_tx) = server_session_keys.into_parts();
    //!
    //! // Client Rx should match server Tx keys
    //! assert_eq!(client_rx.as_slice(), server_tx.as_slice());
    //! // Client Tx should match server Rx keys
    //! assert_eq!(client_tx.as_slice(), server_rx.as_slice());
    //! ```
    use super::*;
    pub use crate::keypair::protected::*;

    /// Heap-allocated, paged-aligned session key type alias for use with
    /// protected memory
    pub type SessionKey = HeapByteArray<CRYPTO_KX_SESSIONKEYBYTES>;
    /// Heap-allocated, paged-aligned public key type alias for use with
    /// protected memory
    pub type PublicKey = HeapByteArray<CRYPTO_KX_PUBLICKEYBYTES>;
    /// Heap-allocated, paged-aligned secret key type alias for use with
    /// protected memory
    pub type SecretKey = HeapByteArray<CRYPTO_KX_SECRETKEYBYTES>;

    /// Heap-allocated, paged-aligned keypair type alias for use with
    /// protected memory
    pub type LockedKeyPair = crate::keypair::KeyPair<Locked<PublicKey>, Locked<SecretKey>>;
    /// Heap-allocated, paged-aligned keypair type alias for use with
    /// protected memory
    pub type LockedROKeyPair = crate::keypair::KeyPair<LockedRO<PublicKey>, LockedRO<SecretKey>>;
    /// Locked session keys type alias, for use with protected memory
    pub type LockedSession = Session<Locked<SessionKey>>;
}

impl<SessionKey: NewByteArray<CRYPTO_KX_SESSIONKEYBYTES> + Zeroize> Session<SessionKey> {
    /// Computes client session keys, given `client_keypair` and
    /// `server_public_key`, returning a new session upon success.
    pub fn new_client<
        PublicKey: ByteArray<CRYPTO_KX_PUBLICKEYBYTES> + Zeroize,
        SecretKey: ByteArray<CRYPTO_KX_SECRETKEYBYTES> + Zeroize,
    >(
        client_keypair: &crate::keypair::KeyPair<PublicKey, SecretKey>,
        server_public_key: &PublicKey,
    ) -> Result<Self, Error> {
        let mut rx_key = SessionKey::new_byte_array();
        let mut tx_key = SessionKey::new_byte_array();

        crypto_kx_client_session_keys(
            rx_key.as_mut_array(),
            tx_key.as_mut_array(),
            client_keypair.public_key.as_array(),
            client_keypair.secret_key.as_array(),
            server_public_key.as_array(),
        )?;

        Ok(Self { rx_key, tx_key })
    }

    /// Computes server session keys, given `server_keypair` and
    /// `client_public_key`, returning a new session upon success.
    pub fn new_server<
        PublicKey: ByteArray<CRYPTO_KX_PUBLICKEYBYTES> + Zeroize,
        SecretKey: ByteArray<CRYPTO_KX_SECRETKEYBYTES> + Zeroize,
    >(
        server_keypair: &crate::keypair::KeyPair<PublicKey, SecretKey>,
        client_public_key: &PublicKey,
    ) -> Result<Self, Error> {
        let mut rx_key = SessionKey::new_byte_array();
        let mut tx_key = SessionKey::new_byte_array();

        crypto_kx_server_session_keys(
            rx_key.as_mut_array(),
            tx_key.as_mut_array(),
            server_keypair.public_key.as_array(),
            server_keypair.secret_key.as_array(),
            client_public_key.as_array(),
        )?;

        Ok(Self { rx_key, tx_key })
    }
}

impl Session<SessionKey> {
    /// Returns a new client session upon success using the default types for
    /// the given `client_keypair` and `server_public_key`. Wraps
    /// [`Session::new_client`], provided for convenience.
    pub fn new_client_with_defaults<
        PublicKey: ByteArray<CRYPTO_KX_PUBLICKEYBYTES> + Zeroize,
        SecretKey: ByteArray<CRYPTO_KX_SECRETKEYBYTES> + Zeroize,
    >(
        client_keypair: &crate::keypair::KeyPair<PublicKey, SecretKey>,
        server_public_key: &PublicKey,
    ) -> Result<Self, Error> {
        Self::new_client(client_keypair, server_public_key)
    }

    /// Returns a new server session upon success using the default types for
    /// the given `server_keypair` and `client_public_key`. Wraps
    /// [`Session::new_server`], provided for convenience.
    pub fn new_server_with_defaults<
        PublicKey: ByteArray<CRYPTO_KX_PUBLICKEYBYTES> + Zeroize,
        SecretKey: ByteArray<CRYPTO_KX_SECRETKEYBYTES> + Zeroize,
    >(
        server_keypair: &crate::keypair::KeyPair<PublicKey, SecretKey>,
        client_public_key: &PublicKey,
    ) -> Result<Self, Error> {
        Self::new_server(server_keypair, client_public_key)
    }
}

impl<SessionKey: ByteArray<CRYPTO_KX_SESSIONKEYBYTES> + Zeroize> Session<SessionKey> {
    /// Moves the rx_key and tx_key out of this instance, returning them as a
    /// tuple with `(rx_key, tx_key)`.
    pub fn into_parts(self) -> (SessionKey, SessionKey) {
        (self.rx_key, self.tx_key)
    }

    /// Returns a reference to a slice of the Rx session key.
    #[inline]
    pub fn rx_as_slice(&self) -> &[u8] {
        self.rx_key.as_slice()
    }

    /// Returns a reference to a slice of the Tx session key.
    #[inline]
    pub fn tx_as_slice(&self) -> &[u8] {
        self.tx_key.as_slice()
    }

    /// Returns a reference to an array of the Rx session key.
    #[inline]
    pub fn rx_as_array(&self) -> &[u8; CRYPTO_KX_SESSIONKEYBYTES] {
        self.rx_key.as_array()
    }

    /// Returns a reference to an array of the Tx session key.
    #[inline]
    pub fn tx_as_array(&self) -> &[u8; CRYPTO_KX_SESSIONKEYBYTES] {
        self.tx_key.as_array()
    }
}

#[cfg(test)]
mod tests {
    use super::*;

    #[test]
    fn test_kx() {
        let client_keypair = KeyPair::gen();
        let server_keypair = KeyPair::gen();

        let client_session_keys =
            Session::new_client_with_defaults(&client_keypair, &server_keypair.public_key)
                .expect("compute client failed");

        let server_session_keys =
            Session::new_server_with_defaults(&server_keypair, &client_keypair.public_key)
                .expect("compute client failed");

        let (client_rx, client_tx) = client_session_keys.into_parts();
        let (server_rx, server_tx) = server_session_keys.into_parts();

        assert_eq!(client_rx, server_tx);
        assert_eq!(client_tx, server_rx);
    }
}
