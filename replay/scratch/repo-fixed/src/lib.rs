//! # dryoc: Don't Roll Your Own Crypto™[^1]
//!
//! dryoc is a pure-Rust, general-purpose cryptography library. It's also an
//! implementation of [libsodium](https://libsodium.gitbook.io/doc/), and
//! designed to be 100% compatible with, and interchangeable with, libsodium's
//! API.
//!
//! Doing cryptography properly is _hard_. While no human is infallible,
//! computers are pretty good at following instructions. Humans are bad at
//! following instructions, but they do a decent job of giving instructions,
//! provided they can effectively communicate intent. Thus, if the instructions
//! humans give the computer are correct, we can be reasonably assured
//! that the operations the computer does are correct too.
//!
//! This library tries to make it easy to give the computer the correct
//! instructions, and it does so by providing well-known implementations of
//! general-purpose cryptography functions, in an API that's relatively easy to
//! use, type safe, and hard to use incorrectly.
//!
//! As the name of this library implies, one should avoid trying to "roll their
//! own crypto", as it often results in avoidable mistakes. In the context of
//! cryptography, mistakes can be very costly.
//!
//! The minimum supported Rust version (MSRV) for this crate is **Rust 1.51** or
//! newer.
//!
//! ## Features
//!
//! * 100% pure Rust, no hidden C libraries
//! * mostly free of unsafe code[^2]
//! * Hard to misuse, helping you avoid common costly cryptography mistakes
//! * Many libsodium features implemented with both Classic and Rustaceous API
//! * Protected memory handling (`mprotect()` + `mlock()`, along with Windows
//!   equivalents)
//! * [Serde](https://serde.rs/) support (with `features = ["serde"]`)
//! * [_Portable_ SIMD](https://doc.rust-lang.org/std/simd/index.html)
//!   implementation for Blake2b (used by generic hashing, password hashing, and
//!   key derivation) on nightly, with `features = ["simd_backend", "nightly"]`
//! * SIMD backend for Curve25519 (used by public/private key functions) on
//!   nightly with `features = ["simd_backend", "nightly"]`
//! * [SHA2](https://github.com/RustCrypto/hashes/tree/master/sha2) (used by
//!   sealed boxes) includes SIMD implementation for AVX2
//! * [ChaCha20](https://github.com/RustCrypto/stream-ciphers/tree/master/chacha20)
//!   (used by streaming interface) includes SIMD implementations for Neon,
//!   AVX2, and SSE2
//!
//! To enable all the SIMD backends through 3rd party crates, you'll need to
//! also set `RUSTFLAGS`:
//! * For AVX2 set `RUSTFLAGS=-Ctarget-cpu=haswell -Ctarget-feature=+avx2`
//! * For SSE2 set `RUSTFLAGS=-Ctarget-feature=+sse2`
//! * For Neon set `RUSTFLAGS=-Ctarget-feature=+neon`
//!
//! _Note that eventually this project will converge on portable SIMD
//! implementations for all the core algos which will work across all platforms
//! supported by LLVM, rather than relying on hand-coded assembly or intrinsics,
//! but his is a work in progress_.
//!
//! ## APIs
//!
//! This library includes both a _Classic_ API, which is very similar to the
//! original libsodium API, and _Rustaceous_ API with Rust-specific features.
//! Both APIs can be used together interchangeably, according to your
//! preferences. The Rustaceous API is a wrapper around the underlying classic
//! API.
//!
//! It's recommended that you use the Rustaceous API unless you have strong
//! feelings about using the Classic API. The Classic API includes some pitfalls
//! and traps that are also present in the original libsodium API, and unless
//! you're extra careful you could make mistakes. With the Rustaceous API, it's
//! harder to make mistakes thanks to strict type and safety features.
//!
//! The Rustaceous API is, arguably, somewhat trickier to use, especially if
//! you're new to Rust. The Rustaceous API requires knowing and specifying the
//! desired type in many cases. For your convenience, type aliases are provided
//! for common types within each module. The Classic API only uses base types
//! (fixed length byte arrays and byte slices).
//!
//! | Feature | Rustaceous API | Classic API | Libsodium Docs |
//! |-|-|-|-|
//! | Public-key authenticated boxes | [`DryocBox`](dryocbox) | [`crypto_box`](classic::crypto_box) | [Link](https://libsodium.gitbook.io/doc/public-key_cryptography/authenticated_encryption) |
//! | Secret-key authenticated boxes | [`DryocSecretBox`](dryocsecretbox) | [`crypto_secretbox`](classic::crypto_secretbox) | [Link](https://libsodium.gitbook.io/doc/secret-key_cryptography/secretbox) |
//! | Streaming encryption | [`DryocStream`](dryocstream) | [`crypto_secretstream_xchacha20poly1305`](classic::crypto_secretstream_xchacha20poly1305) | [Link](https://libsodium.gitbook.io/doc/secret-key_cryptography/secretstream) |
//! | Generic hashing, HMAC | [`GenericHash`](generichash) | [`crypto_generichash`](classic::crypto_generichash) | [Link](https://doc.libsodium.org/hashing/generic_hashing) |
//! | Secret-key authentication | [`Auth`](auth) | [`crypto_auth`](classic::crypto_auth) | [Link](https://doc.libsodium.org/secret-key_cryptography/secret-key_authentication) |
//! | One-time authentication | [`OnetimeAuth`](onetimeauth) | [`crypto_onetimeauth`](classic::crypto_onetimeauth) | [Link](https://doc.libsodium.org/advanced/poly1305) |
//! | Key derivation | [`Kdf`](kdf) | [`crypto_kdf`](classic::crypto_kdf) | [Link](https://doc.libsodium.org/key_derivation) |
//! | Key exchange | [`Session`](kx) | [`crypto_kx`](classic::crypto_kx) | [Link](https://doc.libsodium.org/key_exchange) |
//! | Public-key signatures | [`SigningKeyPair`](sign) | [`crypto_sign`](classic::crypto_sign) | [Link](https://libsodium.gitbook.io/doc/public-key_cryptography/public-key_signatures) |
//! | Password hashing | [`PwHash`](pwhash) | [`crypto_pwhash`](classic::crypto_pwhash) | [Link](https://libsodium.gitbook.io/doc/password_hashing/default_phf) |
//! | Protected memory[^4] | [protected] | N/A | [Link](https://doc.libsodium.org/memory_management) |
//! | Short-input hashing | N/A | [`crypto_shorthash`](classic::crypto_shorthash) | [Link](https://libsodium.gitbook.io/doc/hashing/short-input_hashing) |
//!
//! ## Using Serde
//!
//! This crate includes optional [Serde](https://serde.rs/) support which can be
//! enabled with the `serde` feature flag. When enabled, the
//! [`Serialize`](serde::ser::Serialize) and
//! [`Deserialize`](serde::de::Deserialize) traits are provided for data
//! structures.
//!
//! ## Security notes
//!
//! This crate has not been audited by any 3rd parties. It uses well-known
//! implementations of the underlying algorithms which have been previously
//! verified as using constant-time operations.
//!
//! With that out of the way, the deterministic nature of cryptography and
//! extensive testing used in this crate means it's relatively safe to use,
//! provided the underlying algorithms remain safe. Arguably, this crate is
//! _incredibly_ safe (as far as cryptography libraries go) thanks to the
//! features provided by the API of this crate, and those provided by the Rust
//! language itself.
//!
//! ## Acknowledgements
//!
//! Big ups to the authors and contributors of [NaCl](https://nacl.cr.yp.to/) and [libsodium](https://github.com/jedisct1/libsodium) for paving the
//! way toward better cryptography libraries.
//!
//! [^1]: Not actually trademarked.
//!
//! [^2]: The protected memory features described in the [protected] mod require
//! custom memory allocation, system calls, and pointer arithmetic, which are
//! unsafe in Rust. Some of the 3rd party libraries used by this crate, such as
//! those with SIMD, may contain unsafe code. In particular, most SIMD
//! implementations are considered "unsafe" due to their use of assembly or
//! intrinsics, however without SIMD-based cryptography you may be exposed to
//! timing attacks.
//!
//! [^3]: The Rustaceous API is designed to protect users of this library from
//! making mistakes, however the Classic API allows one to do as one pleases.
//!
//! [^4]: Currently only available on nightly Rust, with the `nightly` feature
//! flag enabled.

#![cfg_attr(
    any(feature = "nightly", all(feature = "nightly", doc)),
    feature(allocator_api, doc_cfg)
)]
#![cfg_attr(
    all(feature = "simd_backend", feature = "nightly"),
    feature(portable_simd)
)]
#![cfg_attr(feature = "nightly", feature(test))]
#[macro_use]
mod error;
#[cfg(any(feature = "nightly", all(doc, not(doctest))))]
#[cfg_attr(all(feature = "nightly", doc), doc(cfg(feature = "nightly")))]
#[macro_use]
pub mod protected;

mod argon2;
mod blake2b;
#[cfg(feature = "serde")]
mod bytes_serde;
mod poly1305;
mod scalarmult_curve25519;
mod siphash24;

pub mod classic {
    //! # Classic API
    //!
    //! The Classic API contains functions designed to match the interface of
    //! libsodium as closely as possible. It's provided to make it easier to
    //! switch code from using libsodium directly over to dryoc, and also to
    //! provide a familiar interface for anyone already comfortable with
    //! libsodium.
    mod crypto_box_impl;
    mod crypto_secretbox_impl;
    mod generichash_blake2b;

    pub mod crypto_auth;
    pub mod crypto_box;
    /// # Core cryptography functions
    pub mod crypto_core;
    pub mod crypto_generichash;
    /// Hash functions
    pub mod crypto_hash;
    pub mod crypto_kdf;
    pub mod crypto_kx;
    pub mod crypto_onetimeauth;
    pub mod crypto_pwhash;
    pub mod crypto_secretbox;
    pub mod crypto_secretstream_xchacha20poly1305;
    pub mod crypto_shorthash;
    pub mod crypto_sign;
    pub mod crypto_sign_ed25519;
}

pub mod auth;
/// # Constant value definitions
pub mod constants;
pub mod dryocbox;
pub mod dryocsecretbox;
pub mod dryocstream;
pub mod generichash;
pub mod kdf;
pub mod keypair;
pub mod kx;
pub mod onetimeauth;
pub mod precalc;
pub mod pwhash;
/// # Random number generation utilities
pub mod rng;
pub mod sha512;
pub mod sign;
/// # Base type definitions
pub mod types;
/// # Various utility functions
pub mod utils;

pub use error::Error;

#[cfg(test)]
mod tests {

    #[test]
    fn test_randombytes_buf() {
        use crate::rng::*;
        let r = randombytes_buf(5);
        assert_eq!(r.len(), 5);
        let sum = r.into_iter().fold(0u64, |acc, n| acc + n as u64);
        assert_ne!(sum, 0);
    }
}
