pub(crate) mod poly1305_soft;
pub(crate) use poly1305_soft::*;
