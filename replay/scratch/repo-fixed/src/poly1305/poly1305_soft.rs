use zeroize::Zeroize;

use crate::types::*;
use crate::utils::load_u64_le;

const BLOCK_SIZE: usize = 16;

#[derive(Default, Zeroize)]
pub struct Poly1305 {
    r: [u64; 3],
    h: [u64; 3],
    pad: [u64; 2],
    buffer: Vec<u8>,
}

#[inline]
fn mul(x: u64, y: u64) -> u128 {
    u128::from(x) * u128::from(y)
}

#[inline]
fn shr(in_: u128, shift: u64) -> u64 {
    (in_ >> shift) as u64
}

#[inline]
fn lo(in_: u128) -> u64 {
    in_ as u64
}

pub type Key = StackByteArray<32>;

impl Poly1305 {
    pub fn new<K>(key: &K) -> Self
    where
        K: ByteArray<32>,
    {
        let mut state = Poly1305::default();

        let (t0, t1) = (
            load_u64_le(&key.as_array()[0..8]),
            load_u64_le(&key.as_array()[8..16]),
        );

        // wiped after finalization
        state.r[0] = t0 & 0xffc0fffffff;
        state.r[1] = ((t0 >> 44) | (t1 << 20)) & 0xfffffc0ffff;
        state.r[2] = (t1 >> 24) & 0x00ffffffc0f;

        // h = 0
        state.h.fill(0);

        // save pad for later
        state.pad[0] = load_u64_le(&key.as_array()[16..24]);
        state.pad[1] = load_u64_le(&key.as_array()[24..32]);

        state
    }

    pub fn update(&mut self, input: &[u8]) {
        let mut m = input;
        if !self.buffer.is_empty() {
            let input_block_end = std::cmp::min(BLOCK_SIZE - self.buffer.len(), input.len());
            // copy start of incoming block into previous block
            self.buffer.extend_from_slice(&m[..input_block_end]);

            if self.buffer.len() < BLOCK_SIZE {
                // don't have enough data yet, do nothing
                return;
            }

            // process block
            let b = self.buffer.clone();
            self.blocks(&b, false);
            self.buffer.clear();

            m = &m[input_block_end..]
        }

        // process all full blocks
        let full_blocks_end = m.len() - (m.len() % BLOCK_SIZE);
        self.blocks(&m[..full_blocks_end], false);

        if full_blocks_end < m.len() {
            // copy leftover into buffer
            self.buffer.extend_from_slice(&m[full_blocks_end..]);
        }
    }

    fn blocks(&mut self, input: &[u8], partial: bool) {
        let hibit = if partial {
            0u64
        } else {
            // 1 << 128
            1u64 << 40
        };

        let r0 = self.r[0];
        let r1 = self.r[1];
        let r2 = self.r[2];

        let mut h0 = self.h[0];
        let mut h1 = self.h[1];
        let mut h2 = self.h[2];

        let s1 = r1 * (5 << 2);
        let s2 = r2 * (5 << 2);

        for m in input.chunks(BLOCK_SIZE) {
            // h += m[i]
            let t0 = load_u64_le(&m[0..8]);
            let t1 = load_u64_le(&m[8..]);

            h0 = h0.wrapping_add(t0 & 0xfffffffffff);
            h1 = h1.wrapping_add(((t0 >> 44) | (t1 << 20)) & 0xfffffffffff);
            h2 = h2.wrapping_add(((t1 >> 24) & 0x3ffffffffff) | hibit);

            self.h[0] = h0;
            self.h[1] = h1;
            self.h[2] = h2;

            // h *= r
            let d0 = mul(h0, r0) + mul(h1, s2) + mul(h2, s1);
            let mut d1 = mul(h0, r1) + mul(h1, r0) + mul(h2, s2);
            let mut d2 = mul(h0, r2) + mul(h1, r1) + mul(h2, r0);

            self.h[0] = h0;
            self.h[1] = h1;
            self.h[2] = h2;

            // (partial) h %= p
            let mut c = shr(d0, 44);
            h0 = lo(d0) & 0xfffffffffff;
            d1 += c as u128;
            c = shr(d1, 44);
            h1 = lo(d1) & 0xfffffffffff;
            d2 += c as u128;
            c = shr(d2, 42);
            h2 = lo(d2) & 0x3ffffffffff;
            h0 += c * 5;
            c = h0 >> 44;
            h0 &= 0xfffffffffff;
            h1 += c;

            self.h[0] = h0;
            self.h[1] = h1;
            self.h[2] = h2;
        }

        self.h[0] = h0;
        self.h[1] = h1;
        self.h[2] = h2;
    }

    pub fn finalize_to_array(&mut self) -> [u8; BLOCK_SIZE] {
        let mut mac = [0u8; 16];

        self.finalize(&mut mac);

        mac
    }

    pub fn finalize(&mut self, output: &mut [u8]) {
        // process any remaining block
        if !self.buffer.is_empty() {
            self.buffer.push(1);
            if self.buffer.len() % BLOCK_SIZE != 0 {
                self.buffer.resize(
                    self.buffer.len() + (BLOCK_SIZE - self.buffer.len() % BLOCK_SIZE),
                    0,
                );
            }

            self.blocks(&self.buffer.clone(), true);
        }

        // fully carry h
        let mut h0 = self.h[0];
        let mut h1 = self.h[1];
        let mut h2 = self.h[2];

        let mut c = h1 >> 44;
        h1 &= 0xfffffffffff;
        h2 += c;
        c = h2 >> 42;
        h2 &= 0x3ffffffffff;
        h0 += c * 5;
        c = h0 >> 44;
        h0 &= 0xfffffffffff;
        h1 += c;
        c = h1 >> 44;
        h1 &= 0xfffffffffff;
        h2 += c;
        c = h2 >> 42;
        h2 &= 0x3ffffffffff;
        h0 += c * 5;
        c = h0 >> 44;
        h0 &= 0xfffffffffff;
        h1 += c;

        // compute h + -p
        let mut g0 = h0.wrapping_add(5);
        c = g0 >> 44;
        g0 &= 0xfffffffffff;
        let mut g1 = h1.wrapping_add(c);
        c = g1 >> 44;
        g1 &= 0xfffffffffff;
        let mut g2 = (h2.wrapping_add(c)).wrapping_sub(1u64 << 42);

        // select h if h < p, or h + -p if h >= p
        let mut mask = (g2 >> ((8 * 8) - 1)).wrapping_sub(1);
        g0 &= mask;
        g1 &= mask;
        g2 &= mask;
        mask = !mask;
        h0 = (h0 & mask) | g0;
        h1 = (h1 & mask) | g1;
        h2 = (h2 & mask) | g2;

        // h = (h + pad)
        let t0 = self.pad[0];
        let t1 = self.pad[1];

        h0 = h0.wrapping_add(t0 & 0xfffffffffff);
        c = h0 >> 44;
        h0 &= 0xfffffffffff;
        h1 = h1.wrapping_add((((t0 >> 44) | (t1 << 20)) & 0xfffffffffff).wrapping_add(c));
        c = h1 >> 44;
        h1 &= 0xfffffffffff;
        h2 = h2.wrapping_add(((t1 >> 24) & 0x3ffffffffff).wrapping_add(c));
        h2 &= 0x3ffffffffff;

        // mac = h % (2^128)
        h0 |= h1 << 44;
        h1 = (h1 >> 20) | (h2 << 24);

        output[0..8].copy_from_slice(&h0.to_le_bytes());
        output[8..16].copy_from_slice(&h1.to_le_bytes());

        // zero out the state
        self.zeroize();
    }
}

#[cfg(test)]
mod tests {
    use rand::TryRngCore;

    use super::*;

    #[test]
    fn test_example_vector() {
        // from https://tools.ietf.org/html/rfc7539#section-2.5.2
        let key = Key::from(&[
            0x85, 0xd6, 0xbe, 0x78, 0x57, 0x55, 0x6d, 0x33, 0x7f, 0x44, 0x52, 0xfe, 0x42, 0xd5,
            0x06, 0xa8, 0x01, 0x03, 0x80, 0x8a, 0xfb, 0x0d, 0xb2, 0xfd, 0x4a, 0xbf, 0xf6, 0xaf,
            0x41, 0x49, 0xf5, 0x1b,
        ]);
        let text = b"Cryptographic Forum Research Group";

        let mut mac = Poly1305::new(&key);
        mac.update(text);
        let mac = mac.finalize_to_array();

        use sodiumoxide::crypto::onetimeauth::poly1305::{Key as SOKey, authenticate};
        let so_key = SOKey::from_slice(&key).expect("key");
        let so_mac = authenticate(text, &so_key);
        assert_eq!(mac, so_mac.as_ref());
        assert_eq!(
            mac,
            [
                0xa8, 0x06, 0x1d, 0xc1, 0x30, 0x51, 0x36, 0xc6, 0xc2, 0x2b, 0x8b, 0xaf, 0x0c, 0x01,
                0x27, 0xa9,
            ]
        );
    }

    #[test]
    fn test_vector_1() {
        // from https://tools.ietf.org/html/rfc7539#appendix-A.3
        let key = Key::new();
        let text = [0u8; 64];

        let mut mac = Poly1305::new(&key);
        mac.update(&text);
        let mac = mac.finalize_to_array();

        assert_eq!(mac, [0u8; 16]);
    }

    #[test]
    fn test_vector_2() {
        // from https://tools.ietf.org/html/rfc7539#appendix-A.3
        let key = Key::from(&[
            0x00, 0x00, 0x00, 0x00, 0x00, 0x00, 0x00, 0x00, 0x00, 0x00, 0x00, 0x00, 0x00, 0x00,
            0x00, 0x00, 0x36, 0xe5, 0xf6, 0xb5, 0xc5, 0xe0, 0x60, 0x70, 0xf0, 0xef, 0xca, 0x96,
            0x22, 0x7a, 0x86, 0x3e,
        ]);
        let text = b"Any submission to the IETF intended by the Contributor for publication as all or part of an IETF Internet-Draft or RFC and any statement made within the context of an IETF activity is considered an \"IETF Contribution\". Such statements include oral statements in IETF sessions, as well as written and electronic communications made at any time or place, which are addressed to";

        let mut mac = Poly1305::new(&key);
        mac.update(text);
        let mac = mac.finalize_to_array();

        assert_eq!(
            mac,
            [
                0x36, 0xe5, 0xf6, 0xb5, 0xc5, 0xe0, 0x60, 0x70, 0xf0, 0xef, 0xca, 0x96, 0x22, 0x7a,
                0x86, 0x3e,
            ]
        );
    }

    #[test]
    fn test_vector_3() {
        // from https://tools.ietf.org/html/rfc7539#appendix-A.3
        let key = Key::from(&[
            0x36, 0xe5, 0xf6, 0xb5, 0xc5, 0xe0, 0x60, 0x70, 0xf0, 0xef, 0xca, 0x96, 0x22, 0x7a,
            0x86, 0x3e, 0x00, 0x00, 0x00, 0x00, 0x00, 0x00, 0x00, 0x00, 0x00, 0x00, 0x00, 0x00,
            0x00, 0x00, 0x00, 0x00,
        ]);
        let text = b"Any submission to the IETF intended by the Contributor for publication as all or part of an IETF Internet-Draft or RFC and any statement made within the context of an IETF activity is considered an \"IETF Contribution\". Such statements include oral statements in IETF sessions, as well as written and electronic communications made at any time or place, which are addressed to";

        let mut mac = Poly1305::new(&key);
        mac.update(text);
        let mac = mac.finalize_to_array();

        assert_eq!(
            mac,
            [
                0xf3, 0x47, 0x7e, 0x7c, 0xd9, 0x54, 0x17, 0xaf, 0x89, 0xa6, 0xb8, 0x79, 0x4c, 0x31,
                0x0c, 0xf0,
            ]
        );
    }

    #[test]
    fn test_vector_4() {
        // from https://tools.ietf.org/html/rfc7539#appendix-A.3
        let key = Key::from(&[
            0x1c, 0x92, 0x40, 0xa5, 0xeb, 0x55, 0xd3, 0x8a, 0xf3, 0x33, 0x88, 0x86, 0x04, 0xf6,
            0xb5, 0xf0, 0x47, 0x39, 0x17, 0xc1, 0x40, 0x2b, 0x80, 0x09, 0x9d, 0xca, 0x5c, 0xbc,
            0x20, 0x70, 0x75, 0xc0,
        ]);
        let text = [
            0x27u8, 0x54u8, 0x77u8, 0x61u8, 0x73u8, 0x20u8, 0x62u8, 0x72u8, 0x69u8, 0x6cu8, 0x6cu8,
            0x69u8, 0x67u8, 0x2cu8, 0x20u8, 0x61u8, 0x6eu8, 0x64u8, 0x20u8, 0x74u8, 0x68u8, 0x65u8,
            0x20u8, 0x73u8, 0x6cu8, 0x69u8, 0x74u8, 0x68u8, 0x79u8, 0x20u8, 0x74u8, 0x6fu8, 0x76u8,
            0x65u8, 0x73u8, 0x0au8, 0x44u8, 0x69u8, 0x64u8, 0x20u8, 0x67u8, 0x79u8, 0x72u8, 0x65u8,
            0x20u8, 0x61u8, 0x6eu8, 0x64u8, 0x20u8, 0x67u8, 0x69u8, 0x6du8, 0x62u8, 0x6cu8, 0x65u8,
            0x20u8, 0x69u8, 0x6eu8, 0x20u8, 0x74u8, 0x68u8, 0x65u8, 0x20u8, 0x77u8, 0x61u8, 0x62u8,
            0x65u8, 0x3au8, 0x0au8, 0x41u8, 0x6cu8, 0x6cu8, 0x20u8, 0x6du8, 0x69u8, 0x6du8, 0x73u8,
            0x79u8, 0x20u8, 0x77u8, 0x65u8, 0x72u8, 0x65u8, 0x20u8, 0x74u8, 0x68u8, 0x65u8, 0x20u8,
            0x62u8, 0x6fu8, 0x72u8, 0x6fu8, 0x67u8, 0x6fu8, 0x76u8, 0x65u8, 0x73u8, 0x2cu8, 0x0au8,
            0x41u8, 0x6eu8, 0x64u8, 0x20u8, 0x74u8, 0x68u8, 0x65u8, 0x20u8, 0x6du8, 0x6fu8, 0x6du8,
            0x65u8, 0x20u8, 0x72u8, 0x61u8, 0x74u8, 0x68u8, 0x73u8, 0x20u8, 0x6fu8, 0x75u8, 0x74u8,
            0x67u8, 0x72u8, 0x61u8, 0x62u8, 0x65u8, 0x2eu8,
        ];

        let mut mac = Poly1305::new(&key);
        mac.update(&text);
        let mac = mac.finalize_to_array();

        assert_eq!(
            mac,
            [
                0x45, 0x41, 0x66, 0x9a, 0x7e, 0xaa, 0xee, 0x61, 0xe7, 0x08, 0xdc, 0x7c, 0xbc, 0xc5,
                0xeb, 0x62,
            ]
        );
    }

    #[test]
    fn test_libsodium() {
        use rand_core::OsRng;
        use sodiumoxide::crypto::onetimeauth::poly1305::{Key as SOKey, authenticate};

        use crate::rng::copy_randombytes;

        let key = Key::gen();

        let so_key = SOKey::from_slice(&key).unwrap();

        for _ in 0..20 {
            let rand_usize = (OsRng.try_next_u32().unwrap() % 1000) as usize;
            let mut data = vec![0u8; rand_usize];
            copy_randombytes(&mut data);

            let mut mac = Poly1305::new(&key);
            mac.update(&data);
            let mac = mac.finalize_to_array();

            let so_mac = authenticate(&data, &so_key);

            assert_eq!(mac, so_mac.as_ref());
        }
    }
}
