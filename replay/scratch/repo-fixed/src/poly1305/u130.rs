use std::ops::{Deref, DerefMut, Mul};
use std::simd::{simd_swizzle, Simd, SimdUint};

use zeroize::Zeroize;

use crate::utils::load_u32_le;

#[derive(Clone, Copy, Zeroize)]
pub struct U130<State: U130State> {
    s: State,
}

#[derive(Clone, Copy, Zeroize)]
pub struct Reduced {
    #[zeroize(skip)]
    v: Simd<u32, 8>,
}
#[derive(Clone, Copy, Zeroize)]
pub struct Unreduced {
    #[zeroize(skip)]
    v: Simd<u64, 8>,
}
pub trait U130State {
    type Output;
    fn v(&self) -> &Self::Output;
}
impl U130State for Reduced {
    type Output = Simd<u32, 8>;

    fn v(&self) -> &Self::Output {
        &self.v
    }
}
impl U130State for Unreduced {
    type Output = Simd<u64, 8>;

    fn v(&self) -> &Self::Output {
        &self.v
    }
}

impl U130<Reduced> {
    pub fn to_u32_digits(&self) -> Vec<u32> {
        let mut v = *self.s.v();

        let lsb_mask = Simd::splat(0x3ffffff);
        let carry_shift = Simd::splat(26);
        let mut v_shift = Simd::from([6, 6, 6, 6, 0, 0, 0, 0]);

        for _ in 0..4 {
            let carry = (v & lsb_mask).rotate_lanes_right::<1>() << carry_shift;

            v >>= v_shift;
            v |= carry;

            v_shift = v_shift.rotate_lanes_right::<1>();
        }
        Vec::from(&v.to_array()[3..8])
    }

    pub fn from_u32_digits(v: &[u32]) -> Self {
        assert_eq!(v.len(), 5);
        let v = Simd::from([0, 0, 0, v[0], v[1], v[2], v[3], v[4]]);

        Self::u32x8_to_u130(v)
    }

    pub fn from_bytes(bytes: &[u8]) -> Self {
        let v = Simd::from([
            0,
            0,
            0,
            0,
            load_u32_le(&bytes[0..4]),
            load_u32_le(&bytes[4..8]),
            load_u32_le(&bytes[8..12]),
            load_u32_le(&bytes[12..16]),
        ]);

        Self::u32x8_to_u130(v)
    }

    #[inline]
    pub fn u32x8_to_u130(mut v: Simd<u32, 8>) -> Self {
        let lsb_mask = Simd::splat(0x3ffffff);
        let msb_mask = Simd::splat(0xfc000000);
        let carry_shift = Simd::splat(26);
        let mut v_shift = Simd::from([0, 0, 0, 6, 6, 6, 6, 0]);

        for _ in 0..4 {
            let carry = (v & msb_mask).rotate_lanes_left::<1>() >> carry_shift;

            v &= lsb_mask;
            v <<= v_shift;
            v |= carry;

            v_shift = v_shift.rotate_lanes_left::<1>();
        }

        Self { s: Reduced { v } }
    }

    fn reduce_sum(&self) -> u32 {
        self.s.v.reduce_sum()
    }
}

impl U130<Unreduced> {
    pub fn from_bytes(bytes: &[u8], hibit: u64) -> Self {
        let v = Simd::from([
            0,
            0,
            0,
            hibit,
            load_u32_le(&bytes[0..4]) as u64,
            load_u32_le(&bytes[4..8]) as u64,
            load_u32_le(&bytes[8..12]) as u64,
            load_u32_le(&bytes[12..16]) as u64,
        ]);

        Self { s: Unreduced { v } }
    }

    fn reduce_sum(&self) -> u64 {
        self.s.v.reduce_sum()
    }
}

impl From<Simd<u32, 8>> for U130<Reduced> {
    fn from(v: Simd<u32, 8>) -> Self {
        Self { s: Reduced { v } }
    }
}

impl From<Simd<u64, 8>> for U130<Unreduced> {
    fn from(v: Simd<u64, 8>) -> Self {
        Self { s: Unreduced { v } }
    }
}

impl U130<Unreduced> {
    #[inline]
    pub fn reduce(self) -> U130<Reduced> {
        let mask = Simd::from([
            0, 0, 0, 0x3ffffff, 0x3ffffff, 0x3ffffff, 0x3ffffff, 0x3ffffff,
        ]);
        self.reduce_with(mask)
    }

    #[inline]
    pub fn reduce_with(self, mask: Simd<u32, 8>) -> U130<Reduced> {
        let mut v = self.s.v;
        let lsb_mask = Simd::splat(0x3ffffff);
        let msb_mask = Simd::splat(0xfffffffffc000000);
        let carry_shift = Simd::splat(26);
        let carry_mask = Simd::from([
            0xffffffffffffffff,
            0xffffffffffffffff,
            0xffffffffffffffff,
            0xffffffffffffffff,
            0xffffffffffffffff,
            0xffffffffffffffff,
            0xffffffffffffffff,
            0,
        ]);

        for _ in 0..4 {
            let carry = (v & msb_mask).rotate_lanes_left::<1>() >> carry_shift;
            let carry = carry & carry_mask;

            v &= lsb_mask;
            v += carry;
        }

        let v = v.cast::<u32>() & mask;

        U130 { s: Reduced { v } }
    }
}

impl<'a, State: U130State> Mul for &'a U130<State>
where
    &'a State: Mul<Output = Unreduced>,
{
    type Output = U130<Unreduced>;

    /// Multiplies 2 u130s using base 26 grid multiplication with u64s.
    fn mul(self, rhs: Self) -> Self::Output {
        Self::Output {
            s: &self.s * &rhs.s,
        }
    }
}

impl<'a, 'b> Mul<&'b U130<Unreduced>> for &'a U130<Reduced> {
    type Output = U130<Unreduced>;

    /// Multiplies 2 u130s using base 26 grid multiplication with u64s.
    fn mul(self, rhs: &'b U130<Unreduced>) -> Self::Output {
        Self::Output {
            s: &self.s.upcast() * &rhs.s,
        }
    }
}

impl<'a, 'b> Mul<&'b U130<Reduced>> for &'a U130<Unreduced> {
    type Output = U130<Unreduced>;

    /// Multiplies 2 u130s using base 26 grid multiplication with u64s.
    fn mul(self, rhs: &'b U130<Reduced>) -> Self::Output {
        Self::Output {
            s: &self.s * &rhs.s.upcast(),
        }
    }
}

impl<State: U130State + Mul<Output = Unreduced>> Mul for U130<State> {
    type Output = U130<Unreduced>;

    /// Multiplies 2 u130s using base 26 grid multiplication with u64s.
    fn mul(self, rhs: Self) -> Self::Output {
        Self::Output { s: self.s * rhs.s }
    }
}

impl Mul<U130<Reduced>> for U130<Unreduced> {
    type Output = U130<Unreduced>;

    /// Multiplies 2 u130s using base 26 grid multiplication with u64s.
    fn mul(self, rhs: U130<Reduced>) -> Self::Output {
        Self::Output {
            s: self.s * rhs.s.upcast(),
        }
    }
}

impl Mul<U130<Unreduced>> for U130<Reduced> {
    type Output = U130<Unreduced>;

    /// Multiplies 2 u130s using base 26 grid multiplication with u64s.
    fn mul(self, rhs: U130<Unreduced>) -> Self::Output {
        Self::Output {
            s: self.s.upcast() * rhs.s,
        }
    }
}

impl Reduced {
    fn upcast(self) -> Unreduced {
        Unreduced { v: self.v.cast() }
    }
}

fn mul_unreduced(lhs: &Unreduced, rhs: &Unreduced) -> Simd<u64, 8> {
    let mul = lhs.v * rhs.v;
    //   100000000   1000000   10000    100      1
    // [         3,        4,      5,     6,     7]
    let acc = simd_swizzle!(mul, [0, 4, 0, 5, 0, 6, 0, 7]);

    //       10000  10000000  100000   1000     10
    // [         3,        4,      5,     6,     7]
    let mul = lhs.v * simd_swizzle!(rhs.v, [0, 1, 2, 7, 3, 4, 5, 6]);
    let acc = acc + simd_swizzle!(mul, [4, 0, 5, 3, 6, 0, 7, 0]);

    //      100000      1000 1000000  10000    100
    // [         3,        4,      5,     6,     7]
    let mul = lhs.v * simd_swizzle!(rhs.v, [0, 1, 2, 6, 7, 3, 4, 5]);
    let acc = acc + simd_swizzle!(mul, [0, 5, 3, 6, 4, 7, 0, 0]);

    //     1000000     10000     100 100000   1000
    // [         3,        4,      5,     6,     7]
    let mul = lhs.v * simd_swizzle!(rhs.v, [0, 1, 2, 5, 6, 7, 3, 4]);
    let acc = acc + simd_swizzle!(mul, [0, 3, 6, 4, 7, 5, 0, 0]);

    //    10000000    100000    1000     10  10000
    // [         3,        4,      5,     6,     7]
    let mul = lhs.v * simd_swizzle!(rhs.v, [0, 1, 2, 4, 5, 6, 7, 3]);
    let acc = acc + simd_swizzle!(mul, [3, 0, 4, 7, 5, 0, 6, 0]);

    acc
}

impl<'a> Mul for &'a Reduced {
    type Output = Unreduced;

    fn mul(self, rhs: Self) -> Self::Output {
        // upcast u32x8 to u64x8

        let acc = mul_unreduced(&self.upcast(), &rhs.upcast());

        Unreduced { v: acc }
    }
}

impl Mul for Reduced {
    type Output = Unreduced;

    fn mul(self, rhs: Self) -> Self::Output {
        let acc = mul_unreduced(&self.upcast(), &rhs.upcast());

        Unreduced { v: acc }
    }
}

impl<'a> Mul for &'a Unreduced {
    type Output = Unreduced;

    fn mul(self, rhs: Self) -> Self::Output {
        let acc = mul_unreduced(self, rhs);

        Unreduced { v: acc }
    }
}

impl Mul for Unreduced {
    type Output = Unreduced;

    fn mul(self, rhs: Self) -> Self::Output {
        let acc = mul_unreduced(&self, &rhs);

        Unreduced { v: acc }
    }
}

impl Deref for U130<Reduced> {
    type Target = Simd<u32, 8>;

    fn deref(&self) -> &Self::Target {
        &self.s.v
    }
}

impl DerefMut for U130<Reduced> {
    fn deref_mut(&mut self) -> &mut Self::Target {
        &mut self.s.v
    }
}

impl Deref for U130<Unreduced> {
    type Target = Simd<u64, 8>;

    fn deref(&self) -> &Self::Target {
        &self.s.v
    }
}

impl DerefMut for U130<Unreduced> {
    fn deref_mut(&mut self) -> &mut Self::Target {
        &mut self.s.v
    }
}

#[cfg(test)]
mod tests {
    use num_bigint::BigUint;

    use super::*;

    #[test]
    fn test_u130_digits() {
        use num_bigint::RandBigInt;

        let mut rng = rand::thread_rng();
        let a = rng.gen_biguint(130);

        let mut u32_digits: Vec<_> = a.iter_u32_digits().collect();
        u32_digits.resize(5, 0);
        u32_digits.reverse();

        let u130 = U130::from_u32_digits(u32_digits.as_slice());

        let blap = u130.to_u32_digits();

        assert_eq!(u32_digits, blap);
    }

    #[test]
    fn test_u130_mul() {
        use num_bigint::RandBigInt;

        let mut rng = rand::thread_rng();
        let a = rng.gen_biguint(130);

        let mut u32_digits: Vec<_> = a.iter_u32_digits().collect();
        u32_digits.resize(5, 0);
        u32_digits.reverse();

        let u130 = U130::from_u32_digits(u32_digits.as_slice());

        // check multiplication
        let u130_squared = u130 * u130;

        let mut clamp_u130 = BigUint::from_slice(&[]);
        for i in 0..130 {
            clamp_u130.set_bit(i, true);
        }
        let a_squared = (&a * &a) & &clamp_u130;

        let mut u32_digits: Vec<_> = a_squared.iter_u32_digits().collect();
        u32_digits.resize(5, 0);
        u32_digits.reverse();

        let blap = u130_squared.reduce().to_u32_digits();

        assert_eq!(u32_digits, blap);
    }

    #[test]
    fn test_u130_mul_simple() {
        let u130_1 = U130::from_u32_digits(&[0, 0, 3, 4, 5]);
        let u130_2 = U130::from_u32_digits(&[0, 0, 0, 0, 0]);

        let u130_mul = u130_1 * u130_2;

        let blap = u130_mul.reduce().to_u32_digits();

        assert_eq!(&[0, 0, 0, 0, 0], blap.as_slice());

        let u130_1 = U130::from_u32_digits(&[0, 0, 3, 4, 5]);
        let u130_2 = U130::from_u32_digits(&[0, 0, 0, 0, 1]);

        let u130_mul = u130_1 * u130_2;

        let blap = u130_mul.reduce().to_u32_digits();

        assert_eq!(&[0, 0, 3, 4, 5], blap.as_slice());

        let u130_1 = U130::from_u32_digits(&[0, 0, 3, 4, 5]);
        let u130_2 = U130::from_u32_digits(&[0, 0, 0, 0, 2]);

        let u130_mul = u130_1 * u130_2;

        let blap = u130_mul.reduce().to_u32_digits();

        assert_eq!(&[0, 0, 6, 8, 10], blap.as_slice());

        let u130_1 = U130::from_u32_digits(&[0, 0, 0, 1, 0]);
        let u130_2 = U130::from_u32_digits(&[0, 0, 0, 1, 0]);

        let u130_mul = u130_1 * u130_2;

        let blap = u130_mul.reduce().to_u32_digits();

        assert_eq!(&[0, 0, 1, 0, 0], blap.as_slice());

        let u130_1 = U130::from_u32_digits(&[0, 0, 0, 1, 0]);
        let u130_2 = U130::from_u32_digits(&[0, 0, 1, 0, 0]);

        let u130_mul = u130_1 * u130_2;

        let blap = u130_mul.reduce().to_u32_digits();

        assert_eq!(&[0, 1, 0, 0, 0], blap.as_slice());

        let u130_1 = U130::from_u32_digits(&[0, 0, 0, 1, 0]);
        let u130_2 = U130::from_u32_digits(&[0, 1, 0, 0, 0]);

        let u130_mul = u130_1 * u130_2;

        let blap = u130_mul.reduce().to_u32_digits();

        assert_eq!(&[1, 0, 0, 0, 0], blap.as_slice());

        let u130_1 = U130::from_u32_digits(&[1, 1, 1, 1, 1]);
        let u130_2 = U130::from_u32_digits(&[0, 0, 0, 0, 2]);

        let u130_mul = u130_1 * u130_2;

        let blap = u130_mul.reduce().to_u32_digits();

        assert_eq!(&[2, 2, 2, 2, 2], blap.as_slice());
        let u130_1 = U130::from_u32_digits(&[u32::MAX, u32::MAX, u32::MAX, u32::MAX, u32::MAX]);
        let u130_2 = U130::from_u32_digits(&[0, 0, 0, 0, 1]);

        let u130_mul = u130_1 * u130_2;

        let blap = u130_mul.reduce().to_u32_digits();

        assert_eq!(
            &[3, u32::MAX, u32::MAX, u32::MAX, u32::MAX],
            blap.as_slice()
        );
    }
}
