//! Precalculated secret key for use with `precalc_*` functions in
//! [`crate::dryocbox::DryocBox`]
//!
//! You may want to use `precalc_*` functions if you need to
//! encrypt/decrypt multiple messages between the same sender and receiver.
use zeroize::{Zeroize, ZeroizeOnDrop};

use crate::constants::{
    CRYPTO_BOX_BEFORENMBYTES, CRYPTO_BOX_PUBLICKEYBYTES, CRYPTO_BOX_SECRETKEYBYTES,
};
use crate::types::{ByteArray, Bytes, MutByteArray, MutBytes, StackByteArray};

type InnerKey = StackByteArray<CRYPTO_BOX_BEFORENMBYTES>;

/// Precalculated secret key for use with `precalc_*` functions in
/// [`crate::dryocbox::DryocBox`].
///
/// You probably want to use `precalc_*` functions if you need to
/// encrypt/decrypt multiple messages between the same sender and receiver.
/// These functions save computation time by using [`PrecalcSecretKey`]
/// instead of computing the shared secret every time.
///
/// Using precalculated secret keys is compatible with libsodium's
/// `crypto_box_beforenm`.
#[derive(Zeroize, ZeroizeOnDrop, Debug, PartialEq, Eq, Clone)]
pub struct PrecalcSecretKey<InnerKey: ByteArray<CRYPTO_BOX_BEFORENMBYTES> + Zeroize>(InnerKey);

impl<InnerKey: ByteArray<CRYPTO_BOX_BEFORENMBYTES> + Bytes + Zeroize> Bytes
    for PrecalcSecretKey<InnerKey>
{
    #[inline]
    fn as_slice(&self) -> &[u8] {
        self.0.as_slice()
    }

    #[inline]
    fn is_empty(&self) -> bool {
        self.0.is_empty()
    }

    #[inline]
    fn len(&self) -> usize {
        self.0.len()
    }
}

impl<InnerKey: ByteArray<CRYPTO_BOX_BEFORENMBYTES> + Zeroize> ByteArray<CRYPTO_BOX_BEFORENMBYTES>
    for PrecalcSecretKey<InnerKey>
{
    #[inline]
    fn as_array(&self) -> &[u8; CRYPTO_BOX_BEFORENMBYTES] {
        self.0.as_array()
    }
}

impl<InnerKey: ByteArray<CRYPTO_BOX_BEFORENMBYTES> + Zeroize + MutBytes> MutBytes
    for PrecalcSecretKey<InnerKey>
{
    #[inline]
    fn as_mut_slice(&mut self) -> &mut [u8] {
        self.0.as_mut_slice()
    }

    #[inline]
    fn copy_from_slice(&mut self, other: &[u8]) {
        self.0.copy_from_slice(other);
    }
}

impl<InnerKey: MutByteArray<CRYPTO_BOX_BEFORENMBYTES> + Zeroize>
    MutByteArray<CRYPTO_BOX_BEFORENMBYTES> for PrecalcSecretKey<InnerKey>
{
    #[inline]
    fn as_mut_array(&mut self) -> &mut [u8; CRYPTO_BOX_BEFORENMBYTES] {
        self.0.as_mut_array()
    }
}

impl PrecalcSecretKey<InnerKey> {
    /// Computes a stack-allocated shared secret key for the given
    /// `third_party_public_key` and `secret_key`.
    ///
    /// Compatible with libsodium's `crypto_box_beforenm`.
    #[inline]
    pub fn precalculate<
        ThirdPartyPublicKey: ByteArray<CRYPTO_BOX_PUBLICKEYBYTES>,
        SecretKey: ByteArray<CRYPTO_BOX_SECRETKEYBYTES>,
    >(
        third_party_public_key: &ThirdPartyPublicKey,
        secret_key: &SecretKey,
    ) -> Self {
        use crate::classic::crypto_box::crypto_box_beforenm;

        Self(crypto_box_beforenm(third_party_public_key.as_array(), secret_key.as_array()).into())
    }
}

#[cfg(any(feature = "nightly", all(doc, not(doctest))))]
#[cfg_attr(all(feature = "nightly", doc), doc(cfg(feature = "nightly")))]
pub mod protected {
    //! #  Protected memory for [`PrecalcSecretKey`]
    use super::*;
    pub use crate::protected::*;

    type InnerKey = HeapByteArray<CRYPTO_BOX_PUBLICKEYBYTES>;

    impl PrecalcSecretKey<Locked<InnerKey>> {
        /// Computes a heap-allocated, page-aligned, locked shared secret key
        /// for the given `third_party_public_key` and `secret_key`.
        ///
        /// Compatible with libsodium's `crypto_box_beforenm`.
        pub fn precalculate_locked<
            ThirdPartyPublicKey: ByteArray<CRYPTO_BOX_PUBLICKEYBYTES>,
            SecretKey: ByteArray<CRYPTO_BOX_SECRETKEYBYTES>,
        >(
            third_party_public_key: &ThirdPartyPublicKey,
            secret_key: &SecretKey,
        ) -> Result<Self, std::io::Error> {
            use crate::classic::crypto_box::crypto_box_beforenm;

            let mut precalc = HeapByteArray::<CRYPTO_BOX_BEFORENMBYTES>::new_locked()?;
            let mut key =
                crypto_box_beforenm(third_party_public_key.as_array(), secret_key.as_array());

            precalc.copy_from_slice(&key);
            key.zeroize();

            Ok(PrecalcSecretKey(precalc))
        }
    }

    impl PrecalcSecretKey<LockedRO<InnerKey>> {
        /// Computes a heap-allocated, page-aligned, locked, read-only shared
        /// secret key for the given `third_party_public_key` and
        /// `secret_key`.
        ///
        /// Compatible with libsodium's `crypto_box_beforenm`.
        pub fn precalculate_readonly_locked<
            ThirdPartyPublicKey: ByteArray<CRYPTO_BOX_PUBLICKEYBYTES>,
            SecretKey: ByteArray<CRYPTO_BOX_SECRETKEYBYTES>,
        >(
            third_party_public_key: &ThirdPartyPublicKey,
            secret_key: &SecretKey,
        ) -> Result<Self, std::io::Error> {
            use crate::classic::crypto_box::crypto_box_beforenm;

            let mut precalc = HeapByteArray::<CRYPTO_BOX_BEFORENMBYTES>::new_locked()?;
            let mut key =
                crypto_box_beforenm(third_party_public_key.as_array(), secret_key.as_array());

            precalc.copy_from_slice(&key);
            key.zeroize();

            Ok(PrecalcSecretKey(precalc.mprotect_readonly()?))
        }
    }
}

impl<InnerKey: ByteArray<CRYPTO_BOX_BEFORENMBYTES> + Zeroize> std::ops::Deref
    for PrecalcSecretKey<InnerKey>
{
    type Target = InnerKey;

    fn deref(&self) -> &Self::Target {
        &self.0
    }
}

impl<InnerKey: ByteArray<CRYPTO_BOX_BEFORENMBYTES> + Zeroize> std::ops::DerefMut
    for PrecalcSecretKey<InnerKey>
{
    fn deref_mut(&mut self) -> &mut Self::Target {
        &mut self.0
    }
}
#[cfg(test)]
mod tests {
    use super::*;
    use crate::constants::{CRYPTO_BOX_PUBLICKEYBYTES, CRYPTO_BOX_SECRETKEYBYTES};

    #[test]
    fn test_precalculate() {
        let public_key = StackByteArray::<CRYPTO_BOX_PUBLICKEYBYTES>::default();
        let secret_key = StackByteArray::<CRYPTO_BOX_SECRETKEYBYTES>::default();
        let precalc_key = PrecalcSecretKey::precalculate(&public_key, &secret_key);
        assert!(!precalc_key.is_empty());
        assert_eq!(precalc_key.len(), CRYPTO_BOX_BEFORENMBYTES);
    }

    #[cfg(feature = "nightly")]
    #[test]
    fn test_precalculate_locked() {
        let public_key = StackByteArray::<CRYPTO_BOX_PUBLICKEYBYTES>::default();
        let secret_key = StackByteArray::<CRYPTO_BOX_SECRETKEYBYTES>::default();
        let mut precalc_key =
            PrecalcSecretKey::precalculate_locked(&public_key, &secret_key).unwrap();
        assert!(!precalc_key.is_empty());
        assert_eq!(precalc_key.len(), CRYPTO_BOX_BEFORENMBYTES);

        // should be able to write now without blowing up
        precalc_key.as_mut_slice()[0] = 0;
        precalc_key.as_mut_array()[0] = 1;
        precalc_key.copy_from_slice(&precalc_key.as_slice().to_owned());
    }

    #[cfg(feature = "nightly")]
    #[test]
    fn test_precalculate_readonly_locked() {
        let public_key = StackByteArray::<CRYPTO_BOX_PUBLICKEYBYTES>::default();
        let secret_key = StackByteArray::<CRYPTO_BOX_SECRETKEYBYTES>::default();
        let precalc_key =
            PrecalcSecretKey::precalculate_readonly_locked(&public_key, &secret_key).unwrap();
        assert!(!precalc_key.is_empty());
        assert_eq!(precalc_key.len(), CRYPTO_BOX_BEFORENMBYTES);
    }
}
