/// Provides random data up to `len` from the OS's random number generator.
pub fn randombytes_buf(len: usize) -> Vec<u8> {
    use rand_core::{OsRng, TryRngCore};

    let mut r: Vec<u8> = vec![0; len];
    OsRng
        .try_fill_bytes(r.as_mut_slice())
        .expect("failed to fill random bytes");

    r
}

/// Provides random data up to length of `data` from the OS's random number
/// generator.
pub fn copy_randombytes(dest: &mut [u8]) {
    use rand_core::{OsRng, TryRngCore};

    OsRng
        .try_fill_bytes(dest)
        .expect("failed to fill random bytes");
}
