use curve25519_dalek::constants::ED25519_BASEPOINT_TABLE;
use curve25519_dalek::montgomery::MontgomeryPoint;
use curve25519_dalek::scalar::Scalar;

use crate::constants::{
    CRYPTO_SCALARMULT_CURVE25519_BYTES, CRYPTO_SCALARMULT_CURVE25519_SCALARBYTES,
};

fn clamp(
    n: &[u8; CRYPTO_SCALARMULT_CURVE25519_SCALARBYTES],
) -> [u8; CRYPTO_SCALARMULT_CURVE25519_SCALARBYTES] {
    let mut s = *n;
    s[0] &= 248;
    s[31] &= 127;
    s[31] |= 64;
    s
}

pub(crate) fn crypto_scalarmult_curve25519_base(
    q: &mut [u8; CRYPTO_SCALARMULT_CURVE25519_BYTES],
    n: &[u8; CRYPTO_SCALARMULT_CURVE25519_SCALARBYTES],
) {
    let sk = Scalar::from_bytes_mod_order(clamp(n));
    let pk = (ED25519_BASEPOINT_TABLE * &sk).to_montgomery();

    q.copy_from_slice(pk.as_bytes());
}

pub(crate) fn crypto_scalarmult_curve25519(
    q: &mut [u8; CRYPTO_SCALARMULT_CURVE25519_BYTES],
    n: &[u8; CRYPTO_SCALARMULT_CURVE25519_SCALARBYTES],
    p: &[u8; CRYPTO_SCALARMULT_CURVE25519_BYTES],
) {
    let pk = MontgomeryPoint(*p);
    let shared_secret = pk.mul_clamped(*n);

    q.copy_from_slice(shared_secret.as_bytes());
}
