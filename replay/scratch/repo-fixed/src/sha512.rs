//! # SHA-512 hash algorithm
//!
//! Provides an implementation of the SHA-512 hash algorithm.
//!
//! ## Example
//!
//! ```
//! use dryoc::sha512::Sha512;
//!
//! let mut state = Sha512::new();
//! state.update(b"bytes");
//! let hash = state.finalize_to_vec();
//! ```
use generic_array::GenericArray;
use generic_array::typenum::U64;
use sha2::{Digest as DigestImpl, Sha512 as Sha512Impl};

use crate::constants::CRYPTO_HASH_SHA512_BYTES;
use crate::types::*;

/// Type alias for SHA512 digest, provided for convience.
pub type Digest = StackByteArray<CRYPTO_HASH_SHA512_BYTES>;

/// SHA-512 wrapper, provided for convience.
pub struct Sha512 {
    hasher: Sha512Impl,
}

impl Sha512 {
    /// Returns a new SHA-512 hasher instance.
    pub fn new() -> Self {
        Self {
            hasher: Sha512Impl::new(),
        }
    }

    /// One-time interface to compute SHA-512 digest for `input`, copying result
    /// into `output`.
    pub fn compute_into_bytes<
        Input: Bytes + ?Sized,
        Output: MutByteArray<CRYPTO_HASH_SHA512_BYTES>,
    >(
        output: &mut Output,
        input: &Input,
    ) {
        let mut hasher = Self::new();
        hasher.update(input);
        hasher.finalize_into_bytes(output)
    }

    /// One-time interface to compute SHA-512 digest for `input`.
    pub fn compute<Input: Bytes + ?Sized, Output: NewByteArray<CRYPTO_HASH_SHA512_BYTES>>(
        input: &Input,
    ) -> Output {
        let mut hasher = Self::new();
        hasher.update(input);
        hasher.finalize()
    }

    /// Wrapper around [`Sha512::compute`], returning a [`Vec`]. Provided for
    /// convenience.
    pub fn compute_to_vec<Input: Bytes + ?Sized>(input: &Input) -> Vec<u8> {
        Self::compute(input)
    }

    /// Updates SHA-512 hash state with `input`.
    pub fn update<Input: Bytes + ?Sized>(&mut self, input: &Input) {
        self.hasher.update(input.as_slice())
    }

    /// Consumes hasher and return final computed hash.
    pub fn finalize<Output: NewByteArray<CRYPTO_HASH_SHA512_BYTES>>(self) -> Output {
        let mut hash = Output::new_byte_array();
        self.finalize_into_bytes(&mut hash);
        hash
    }

    /// Consumes hasher and writes final computed hash into `output`.
    pub fn finalize_into_bytes<Output: MutByteArray<CRYPTO_HASH_SHA512_BYTES>>(
        mut self,
        output: &mut Output,
    ) {
        let arr = GenericArray::<_, U64>::from_mut_slice(output.as_mut_slice());
        self.hasher.finalize_into_reset(arr);
    }

    /// Consumes hasher and returns final computed hash as a [`Vec`].
    pub fn finalize_to_vec(self) -> Vec<u8> {
        self.finalize()
    }
}

impl Default for Sha512 {
    fn default() -> Self {
        Self::new()
    }
}

#[cfg(test)]
mod tests {
    use super::*;

    #[test]
    fn test_sha512() {
        use sodiumoxide::crypto::hash;

        use crate::rng::randombytes_buf;

        let mut their_state = hash::State::new();
        let mut our_state = Sha512::new();

        for _ in 0..10 {
            let r = randombytes_buf(64);
            their_state.update(&r);
            our_state.update(&r);
        }

        let their_digest = their_state.finalize();
        let our_digest = our_state.finalize_to_vec();

        assert_eq!(their_digest.as_ref(), our_digest);
    }
}
