/// Increments `bytes` in constant time, representing a large little-endian
/// integer; equivalent to `sodium_increment`.
#[inline]
pub fn increment_bytes(bytes: &mut [u8]) {
    let mut carry: u16 = 1;
    for b in bytes {
        carry += *b as u16;
        *b = (carry & 0xff) as u8;
        carry >>= 8;
    }
}

/// Convenience wrapper for [`increment_bytes`]. Functionally equivalent to
/// `sodium_increment`.
pub fn sodium_increment(bytes: &mut [u8]) {
    increment_bytes(bytes)
}

#[inline]
pub(crate) fn xor_buf(out: &mut [u8], in_: &[u8]) {
    let len = std::cmp::min(out.len(), in_.len());
    for i in 0..len {
        out[i] ^= in_[i];
    }
}

#[inline]
pub(crate) fn load_u64_le(bytes: &[u8]) -> u64 {
    (bytes[0] as u64)
        | ((bytes[1] as u64) << 8)
        | ((bytes[2] as u64) << 16)
        | ((bytes[3] as u64) << 24)
        | ((bytes[4] as u64) << 32)
        | ((bytes[5] as u64) << 40)
        | ((bytes[6] as u64) << 48)
        | ((bytes[7] as u64) << 56)
}

#[inline]
pub(crate) fn load_u32_le(bytes: &[u8]) -> u32 {
    (bytes[0] as u32)
        | ((bytes[1] as u32) << 8)
        | ((bytes[2] as u32) << 16)
        | ((bytes[3] as u32) << 24)
}

// #[inline]
// pub(crate) fn load_i32_le(bytes: &[u8]) -> i32 {
//     (bytes[0] as i32) | (bytes[1] as i32) << 8 | (bytes[2] as i32) << 16 |
// (bytes[3] as i32) << 24 }

#[inline]
pub(crate) fn rotr64(x: u64, b: u64) -> u64 {
    (x >> b) | (x << (64 - b))
}

#[inline]
pub(crate) fn pad16(n: usize) -> usize {
    (0x10 - (n % 16)) & 0xf
}

#[cfg(test)]
mod tests {
    use rand::TryRngCore;

    use super::*;

    #[test]
    fn test_increment_bytes() {
        let mut b = [0];

        increment_bytes(&mut b);
        assert_eq!(b, [1]);
        increment_bytes(&mut b);
        assert_eq!(b, [2]);

        let mut b = [0xff];

        increment_bytes(&mut b);
        assert_eq!(b, [0]);
        increment_bytes(&mut b);
        assert_eq!(b, [1]);

        let mut b = [0xff, 0];

        increment_bytes(&mut b);
        assert_eq!(b, [0, 1]);
        increment_bytes(&mut b);
        assert_eq!(b, [1, 1]);
        increment_bytes(&mut b);
        assert_eq!(b, [2, 1]);
    }

    #[test]
    fn test_xor_buf() {
        let mut a = [0];
        let b = [0];

        xor_buf(&mut a, &b);
        assert_eq!([0], a);

        let mut a = [1];
        let b = [0];

        xor_buf(&mut a, &b);
        assert_eq!([1], a);

        let mut a = [1, 1, 1];
        let b = [0];

        xor_buf(&mut a, &b);
        assert_eq!([1, 1, 1], a);

        let mut a = [1, 1, 1];
        let b = [0];

        xor_buf(&mut a, &b);
        assert_eq!([1, 1, 1], a);

        let mut a = [1, 1, 1];
        let b = [0, 1, 1];

        xor_buf(&mut a, &b);
        assert_eq!([1, 0, 0], a);
    }

    #[test]
    fn test_sodium_increment() {
        use libsodium_sys::sodium_increment as so_sodium_increment;
        use rand_core::OsRng;

        use crate::rng::copy_randombytes;

        for _ in 0..20 {
            let rand_usize = (OsRng.try_next_u32().unwrap() % 1000) as usize;
            let mut data = vec![0u8; rand_usize];
            copy_randombytes(&mut data);

            let mut data_copy = data.clone();

            sodium_increment(&mut data);

            unsafe { so_sodium_increment(data_copy.as_mut_ptr(), data_copy.len()) };

            assert_eq!(data, data_copy);
        }
    }

    #[test]
    fn test_pad16() {
        assert_eq!(pad16(0), 0);
        assert_eq!(pad16(1), 15);
        assert_eq!(pad16(2), 14);
        assert_eq!(pad16(15), 1);
        assert_eq!(pad16(16), 0);
        assert_eq!(pad16(17), 15);
        assert_eq!(pad16(32), 0);
        assert_eq!(pad16(33), 15);
    }
}
