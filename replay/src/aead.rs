//! C01 (round trip / byte compatibility), C02 (tampering), C17 (nothing
//! released on failed open) for secretbox, box, sealed box.  The stream parts
//! of C02/C17 live here too; they use the helpers of `stream.rs`.

use dryoc::classic::crypto_box::*;
use dryoc::classic::crypto_secretbox::*;
use dryoc::classic::crypto_secretstream_xchacha20poly1305 as ss;

use crate::polymath;
use crate::so;
use crate::util::*;

// ======================================================================
// C01
// ======================================================================

fn c01_secretbox_easy(i: &Input) -> Outcome {
    let (k, n, m) = (i.arr::<32>("k"), i.arr::<24>("n"), i.get("m"));
    let want = so::secretbox_easy(m, &n, &k);

    let mut c = vec![0u8; m.len() + 16];
    must_ok(crypto_secretbox_easy(&mut c, m, &n, &k), "crypto_secretbox_easy")?;
    eq("crypto_secretbox_easy ciphertext", &want, &c)?;

    let mut out = vec![0u8; m.len()];
    must_ok(
        crypto_secretbox_open_easy(&mut out, &want, &n, &k),
        "crypto_secretbox_open_easy(libsodium ciphertext)",
    )?;
    eq("crypto_secretbox_open_easy plaintext", m, &out)?;

    match so::secretbox_open_easy(&c, &n, &k) {
        Some(p) => eq("libsodium open of dryoc ciphertext", m, &p),
        None => fail("Ok", "Err", "libsodium rejects dryoc's crypto_secretbox_easy output"),
    }
}

fn c01_secretbox_detached(i: &Input) -> Outcome {
    let (k, n, m) = (i.arr::<32>("k"), i.arr::<24>("n"), i.get("m"));
    let (want_c, want_mac) = so::secretbox_detached(m, &n, &k);

    let mut c = vec![0u8; m.len()];
    let mut mac = [0u8; 16];
    crypto_secretbox_detached(&mut c, &mut mac, m, &n, &k);
    eq("crypto_secretbox_detached ciphertext", &want_c, &c)?;
    eq("crypto_secretbox_detached mac", &want_mac, &mac)?;

    let mut out = vec![0u8; m.len()];
    must_ok(
        crypto_secretbox_open_detached(&mut out, &want_mac, &want_c, &n, &k),
        "crypto_secretbox_open_detached",
    )?;
    eq("crypto_secretbox_open_detached plaintext", m, &out)
}

fn c01_secretbox_inplace(i: &Input) -> Outcome {
    let (k, n, m) = (i.arr::<32>("k"), i.arr::<24>("n"), i.get("m"));
    let want = so::secretbox_easy(m, &n, &k);

    // message followed by 16 spare bytes; result is mac || ciphertext
    let mut data = m.to_vec();
    data.extend_from_slice(&[0u8; 16]);
    must_ok(crypto_secretbox_easy_inplace(&mut data, &n, &k), "crypto_secretbox_easy_inplace")?;
    eq("crypto_secretbox_easy_inplace output", &want, &data)?;

    let mut data = want.clone();
    must_ok(
        crypto_secretbox_open_easy_inplace(&mut data, &n, &k),
        "crypto_secretbox_open_easy_inplace",
    )?;
    eq("crypto_secretbox_open_easy_inplace plaintext", m, &data[..m.len()])
}

fn c01_secretbox_object(i: &Input) -> Outcome {
    use dryoc::dryocsecretbox::{Key, Nonce, VecBox};
    let (k, n, m) = (i.arr::<32>("k"), i.arr::<24>("n"), i.get("m"));
    let want = so::secretbox_easy(m, &n, &k);
    let (key, nonce) = (Key::from(k), Nonce::from(n));

    let b = VecBox::encrypt_to_vecbox(m, &nonce, &key);
    eq("DryocSecretBox::to_vec", &want, &b.to_vec())?;
    eq("DryocSecretBox::into_vec", &want, &b.clone().into_vec())?;
    let p = must_ok(b.decrypt_to_vec(&nonce, &key), "DryocSecretBox::decrypt (own box)")?;
    eq("DryocSecretBox::decrypt plaintext", m, &p)?;

    let b2 = must_ok(VecBox::from_bytes(&want), "DryocSecretBox::from_bytes(libsodium ciphertext)")?;
    let p2 = must_ok(b2.decrypt_to_vec(&nonce, &key), "DryocSecretBox::decrypt (libsodium box)")?;
    eq("DryocSecretBox::decrypt plaintext (libsodium box)", m, &p2)
}

struct BoxIn<'a> {
    ska: [u8; 32],
    pka: [u8; 32],
    skb: [u8; 32],
    pkb: [u8; 32],
    n: [u8; 24],
    m: &'a [u8],
}

/// Honest key pairs: public keys come from the oracle.
fn box_in(i: &Input) -> BoxIn<'_> {
    let ska = i.arr::<32>("ska");
    let skb = i.arr::<32>("skb");
    BoxIn {
        ska,
        pka: so::scalarmult_base(&ska),
        skb,
        pkb: so::scalarmult_base(&skb),
        n: i.arr::<24>("n"),
        m: i.get("m"),
    }
}

fn so_box_easy(b: &BoxIn) -> Result<Vec<u8>, Fail> {
    match so::box_easy(b.m, &b.n, &b.pkb, &b.ska) {
        Some(c) => Ok(c),
        None => panic!("{} libsodium refused an honest key pair", HARNESS),
    }
}

fn c01_box_easy(i: &Input) -> Outcome {
    let b = box_in(i);
    let want = so_box_easy(&b)?;

    let mut c = vec![0u8; b.m.len() + 16];
    must_ok(crypto_box_easy(&mut c, b.m, &b.n, &b.pkb, &b.ska), "crypto_box_easy")?;
    eq("crypto_box_easy ciphertext", &want, &c)?;

    let mut out = vec![0u8; b.m.len()];
    must_ok(
        crypto_box_open_easy(&mut out, &want, &b.n, &b.pka, &b.skb),
        "crypto_box_open_easy(libsodium ciphertext)",
    )?;
    eq("crypto_box_open_easy plaintext", b.m, &out)?;

    match so::box_open_easy(&c, &b.n, &b.pka, &b.skb) {
        Some(p) => eq("libsodium open of dryoc box", b.m, &p),
        None => fail("Ok", "Err", "libsodium rejects dryoc's crypto_box_easy output"),
    }
}

/// s, a, b (secret keys), n, m: a SEQUENCE on one thread — one sender, two recipient identities (and one peer, two own
/// identities for the precomputation): every step must equal libsodium, whatever was computed just before with the same peer key.
pub fn c01_box_same_peer_two_identities(i: &Input) -> Outcome {
    use dryoc::classic::crypto_box::crypto_box_beforenm;
    let (s, a, b) = (i.arr::<32>("s"), i.arr::<32>("a"), i.arr::<32>("b"));
    let (n, m) = (i.arr::<24>("n"), i.get("m"));
    let (ps, pa, pb) = (so::scalarmult_base(&s), so::scalarmult_base(&a), so::scalarmult_base(&b));
    for round in 0..2 {
        for (who, sk, pk) in [("first identity", &a, &pa), ("second identity", &b, &pb)] {
            // precomputation with the same peer (the sender) under two own secret keys
            if let Some(want) = so::box_beforenm(&ps, sk) {
                let k = crypto_box_beforenm(&ps, sk);
                eq(&format!("crypto_box_beforenm(sender pk, {}) in round {}", who, round), &want, &k)?;
            }
            // open a libsodium box from the same sender under two recipient identities
            if let Some(c) = so::box_easy(m, &n, pk, &s) {
                let mut out = vec![0u8; m.len()];
                must_ok(
                    crypto_box_open_easy(&mut out, &c, &n, &ps, sk),
                    &format!("crypto_box_open_easy(libsodium box, {}) in round {}", who, round),
                )?;
                eq("crypto_box_open_easy plaintext", m, &out)?;
                let mut buf = c.clone();
                must_ok(crypto_box_open_easy_inplace(&mut buf, &n, &ps, sk), &format!("crypto_box_open_easy_inplace ({}, round {})", who, round))?;
            }
            // encrypt to the same peer from two sender identities
            if let Some(want) = so::box_easy(m, &n, &ps, sk) {
                let mut c = vec![0u8; m.len() + 16];
                must_ok(crypto_box_easy(&mut c, m, &n, &ps, sk), "crypto_box_easy")?;
                eq(&format!("crypto_box_easy ciphertext ({}, round {})", who, round), &want, &c)?;
            }
        }
    }
    Ok(())
}

fn c01_box_detached(i: &Input) -> Outcome {
    let b = box_in(i);
    let (want_c, want_mac) = so::box_detached(b.m, &b.n, &b.pkb, &b.ska).expect("honest keys");

    let mut c = vec![0u8; b.m.len()];
    let mut mac = [0u8; 16];
    crypto_box_detached(&mut c, &mut mac, b.m, &b.n, &b.pkb, &b.ska);
    eq("crypto_box_detached ciphertext", &want_c, &c)?;
    eq("crypto_box_detached mac", &want_mac, &mac)?;

    let mut out = vec![0u8; b.m.len()];
    must_ok(
        crypto_box_open_detached(&mut out, &want_mac, &want_c, &b.n, &b.pka, &b.skb),
        "crypto_box_open_detached",
    )?;
    eq("crypto_box_open_detached plaintext", b.m, &out)
}

fn c01_box_afternm(i: &Input) -> Outcome {
    let b = box_in(i);
    let want_k = so::box_beforenm(&b.pkb, &b.ska).expect("honest keys");
    let want = so::box_easy_afternm(b.m, &b.n, &want_k);

    let k = crypto_box_beforenm(&b.pkb, &b.ska);
    eq("crypto_box_beforenm", &want_k, &k)?;
    let k2 = crypto_box_beforenm(&b.pka, &b.skb);
    eq("crypto_box_beforenm (other side)", &want_k, &k2)?;

    let mut c = vec![0u8; b.m.len()];
    let mut mac = [0u8; 16];
    crypto_box_detached_afternm(&mut c, &mut mac, b.m, &b.n, &k);
    eq("crypto_box_detached_afternm mac", &want[..16], &mac)?;
    eq("crypto_box_detached_afternm ciphertext", &want[16..], &c)?;

    let mut out = vec![0u8; b.m.len()];
    let want_mac: [u8; 16] = want[..16].try_into().unwrap();
    must_ok(
        crypto_box_open_detached_afternm(&mut out, &want_mac, &want[16..], &b.n, &k2),
        "crypto_box_open_detached_afternm",
    )?;
    eq("crypto_box_open_detached_afternm plaintext", b.m, &out)?;

    match so::box_open_easy_afternm(&[&mac[..], &c[..]].concat(), &b.n, &want_k) {
        Some(p) => eq("libsodium open_easy_afternm of dryoc box", b.m, &p),
        None => fail("Ok", "Err", "libsodium rejects dryoc's afternm box"),
    }
}

fn c01_box_inplace(i: &Input) -> Outcome {
    let b = box_in(i);
    let want = so_box_easy(&b)?;
    let want_mac: [u8; 16] = want[..16].try_into().unwrap();

    // easy_inplace: message + 16 spare bytes -> mac || ciphertext
    let mut data = b.m.to_vec();
    data.extend_from_slice(&[0u8; 16]);
    must_ok(crypto_box_easy_inplace(&mut data, &b.n, &b.pkb, &b.ska), "crypto_box_easy_inplace")?;
    eq("crypto_box_easy_inplace output", &want, &data)?;
    let mut data = want.clone();
    must_ok(
        crypto_box_open_easy_inplace(&mut data, &b.n, &b.pka, &b.skb),
        "crypto_box_open_easy_inplace",
    )?;
    eq("crypto_box_open_easy_inplace plaintext", b.m, &data[..b.m.len()])?;

    // detached_inplace
    let mut data = b.m.to_vec();
    let mut mac = [0u8; 16];
    must_ok(
        crypto_box_detached_inplace(&mut data, &mut mac, &b.n, &b.pkb, &b.ska),
        "crypto_box_detached_inplace",
    )?;
    eq("crypto_box_detached_inplace ciphertext", &want[16..], &data)?;
    eq("crypto_box_detached_inplace mac", &want_mac, &mac)?;
    must_ok(
        crypto_box_open_detached_inplace(&mut data, &want_mac, &b.n, &b.pka, &b.skb),
        "crypto_box_open_detached_inplace",
    )?;
    eq("crypto_box_open_detached_inplace plaintext", b.m, &data)?;

    // detached_afternm_inplace
    let k = so::box_beforenm(&b.pkb, &b.ska).expect("honest keys");
    let mut data = b.m.to_vec();
    let mut mac = [0u8; 16];
    crypto_box_detached_afternm_inplace(&mut data, &mut mac, &b.n, &k);
    eq("crypto_box_detached_afternm_inplace ciphertext", &want[16..], &data)?;
    eq("crypto_box_detached_afternm_inplace mac", &want_mac, &mac)?;
    must_ok(
        crypto_box_open_detached_afternm_inplace(&mut data, &want_mac, &b.n, &k),
        "crypto_box_open_detached_afternm_inplace",
    )?;
    eq("crypto_box_open_detached_afternm_inplace plaintext", b.m, &data)
}

fn c01_seal_dryoc_to_sodium(i: &Input) -> Outcome {
    let skb = i.arr::<32>("skb");
    let pkb = so::scalarmult_base(&skb);
    let m = i.get("m");

    let mut c = vec![0u8; m.len() + 48];
    must_ok(crypto_box_seal(&mut c, m, &pkb), "crypto_box_seal")?;
    match so::box_seal_open(&c, &pkb, &skb) {
        Some(p) => eq("libsodium crypto_box_seal_open of dryoc seal", m, &p)?,
        None => {
            return fail(
                "Ok",
                "Err",
                format!("libsodium rejects dryoc's crypto_box_seal output {}", hex(&c)),
            )
        }
    }
    let mut out = vec![0u8; m.len()];
    must_ok(crypto_box_seal_open(&mut out, &c, &pkb, &skb), "crypto_box_seal_open (own seal)")?;
    eq("crypto_box_seal_open plaintext (own seal)", m, &out)
}

fn c01_seal_sodium_to_dryoc(i: &Input) -> Outcome {
    let skb = i.arr::<32>("skb");
    let pkb = so::scalarmult_base(&skb);
    let m = i.get("m");
    // a recorded sealed box can be replayed exactly
    let c = if i.has("c") { i.get("c").to_vec() } else { so::box_seal(m, &pkb) };

    let mut out = vec![0u8; m.len()];
    match crypto_box_seal_open(&mut out, &c, &pkb, &skb) {
        Ok(()) => eq("crypto_box_seal_open plaintext", m, &out),
        Err(e) => fail(
            "Ok",
            format!("Err({:?})", e),
            format!("crypto_box_seal_open rejects libsodium's sealed box c={}", hex(&c)),
        ),
    }
}

fn c01_box_object(i: &Input) -> Outcome {
    use dryoc::dryocbox::{KeyPair, Nonce, PublicKey, SecretKey, VecBox};
    use dryoc::precalc::PrecalcSecretKey;
    let b = box_in(i);
    let want = so_box_easy(&b)?;
    let nonce = Nonce::from(b.n);
    let (pka, ska) = (PublicKey::from(b.pka), SecretKey::from(b.ska));
    let (pkb, skb) = (PublicKey::from(b.pkb), SecretKey::from(b.skb));

    let bx = must_ok(VecBox::encrypt_to_vecbox(b.m, &nonce, &pkb, &ska), "DryocBox::encrypt")?;
    eq("DryocBox::to_vec", &want, &bx.to_vec())?;
    let p = must_ok(bx.decrypt_to_vec(&nonce, &pka, &skb), "DryocBox::decrypt (own box)")?;
    eq("DryocBox::decrypt plaintext", b.m, &p)?;

    let bx2 = must_ok(VecBox::from_bytes(&want), "DryocBox::from_bytes(libsodium ciphertext)")?;
    let p2 = must_ok(bx2.decrypt_to_vec(&nonce, &pka, &skb), "DryocBox::decrypt (libsodium box)")?;
    eq("DryocBox::decrypt plaintext (libsodium box)", b.m, &p2)?;

    // precomputed key
    let pre_a = PrecalcSecretKey::precalculate(&pkb, &ska);
    let pre_b = PrecalcSecretKey::precalculate(&pka, &skb);
    let bx3 = must_ok(VecBox::precalc_encrypt_to_vecbox(b.m, &nonce, &pre_a), "DryocBox::precalc_encrypt")?;
    eq("DryocBox::precalc_encrypt to_vec", &want, &bx3.to_vec())?;
    let p3 = must_ok(bx2.precalc_decrypt_to_vec(&nonce, &pre_b), "DryocBox::precalc_decrypt")?;
    eq("DryocBox::precalc_decrypt plaintext", b.m, &p3)?;

    // sealed boxes, both directions
    let kp = KeyPair {
        public_key: pkb.clone(),
        secret_key: skb.clone(),
    };
    let sealed = must_ok(VecBox::seal_to_vecbox(b.m, &pkb), "DryocBox::seal")?;
    let wire = sealed.to_vec();
    match so::box_seal_open(&wire, &b.pkb, &b.skb) {
        Some(p) => eq("libsodium seal_open of DryocBox::seal", b.m, &p)?,
        None => return fail("Ok", "Err", format!("libsodium rejects DryocBox::seal output {}", hex(&wire))),
    }
    let p4 = must_ok(sealed.unseal_to_vec(&kp), "DryocBox::unseal (own seal)")?;
    eq("DryocBox::unseal plaintext", b.m, &p4)?;
    let so_sealed = so::box_seal(b.m, &b.pkb);
    let bx5 = must_ok(VecBox::from_sealed_bytes(&so_sealed), "DryocBox::from_sealed_bytes")?;
    let p5 = must_ok(bx5.unseal_to_vec(&kp), "DryocBox::unseal (libsodium seal)")?;
    eq("DryocBox::unseal plaintext (libsodium seal)", b.m, &p5)
}

/// The object API takes keys and nonces in any byte container; the result is a function of the LEADING bytes of the
/// container only (libsodium reads a key / nonce from the start of the buffer it is handed).  k, n, ska, skb, m and
/// `ktail` / `ntail`: bytes that FOLLOW the key / the nonce in the caller's buffer (a key file with a trailing key id, a
/// header that starts with the nonce, a 64-byte sk || pk record).  The same call is made with borrowed slices `&[u8]`
/// of the long buffers, with Vecs holding the same bytes, with exact-length slices / arrays, and compared with
/// libsodium on the leading bytes.
fn c01_object_long_containers(i: &Input) -> Outcome {
    use dryoc::dryocbox::VecBox as BVecBox;
    use dryoc::dryocsecretbox::VecBox as SVecBox;
    use dryoc::precalc::PrecalcSecretKey;
    use dryoc::types::Bytes;
    let (k, n, m) = (i.arr::<32>("k"), i.arr::<24>("n"), i.get("m"));
    let (ktail, ntail) = (i.get("ktail"), i.get("ntail"));
    let b = box_in(i);
    let long = |head: &[u8], tail: &[u8]| -> Vec<u8> { [head, tail].concat() };
    let how = format!("{} / {} trailing bytes after key / nonce", ktail.len(), ntail.len());

    // ---- secret box
    let want = so::secretbox_easy(m, &n, &k);
    let (kbuf, nbuf) = (long(&k, ktail), long(&n, ntail));
    let (kslice, nslice): (&[u8], &[u8]) = (&kbuf, &nbuf);
    let (kexact, nexact): (&[u8], &[u8]) = (&k, &n);

    let c = SVecBox::encrypt_to_vecbox(m, &nslice, &kslice);
    eq(&format!("DryocSecretBox::encrypt, key and nonce as borrowed slices &[u8] ({})", how), &want, &c.to_vec())?;
    let c = SVecBox::encrypt_to_vecbox(m, &nbuf, &kbuf);
    eq(&format!("DryocSecretBox::encrypt, key and nonce in Vecs ({})", how), &want, &c.to_vec())?;
    let c = SVecBox::encrypt_to_vecbox(m, &n, &kslice);
    eq(&format!("DryocSecretBox::encrypt, key as borrowed slice, nonce as array ({})", how), &want, &c.to_vec())?;
    let c = SVecBox::encrypt_to_vecbox(m, &nslice, &k);
    eq(&format!("DryocSecretBox::encrypt, nonce as borrowed slice, key as array ({})", how), &want, &c.to_vec())?;
    let c = SVecBox::encrypt_to_vecbox(m, &nexact, &kexact);
    eq("DryocSecretBox::encrypt, key and nonce as exact-length slices", &want, &c.to_vec())?;

    let sbx = must_ok(SVecBox::from_bytes(&want), "DryocSecretBox::from_bytes(libsodium ciphertext)")?;
    let p = must_ok(
        sbx.decrypt_to_vec(&nslice, &kslice),
        &format!("DryocSecretBox::decrypt (libsodium box), key and nonce as borrowed slices ({})", how),
    )?;
    eq("DryocSecretBox::decrypt plaintext (slice containers)", m, &p)?;
    let p = must_ok(
        sbx.decrypt_to_vec(&nbuf, &kbuf),
        &format!("DryocSecretBox::decrypt (libsodium box), key and nonce in Vecs ({})", how),
    )?;
    eq("DryocSecretBox::decrypt plaintext (Vec containers)", m, &p)?;
    let p = must_ok(sbx.decrypt_to_vec(&nexact, &kexact), "DryocSecretBox::decrypt (libsodium box), exact-length slices")?;
    eq("DryocSecretBox::decrypt plaintext (exact-length slices)", m, &p)?;

    // ---- public-key box: sender a -> recipient b
    let want = so_box_easy(&b)?;
    let (pkb_buf, ska_buf) = (long(&b.pkb, ktail), long(&b.ska, &long(&b.pka, ktail)));
    let (pka_buf, skb_buf) = (long(&b.pka, ktail), long(&b.skb, &long(&b.pkb, ktail)));
    let nbuf = long(&b.n, ntail);
    let (pkb_s, ska_s, pka_s, skb_s, n_s): (&[u8], &[u8], &[u8], &[u8], &[u8]) = (&pkb_buf, &ska_buf, &pka_buf, &skb_buf, &nbuf);

    let c: BVecBox = must_ok(BVecBox::encrypt(m, &n_s, &pkb_s, &ska_s), "DryocBox::encrypt (slice containers)")?;
    eq(&format!("DryocBox::encrypt, nonce and keys as borrowed slices &[u8] ({}; secret key followed by its public key)", how), &want, &c.to_vec())?;
    let c: BVecBox = must_ok(BVecBox::encrypt(m, &nbuf, &pkb_buf, &ska_buf), "DryocBox::encrypt (Vec containers)")?;
    eq(&format!("DryocBox::encrypt, nonce and keys in Vecs ({})", how), &want, &c.to_vec())?;
    let c: BVecBox = must_ok(BVecBox::encrypt(m, &b.n, &pkb_s, &b.ska), "DryocBox::encrypt (public key slice)")?;
    eq(&format!("DryocBox::encrypt, recipient public key as borrowed slice ({})", how), &want, &c.to_vec())?;
    let c: BVecBox = must_ok(BVecBox::encrypt(m, &b.n, &b.pkb, &ska_s), "DryocBox::encrypt (secret key slice)")?;
    eq(&format!("DryocBox::encrypt, sender secret key as borrowed slice ({})", how), &want, &c.to_vec())?;
    let (pkb_e, ska_e, n_e): (&[u8], &[u8], &[u8]) = (&b.pkb, &b.ska, &b.n);
    let c: BVecBox = must_ok(BVecBox::encrypt(m, &n_e, &pkb_e, &ska_e), "DryocBox::encrypt (exact-length slices)")?;
    eq("DryocBox::encrypt, nonce and keys as exact-length slices", &want, &c.to_vec())?;

    let bx = must_ok(BVecBox::from_bytes(&want), "DryocBox::from_bytes(libsodium ciphertext)")?;
    let p: Vec<u8> = must_ok(
        bx.decrypt(&n_s, &pka_s, &skb_s),
        &format!("DryocBox::decrypt (libsodium box), nonce and keys as borrowed slices ({})", how),
    )?;
    eq("DryocBox::decrypt plaintext (slice containers)", m, &p)?;
    let p: Vec<u8> = must_ok(
        bx.decrypt(&nbuf, &pka_buf, &skb_buf),
        &format!("DryocBox::decrypt (libsodium box), nonce and keys in Vecs ({})", how),
    )?;
    eq("DryocBox::decrypt plaintext (Vec containers)", m, &p)?;

    // precomputed key from slice / Vec containers
    let want_k = so::box_beforenm(&b.pkb, &b.ska).expect("honest keys");
    let pre = PrecalcSecretKey::precalculate(&pkb_s, &ska_s);
    eq(&format!("PrecalcSecretKey::precalculate, keys as borrowed slices ({})", how), &want_k, pre.as_slice())?;
    let pre = PrecalcSecretKey::precalculate(&pkb_buf, &ska_buf);
    eq(&format!("PrecalcSecretKey::precalculate, keys in Vecs ({})", how), &want_k, pre.as_slice())?;
    let c: BVecBox = must_ok(BVecBox::precalc_encrypt(m, &n_s, &pre), "DryocBox::precalc_encrypt (nonce slice)")?;
    eq(&format!("DryocBox::precalc_encrypt, nonce as borrowed slice ({})", how), &want, &c.to_vec())?;
    let p: Vec<u8> = must_ok(bx.precalc_decrypt(&n_s, &pre), "DryocBox::precalc_decrypt (nonce slice)")?;
    eq("DryocBox::precalc_decrypt plaintext (nonce as borrowed slice)", m, &p)?;

    // sealed box to a public key handed over as a slice
    let sealed: BVecBox = must_ok(BVecBox::seal(m, &pkb_s), "DryocBox::seal (public key slice)")?;
    let wire = sealed.to_vec();
    match so::box_seal_open(&wire, &b.pkb, &b.skb) {
        Some(p) => eq("libsodium seal_open of DryocBox::seal (recipient key as borrowed slice)", m, &p),
        None => fail(
            "Ok",
            "Err",
            format!("libsodium rejects DryocBox::seal output made for a recipient key passed as a borrowed slice ({})", how),
        ),
    }
}

/// Buffers that are REUSED: the 16 spare bytes at the end of an in-place encryption buffer are documented as ignored, so
/// whatever they hold (0xff, random bytes, the tag a previous open left behind) the box must be libsodium's.  Inputs:
/// k, n, m, tail (16 bytes) for secretbox.
fn c01_secretbox_inplace_dirty_tail(i: &Input) -> Outcome {
    let (k, n, m, tail) = (i.arr::<32>("k"), i.arr::<24>("n"), i.get("m"), i.arr::<16>("tail"));
    let want = so::secretbox_easy(m, &n, &k);
    let what = format!("crypto_secretbox_easy_inplace (spare tail bytes = {})", hex(&tail));
    let mut data = m.to_vec();
    data.extend_from_slice(&tail);
    must_ok(crypto_secretbox_easy_inplace(&mut data, &n, &k), &what)?;
    eq(&format!("{} output", what), &want, &data)?;

    // open in place, then encrypt again in the same buffer (the old tag / keystream residue is still in the tail)
    let mut data = want.clone();
    must_ok(crypto_secretbox_open_easy_inplace(&mut data, &n, &k), "crypto_secretbox_open_easy_inplace")?;
    eq("crypto_secretbox_open_easy_inplace plaintext", m, &data[..m.len()])?;
    let what = format!(
        "crypto_secretbox_easy_inplace on the buffer crypto_secretbox_open_easy_inplace just opened (tail = {})",
        hex(&data[m.len()..])
    );
    must_ok(crypto_secretbox_easy_inplace(&mut data, &n, &k), &what)?;
    eq(&format!("{} output", what), &want, &data)
}

/// The same for the public-key forms (ska, skb, n, m, tail): easy_inplace with a dirty tail, open_easy_inplace followed
/// by easy_inplace on the same buffer, and the detached in-place forms with a dirty mac out-parameter.
fn c01_box_inplace_dirty_tail(i: &Input) -> Outcome {
    let b = box_in(i);
    let tail = i.arr::<16>("tail");
    let want = so_box_easy(&b)?;
    let want_mac: [u8; 16] = want[..16].try_into().unwrap();

    let what = format!("crypto_box_easy_inplace (spare tail bytes = {})", hex(&tail));
    let mut data = b.m.to_vec();
    data.extend_from_slice(&tail);
    must_ok(crypto_box_easy_inplace(&mut data, &b.n, &b.pkb, &b.ska), &what)?;
    eq(&format!("{} output", what), &want, &data)?;

    let mut data = want.clone();
    must_ok(crypto_box_open_easy_inplace(&mut data, &b.n, &b.pka, &b.skb), "crypto_box_open_easy_inplace")?;
    eq("crypto_box_open_easy_inplace plaintext", b.m, &data[..b.m.len()])?;
    let what = format!(
        "crypto_box_easy_inplace on the buffer crypto_box_open_easy_inplace just opened (tail = {})",
        hex(&data[b.m.len()..])
    );
    must_ok(crypto_box_easy_inplace(&mut data, &b.n, &b.pkb, &b.ska), &what)?;
    eq(&format!("{} output", what), &want, &data)?;

    // detached in-place forms: the mac out-parameter holds old bytes
    let mut data = b.m.to_vec();
    let mut mac = tail;
    must_ok(
        crypto_box_detached_inplace(&mut data, &mut mac, &b.n, &b.pkb, &b.ska),
        "crypto_box_detached_inplace (mac out-parameter not zeroed)",
    )?;
    eq("crypto_box_detached_inplace ciphertext (mac out-parameter not zeroed)", &want[16..], &data)?;
    eq("crypto_box_detached_inplace mac (mac out-parameter not zeroed)", &want_mac, &mac)?;
    let k = so::box_beforenm(&b.pkb, &b.ska).expect("honest keys");
    let mut data = b.m.to_vec();
    let mut mac = tail;
    crypto_box_detached_afternm_inplace(&mut data, &mut mac, &b.n, &k);
    eq("crypto_box_detached_afternm_inplace ciphertext (mac out-parameter not zeroed)", &want[16..], &data)?;
    eq("crypto_box_detached_afternm_inplace mac (mac out-parameter not zeroed)", &want_mac, &mac)
}

pub const C01: Registry = &[
    // reused buffers: spare tail of the in-place forms not zero
    ("secretbox_inplace_dirty_tail", c01_secretbox_inplace_dirty_tail),
    ("box_inplace_dirty_tail", c01_box_inplace_dirty_tail),
    // same bodies as below on messages constructed so that the genuine Poly1305 tag has a chosen VALUE (0^16, ff^16, 1,
    // ..): every open entry point must accept the genuine box whatever its tag is
    ("secretbox_easy_chosen_tag", c01_secretbox_easy),
    ("secretbox_detached_chosen_tag", c01_secretbox_detached),
    ("secretbox_inplace_chosen_tag", c01_secretbox_inplace),
    ("secretbox_object_chosen_tag", c01_secretbox_object),
    ("box_easy_chosen_tag", c01_box_easy),
    ("box_detached_chosen_tag", c01_box_detached),
    ("box_afternm_chosen_tag", c01_box_afternm),
    ("box_inplace_chosen_tag", c01_box_inplace),
    ("box_object_chosen_tag", c01_box_object),
    ("object_long_containers", c01_object_long_containers),
    ("secretbox_easy", c01_secretbox_easy),
    ("secretbox_detached", c01_secretbox_detached),
    ("secretbox_inplace", c01_secretbox_inplace),
    ("secretbox_object", c01_secretbox_object),
    ("box_easy", c01_box_easy),
    ("box_detached", c01_box_detached),
    ("box_afternm", c01_box_afternm),
    ("box_inplace", c01_box_inplace),
    ("box_object", c01_box_object),
    ("seal_dryoc_to_sodium", c01_seal_dryoc_to_sodium),
    ("seal_sodium_to_dryoc", c01_seal_sodium_to_dryoc),
    // same bodies on messages whose *ciphertext* is constructed so that the
    // Poly1305 accumulator ends on p-2 .. 2^130-1 / leaves a carry pending
    ("secretbox_easy_poly1305_edge", c01_secretbox_easy),
    ("secretbox_detached_poly1305_edge", c01_secretbox_detached),
    ("secretbox_inplace_poly1305_edge", c01_secretbox_inplace),
    ("secretbox_object_poly1305_edge", c01_secretbox_object),
    ("box_same_peer_two_identities", c01_box_same_peer_two_identities),
    ("box_easy_poly1305_edge", c01_box_easy),
    ("box_detached_poly1305_edge", c01_box_detached),
    ("box_afternm_poly1305_edge", c01_box_afternm),
    ("box_inplace_poly1305_edge", c01_box_inplace),
    ("box_object_poly1305_edge", c01_box_object),
];

/// Plaintexts for (k, n) whose XSalsa20-Poly1305 ciphertext drives the
/// Poly1305 accumulator to each of the edge values (the one-time key is the
/// first 32 bytes of the keystream, so the ciphertext can be chosen freely:
/// message = ciphertext XOR keystream).
fn poly1305_edge_plaintexts(rng: &mut Rng, k: &[u8; 32], n: &[u8; 24], thorough: bool) -> Vec<Vec<u8>> {
    let ks = so::stream_xsalsa20(32 + 16 * 8, n, k);
    let polykey: [u8; 32] = ks[..32].try_into().unwrap();
    let mut out = Vec::new();
    for (off, _) in polymath::FINAL_TARGETS {
        let shapes: &[(usize, usize)] = if thorough { &[(1, 16), (3, 16), (6, 16), (1, 15)] } else { &[(1, 16), (4, 16)] };
        for (nprefix, last_len) in shapes {
            if let Some(c) = polymath::message_with_final_accumulator(rng, &polykey, *off, *nprefix, *last_len) {
                out.push(c.iter().zip(&ks[32..]).map(|(a, b)| a ^ b).collect());
            }
        }
    }
    out
}

pub fn c01(ctx: &mut Ctx) -> Search {
    let rounds = if ctx.thorough { 4 } else { 1 };
    for _ in 0..rounds {
        for len in lengths(ctx.thorough) {
            let m = ctx.rng.bytes(len);
            let (k, n) = (ctx.rng.arr::<32>(), ctx.rng.arr::<24>());
            let sb = Input::new().b("k", &k).b("n", &n).b("m", &m);
            for case in ["secretbox_easy", "secretbox_detached", "secretbox_inplace", "secretbox_object"] {
                ctx.run(case, sb.clone())?;
            }
            let (ska, skb) = (ctx.rng.arr::<32>(), ctx.rng.arr::<32>());
            let bx = Input::new().b("ska", &ska).b("skb", &skb).b("n", &n).b("m", &m);
            for case in ["box_easy", "box_detached", "box_afternm", "box_inplace", "box_object"] {
                ctx.run(case, bx.clone())?;
            }
            let sl = Input::new().b("skb", &skb).b("m", &m);
            ctx.run("seal_dryoc_to_sodium", sl.clone())?;
            ctx.run("seal_sodium_to_dryoc", sl)?;
        }
    }
    // keys / nonces handed over in containers LONGER than the fixed length (borrowed slices, Vecs): only the leading
    // bytes count.  Tails: one byte, a key id, a whole second key (sk || pk records), a page.
    let t = ctx.thorough;
    let tails: Vec<(usize, usize)> = if t {
        vec![(1, 1), (8, 8), (4, 16), (32, 8), (32, 0), (0, 8), (0, 0), (100, 40), (4096, 4072), (31, 23)]
    } else {
        vec![(1, 1), (8, 8), (32, 16), (0, 8), (8, 0), (0, 0)]
    };
    for (kt, nt) in tails {
        let mlens: Vec<usize> = if t { vec![0, 1, 15, 16, 17, 64, 255, 1000, 5000] } else { vec![0, 1, 17, 64, 1000] };
        for len in mlens {
            let m = ctx.rng.bytes(len);
            let (k, n) = (ctx.rng.arr::<32>(), ctx.rng.arr::<24>());
            let (ska, skb) = (ctx.rng.arr::<32>(), ctx.rng.arr::<32>());
            let (ktail, ntail) = (ctx.rng.bytes(kt), ctx.rng.bytes(nt));
            ctx.run(
                "object_long_containers",
                Input::new().b("k", &k).b("n", &n).b("ska", &ska).b("skb", &skb).b("m", &m).b("ktail", &ktail).b("ntail", &ntail),
            )?;
        }
    }
    // sequences on one thread: the same peer key with two own identities, twice over
    for len in [0usize, 1, 33] {
        let (sk_s, sk_a, sk_b) = (ctx.rng.arr::<32>(), ctx.rng.arr::<32>(), ctx.rng.arr::<32>());
        let (n, m) = (ctx.rng.arr::<24>(), ctx.rng.bytes(len));
        ctx.run("box_same_peer_two_identities", Input::new().b("s", &sk_s).b("a", &sk_a).b("b", &sk_b).b("n", &n).b("m", &m))?;
    }
    // constructed ciphertexts: Poly1305 accumulator on its edge values
    for _ in 0..(if t { 8 } else { 2 }) {
        let (k, n) = (ctx.rng.arr::<32>(), ctx.rng.arr::<24>());
        for m in poly1305_edge_plaintexts(&mut ctx.rng, &k, &n, t) {
            let sb = Input::new().b("k", &k).b("n", &n).b("m", &m);
            for case in [
                "secretbox_easy_poly1305_edge",
                "secretbox_detached_poly1305_edge",
                "secretbox_inplace_poly1305_edge",
                "secretbox_object_poly1305_edge",
            ] {
                ctx.run(case, sb.clone())?;
            }
        }
        let (ska, skb) = (ctx.rng.arr::<32>(), ctx.rng.arr::<32>());
        let shared = match so::box_beforenm(&so::scalarmult_base(&skb), &ska) {
            Some(s) => s,
            None => continue,
        };
        for m in poly1305_edge_plaintexts(&mut ctx.rng, &shared, &n, t) {
            let bx = Input::new().b("ska", &ska).b("skb", &skb).b("n", &n).b("m", &m);
            for case in [
                "box_easy_poly1305_edge",
                "box_detached_poly1305_edge",
                "box_afternm_poly1305_edge",
                "box_inplace_poly1305_edge",
                "box_object_poly1305_edge",
            ] {
                ctx.run(case, bx.clone())?;
            }
        }
    }
    // reused in-place buffers: spare tail 0xff / random / one non-zero byte / a previous tag
    let dlens: Vec<usize> = if t { vec![0, 1, 15, 16, 17, 31, 32, 33, 64, 100, 1000, 4097] } else { vec![0, 1, 16, 17, 64, 1000] };
    for len in dlens {
        let m = ctx.rng.bytes(len);
        let (k, n) = (ctx.rng.arr::<32>(), ctx.rng.arr::<24>());
        let (ska, skb) = (ctx.rng.arr::<32>(), ctx.rng.arr::<32>());
        let mut first = [0u8; 16];
        first[0] = 1;
        let mut last = [0u8; 16];
        last[15] = 0x80;
        let old_tag: [u8; 16] = so::secretbox_easy(&ctx.rng.bytes(len), &n, &k)[..16].try_into().unwrap();
        for tail in [[0xffu8; 16], ctx.rng.arr::<16>(), first, last, old_tag, [0u8; 16]] {
            ctx.run("secretbox_inplace_dirty_tail", Input::new().b("k", &k).b("n", &n).b("m", &m).b("tail", &tail))?;
            ctx.run(
                "box_inplace_dirty_tail",
                Input::new().b("ska", &ska).b("skb", &skb).b("n", &n).b("m", &m).b("tail", &tail),
            )?;
        }
    }
    // constructed ciphertexts: the genuine tag is a chosen value (random inputs: 2^-128 each)
    {
        let mut one = [0u8; 16];
        one[0] = 1;
        let mut top = [0u8; 16];
        top[15] = 0x80;
        let mut tags: Vec<[u8; 16]> = vec![[0u8; 16], [0xffu8; 16], one, top];
        if t {
            let mut lo = [0u8; 16];
            lo[..8].fill(0xff);
            let mut hi = [0u8; 16];
            hi[8..].fill(0xff);
            tags.extend_from_slice(&[lo, hi, [0x01u8; 16], [0x80u8; 16]]);
        }
        let shapes: &[(usize, usize)] = if t { &[(0, 16), (1, 16), (3, 16), (6, 16), (1, 15), (64, 16)] } else { &[(0, 16), (1, 16), (3, 16)] };
        for tag in &tags {
            for (nprefix, last_len) in shapes {
                let blen = 16 * nprefix + last_len;
                // secretbox: one-time key = head of the XSalsa20 stream under (k, n); a few nonces until the solved
                // block fits 128 bits
                for _ in 0..40 {
                    let (k, n) = (ctx.rng.arr::<32>(), ctx.rng.arr::<24>());
                    let ks = so::stream_xsalsa20(32 + blen, &n, &k);
                    let polykey: [u8; 32] = ks[..32].try_into().unwrap();
                    if let Some(c) = polymath::message_with_tag(&mut ctx.rng, &polykey, tag, *nprefix, *last_len) {
                        let m: Vec<u8> = c.iter().zip(&ks[32..]).map(|(a, b)| a ^ b).collect();
                        if so::secretbox_easy(&m, &n, &k)[..16] != tag[..] {
                            panic!("{} constructed secretbox does not carry the chosen tag", HARNESS);
                        }
                        let sb = Input::new().b("k", &k).b("n", &n).b("m", &m);
                        for case in [
                            "secretbox_easy_chosen_tag",
                            "secretbox_detached_chosen_tag",
                            "secretbox_inplace_chosen_tag",
                            "secretbox_object_chosen_tag",
                        ] {
                            ctx.run(case, sb.clone())?;
                        }
                        break;
                    }
                }
                // box: the same under the precomputed shared key
                for _ in 0..40 {
                    let (ska, skb, n) = (ctx.rng.arr::<32>(), ctx.rng.arr::<32>(), ctx.rng.arr::<24>());
                    let shared = match so::box_beforenm(&so::scalarmult_base(&skb), &ska) {
                        Some(s) => s,
                        None => continue,
                    };
                    let ks = so::stream_xsalsa20(32 + blen, &n, &shared);
                    let polykey: [u8; 32] = ks[..32].try_into().unwrap();
                    if let Some(c) = polymath::message_with_tag(&mut ctx.rng, &polykey, tag, *nprefix, *last_len) {
                        let m: Vec<u8> = c.iter().zip(&ks[32..]).map(|(a, b)| a ^ b).collect();
                        let bx = Input::new().b("ska", &ska).b("skb", &skb).b("n", &n).b("m", &m);
                        for case in [
                            "box_easy_chosen_tag",
                            "box_detached_chosen_tag",
                            "box_afternm_chosen_tag",
                            "box_inplace_chosen_tag",
                            "box_object_chosen_tag",
                        ] {
                            ctx.run(case, bx.clone())?;
                        }
                        break;
                    }
                }
            }
        }
    }
    Ok(())
}

// ======================================================================
// C02  -- every opening form must give libsodium's accept/reject decision
// ======================================================================

fn split_mac(c: &[u8]) -> Option<([u8; 16], &[u8])> {
    if c.len() < 16 {
        None
    } else {
        Some((c[..16].try_into().unwrap(), &c[16..]))
    }
}

/// k, n, c as presented to the opener (already tampered or not).
fn c02_secretbox_open(i: &Input) -> Outcome {
    use dryoc::dryocsecretbox::{Key, Nonce, VecBox};
    let (k, n, c) = (i.arr::<32>("k"), i.arr::<24>("n"), i.get("c"));
    let oracle = so::secretbox_open_easy(c, &n, &k);
    let accept = oracle.is_some();
    let mlen = c.len().saturating_sub(16);

    let mut out = vec![0u8; mlen];
    let r = crypto_secretbox_open_easy(&mut out, c, &n, &k);
    verdict("crypto_secretbox_open_easy", accept, r.is_ok())?;
    if let Some(p) = &oracle {
        eq("crypto_secretbox_open_easy plaintext", p, &out)?;
    }
    if let Some((mac, body)) = split_mac(c) {
        let mut out = vec![0u8; mlen];
        let r = crypto_secretbox_open_detached(&mut out, &mac, body, &n, &k);
        verdict("crypto_secretbox_open_detached", accept, r.is_ok())?;
    }
    let mut data = c.to_vec();
    let r = crypto_secretbox_open_easy_inplace(&mut data, &n, &k);
    verdict("crypto_secretbox_open_easy_inplace", accept, r.is_ok())?;

    let r = VecBox::from_bytes(c).and_then(|b| b.decrypt_to_vec(&Nonce::from(n), &Key::from(k)));
    verdict("DryocSecretBox::from_bytes+decrypt", accept, r.is_ok())?;
    if let (Some(p), Ok(q)) = (&oracle, &r) {
        eq("DryocSecretBox::decrypt plaintext", p, q)?;
    }
    Ok(())
}

/// pk (sender public), sk (recipient secret), n, c as presented.
fn c02_box_open(i: &Input) -> Outcome {
    use dryoc::dryocbox::{Nonce, PublicKey, SecretKey, VecBox};
    let (pk, sk, n, c) = (i.arr::<32>("pk"), i.arr::<32>("sk"), i.arr::<24>("n"), i.get("c"));
    let oracle = so::box_open_easy(c, &n, &pk, &sk);
    let accept = oracle.is_some();
    let mlen = c.len().saturating_sub(16);

    let mut out = vec![0u8; mlen];
    let r = crypto_box_open_easy(&mut out, c, &n, &pk, &sk);
    verdict("crypto_box_open_easy", accept, r.is_ok())?;
    if let Some(p) = &oracle {
        eq("crypto_box_open_easy plaintext", p, &out)?;
    }
    let mut data = c.to_vec();
    let r = crypto_box_open_easy_inplace(&mut data, &n, &pk, &sk);
    verdict("crypto_box_open_easy_inplace", accept, r.is_ok())?;

    if let Some((mac, body)) = split_mac(c) {
        let mut out = vec![0u8; mlen];
        let r = crypto_box_open_detached(&mut out, &mac, body, &n, &pk, &sk);
        verdict("crypto_box_open_detached", accept, r.is_ok())?;
        let mut data = body.to_vec();
        let r = crypto_box_open_detached_inplace(&mut data, &mac, &n, &pk, &sk);
        verdict("crypto_box_open_detached_inplace", accept, r.is_ok())?;
        // precomputed-key forms (only meaningful when libsodium derives a key)
        if let Some(key) = so::box_beforenm(&pk, &sk) {
            let mut out = vec![0u8; mlen];
            let r = crypto_box_open_detached_afternm(&mut out, &mac, body, &n, &key);
            verdict("crypto_box_open_detached_afternm", accept, r.is_ok())?;
            let mut data = body.to_vec();
            let r = crypto_box_open_detached_afternm_inplace(&mut data, &mac, &n, &key);
            verdict("crypto_box_open_detached_afternm_inplace", accept, r.is_ok())?;
        }
    }
    let r = VecBox::from_bytes(c)
        .and_then(|b| b.decrypt_to_vec(&Nonce::from(n), &PublicKey::from(pk), &SecretKey::from(sk)));
    verdict("DryocBox::from_bytes+decrypt", accept, r.is_ok())
}

/// pk, sk (recipient pair as presented), c as presented.
fn c02_seal_open(i: &Input) -> Outcome {
    use dryoc::dryocbox::{KeyPair, PublicKey, SecretKey, VecBox};
    let (pk, sk, c) = (i.arr::<32>("pk"), i.arr::<32>("sk"), i.get("c"));
    let oracle = so::box_seal_open(c, &pk, &sk);
    let accept = oracle.is_some();

    let mut out = vec![0u8; c.len().saturating_sub(48)];
    let r = crypto_box_seal_open(&mut out, c, &pk, &sk);
    verdict("crypto_box_seal_open", accept, r.is_ok())?;
    if let Some(p) = &oracle {
        eq("crypto_box_seal_open plaintext", p, &out)?;
    }
    let kp = KeyPair {
        public_key: PublicKey::from(pk),
        secret_key: SecretKey::from(sk),
    };
    let r = VecBox::from_sealed_bytes(c).and_then(|b| b.unseal_to_vec(&kp));
    verdict("DryocBox::from_sealed_bytes+unseal", accept, r.is_ok())
}

/// First message of a stream: k, header, c, ad as presented.
fn c02_stream_pull(i: &Input) -> Outcome {
    use dryoc::dryocstream::{DryocStream, Header, Key};
    let (k, header, c, ad) = (i.arr::<32>("k"), i.arr::<24>("header"), i.get("c"), i.get("ad"));
    let mut st = so::stream_init_pull(&header, &k);
    let oracle = so::stream_pull(&mut st, c, Some(ad));
    let accept = oracle.is_some();

    let mut state = ss::State::new();
    ss::crypto_secretstream_xchacha20poly1305_init_pull(&mut state, &header, &k);
    let mut out = vec![0u8; c.len().saturating_sub(17)];
    let mut tag = 0u8;
    let r = ss::crypto_secretstream_xchacha20poly1305_pull(&mut state, &mut out, &mut tag, c, Some(ad));
    verdict("crypto_secretstream_xchacha20poly1305_pull", accept, r.is_ok())?;
    if let Some((p, t)) = &oracle {
        eq("pull plaintext", p, &out)?;
        eq("pull tag", &[*t], &[tag])?;
    }
    let mut pull = DryocStream::init_pull(&Key::from(k), &Header::from(header));
    let r = pull.pull_to_vec(&c.to_vec(), Some(&ad.to_vec()));
    verdict("DryocStream::pull_to_vec", accept, r.is_ok())
}

/// Three genuine chunks of one stream (made by libsodium from `dseed`); the
/// chunk `c` with AD `ad` is presented to the pull state just before genuine
/// chunk number `pos` (0..=2).  Every step's accept / reject decision, message
/// and tag must equal libsodium's on the same sequence: a rejected chunk must
/// leave the stream able to accept the genuine one (e.g. a retransmission).
fn c02_stream_sequence(i: &Input) -> Outcome {
    use dryoc::dryocstream::{DryocStream, Header, Key};
    let (k, header) = (i.arr::<32>("k"), i.arr::<24>("header"));
    let (bad_c, bad_ad, pos) = (i.get("c"), i.get("ad"), i.num("pos") as usize);
    if pos > 2 {
        panic!("{} pos must be 0..=2", HARNESS);
    }
    let mut data = Rng::new(i.num("dseed"));
    let mut sp = so::stream_init_pull(&header, &k);
    let mut steps: Vec<(Vec<u8>, Vec<u8>, String)> = Vec::new();
    for j in 0..3usize {
        let ml = data.below(50);
        let m = data.bytes(ml);
        let ad = data.bytes(j * 2);
        let c = so::stream_push(&mut sp, &m, Some(&ad), [0u8, 1, 2][j]);
        if j == pos {
            steps.push((bad_c.to_vec(), bad_ad.to_vec(), "the presented chunk".to_string()));
        }
        steps.push((c, ad, format!("genuine chunk #{}", j)));
    }

    let mut sl = so::stream_init_pull(&header, &k);
    let mut state = ss::State::new();
    ss::crypto_secretstream_xchacha20poly1305_init_pull(&mut state, &header, &k);
    let mut pull = DryocStream::init_pull(&Key::from(k), &Header::from(header));
    let mut history = String::new();
    for (c, ad, name) in &steps {
        let oracle = so::stream_pull(&mut sl, c, Some(ad));
        let what = format!("{}{}", name, if history.is_empty() { String::new() } else { format!(" (after: {})", history) });

        let mut out = vec![0u8; c.len().saturating_sub(17)];
        let mut tag = 0u8;
        let r = ss::crypto_secretstream_xchacha20poly1305_pull(&mut state, &mut out, &mut tag, c, Some(ad));
        verdict(&format!("crypto_secretstream_xchacha20poly1305_pull, {}", what), oracle.is_some(), r.is_ok())?;
        if let Some((p, t)) = &oracle {
            eq(&format!("pull plaintext, {}", what), p, &out)?;
            eq(&format!("pull tag, {}", what), &[*t], &[tag])?;
        }
        let r = pull.pull_to_vec(c, Some(ad));
        verdict(&format!("DryocStream::pull_to_vec, {}", what), oracle.is_some(), r.is_ok())?;
        if let (Some((p, t)), Ok((dp, dt))) = (&oracle, &r) {
            eq(&format!("DryocStream::pull plaintext, {}", what), p, dp)?;
            eq(&format!("DryocStream::pull tag, {}", what), &[*t], &[dt.bits()])?;
        }
        if !history.is_empty() {
            history.push_str(", ");
        }
        history.push_str(&format!("{} {}", name, if oracle.is_some() { "accepted" } else { "rejected" }));
    }
    Ok(())
}

pub const C02: Registry = &[
    ("stream_reject_then_genuine", c02_stream_sequence),
    ("secretbox_open", c02_secretbox_open),
    ("box_open", c02_box_open),
    ("seal_open", c02_seal_open),
    ("stream_pull", c02_stream_pull),
];

/// One-bit corruptions of every byte (bit i%8 of byte i), truncations by
/// 1..=17 bytes, one extension.  In thorough mode every bit of every byte.
pub fn mutations(orig: &[u8], thorough: bool) -> Vec<Vec<u8>> {
    let mut out = Vec::new();
    for idx in 0..orig.len() {
        let bits: Vec<usize> = if thorough { (0..8).collect() } else { vec![idx % 8] };
        for bit in bits {
            let mut v = orig.to_vec();
            v[idx] ^= 1 << bit;
            out.push(v);
        }
    }
    out
}

pub fn length_mutations(orig: &[u8]) -> Vec<Vec<u8>> {
    let mut out = Vec::new();
    for cut in 1..=17usize {
        if cut <= orig.len() {
            out.push(orig[..orig.len() - cut].to_vec());
        }
    }
    let mut ext = orig.to_vec();
    ext.push(0);
    out.push(ext);
    let mut ext = orig.to_vec();
    ext.push(0xA5);
    out.push(ext);
    out
}

/// Guard: the oracle itself must reject what the generator calls "tampered";
/// otherwise the generator (not dryoc) is wrong.
fn oracle_must_reject(what: &str, accepted: bool) {
    if accepted {
        panic!("{} libsodium accepted a tampered {}", HARNESS, what);
    }
}

/// Multi-step: a chunk that fails authentication, then the genuine chunk.
fn c02_sequences(ctx: &mut Ctx) -> Search {
    let t = ctx.thorough;
    for round in 0..(if t { 12u64 } else { 2 }) {
        let (k, header) = (ctx.rng.arr::<32>(), ctx.rng.arr::<24>());
        let dseed = 7000 + round;
        // the generator needs the genuine chunks to derive forgeries from them
        let mut data = Rng::new(dseed);
        let mut sp = so::stream_init_pull(&header, &k);
        let mut genuine: Vec<(Vec<u8>, Vec<u8>)> = Vec::new();
        for j in 0..3usize {
            let ml = data.below(50);
            let m = data.bytes(ml);
            let ad = data.bytes(j * 2);
            let c = so::stream_push(&mut sp, &m, Some(&ad), [0u8, 1, 2][j]);
            genuine.push((c, ad));
        }
        for pos in 0..3usize {
            let (c, ad) = &genuine[pos];
            let mut forged: Vec<(Vec<u8>, Vec<u8>)> = Vec::new();
            // one bit of the tag byte, of the body, of the MAC
            let mut idx = vec![0usize, c.len() - 16, c.len() - 1];
            if c.len() > 17 {
                idx.push(1);
                idx.push(c.len() - 17);
            }
            for p in idx {
                let mut v = c.clone();
                v[p] ^= 1 << (p % 8);
                forged.push((v, ad.clone()));
            }
            forged.push((c[..c.len() - 1].to_vec(), ad.clone())); // truncated
            forged.push((c[..16].to_vec(), ad.clone())); // shorter than the overhead
            forged.push(([&c[..], &[0u8][..]].concat(), ad.clone())); // extended
            forged.push((c.clone(), [&ad[..], &[1u8][..]].concat())); // wrong AD
            forged.push((genuine[(pos + 1) % 3].0.clone(), genuine[(pos + 1) % 3].1.clone())); // out of order
            if pos > 0 {
                forged.push(genuine[pos - 1].clone()); // replay
            }
            forged.push((ctx.rng.bytes(c.len()), ad.clone())); // noise
            for (fc, fad) in forged {
                ctx.run(
                    "stream_reject_then_genuine",
                    Input::new()
                        .b("k", &k)
                        .b("header", &header)
                        .u("dseed", dseed)
                        .u("pos", pos as u64)
                        .b("c", &fc)
                        .b("ad", &fad),
                )?;
            }
        }
    }
    Ok(())
}

pub fn c02(ctx: &mut Ctx) -> Search {
    let t = ctx.thorough;
    // constructed ciphertexts whose Poly1305 accumulator sits on its edge values (p-2 .. 2^130-1, pending carries): the
    // genuine box must be accepted, the box with tag -5 / +5 (what a skipped or doubled final subtraction of p yields) refused
    for _ in 0..(if t { 6 } else { 2 }) {
        let (k, n) = (ctx.rng.arr::<32>(), ctx.rng.arr::<24>());
        for m in poly1305_edge_plaintexts(&mut ctx.rng, &k, &n, t) {
            let c = so::secretbox_easy(&m, &n, &k);
            ctx.run("secretbox_open", Input::new().b("k", &k).b("n", &n).b("c", &c))?;
            for delta in [5u128, (!5u128).wrapping_add(1)] {
                let mut f = c.clone();
                let mut tag = [0u8; 16];
                tag.copy_from_slice(&f[..16]);
                let v = u128::from_le_bytes(tag).wrapping_add(delta);
                f[..16].copy_from_slice(&v.to_le_bytes());
                ctx.run("secretbox_open", Input::new().b("k", &k).b("n", &n).b("c", &f))?;
            }
        }
        let (ska, skb) = (ctx.rng.arr::<32>(), ctx.rng.arr::<32>());
        if let Some(shared) = so::box_beforenm(&so::scalarmult_base(&skb), &ska) {
            for m in poly1305_edge_plaintexts(&mut ctx.rng, &shared, &n, t) {
                if let Some(c) = so::box_easy(&m, &n, &so::scalarmult_base(&skb), &ska) {
                    ctx.run("box_open", Input::new().b("pk", &so::scalarmult_base(&ska)).b("sk", &skb).b("n", &n).b("c", &c))?;
                }
            }
        }
    }
    let lens: Vec<usize> = if t { vec![0, 1, 15, 16, 17, 33, 64, 80] } else { vec![0, 1, 17, 64] };
    // Phase 0: the untampered input and every one-bit corruption, for all
    // message lengths.  Phase 1: truncations and extensions (same data).
    // Bit corruptions come first so that a length-handling defect (C04
    // territory) cannot hide an authentication defect.
    let rng0 = ctx.rng.clone();
    for phase in 0..2 {
        ctx.rng = rng0.clone();
        let bits = phase == 0;
        let cmut = |c: &[u8]| -> Vec<Vec<u8>> {
            if bits {
                mutations(c, t)
            } else {
                length_mutations(c)
            }
        };
        let kmut = |k: &[u8]| -> Vec<Vec<u8>> {
            if bits {
                mutations(k, t)
            } else {
                Vec::new()
            }
        };
        for len in lens.iter().copied() {
            let m = ctx.rng.bytes(len);
            let (k, n) = (ctx.rng.arr::<32>(), ctx.rng.arr::<24>());

            // ---- secretbox
            let c = so::secretbox_easy(&m, &n, &k);
            let base = |k: &[u8], n: &[u8], c: &[u8]| Input::new().b("k", k).b("n", n).b("c", c);
            if bits {
                ctx.run("secretbox_open", base(&k, &n, &c))?;
            }
            for c2 in cmut(&c) {
                oracle_must_reject("secretbox ciphertext", so::secretbox_open_easy(&c2, &n, &k).is_some());
                ctx.run("secretbox_open", base(&k, &n, &c2))?;
            }
            for n2 in kmut(&n) {
                ctx.run("secretbox_open", base(&k, &n2, &c))?;
            }
            for k2 in kmut(&k) {
                ctx.run("secretbox_open", base(&k2, &n, &c))?;
            }

            // ---- box (sender a, recipient b)
            let (ska, skb) = (ctx.rng.arr::<32>(), ctx.rng.arr::<32>());
            let (pka, pkb) = (so::scalarmult_base(&ska), so::scalarmult_base(&skb));
            let c = so::box_easy(&m, &n, &pkb, &ska).expect("honest keys");
            let base =
                |pk: &[u8], sk: &[u8], n: &[u8], c: &[u8]| Input::new().b("pk", pk).b("sk", sk).b("n", n).b("c", c);
            if bits {
                ctx.run("box_open", base(&pka, &skb, &n, &c))?;
            }
            for c2 in cmut(&c) {
                oracle_must_reject("box ciphertext", so::box_open_easy(&c2, &n, &pka, &skb).is_some());
                ctx.run("box_open", base(&pka, &skb, &n, &c2))?;
            }
            for n2 in kmut(&n) {
                ctx.run("box_open", base(&pka, &skb, &n2, &c))?;
            }
            // key corruptions: the verdict is whatever libsodium says (bits
            // that clamping ignores do not change the key)
            for pk2 in kmut(&pka) {
                ctx.run("box_open", base(&pk2, &skb, &n, &c))?;
            }
            for sk2 in kmut(&skb) {
                ctx.run("box_open", base(&pka, &sk2, &n, &c))?;
            }

            // ---- sealed box (ephemeral key is the first 32 bytes of c)
            let c = so::box_seal(&m, &pkb);
            let base = |pk: &[u8], sk: &[u8], c: &[u8]| Input::new().b("pk", pk).b("sk", sk).b("c", c);
            if bits {
                ctx.run("seal_open", base(&pkb, &skb, &c))?;
            }
            for c2 in cmut(&c) {
                oracle_must_reject("sealed box", so::box_seal_open(&c2, &pkb, &skb).is_some());
                ctx.run("seal_open", base(&pkb, &skb, &c2))?;
            }
            for pk2 in kmut(&pkb) {
                ctx.run("seal_open", base(&pk2, &skb, &c))?;
            }
            for sk2 in kmut(&skb) {
                ctx.run("seal_open", base(&pkb, &sk2, &c))?;
            }

            // ---- secretstream, first message
            for adlen in [0usize, 5, 16] {
                let header = ctx.rng.arr::<24>();
                let ad = ctx.rng.bytes(adlen);
                let mut st = so::stream_init_pull(&header, &k);
                let c = so::stream_push(&mut st, &m, Some(&ad), (len % 4) as u8);
                let base = |k: &[u8], h: &[u8], c: &[u8], ad: &[u8]| {
                    Input::new().b("k", k).b("header", h).b("c", c).b("ad", ad)
                };
                if bits {
                    ctx.run("stream_pull", base(&k, &header, &c, &ad))?;
                }
                for c2 in cmut(&c) {
                    let mut st = so::stream_init_pull(&header, &k);
                    oracle_must_reject("stream ciphertext", so::stream_pull(&mut st, &c2, Some(&ad)).is_some());
                    ctx.run("stream_pull", base(&k, &header, &c2, &ad))?;
                }
                for h2 in kmut(&header) {
                    ctx.run("stream_pull", base(&k, &h2, &c, &ad))?;
                }
                for ad2 in cmut(&ad) {
                    ctx.run("stream_pull", base(&k, &header, &c, &ad2))?;
                }
                for k2 in kmut(&k) {
                    ctx.run("stream_pull", base(&k2, &header, &c, &ad))?;
                }
            }
        }
    }
    c02_sequences(ctx)
}

// ======================================================================
// C17 -- after a failed open the caller's buffers hold nothing derived
// from the rejected ciphertext
// ======================================================================

const FILL: u8 = 0xAA;

/// Copying forms: the buffer must be exactly as before, or all zero.
fn untouched_or_zero(what: &str, buf: &[u8]) -> Outcome {
    if buf.iter().all(|b| *b == FILL) || buf.iter().all(|b| *b == 0) {
        Ok(())
    } else {
        fail(
            format!("{} x 0xaa (unchanged) or all zero", buf.len()),
            hex(buf),
            format!("{}: message buffer modified although the open failed", what),
        )
    }
}

/// In-place forms: unchanged input, all zero, or original tag then zeros.
fn inplace_clean(what: &str, before: &[u8], after: &[u8], tag_prefix: usize) -> Outcome {
    let unchanged = before == after;
    let zero = after.iter().all(|b| *b == 0);
    let tag_then_zero = tag_prefix > 0
        && after.len() >= tag_prefix
        && after[..tag_prefix] == before[..tag_prefix]
        && after[tag_prefix..].iter().all(|b| *b == 0);
    if unchanged || zero || tag_then_zero {
        Ok(())
    } else {
        fail(
            format!("unchanged ({}) or zeroed", hex(before)),
            hex(after),
            format!("{}: buffer holds data derived from the rejected ciphertext", what),
        )
    }
}

/// Optional input `extra`: the caller's message buffer is that many bytes LONGER than the message (a fixed-size receive
/// buffer, as in code ported from libsodium).  The statement is the same: after Err the WHOLE buffer is what it was, or
/// all zero.  (Whether a genuine box opens into such a buffer is a C01 matter and not looked at here.)
fn extra_of(i: &Input) -> usize {
    if i.has("extra") {
        i.num("extra") as usize
    } else {
        0
    }
}

fn larger(what: &str, extra: usize) -> String {
    if extra == 0 {
        what.to_string()
    } else {
        format!("{} (message buffer {} bytes longer than the message)", what, extra)
    }
}

/// k, n, c: c must be rejected (checked against libsodium).
fn c17_secretbox(i: &Input) -> Outcome {
    let (k, n, c) = (i.arr::<32>("k"), i.arr::<24>("n"), i.get("c"));
    if so::secretbox_open_easy(c, &n, &k).is_some() {
        panic!("{} C17 case needs a ciphertext that libsodium rejects", HARNESS);
    }
    let extra = extra_of(i);
    let mlen = c.len().saturating_sub(16) + extra;

    let mut out = vec![FILL; mlen];
    must_err(crypto_secretbox_open_easy(&mut out, c, &n, &k), &larger("crypto_secretbox_open_easy", extra))?;
    untouched_or_zero(&larger("crypto_secretbox_open_easy", extra), &out)?;

    if let Some((mac, body)) = split_mac(c) {
        let mut out = vec![FILL; mlen];
        must_err(
            crypto_secretbox_open_detached(&mut out, &mac, body, &n, &k),
            &larger("crypto_secretbox_open_detached", extra),
        )?;
        untouched_or_zero(&larger("crypto_secretbox_open_detached", extra), &out)?;
    }
    if extra > 0 {
        // the in-place forms have no separate message buffer
        return Ok(());
    }
    let mut data = c.to_vec();
    must_err(
        crypto_secretbox_open_easy_inplace(&mut data, &n, &k),
        "crypto_secretbox_open_easy_inplace",
    )?;
    inplace_clean("crypto_secretbox_open_easy_inplace", c, &data, 16)
}

fn c17_box(i: &Input) -> Outcome {
    let (pk, sk, n, c) = (i.arr::<32>("pk"), i.arr::<32>("sk"), i.arr::<24>("n"), i.get("c"));
    if so::box_open_easy(c, &n, &pk, &sk).is_some() {
        panic!("{} C17 case needs a ciphertext that libsodium rejects", HARNESS);
    }
    let extra = extra_of(i);
    let mlen = c.len().saturating_sub(16) + extra;

    let mut out = vec![FILL; mlen];
    must_err(crypto_box_open_easy(&mut out, c, &n, &pk, &sk), &larger("crypto_box_open_easy", extra))?;
    untouched_or_zero(&larger("crypto_box_open_easy", extra), &out)?;

    if extra == 0 {
        let mut data = c.to_vec();
        must_err(crypto_box_open_easy_inplace(&mut data, &n, &pk, &sk), "crypto_box_open_easy_inplace")?;
        inplace_clean("crypto_box_open_easy_inplace", c, &data, 16)?;
    }

    if let Some((mac, body)) = split_mac(c) {
        let mut out = vec![FILL; mlen];
        must_err(
            crypto_box_open_detached(&mut out, &mac, body, &n, &pk, &sk),
            &larger("crypto_box_open_detached", extra),
        )?;
        untouched_or_zero(&larger("crypto_box_open_detached", extra), &out)?;

        if extra == 0 {
            let mut data = body.to_vec();
            must_err(
                crypto_box_open_detached_inplace(&mut data, &mac, &n, &pk, &sk),
                "crypto_box_open_detached_inplace",
            )?;
            inplace_clean("crypto_box_open_detached_inplace", body, &data, 0)?;
        }

        if let Some(key) = so::box_beforenm(&pk, &sk) {
            let mut out = vec![FILL; mlen];
            must_err(
                crypto_box_open_detached_afternm(&mut out, &mac, body, &n, &key),
                &larger("crypto_box_open_detached_afternm", extra),
            )?;
            untouched_or_zero(&larger("crypto_box_open_detached_afternm", extra), &out)?;
            if extra > 0 {
                return Ok(());
            }
            let mut data = body.to_vec();
            must_err(
                crypto_box_open_detached_afternm_inplace(&mut data, &mac, &n, &key),
                "crypto_box_open_detached_afternm_inplace",
            )?;
            inplace_clean("crypto_box_open_detached_afternm_inplace", body, &data, 0)?;
        }
    }
    Ok(())
}

fn c17_seal(i: &Input) -> Outcome {
    let (pk, sk, c) = (i.arr::<32>("pk"), i.arr::<32>("sk"), i.get("c"));
    if so::box_seal_open(c, &pk, &sk).is_some() {
        panic!("{} C17 case needs a ciphertext that libsodium rejects", HARNESS);
    }
    let extra = extra_of(i);
    let mut out = vec![FILL; c.len().saturating_sub(48) + extra];
    must_err(crypto_box_seal_open(&mut out, c, &pk, &sk), &larger("crypto_box_seal_open", extra))?;
    untouched_or_zero(&larger("crypto_box_seal_open", extra), &out)
}

fn c17_stream(i: &Input) -> Outcome {
    let (k, header, c, ad) = (i.arr::<32>("k"), i.arr::<24>("header"), i.get("c"), i.get("ad"));
    let mut st = so::stream_init_pull(&header, &k);
    if so::stream_pull(&mut st, c, Some(ad)).is_some() {
        panic!("{} C17 case needs a ciphertext that libsodium rejects", HARNESS);
    }
    let mut state = ss::State::new();
    ss::crypto_secretstream_xchacha20poly1305_init_pull(&mut state, &header, &k);
    let extra = extra_of(i);
    let mut out = vec![FILL; c.len().saturating_sub(17) + extra];
    let mut tag = 0x55u8;
    must_err(
        ss::crypto_secretstream_xchacha20poly1305_pull(&mut state, &mut out, &mut tag, c, Some(ad)),
        &larger("crypto_secretstream_xchacha20poly1305_pull", extra),
    )?;
    untouched_or_zero(&larger("crypto_secretstream_xchacha20poly1305_pull", extra), &out)?;
    if tag != 0x55 {
        return fail(
            "55",
            hex(&[tag]),
            "crypto_secretstream_xchacha20poly1305_pull: tag out-parameter updated although the pull failed",
        );
    }
    Ok(())
}

/// Renderings of a byte string a diagnostic message could contain.
fn renderings(b: &[u8]) -> Vec<String> {
    let lower = hex(b);
    vec![
        lower.to_uppercase(),
        lower,
        format!("{:02x?}", b),
        format!("{:x?}", b),
        format!("{:02X?}", b),
        format!("{:?}", b),
        b.iter().map(|x| format!("{:02x}", x)).collect::<Vec<_>>().join(" "),
        b.iter().map(|x| format!("{:02x}", x)).collect::<Vec<_>>().join(":"),
    ]
}

/// The text of the Error of a failed open (Display and Debug) is shown to users / written to logs: it must not depend
/// on the rejected ciphertext (same text for two rejected ciphertexts of equal length) and must not contain the tag that
/// WOULD authenticate the rejected ciphertext (that is a forgery oracle).  `texts`: (entry point, text for c, text for
/// c_other); `tags`: the expected tags of c and c_other, computed with libsodium.
fn error_text_clean(texts: &[(String, String, String)], tags: &[[u8; 16]]) -> Outcome {
    for (what, a, b) in texts {
        for tag in tags {
            for r in renderings(tag) {
                if a.contains(&r) || b.contains(&r) {
                    return fail(
                        "error text without key-dependent data",
                        a.clone(),
                        format!(
                            "{}: the Error text of the failed open contains the Poly1305 tag {} that authenticates the rejected ciphertext (computed with libsodium: crypto_onetimeauth under the XSalsa20 one-time key)",
                            what,
                            hex(tag)
                        ),
                    );
                }
            }
        }
        if a != b {
            return fail(
                a.clone(),
                b.clone(),
                format!("{}: the Error text of a failed open depends on the rejected ciphertext (two rejected ciphertexts of equal length)", what),
            );
        }
    }
    Ok(())
}

fn err_texts<T>(r: Result<T, dryoc::Error>, what: &str) -> Result<(String, String), Fail> {
    match r {
        Ok(_) => fail("Err", "Ok", format!("{} accepted input that must be rejected", what)),
        Err(e) => Ok((format!("{}", e), format!("{:?}", e))),
    }
}

/// Tag libsodium computes for the body of `c` (mac || body) under the one-time key of (n, k).
fn expected_tag(c: &[u8], n: &[u8; 24], k: &[u8; 32]) -> [u8; 16] {
    let ks = so::stream_xsalsa20(32, n, k);
    let polykey: [u8; 32] = ks[..32].try_into().unwrap();
    so::onetimeauth(&c[16.min(c.len())..], &polykey)
}

/// k, n, c, c_other: two rejected ciphertexts of equal length.
fn c17_secretbox_error_text(i: &Input) -> Outcome {
    use dryoc::dryocsecretbox::{Key, Nonce, VecBox};
    let (k, n, c, c_other) = (i.arr::<32>("k"), i.arr::<24>("n"), i.get("c"), i.get("c_other"));
    if c.len() != c_other.len() || c.len() < 16 {
        panic!("{} C17 error-text case needs two ciphertexts of equal length >= 16", HARNESS);
    }
    if so::secretbox_open_easy(c, &n, &k).is_some() || so::secretbox_open_easy(c_other, &n, &k).is_some() {
        panic!("{} C17 case needs ciphertexts that libsodium rejects", HARNESS);
    }
    let tags = [expected_tag(c, &n, &k), expected_tag(c_other, &n, &k)];
    let mut per: Vec<Vec<(String, String)>> = Vec::new();
    for cc in [c, c_other] {
        let mut v = Vec::new();
        let mlen = cc.len() - 16;
        let mut out = vec![FILL; mlen];
        v.push(err_texts(crypto_secretbox_open_easy(&mut out, cc, &n, &k), "crypto_secretbox_open_easy")?);
        let (mac, body) = split_mac(cc).unwrap();
        let mut out = vec![FILL; mlen];
        v.push(err_texts(crypto_secretbox_open_detached(&mut out, &mac, body, &n, &k), "crypto_secretbox_open_detached")?);
        let mut data = cc.to_vec();
        v.push(err_texts(crypto_secretbox_open_easy_inplace(&mut data, &n, &k), "crypto_secretbox_open_easy_inplace")?);
        let b = must_ok(VecBox::from_bytes(cc), "DryocSecretBox::from_bytes")?;
        v.push(err_texts(b.decrypt_to_vec(&Nonce::from(n), &Key::from(k)), "DryocSecretBox::decrypt_to_vec")?);
        per.push(v);
    }
    let names = ["crypto_secretbox_open_easy", "crypto_secretbox_open_detached", "crypto_secretbox_open_easy_inplace", "DryocSecretBox::decrypt_to_vec"];
    let mut texts = Vec::new();
    for (j, name) in names.iter().enumerate() {
        texts.push((format!("{} (Display)", name), per[0][j].0.clone(), per[1][j].0.clone()));
        texts.push((format!("{} (Debug)", name), per[0][j].1.clone(), per[1][j].1.clone()));
    }
    error_text_clean(&texts, &tags)
}

/// pk (sender), sk (recipient), n, c, c_other: the same for the public-key forms.
fn c17_box_error_text(i: &Input) -> Outcome {
    use dryoc::dryocbox::{Nonce, PublicKey, SecretKey, VecBox};
    let (pk, sk, n, c, c_other) = (i.arr::<32>("pk"), i.arr::<32>("sk"), i.arr::<24>("n"), i.get("c"), i.get("c_other"));
    if c.len() != c_other.len() || c.len() < 16 {
        panic!("{} C17 error-text case needs two ciphertexts of equal length >= 16", HARNESS);
    }
    if so::box_open_easy(c, &n, &pk, &sk).is_some() || so::box_open_easy(c_other, &n, &pk, &sk).is_some() {
        panic!("{} C17 case needs ciphertexts that libsodium rejects", HARNESS);
    }
    let shared = match so::box_beforenm(&pk, &sk) {
        Some(s) => s,
        None => panic!("{} C17 error-text case needs an honest sender key", HARNESS),
    };
    let tags = [expected_tag(c, &n, &shared), expected_tag(c_other, &n, &shared)];
    let mut per: Vec<Vec<(String, String)>> = Vec::new();
    for cc in [c, c_other] {
        let mut v = Vec::new();
        let mlen = cc.len() - 16;
        let mut out = vec![FILL; mlen];
        v.push(err_texts(crypto_box_open_easy(&mut out, cc, &n, &pk, &sk), "crypto_box_open_easy")?);
        let mut data = cc.to_vec();
        v.push(err_texts(crypto_box_open_easy_inplace(&mut data, &n, &pk, &sk), "crypto_box_open_easy_inplace")?);
        let (mac, body) = split_mac(cc).unwrap();
        let mut out = vec![FILL; mlen];
        v.push(err_texts(crypto_box_open_detached(&mut out, &mac, body, &n, &pk, &sk), "crypto_box_open_detached")?);
        let mut out = vec![FILL; mlen];
        v.push(err_texts(crypto_box_open_detached_afternm(&mut out, &mac, body, &n, &shared), "crypto_box_open_detached_afternm")?);
        let b = must_ok(VecBox::from_bytes(cc), "DryocBox::from_bytes")?;
        v.push(err_texts(
            b.decrypt_to_vec(&Nonce::from(n), &PublicKey::from(pk), &SecretKey::from(sk)),
            "DryocBox::decrypt_to_vec",
        )?);
        per.push(v);
    }
    let names = ["crypto_box_open_easy", "crypto_box_open_easy_inplace", "crypto_box_open_detached", "crypto_box_open_detached_afternm", "DryocBox::decrypt_to_vec"];
    let mut texts = Vec::new();
    for (j, name) in names.iter().enumerate() {
        texts.push((format!("{} (Display)", name), per[0][j].0.clone(), per[1][j].0.clone()));
        texts.push((format!("{} (Debug)", name), per[0][j].1.clone(), per[1][j].1.clone()));
    }
    error_text_clean(&texts, &tags)
}

pub const C17: Registry = &[
    // the text of the returned Error: independent of the rejected ciphertext, without the tag that would authenticate it
    // (dryoc is built with debug assertions in the witness binary, as in every dev / test build of the crate)
    ("secretbox_failed_open_error_text", c17_secretbox_error_text),
    ("box_failed_open_error_text", c17_box_error_text),
    ("secretbox_failed_open", c17_secretbox),
    ("box_failed_open", c17_box),
    ("seal_failed_open", c17_seal),
    ("stream_failed_pull", c17_stream),
    // same bodies with the extra input `extra`: the caller's message buffer is longer than the message
    ("secretbox_failed_open_larger_buffer", c17_secretbox),
    ("box_failed_open_larger_buffer", c17_box),
    ("seal_failed_open_larger_buffer", c17_seal),
    ("stream_failed_pull_larger_buffer", c17_stream),
];

pub fn c17(ctx: &mut Ctx) -> Search {
    let t = ctx.thorough;
    // bodies beyond small-buffer thresholds as well (256 / 4096: scratch-buffer and chunked paths are realistic places
    // for a lost wipe-on-error)
    let lens: Vec<usize> = if t {
        (1..=40).chain([64, 65, 100, 255, 256, 257, 300, 511, 513, 1000, 1025, 4095, 4096, 4097, 8193, 16389, 65537]).collect()
    } else {
        vec![1, 2, 16, 17, 33, 64, 256, 257, 300, 1000, 4097]
    };
    for len in lens {
        let m = ctx.rng.bytes(len);
        let (k, n) = (ctx.rng.arr::<32>(), ctx.rng.arr::<24>());
        // positions: first/last byte of tag, first/last byte of body
        let pick = |c: &[u8], hdr: usize| -> Vec<Vec<u8>> {
            let mut idx = vec![0, hdr - 1, hdr, c.len() - 1];
            idx.dedup();
            idx.iter()
                .map(|p| {
                    let mut v = c.to_vec();
                    v[*p] ^= 1 << (p % 8);
                    v
                })
                .collect()
        };

        // message buffers larger than the message (by 1 byte, a MAC, a fixed-size receive buffer)
        let extras: Vec<u64> = if t { vec![1, 16, 100, 4096] } else { vec![1, 16, 100] };

        let c = so::secretbox_easy(&m, &n, &k);
        for c2 in pick(&c, 16) {
            ctx.run("secretbox_failed_open", Input::new().b("k", &k).b("n", &n).b("c", &c2))?;
            for e in &extras {
                ctx.run("secretbox_failed_open_larger_buffer", Input::new().b("k", &k).b("n", &n).b("c", &c2).u("extra", *e))?;
            }
        }

        let (ska, skb) = (ctx.rng.arr::<32>(), ctx.rng.arr::<32>());
        let (pka, pkb) = (so::scalarmult_base(&ska), so::scalarmult_base(&skb));
        let c = so::box_easy(&m, &n, &pkb, &ska).expect("honest keys");
        for c2 in pick(&c, 16) {
            ctx.run(
                "box_failed_open",
                Input::new().b("pk", &pka).b("sk", &skb).b("n", &n).b("c", &c2),
            )?;
            for e in &extras {
                ctx.run(
                    "box_failed_open_larger_buffer",
                    Input::new().b("pk", &pka).b("sk", &skb).b("n", &n).b("c", &c2).u("extra", *e),
                )?;
            }
        }
        // wrong nonce / wrong recipient key with a larger buffer
        {
            let mut n2 = n;
            n2[23] ^= 0x40;
            let sk2 = ctx.rng.arr::<32>();
            for e in &extras {
                ctx.run(
                    "box_failed_open_larger_buffer",
                    Input::new().b("pk", &pka).b("sk", &skb).b("n", &n2).b("c", &c).u("extra", *e),
                )?;
                ctx.run(
                    "box_failed_open_larger_buffer",
                    Input::new().b("pk", &pka).b("sk", &sk2).b("n", &n).b("c", &c).u("extra", *e),
                )?;
            }
        }

        // error text: a rejected ciphertext vs its bit-flipped variant (tag bit, body bit), vs an unrelated rejected
        // ciphertext of the same length
        {
            let cs = so::secretbox_easy(&m, &n, &k);
            let cb = so::box_easy(&m, &n, &pkb, &ska).expect("honest keys");
            let rnd = ctx.rng.bytes(cs.len());
            let mut variants: Vec<(Vec<u8>, Vec<u8>, Vec<u8>, Vec<u8>)> = Vec::new();
            for (pa, pb) in [(0usize, 15usize), (16, cs.len() - 1), (3, 16)] {
                let flip = |c: &[u8], p: usize| {
                    let mut v = c.to_vec();
                    v[p] ^= 1 << (p % 8);
                    v
                };
                // second member: the first one with one more bit changed (another bit if the positions coincide)
                let flip2 = |c: &[u8], p: usize| {
                    let mut v = c.to_vec();
                    v[p] ^= 0x80 >> (p % 8);
                    v
                };
                let pb = pb.min(cs.len() - 1);
                variants.push((flip(&cs, pa), flip2(&flip(&cs, pa), pb), flip(&cb, pa), flip2(&flip(&cb, pa), pb)));
            }
            variants.push((variants[0].0.clone(), rnd.clone(), variants[0].2.clone(), rnd));
            for (s1, s2, b1, b2) in variants {
                ctx.run("secretbox_failed_open_error_text", Input::new().b("k", &k).b("n", &n).b("c", &s1).b("c_other", &s2))?;
                ctx.run(
                    "box_failed_open_error_text",
                    Input::new().b("pk", &pka).b("sk", &skb).b("n", &n).b("c", &b1).b("c_other", &b2),
                )?;
            }
        }

        let c = so::box_seal(&m, &pkb);
        for c2 in pick(&c, 48) {
            ctx.run("seal_failed_open", Input::new().b("pk", &pkb).b("sk", &skb).b("c", &c2))?;
            ctx.run("seal_failed_open_larger_buffer", Input::new().b("pk", &pkb).b("sk", &skb).b("c", &c2).u("extra", extras[len % extras.len()]))?;
        }

        let header = ctx.rng.arr::<24>();
        let ad = ctx.rng.bytes(len % 7);
        let mut st = so::stream_init_pull(&header, &k);
        let c = so::stream_push(&mut st, &m, Some(&ad), (len % 4) as u8);
        // byte 0 = encrypted tag, 1.. body, last 16 = mac
        let mut idx = vec![0usize, 1, c.len() - 17, c.len() - 16, c.len() - 1];
        idx.dedup();
        for p in idx {
            let mut c2 = c.clone();
            c2[p] ^= 1 << (p % 8);
            ctx.run(
                "stream_failed_pull",
                Input::new().b("k", &k).b("header", &header).b("c", &c2).b("ad", &ad),
            )?;
            for e in &extras {
                ctx.run(
                    "stream_failed_pull_larger_buffer",
                    Input::new().b("k", &k).b("header", &header).b("c", &c2).b("ad", &ad).u("extra", *e),
                )?;
            }
        }
    }
    Ok(())
}
