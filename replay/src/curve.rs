//! C05 (X25519 / DH / key exchange) and C13 (seeded key generation and
//! Ed25519 -> X25519 conversion).

use dryoc::classic::crypto_box::{crypto_box_beforenm, crypto_box_seed_keypair};
use dryoc::classic::crypto_core::{crypto_scalarmult, crypto_scalarmult_base};
use dryoc::classic::crypto_kx::*;
use dryoc::classic::crypto_sign::crypto_sign_seed_keypair;
use dryoc::classic::crypto_sign_ed25519::{
    crypto_sign_ed25519_pk_to_curve25519, crypto_sign_ed25519_sk_to_curve25519,
};

use crate::so;
use crate::util::*;

// ======================================================================
// C05
// ======================================================================

/// q = X25519(clamp(n), p) must equal libsodium's q for every encoding.
fn scalarmult(i: &Input) -> Outcome {
    let (n, p) = (i.arr::<32>("n"), i.arr::<32>("p"));
    let (rc, want) = so::scalarmult(&n, &p);
    let mut q = [0u8; 32];
    crypto_scalarmult(&mut q, &n, &p);
    if want == q {
        Ok(())
    } else {
        fail(
            hex(&want),
            hex(&q),
            format!("crypto_scalarmult output differs from libsodium (libsodium rc={})", rc),
        )
    }
}

fn scalarmult_base(i: &Input) -> Outcome {
    let n = i.arr::<32>("n");
    let want = so::scalarmult_base(&n);
    let mut q = [0u8; 32];
    crypto_scalarmult_base(&mut q, &n);
    eq("crypto_scalarmult_base", &want, &q)?;
    // and it is the multiple of the base point u=9
    let mut nine = [0u8; 32];
    nine[0] = 9;
    let mut q2 = [0u8; 32];
    crypto_scalarmult(&mut q2, &n, &nine);
    eq("crypto_scalarmult(n, 9) vs libsodium scalarmult_base", &want, &q2)
}

/// DH commutes for honest pairs and equals libsodium's shared secret.
fn dh_commutes(i: &Input) -> Outcome {
    let (a, b) = (i.arr::<32>("a"), i.arr::<32>("b"));
    let (pa, pb) = (so::scalarmult_base(&a), so::scalarmult_base(&b));
    let (_, want) = so::scalarmult(&a, &pb);
    let (mut s1, mut s2) = ([0u8; 32], [0u8; 32]);
    crypto_scalarmult(&mut s1, &a, &pb);
    crypto_scalarmult(&mut s2, &b, &pa);
    eq("crypto_scalarmult(a, bB)", &want, &s1)?;
    eq("crypto_scalarmult(b, aB)", &want, &s2)
}

/// Compared whenever libsodium derives a key (it refuses an all-zero shared
/// secret; dryoc's beforenm cannot report an error so nothing is compared then).
fn beforenm(i: &Input) -> Outcome {
    let (pk, sk) = (i.arr::<32>("pk"), i.arr::<32>("sk"));
    let k = crypto_box_beforenm(&pk, &sk);
    match so::box_beforenm(&pk, &sk) {
        Some(want) => eq("crypto_box_beforenm", &want, &k),
        None => Ok(()),
    }
}

fn kx_client(i: &Input) -> Outcome {
    let (csk, spk) = (i.arr::<32>("client_sk"), i.arr::<32>("server_pk"));
    let cpk = so::scalarmult_base(&csk);
    let (mut rx, mut tx) = ([0u8; 32], [0u8; 32]);
    let r = crypto_kx_client_session_keys(&mut rx, &mut tx, &cpk, &csk, &spk);
    match so::kx_client(&cpk, &csk, &spk) {
        Some((wrx, wtx)) => {
            must_ok(r, "crypto_kx_client_session_keys")?;
            eq("client rx", &wrx, &rx)?;
            eq("client tx", &wtx, &tx)
        }
        None => match r {
            Err(_) => Ok(()),
            Ok(()) => fail(
                "Err",
                format!("Ok(rx={}, tx={})", hex(&rx), hex(&tx)),
                "crypto_kx_client_session_keys accepts a peer key that libsodium refuses (all-zero shared secret)",
            ),
        },
    }
}

fn kx_server(i: &Input) -> Outcome {
    let (ssk, cpk) = (i.arr::<32>("server_sk"), i.arr::<32>("client_pk"));
    let spk = so::scalarmult_base(&ssk);
    let (mut rx, mut tx) = ([0u8; 32], [0u8; 32]);
    let r = crypto_kx_server_session_keys(&mut rx, &mut tx, &spk, &ssk, &cpk);
    match so::kx_server(&spk, &ssk, &cpk) {
        Some((wrx, wtx)) => {
            must_ok(r, "crypto_kx_server_session_keys")?;
            eq("server rx", &wrx, &rx)?;
            eq("server tx", &wtx, &tx)
        }
        None => match r {
            Err(_) => Ok(()),
            Ok(()) => fail(
                "Err",
                format!("Ok(rx={}, tx={})", hex(&rx), hex(&tx)),
                "crypto_kx_server_session_keys accepts a peer key that libsodium refuses (all-zero shared secret)",
            ),
        },
    }
}

/// Both sides of an honest exchange: client rx == server tx and vice versa.
fn kx_pair(i: &Input) -> Outcome {
    let (csk, ssk) = (i.arr::<32>("client_sk"), i.arr::<32>("server_sk"));
    let (cpk, spk) = (so::scalarmult_base(&csk), so::scalarmult_base(&ssk));
    let (mut crx, mut ctx_) = ([0u8; 32], [0u8; 32]);
    let (mut srx, mut stx) = ([0u8; 32], [0u8; 32]);
    must_ok(
        crypto_kx_client_session_keys(&mut crx, &mut ctx_, &cpk, &csk, &spk),
        "crypto_kx_client_session_keys",
    )?;
    must_ok(
        crypto_kx_server_session_keys(&mut srx, &mut stx, &spk, &ssk, &cpk),
        "crypto_kx_server_session_keys",
    )?;
    eq("client rx vs server tx", &stx, &crx)?;
    eq("client tx vs server rx", &srx, &ctx_)?;
    let (wrx, wtx) = so::kx_client(&cpk, &csk, &spk).expect("honest keys");
    eq("client rx vs libsodium", &wrx, &crx)?;
    eq("client tx vs libsodium", &wtx, &ctx_)
}

/// Object API (`dryoc::kx::Session`, `KeyPair::kx_new_*_session`): for ANY peer public key encoding (on the curve, on
/// its twist, non-canonical, high bit set, small order) the Ok/Err decision and the session keys equal libsodium's
/// crypto_kx_{client,server}_session_keys.  sk = this side's secret key, peer = the other side's public key.
fn kx_object(i: &Input) -> Outcome {
    let (sk, peer) = (i.arr::<32>("sk"), i.arr::<32>("peer"));
    let pk = so::scalarmult_base(&sk);
    kx_object_with(&pk, &sk, &peer, false)
}

/// pk, sk, peer: the same for a key pair IMPORTED with `KeyPair::from_slices(pk, sk)` ("does not check validity"): the
/// stored public key may be another encoding of sk's point (bit 255 set, non-canonical) or unrelated to sk.  Like
/// libsodium's crypto_kx_{client,server}_session_keys(.., pk, sk, peer), the session keys hash the public key BYTES the
/// caller holds (and announced to the peer), not a recomputed key.
fn kx_object_imported(i: &Input) -> Outcome {
    let (pk, sk, peer) = (i.arr::<32>("pk"), i.arr::<32>("sk"), i.arr::<32>("peer"));
    kx_object_with(&pk, &sk, &peer, true)
}

fn kx_object_with(pk: &[u8; 32], sk: &[u8; 32], peer: &[u8; 32], imported: bool) -> Outcome {
    use dryoc::kx::{KeyPair, PublicKey, SecretKey, Session, SessionKey};
    use dryoc::types::Bytes;
    let (pk, sk, peer) = (*pk, *sk, *peer);
    let kp = if imported {
        must_ok(KeyPair::from_slices(&pk, &sk), "KeyPair::from_slices (32-byte public and secret key)")?
    } else {
        KeyPair {
            public_key: PublicKey::from(pk),
            secret_key: SecretKey::from(sk),
        }
    };
    eq("KeyPair public key as stored", &pk, kp.public_key.as_slice())?;
    eq("KeyPair secret key as stored", &sk, kp.secret_key.as_slice())?;
    let peer_pk = PublicKey::from(peer);

    fn judge(what: &str, oracle: &Option<([u8; 32], [u8; 32])>, got: Result<(Vec<u8>, Vec<u8>), String>) -> Outcome {
        match (oracle, got) {
            (Some((wrx, wtx)), Ok((rx, tx))) => {
                eq(&format!("{} rx", what), wrx, &rx)?;
                eq(&format!("{} tx", what), wtx, &tx)
            }
            (Some((wrx, wtx)), Err(e)) => fail(
                format!("Ok(rx={}, tx={})", hex(wrx), hex(wtx)),
                format!("Err({})", e),
                format!("{} refuses a peer public key for which libsodium derives session keys", what),
            ),
            (None, Err(_)) => Ok(()),
            (None, Ok((rx, tx))) => fail(
                "Err",
                format!("Ok(rx={}, tx={})", hex(&rx), hex(&tx)),
                format!("{} accepts a peer key that libsodium refuses (all-zero shared secret)", what),
            ),
        }
    }
    // (a macro, not a generic fn: the Zeroize bound of Session<K> cannot be named from this crate)
    macro_rules! parts {
        ($r:expr) => {
            $r.map(|s| (s.rx_as_slice().to_vec(), s.tx_as_slice().to_vec())).map_err(|e| e.to_string())
        };
    }

    let oc = so::kx_client(&pk, &sk, &peer);
    judge("Session::new_client_with_defaults", &oc, parts!(Session::new_client_with_defaults(&kp, &peer_pk)))?;
    judge("Session::<Vec<u8>>::new_client", &oc, parts!(Session::<Vec<u8>>::new_client(&kp, &peer_pk)))?;
    judge("KeyPair::kx_new_client_session", &oc, parts!(kp.kx_new_client_session::<SessionKey>(&peer_pk)))?;
    let os = so::kx_server(&pk, &sk, &peer);
    judge("Session::new_server_with_defaults", &os, parts!(Session::new_server_with_defaults(&kp, &peer_pk)))?;
    judge("Session::<Vec<u8>>::new_server", &os, parts!(Session::<Vec<u8>>::new_server(&kp, &peer_pk)))?;
    judge("KeyPair::kx_new_server_session", &os, parts!(kp.kx_new_server_session::<SessionKey>(&peer_pk)))?;
    Ok(())
}

/// Key exchange through EVERY API layer for secret keys of special shape (all-zero, all-0xff, 1, (un)clamped patterns):
/// every 32-byte string is a valid X25519 secret key (clamping makes 0^32 the ordinary scalar 2^254).  The key pair is
/// built with `KeyPair::from_secret_key`; classic functions, `Session::new_*` and `KeyPair::kx_new_*_session` must all
/// give libsodium's crypto_kx_*_session_keys.  sk = this side's secret key, peer = the other side's public key.
fn kx_all_layers(i: &Input) -> Outcome {
    use dryoc::kx::{KeyPair, SecretKey};
    use dryoc::types::Bytes;
    let (sk, peer) = (i.arr::<32>("sk"), i.arr::<32>("peer"));
    let pk = so::scalarmult_base(&sk);
    let kp = KeyPair::from_secret_key(SecretKey::from(sk));
    eq("KeyPair::from_secret_key public key", &pk, kp.public_key.as_slice())?;
    eq("KeyPair::from_secret_key secret key", &sk, kp.secret_key.as_slice())?;
    kx_client(&Input::new().b("client_sk", &sk).b("server_pk", &peer))?;
    kx_server(&Input::new().b("server_sk", &sk).b("client_pk", &peer))?;
    kx_object_with(&pk, &sk, &peer, false)?;
    kx_object_with(&pk, &sk, &peer, true)
}

pub const C05: Registry = &[
    ("box_same_peer_two_identities", crate::aead::c01_box_same_peer_two_identities),
    ("kx_all_layers_special_secret_key", kx_all_layers),
    ("scalarmult_random_point", scalarmult),
    ("scalarmult_special_point", scalarmult),
    // encodings that differ from a special encoding (base point, small-order list, p-1.., small u) only in the last
    // byte, in high bits or in one other byte: a shortcut keyed on a partial comparison shows here
    ("scalarmult_near_special_point", scalarmult),
    ("box_beforenm_near_special_peer_key", beforenm),
    ("kx_client_near_special_peer_key", kx_client),
    ("kx_server_near_special_peer_key", kx_server),
    // the object API on every class of peer key
    ("kx_object_honest_peer_key", kx_object),
    ("kx_object_random_peer_key", kx_object),
    ("kx_object_small_u_peer_key", kx_object),
    ("kx_object_special_peer_key", kx_object),
    ("kx_object_near_special_peer_key", kx_object),
    // key pairs imported with KeyPair::from_slices: stored public key = another encoding of sk's point / unrelated to sk
    ("kx_object_imported_keypair_reencoded_pk", kx_object_imported),
    ("kx_object_imported_keypair_independent_pk", kx_object_imported),
    ("kx_object_imported_keypair_honest_pk", kx_object_imported),
    ("scalarmult_base", scalarmult_base),
    ("dh_commutes", dh_commutes),
    ("box_beforenm", beforenm),
    ("kx_client_session_keys", kx_client),
    ("kx_server_session_keys", kx_server),
    ("kx_pair", kx_pair),
    // same bodies, run on the low-order / non-canonical peer keys: libsodium
    // refuses these (all-zero shared secret) and so must dryoc
    ("kx_client_weak_peer_key", kx_client),
    ("kx_server_weak_peer_key", kx_server),
    ("box_beforenm_special_peer_key", beforenm),
];

fn h32(s: &str) -> [u8; 32] {
    let v = unhex(s).expect("hex");
    let mut a = [0u8; 32];
    a.copy_from_slice(&v);
    a
}

/// libsodium's blacklist of low-order encodings plus edge encodings.
pub fn special_points() -> Vec<[u8; 32]> {
    let mut v = vec![
        // 0 (order 4), 1 (order 1), two points of order 8
        h32("0000000000000000000000000000000000000000000000000000000000000000"),
        h32("0100000000000000000000000000000000000000000000000000000000000000"),
        h32("e0eb7a7c3b41b8ae1656e3faf19fc46ada098deb9c32b1fd866205165f49b800"),
        h32("5f9c95bca3508c24b1d0b1559c83ef5b04445cc4581c8e86d8224eddd09f1157"),
        // p-1 (order 2), p (=0), p+1 (=1)
        h32("ecffffffffffffffffffffffffffffffffffffffffffffffffffffffffffff7f"),
        h32("edffffffffffffffffffffffffffffffffffffffffffffffffffffffffffff7f"),
        h32("eeffffffffffffffffffffffffffffffffffffffffffffffffffffffffffff7f"),
        // the same with bit 255 set / non-canonical forms (libsodium's table)
        h32("cdeb7a7c3b41b8ae1656e3faf19fc46ada098deb9c32b1fd866205165f49b880"),
        h32("4c9c95bca3508c24b1d0b1559c83ef5b04445cc4581c8e86d8224eddd09f11d7"),
        h32("d9ffffffffffffffffffffffffffffffffffffffffffffffffffffffffffffff"),
        h32("daffffffffffffffffffffffffffffffffffffffffffffffffffffffffffffff"),
        h32("dbffffffffffffffffffffffffffffffffffffffffffffffffffffffffffffff"),
        // 2^255-1, 2^256-1, p+2.., small u, base point, RFC 7748 vector point
        h32("ffffffffffffffffffffffffffffffffffffffffffffffffffffffffffffff7f"),
        h32("ffffffffffffffffffffffffffffffffffffffffffffffffffffffffffffffff"),
        h32("efffffffffffffffffffffffffffffffffffffffffffffffffffffffffffff7f"),
        h32("f0ffffffffffffffffffffffffffffffffffffffffffffffffffffffffffff7f"),
        h32("0200000000000000000000000000000000000000000000000000000000000000"),
        h32("0300000000000000000000000000000000000000000000000000000000000000"),
        h32("0900000000000000000000000000000000000000000000000000000000000000"),
        h32("ebffffffffffffffffffffffffffffffffffffffffffffffffffffffffffff7f"),
        h32("e6db6867583030db3594c1a424b15f7c726624ec26b3353b10a903a6d0ab1c4c"),
        h32("e5210f12786811d3f4b7959d0538ae2c31dbe7106fc03c3efc4cd549c715a493"),
    ];
    // high-bit-set variants of everything above
    let hi: Vec<[u8; 32]> = v
        .iter()
        .map(|p| {
            let mut q = *p;
            q[31] ^= 0x80;
            q
        })
        .collect();
    v.extend(hi);
    v
}

/// Encodings that differ from one of the special encodings only in the last byte (every single bit of it, and a few
/// whole-byte values), in the high bits of byte 30, or in one low bit elsewhere -- none of them is itself in
/// `special_points()`.  They are ordinary points (on the curve or on its twist) for X25519; only a shortcut that
/// recognises a special encoding by a partial comparison treats them differently.
pub fn near_special_points() -> Vec<[u8; 32]> {
    let special = special_points();
    let mut out: Vec<[u8; 32]> = Vec::new();
    let push = |q: [u8; 32], out: &mut Vec<[u8; 32]>| {
        if !special.contains(&q) && !out.contains(&q) {
            out.push(q);
        }
    };
    // the first half of special_points() is the base list, the second half its high-bit variants
    for p in &special[..special.len() / 2] {
        for bit in 0..7 {
            let mut q = *p;
            q[31] ^= 1 << bit;
            push(q, &mut out);
        }
        for v in [0x01u8, 0x23, 0x40, 0x7f, 0x81, 0xc0] {
            let mut q = *p;
            q[31] = v;
            push(q, &mut out);
        }
        for (at, mask) in [(30usize, 0x80u8), (30, 0x01), (16, 0x01), (1, 0x01), (0, 0x80)] {
            let mut q = *p;
            q[at] ^= mask;
            push(q, &mut out);
        }
    }
    out
}

/// u = 0..=40 with the top bit clear / set (small u on and off the curve).
fn small_u_points() -> Vec<[u8; 32]> {
    let mut v = Vec::new();
    for u in 0..=40u8 {
        for top in [0u8, 0x80] {
            let mut p = [0u8; 32];
            p[0] = u;
            p[31] = top;
            v.push(p);
        }
    }
    v
}

fn special_scalars(rng: &mut Rng) -> Vec<[u8; 32]> {
    let mut v = vec![
        [0u8; 32],
        [0xffu8; 32],
        h32("a546e36bf0527c9d3b16154b82465edd62144c0ac1fc5a18506a2244ba449ac4"),
        h32("4b66e9d4d1b4673c5ad22691957d6af5c11b6421e0ea01d42ca4169e7918ba0d"),
        // the group order L and L-1, L+1 (reduction mod L must NOT happen)
        h32("edd3f55c1a631258d69cf7a2def9de1400000000000000000000000000000010"),
        h32("ecd3f55c1a631258d69cf7a2def9de1400000000000000000000000000000010"),
        h32("eed3f55c1a631258d69cf7a2def9de1400000000000000000000000000000010"),
    ];
    let mut one = [0u8; 32];
    one[0] = 1;
    v.push(one);
    for _ in 0..3 {
        v.push(rng.arr());
    }
    v
}

pub fn c05(ctx: &mut Ctx) -> Search {
    let t = ctx.thorough;
    // box precomputation as a sequence: one peer key, two own secret keys, on one thread
    for _ in 0..2 {
        let (sk_s, sk_a, sk_b) = (ctx.rng.arr::<32>(), ctx.rng.arr::<32>(), ctx.rng.arr::<32>());
        let (n, m) = (ctx.rng.arr::<24>(), ctx.rng.bytes(5));
        ctx.run("box_same_peer_two_identities", Input::new().b("s", &sk_s).b("a", &sk_a).b("b", &sk_b).b("n", &n).b("m", &m))?;
    }
    let n_random = if t { 5000 } else { 300 };

    // random scalars x random point encodings (most are off the prime-order
    // subgroup: twist points or points with a small-order component)
    for _ in 0..n_random {
        let (n, p) = (ctx.rng.arr::<32>(), ctx.rng.arr::<32>());
        ctx.run("scalarmult_random_point", Input::new().b("n", &n).b("p", &p))?;
    }
    // special scalars x special points
    let scalars = special_scalars(&mut ctx.rng);
    let points = special_points();
    for n in &scalars {
        for p in &points {
            ctx.run("scalarmult_special_point", Input::new().b("n", n).b("p", p))?;
        }
        ctx.run("scalarmult_base", Input::new().b("n", n))?;
    }
    for _ in 0..(n_random / 4) {
        let n = ctx.rng.arr::<32>();
        ctx.run("scalarmult_base", Input::new().b("n", &n))?;
        let b = ctx.rng.arr::<32>();
        ctx.run("dh_commutes", Input::new().b("a", &n).b("b", &b))?;
        ctx.run("kx_pair", Input::new().b("client_sk", &n).b("server_sk", &b))?;
    }
    // beforenm / kx against honest, random and special peer keys
    for r in 0..(n_random / 4) {
        let sk = ctx.rng.arr::<32>();
        let peer = if r % 2 == 0 {
            so::scalarmult_base(&ctx.rng.arr::<32>())
        } else {
            ctx.rng.arr::<32>()
        };
        ctx.run("box_beforenm", Input::new().b("pk", &peer).b("sk", &sk))?;
        ctx.run("kx_client_session_keys", Input::new().b("client_sk", &sk).b("server_pk", &peer))?;
        ctx.run("kx_server_session_keys", Input::new().b("server_sk", &sk).b("client_pk", &peer))?;
    }
    let sk = ctx.rng.arr::<32>();
    for p in &points {
        ctx.run("box_beforenm_special_peer_key", Input::new().b("pk", p).b("sk", &sk))?;
        ctx.run("kx_client_weak_peer_key", Input::new().b("client_sk", &sk).b("server_pk", p))?;
        ctx.run("kx_server_weak_peer_key", Input::new().b("server_sk", &sk).b("client_pk", p))?;
    }

    // neighbours of the special encodings (last byte / high bits / one other bit changed): every scalar class for the
    // base point's neighbours, a few scalars for the rest; then as peer keys of beforenm and kx
    let near = near_special_points();
    let nsc = if t { scalars.len() } else { 4 };
    for p in &near {
        let base_like = p[0] == 9 && p[1..31].iter().all(|b| *b == 0);
        let take = if base_like { scalars.len() } else { nsc };
        // the random scalars are at the end of the list: take from the end
        for n in scalars.iter().rev().take(take) {
            ctx.run("scalarmult_near_special_point", Input::new().b("n", n).b("p", p))?;
        }
    }
    for p in &near {
        ctx.run("box_beforenm_near_special_peer_key", Input::new().b("pk", p).b("sk", &sk))?;
        ctx.run("kx_client_near_special_peer_key", Input::new().b("client_sk", &sk).b("server_pk", p))?;
        ctx.run("kx_server_near_special_peer_key", Input::new().b("server_sk", &sk).b("client_pk", p))?;
    }

    // object API (kx::Session / KeyPair::kx_new_*_session) on every class of peer key
    for r in 0..(n_random / 4) {
        let sk = ctx.rng.arr::<32>();
        if r % 2 == 0 {
            let peer = so::scalarmult_base(&ctx.rng.arr::<32>());
            ctx.run("kx_object_honest_peer_key", Input::new().b("sk", &sk).b("peer", &peer))?;
        } else {
            // about half of all 32-byte strings are points on the twist
            let peer = ctx.rng.arr::<32>();
            ctx.run("kx_object_random_peer_key", Input::new().b("sk", &sk).b("peer", &peer))?;
        }
    }
    let sk = ctx.rng.arr::<32>();
    for p in small_u_points() {
        ctx.run("kx_object_small_u_peer_key", Input::new().b("sk", &sk).b("peer", &p))?;
    }
    for p in &points {
        ctx.run("kx_object_special_peer_key", Input::new().b("sk", &sk).b("peer", p))?;
    }
    for p in &near {
        ctx.run("kx_object_near_special_peer_key", Input::new().b("sk", &sk).b("peer", p))?;
    }

    // object API with key pairs imported through KeyPair::from_slices (own generator state: the inputs above stay what
    // they were)
    let mut rng2 = ctx.rng.clone();
    const P25519: [u8; 32] = [
        0xed, 0xff, 0xff, 0xff, 0xff, 0xff, 0xff, 0xff, 0xff, 0xff, 0xff, 0xff, 0xff, 0xff, 0xff, 0xff, 0xff, 0xff, 0xff, 0xff, 0xff, 0xff,
        0xff, 0xff, 0xff, 0xff, 0xff, 0xff, 0xff, 0xff, 0xff, 0x7f,
    ];
    for r in 0..(if t { 400 } else { 40 }) {
        let (sk, psk) = (rng2.arr::<32>(), rng2.arr::<32>());
        let (pk, honest_peer) = (so::scalarmult_base(&sk), so::scalarmult_base(&psk));
        let peer = if r % 4 == 3 { rng2.arr::<32>() } else { honest_peer };
        ctx.run("kx_object_imported_keypair_honest_pk", Input::new().b("pk", &pk).b("sk", &sk).b("peer", &peer))?;
        // (a) the same point, other bytes: bit 255 set; u + p when that fits 255 bits (u < 19), with and without bit 255
        let mut hi = pk;
        hi[31] |= 0x80;
        ctx.run("kx_object_imported_keypair_reencoded_pk", Input::new().b("pk", &hi).b("sk", &sk).b("peer", &peer))?;
        let mut peer_hi = peer;
        peer_hi[31] |= 0x80;
        ctx.run("kx_object_imported_keypair_reencoded_pk", Input::new().b("pk", &hi).b("sk", &sk).b("peer", &peer_hi))?;
        // (b) a stored public key that does not belong to sk: another honest key, random bytes, special encodings
        let other = match r % 3 {
            0 => so::scalarmult_base(&rng2.arr::<32>()),
            1 => rng2.arr::<32>(),
            _ => points[(r / 3) % points.len()],
        };
        ctx.run("kx_object_imported_keypair_independent_pk", Input::new().b("pk", &other).b("sk", &sk).b("peer", &peer))?;
    }
    // secret keys whose public key has a non-canonical twin u + p < 2^255, i.e. u < 19: found by search over small secret
    // keys is hopeless (u is pseudo-random), so the non-canonical encodings are used as the STORED key of a key pair whose
    // secret key is arbitrary (class b) and, for the DH itself, as peer keys (cases above)
    let sk = rng2.arr::<32>();
    let peer = so::scalarmult_base(&rng2.arr::<32>());
    for u in 0..19u8 {
        let mut noncanon = P25519;
        noncanon[0] = 0xed + u; // p + u, no carry: 0xed + 18 = 0xff
        for top in [0u8, 0x80] {
            let mut q = noncanon;
            q[31] |= top;
            ctx.run("kx_object_imported_keypair_independent_pk", Input::new().b("pk", &q).b("sk", &sk).b("peer", &peer))?;
        }
    }
    // secret keys of special shape through every kx layer, against an honest peer and a special-shape peer
    let mut sks: Vec<[u8; 32]> = scalars.clone();
    for (first, fill, last) in [(0u8, 0u8, 0x40u8), (0xf8, 0xff, 0x7f), (0x07, 0, 0), (0, 0, 0x80), (0xf8, 0, 0), (0xff, 0xff, 0x3f), (0x08, 0, 0)] {
        let mut s = [fill; 32];
        s[0] = first;
        s[31] = last;
        sks.push(s);
    }
    let honest = so::scalarmult_base(&rng2.arr::<32>());
    for a in &sks {
        ctx.run("kx_all_layers_special_secret_key", Input::new().b("sk", a).b("peer", &honest))?;
        for b in sks.iter().take(if t { sks.len() } else { 3 }) {
            ctx.run("kx_all_layers_special_secret_key", Input::new().b("sk", a).b("peer", &so::scalarmult_base(b)))?;
        }
    }
    Ok(())
}

// ======================================================================
// C13
// ======================================================================

/// Seeds of any length: libsodium where it accepts the seed (32 bytes), the
/// construction sk = SHA-512(seed)[..32], pk = sk*B everywhere.
fn box_seed_keypair(i: &Input) -> Outcome {
    let seed = i.get("seed");
    let h = so::sha512(seed);
    let mut want_sk = [0u8; 32];
    want_sk.copy_from_slice(&h[..32]);
    let want_pk = so::scalarmult_base(&want_sk);

    let (pk, sk) = crypto_box_seed_keypair(seed);
    eq("crypto_box_seed_keypair secret key", &want_sk, &sk)?;
    eq("crypto_box_seed_keypair public key", &want_pk, &pk)?;
    if seed.len() == 32 {
        let (spk, ssk) = so::box_seed_keypair(&seed.try_into().unwrap());
        eq("secret key vs libsodium crypto_box_seed_keypair", &ssk, &sk)?;
        eq("public key vs libsodium crypto_box_seed_keypair", &spk, &pk)?;
    }
    // object API
    let kp = dryoc::dryocbox::KeyPair::from_seed(&seed.to_vec());
    eq("KeyPair::from_seed secret key", &want_sk, kp.secret_key.as_ref())?;
    eq("KeyPair::from_seed public key", &want_pk, kp.public_key.as_ref())?;
    // public key recomputed from a secret key
    let kp2 = dryoc::dryocbox::KeyPair::from_secret_key(dryoc::dryocbox::SecretKey::from(want_sk));
    eq("KeyPair::from_secret_key public key", &want_pk, kp2.public_key.as_ref())
}

fn kx_seed_keypair(i: &Input) -> Outcome {
    let seed = i.arr::<32>("seed");
    let (wpk, wsk) = so::kx_seed_keypair(&seed);
    let (pk, sk) = must_ok(crypto_kx_seed_keypair(&seed), "crypto_kx_seed_keypair")?;
    eq("crypto_kx_seed_keypair secret key", &wsk, &sk)?;
    eq("crypto_kx_seed_keypair public key", &wpk, &pk)
}

fn sign_seed_keypair(i: &Input) -> Outcome {
    let seed = i.arr::<32>("seed");
    let (wpk, wsk) = so::sign_seed_keypair(&seed);
    let (pk, sk) = crypto_sign_seed_keypair(&seed);
    eq("crypto_sign_seed_keypair public key", &wpk, &pk)?;
    eq("crypto_sign_seed_keypair secret key", &wsk, &sk)?;
    let kp: dryoc::sign::SigningKeyPair<dryoc::sign::PublicKey, dryoc::sign::SecretKey> =
        dryoc::sign::SigningKeyPair::from_seed(&seed);
    eq("SigningKeyPair::from_seed public key", &wpk, kp.public_key.as_ref())?;
    eq("SigningKeyPair::from_seed secret key", &wsk, kp.secret_key.as_ref())
}

/// sk (64 bytes, any second half): `SigningKeyPair::from_secret_key` rebuilds libsodium's pair from the seed half — the
/// public key recomputed from a secret key — whatever the caller's (possibly stale, zero or foreign) public half holds.
fn sign_from_secret_key(i: &Input) -> Outcome {
    use dryoc::sign::{PublicKey, SecretKey, SigningKeyPair};
    let sk = i.arr::<64>("sk");
    let mut seed = [0u8; 32];
    seed.copy_from_slice(&sk[..32]);
    let (wpk, wsk) = so::sign_seed_keypair(&seed);
    let kp: SigningKeyPair<PublicKey, SecretKey> = SigningKeyPair::from_secret_key(SecretKey::from(sk));
    eq("SigningKeyPair::from_secret_key public key", &wpk, kp.public_key.as_ref())?;
    eq("SigningKeyPair::from_secret_key secret key", &wsk, kp.secret_key.as_ref())?;
    let signed = must_ok(kp.sign_with_defaults(b"from_secret_key".to_vec()), "sign with the rebuilt pair")?;
    must_ok(signed.verify(&PublicKey::from(wpk)), "signature of the rebuilt pair under libsodium's public key")
}

/// Honest Ed25519 pair from a seed -> X25519 pair.
fn ed_to_curve(i: &Input) -> Outcome {
    let seed = i.arr::<32>("seed");
    let (epk, esk) = so::sign_seed_keypair(&seed);
    let want_pk = so::ed_pk_to_curve(&epk).expect("honest key");
    let want_sk = so::ed_sk_to_curve(&esk);

    let mut xpk = [0u8; 32];
    must_ok(
        crypto_sign_ed25519_pk_to_curve25519(&mut xpk, &epk),
        "crypto_sign_ed25519_pk_to_curve25519",
    )?;
    let mut xsk = [0u8; 32];
    crypto_sign_ed25519_sk_to_curve25519(&mut xsk, &esk);
    eq("crypto_sign_ed25519_pk_to_curve25519", &want_pk, &xpk)?;
    eq("crypto_sign_ed25519_sk_to_curve25519", &want_sk, &xsk)?;
    // consistent pair (checked with the oracle's base multiplication and dryoc's)
    eq("converted pk vs libsodium scalarmult_base(converted sk)", &so::scalarmult_base(&xsk), &xpk)?;
    let mut q = [0u8; 32];
    crypto_scalarmult_base(&mut q, &xsk);
    eq("converted pk vs crypto_scalarmult_base(converted sk)", &xpk, &q)
}

/// sk_to_curve on arbitrary 64-byte secret keys (only the seed half matters).
fn ed_sk_to_curve_any(i: &Input) -> Outcome {
    let sk = i.arr::<64>("sk");
    let want = so::ed_sk_to_curve(&sk);
    let mut x = [0u8; 32];
    crypto_sign_ed25519_sk_to_curve25519(&mut x, &sk);
    eq("crypto_sign_ed25519_sk_to_curve25519", &want, &x)
}

/// A key pair derived from a password: secret key = crypto_pwhash(32 bytes, ..) whatever the config's hash_length /
/// salt_length are, public key = base-point multiple.
fn pwhash_derive_keypair(i: &Input) -> Outcome {
    type StackKeyPair = dryoc::keypair::KeyPair<dryoc::types::StackByteArray<32>, dryoc::types::StackByteArray<32>>;
    use dryoc::pwhash::{Config, PwHash};
    use dryoc::types::Bytes;
    let (pw, salt) = (i.get("pw").to_vec(), i.arr::<16>("salt"));
    let hl = i.num("hash_length") as usize;
    // optional: opslimit / memlimit (bytes; libsodium hands floor(memlimit / 1024) KiB to Argon2, so limits that are not
    // a whole number of KiB are legitimate inputs).  Default: the minimal costs.
    let ops = if i.has("opslimit") { i.num("opslimit") } else { 1 };
    let mem = if i.has("memlimit") { i.num("memlimit") as usize } else { 8192 };
    let cfg = Config::interactive().with_opslimit(ops).with_memlimit(mem).with_hash_length(hl);
    let want_sk = match so::pwhash(32, &pw, &salt, ops, mem, 2) {
        Some(v) => v,
        None => panic!("{} libsodium crypto_pwhash refuses opslimit {} memlimit {}", HARNESS, ops, mem),
    };
    let what = format!("(opslimit {}, memlimit {} bytes)", ops, mem);
    let kp: StackKeyPair =
        must_ok(PwHash::<Vec<u8>, Vec<u8>>::derive_keypair(&pw, salt.to_vec(), cfg.clone()), &format!("derive_keypair {}", what))?;
    eq(&format!("derive_keypair secret key {} vs libsodium crypto_pwhash", what), &want_sk, kp.secret_key.as_slice())?;
    let mut sk32 = [0u8; 32];
    sk32.copy_from_slice(&want_sk);
    let want_pk = so::scalarmult_base(&sk32);
    eq(&format!("derive_keypair public key {} vs crypto_scalarmult_base(libsodium crypto_pwhash)", what), &want_pk, kp.public_key.as_slice())?;
    // Vec-based key pair containers take the same route
    let kpv: dryoc::keypair::KeyPair<Vec<u8>, Vec<u8>> =
        must_ok(PwHash::<Vec<u8>, Vec<u8>>::derive_keypair(&pw, salt.to_vec(), cfg), &format!("derive_keypair into Vecs {}", what))?;
    eq(&format!("derive_keypair (Vec containers) secret key {}", what), &want_sk, kpv.secret_key.as_slice())?;
    eq(&format!("derive_keypair (Vec containers) public key {}", what), &want_pk, kpv.public_key.as_slice())
}

/// sk: ANY 32-byte secret key (unclamped, all-zero, all-ones, ...): the public key derived by `crypto_scalarmult_base` and by
/// the object API `KeyPair::from_secret_key` is libsodium's crypto_scalarmult_base (which clamps)
fn keypair_from_any_secret_key(i: &Input) -> Outcome {
    let sk = i.arr::<32>("sk");
    let want = so::scalarmult_base(&sk);
    let mut q = [0u8; 32];
    crypto_scalarmult_base(&mut q, &sk);
    eq("crypto_scalarmult_base(sk)", &want, &q)?;
    let kp: dryoc::keypair::StackKeyPair = dryoc::keypair::KeyPair::from_secret_key(dryoc::keypair::SecretKey::from(sk));
    {
        use dryoc::types::Bytes;
        let pkb: &[u8] = Bytes::as_slice(&kp.public_key);
        eq("KeyPair::from_secret_key(sk).public_key", &want, pkb)
    }
}

pub const C13: Registry = &[
    ("pwhash_derive_keypair", pwhash_derive_keypair),
    ("keypair_from_any_secret_key", keypair_from_any_secret_key),
    ("box_seed_keypair", box_seed_keypair),
    ("kx_seed_keypair", kx_seed_keypair),
    ("sign_seed_keypair", sign_seed_keypair),
    ("sign_from_secret_key", sign_from_secret_key),
    ("ed25519_to_curve25519", ed_to_curve),
    // same body, honest keys selected by the byte pattern of their public key
    ("ed25519_to_curve25519_pk_class", ed_to_curve),
    ("ed25519_sk_to_curve25519_any", ed_sk_to_curve_any),
];

pub fn c13(ctx: &mut Ctx) -> Search {
    let t = ctx.thorough;
    for sk in special_scalars(&mut ctx.rng) {
        ctx.run("keypair_from_any_secret_key", Input::new().b("sk", &sk))?;
    }
    for hl in [16u64, 32, 33, 64, 128] {
        let pw = ctx.rng.bytes((hl % 7) as usize + 1);
        let salt: [u8; 16] = ctx.rng.arr();
        ctx.run("pwhash_derive_keypair", Input::new().b("pw", &pw).b("salt", &salt).u("hash_length", hl))?;
    }
    // memory limits that are not a whole number of KiB (and whole ones around them), several pass counts
    let mut limits: Vec<(u64, u64)> = vec![(1, 8193), (1, 9000), (1, 8192 + 1023), (1, 10 * 1024 + 5), (2, 10_000), (1, 9216), (3, 12_287)];
    if t {
        limits.extend_from_slice(&[(1, 8192 + 512), (1, 16_383), (1, 16_384), (1, 16_385), (2, 65_536 + 512), (1, 100_000), (4, 8200), (1, 1_000_000), (2, 1_048_575)]);
    }
    for (j, (ops, mem)) in limits.into_iter().enumerate() {
        let pw = ctx.rng.bytes(j % 9);
        let salt: [u8; 16] = ctx.rng.arr();
        ctx.run(
            "pwhash_derive_keypair",
            Input::new().b("pw", &pw).b("salt", &salt).u("hash_length", [32u64, 16, 64][j % 3]).u("opslimit", ops).u("memlimit", mem),
        )?;
    }
    let maxlen = if t { 128 } else { 64 };
    for len in 0..=maxlen {
        for class in 0..3 {
            let seed = match class {
                0 => vec![0u8; len],
                1 => vec![0xffu8; len],
                _ => ctx.rng.bytes(len),
            };
            ctx.run("box_seed_keypair", Input::new().b("seed", &seed))?;
        }
    }
    // block boundaries of the SHA-512 that hashes a box seed: lengths around 128 (and, for robustness, 256) in both tiers
    for len in [111usize, 112, 119, 120, 127, 128, 129, 255, 256, 257] {
        let seed = ctx.rng.bytes(len);
        ctx.run("box_seed_keypair", Input::new().b("seed", &seed))?;
    }
    // secret keys whose public half is honest, zero, all ones, random, or the public key of another seed
    for k in 0..(if t { 40 } else { 8 }) {
        let seed: [u8; 32] = ctx.rng.arr();
        let (pk, sk) = so::sign_seed_keypair(&seed);
        let mut v = sk.to_vec();
        match k % 5 {
            0 => {}
            1 => v[32..].fill(0),
            2 => v[32..].fill(0xff),
            3 => ctx.rng.fill(&mut v[32..]),
            _ => {
                let other: [u8; 32] = ctx.rng.arr();
                v[32..].copy_from_slice(&so::sign_seed_keypair(&other).0);
            }
        }
        let _ = pk;
        ctx.run("sign_from_secret_key", Input::new().b("sk", &v))?;
    }
    let n = if t { 2000 } else { 100 };
    let mut seeds: Vec<[u8; 32]> = vec![[0u8; 32], [0xffu8; 32]];
    for _ in 0..n {
        seeds.push(ctx.rng.arr());
    }
    for seed in seeds {
        ctx.run("box_seed_keypair", Input::new().b("seed", &seed))?;
        ctx.run("kx_seed_keypair", Input::new().b("seed", &seed))?;
        ctx.run("sign_seed_keypair", Input::new().b("seed", &seed))?;
        ctx.run("ed25519_to_curve25519", Input::new().b("seed", &seed))?;
        let sk = ctx.rng.arr::<64>();
        ctx.run("ed25519_sk_to_curve25519_any", Input::new().b("sk", &sk))?;
    }

    // Honest keys whose public-key encoding falls into a byte class that
    // canonicity / range / sign-bit checks look at (y close to 2^255, last byte
    // 0x7f / 0xff / 0x00 / 0x80, first byte around 0xed = low byte of p, ..).
    // Random seeds hit e.g. "(pk[31] & 0x7f) == 0x7f and pk[0] >= 0xed" once in
    // ~1700 keys, so a counter-seeded range is scanned with the oracle and the
    // conversion cases run on the selected seeds.
    let known = h32("de0700007b98b5d2ef0c294663809dbad7f4112e4b6885a2bfdcf91633506d8a"); // pk f1ef..8b7f
    ctx.run("ed25519_to_curve25519_pk_class", Input::new().b("seed", &known))?;
    ctx.run("sign_seed_keypair", Input::new().b("seed", &known))?;
    let scan: u32 = if t { 250_000 } else { 20_000 };
    let mut per_class = [0u32; 8];
    for n in 0..scan {
        let mut seed = [0u8; 32];
        for (j, b) in seed.iter_mut().enumerate() {
            *b = (j as u8).wrapping_mul(29).wrapping_add(7);
        }
        seed[..4].copy_from_slice(&n.to_le_bytes());
        let (pk, _) = so::sign_seed_keypair(&seed);
        let last7 = pk[31] & 0x7f;
        let class = if last7 == 0x7f && pk[0] >= 0xed {
            0
        } else if last7 == 0x7f {
            1
        } else if last7 == 0 {
            2
        } else if pk[0] >= 0xed && pk[1] == 0xff {
            3
        } else if matches!(pk[0], 0x00 | 0x01 | 0xec | 0xed | 0xee | 0xff) {
            4
        } else if pk[30] == 0xff || pk[1..4] == [0xff; 3] {
            5
        } else {
            continue;
        };
        // the frequent classes are capped, the rare ones run every hit
        per_class[class] += 1;
        let cap = if t { 2000 } else { 200 };
        if class >= 2 && per_class[class] > cap {
            continue;
        }
        ctx.run("ed25519_to_curve25519_pk_class", Input::new().b("seed", &seed))?;
        if class == 0 {
            ctx.run("sign_seed_keypair", Input::new().b("seed", &seed))?;
        }
    }
    Ok(())
}
