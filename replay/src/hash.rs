//! C07 (one-shot hash / MAC / core primitives equal libsodium) and C08
//! (incremental == one-shot for any chunking).

use dryoc::classic::crypto_auth::*;
use dryoc::classic::crypto_core::{crypto_core_hchacha20, crypto_core_hsalsa20};
use dryoc::classic::crypto_generichash::*;
use dryoc::classic::crypto_hash::*;
use dryoc::classic::crypto_onetimeauth::*;
use dryoc::classic::crypto_shorthash::crypto_shorthash;
use dryoc::classic::crypto_sign::{crypto_sign_final_create, crypto_sign_final_verify, crypto_sign_init, crypto_sign_update};

use crate::polymath;
use crate::so;
use crate::util::*;

// ======================================================================
// C07
// ======================================================================

fn key_opt(k: &[u8]) -> Option<&[u8]> {
    if k.is_empty() {
        None
    } else {
        Some(k)
    }
}

/// outlen, key (empty = unkeyed), m.  Parameters libsodium rejects must be
/// rejected, everything else must match byte for byte.
fn generichash(i: &Input) -> Outcome {
    let (outlen, key, m) = (i.num("outlen") as usize, i.get("key"), i.get("m"));
    let mut out = vec![0u8; outlen];
    let r = crypto_generichash(&mut out, m, key_opt(key));
    // dryoc documents (and enforces) 16 as the minimum digest and key length;
    // libsodium does not enforce its documented minimum.  Below it dryoc may
    // refuse, but if it answers the answer must be right.
    let documented = (16..=64).contains(&outlen) && (key.is_empty() || (16..=64).contains(&key.len()));
    match so::generichash(outlen, m, key) {
        Some(want) => {
            if !documented && r.is_err() {
                return Ok(());
            }
            must_ok(r, "crypto_generichash")?;
            eq("crypto_generichash", &want, &out)
        }
        None => must_err(r, "crypto_generichash (parameters libsodium rejects)"),
    }
}

fn sha512(i: &Input) -> Outcome {
    let m = i.get("m");
    let mut out = [0u8; 64];
    crypto_hash_sha512(&mut out, m);
    eq("crypto_hash_sha512", &so::sha512(m), &out)
}

fn auth(i: &Input) -> Outcome {
    let (k, m) = (i.arr::<32>("k"), i.get("m"));
    let want = so::auth(m, &k);
    let mut mac = [0u8; 32];
    crypto_auth(&mut mac, m, &k);
    eq("crypto_auth", &want, &mac)?;
    must_ok(crypto_auth_verify(&want, m, &k), "crypto_auth_verify(libsodium mac)")?;
    let mut bad = want;
    bad[m.len() % 32] ^= 0x01;
    verdict(
        "crypto_auth_verify (one bit of the mac flipped)",
        so::auth_verify(&bad, m, &k),
        crypto_auth_verify(&bad, m, &k).is_ok(),
    )
}

fn onetimeauth(i: &Input) -> Outcome {
    let (k, m) = (i.arr::<32>("k"), i.get("m"));
    let want = so::onetimeauth(m, &k);
    let mut mac = [0u8; 16];
    crypto_onetimeauth(&mut mac, m, &k);
    eq("crypto_onetimeauth", &want, &mac)?;
    must_ok(crypto_onetimeauth_verify(&want, m, &k), "crypto_onetimeauth_verify(libsodium mac)")?;
    let mut bad = want;
    bad[m.len() % 16] ^= 0x80;
    verdict(
        "crypto_onetimeauth_verify (one bit of the mac flipped)",
        so::onetimeauth_verify(&bad, m, &k),
        crypto_onetimeauth_verify(&bad, m, &k).is_ok(),
    )
}

fn shorthash(i: &Input) -> Outcome {
    let (k, m) = (i.arr::<16>("k"), i.get("m"));
    let mut out = [0u8; 8];
    crypto_shorthash(&mut out, m, &k);
    eq("crypto_shorthash", &so::shorthash(m, &k), &out)
}

fn consts(c: &[u8; 16]) -> (u32, u32, u32, u32) {
    let w = |j: usize| u32::from_le_bytes(c[j * 4..j * 4 + 4].try_into().unwrap());
    (w(0), w(1), w(2), w(3))
}

/// input, k, optional c (16 bytes of constants)
fn hsalsa20(i: &Input) -> Outcome {
    let (inp, k) = (i.arr::<16>("in"), i.arr::<32>("k"));
    let c = if i.has("c") { Some(i.arr::<16>("c")) } else { None };
    let want = so::hsalsa20(&inp, &k, c.as_ref());
    let mut out = [0u8; 32];
    crypto_core_hsalsa20(&mut out, &inp, &k, c.as_ref().map(consts));
    eq("crypto_core_hsalsa20", &want, &out)
}

fn hchacha20(i: &Input) -> Outcome {
    let (inp, k) = (i.arr::<16>("in"), i.arr::<32>("k"));
    let c = if i.has("c") { Some(i.arr::<16>("c")) } else { None };
    let want = so::hchacha20(&inp, &k, c.as_ref());
    let mut out = [0u8; 32];
    crypto_core_hchacha20(&mut out, &inp, &k, c.as_ref().map(consts));
    eq("crypto_core_hchacha20", &want, &out)
}

fn increment(i: &Input) -> Outcome {
    let b = i.get("bytes");
    let mut want = b.to_vec();
    so::increment(&mut want);
    let mut got = b.to_vec();
    dryoc::utils::increment_bytes(&mut got);
    eq("increment_bytes", &want, &got)?;
    let mut got2 = b.to_vec();
    dryoc::utils::sodium_increment(&mut got2);
    eq("sodium_increment", &want, &got2)
}

// ---- object API of the generic hash, const-generic key / digest lengths ----

fn gh_object<const K: usize, const O: usize>(key: &[u8], keyed: bool, m: &[u8], ps: &[&[u8]]) -> Outcome {
    use dryoc::generichash::GenericHash;
    let karr: [u8; K] = match key.try_into() {
        Ok(k) => k,
        Err(_) => panic!("{} key must be {} bytes", HARNESS, K),
    };
    let kopt: Option<&[u8; K]> = if keyed { Some(&karr) } else { None };
    let want = match so::generichash(O, m, if keyed { key } else { &[] }) {
        Some(w) => w,
        None => panic!("{} libsodium rejects outlen {} keylen {}", HARNESS, O, K),
    };
    let what = format!("GenericHash::<{}, {}>", K, O);

    // incremental: new / update.. / finalize
    let mut h = must_ok(GenericHash::<K, O>::new(kopt), &format!("{}::new", what))?;
    for p in ps {
        h.update(*p);
    }
    let out: Vec<u8> = must_ok(h.finalize_to_vec(), &format!("{}::finalize", what))?;
    eq(
        &format!("{}::new/update/finalize ({}), pieces {}", what, if keyed { "keyed" } else { "no key" }, desc(ps)),
        &want,
        &out,
    )?;
    let mut h = must_ok(GenericHash::<K, O>::new(kopt), &format!("{}::new", what))?;
    for p in ps {
        h.update(*p);
    }
    let out2: [u8; O] = must_ok(h.finalize(), &format!("{}::finalize (array)", what))?;
    eq(&format!("{}::finalize into an array", what), &want, &out2)?;

    // one-shot
    let one: Vec<u8> = must_ok(GenericHash::<K, O>::hash_to_vec(&m.to_vec(), kopt), &format!("{}::hash", what))?;
    eq(&format!("{}::hash (one-shot)", what), &want, &one)
}

/// (key length, digest length) pairs the object API is instantiated for.
pub const GH_OBJECT_PAIRS: &[(usize, usize)] = &[
    (16, 64),
    (64, 32),
    (32, 16),
    (32, 64),
    (32, 32),
    (64, 64),
    (16, 16),
    (17, 33),
    (33, 17),
    (64, 16),
    (48, 24),
];

/// klen, outlen (one of GH_OBJECT_PAIRS), key, keyed (0/1), m, optional cuts
fn generichash_object(i: &Input) -> Outcome {
    let (klen, outlen) = (i.num("klen") as usize, i.num("outlen") as usize);
    let (key, keyed, m) = (i.get("key"), i.num("keyed") != 0, i.get("m"));
    let ps = if i.has("cuts") { pieces(m, i.get("cuts")) } else { vec![m] };
    match (klen, outlen) {
        (16, 64) => gh_object::<16, 64>(key, keyed, m, &ps),
        (64, 32) => gh_object::<64, 32>(key, keyed, m, &ps),
        (32, 16) => gh_object::<32, 16>(key, keyed, m, &ps),
        (32, 64) => gh_object::<32, 64>(key, keyed, m, &ps),
        (32, 32) => gh_object::<32, 32>(key, keyed, m, &ps),
        (64, 64) => gh_object::<64, 64>(key, keyed, m, &ps),
        (16, 16) => gh_object::<16, 16>(key, keyed, m, &ps),
        (17, 33) => gh_object::<17, 33>(key, keyed, m, &ps),
        (33, 17) => gh_object::<33, 17>(key, keyed, m, &ps),
        (64, 16) => gh_object::<64, 16>(key, keyed, m, &ps),
        (48, 24) => gh_object::<48, 24>(key, keyed, m, &ps),
        _ => panic!("{} (klen, outlen) = ({}, {}) is not instantiated", HARNESS, klen, outlen),
    }
}

fn run_gh_object(ctx: &mut Ctx, case: &str, m: &[u8], cut: Option<&[u8]>) -> Search {
    for (klen, outlen) in GH_OBJECT_PAIRS {
        let key = ctx.rng.bytes(*klen);
        for keyed in [1u64, 0] {
            let mut inp = Input::new()
                .u("klen", *klen as u64)
                .u("outlen", *outlen as u64)
                .b("key", &key)
                .u("keyed", keyed)
                .b("m", m);
            if let Some(c) = cut {
                inp = inp.b("cuts", c);
            }
            ctx.run(case, inp)?;
        }
    }
    Ok(())
}

// ---- object-API MAC verification: exactly the authenticator is accepted ----

/// k, x, len, fill: the candidate is libsodium's MAC truncated / extended with
/// `fill` bytes to `len` bytes, held in a Vec.  It is the authenticator only
/// when `len` is the MAC length; optional `flip` = bit index to invert first.
fn mac_verify_object(i: &Input) -> Outcome {
    use dryoc::auth::Auth;
    use dryoc::onetimeauth::OnetimeAuth;
    let (k, x) = (i.arr::<32>("k"), i.get("x").to_vec());
    let (len, fill) = (i.num("len") as usize, i.num("fill") as u8);
    let flip = if i.has("flip") { Some(i.num("flip") as usize) } else { None };
    let cand = |good: &[u8]| -> (Vec<u8>, bool) {
        let mut c = good.to_vec();
        c.resize(len, fill);
        if let Some(b) = flip {
            if !c.is_empty() {
                let b = b % (c.len() * 8);
                c[b / 8] ^= 1 << (b % 8);
            }
        }
        let is_mac = c == good;
        (c, is_mac)
    };
    let split = x.len() / 2;
    let say = |what: &str, c: &[u8], accept: bool, got: bool| -> Outcome {
        if accept == got {
            Ok(())
        } else {
            fail(
                if accept { "Ok" } else { "Err" },
                if got { "Ok" } else { "Err" },
                format!(
                    "{}: candidate of {} bytes ({}) {}",
                    what,
                    c.len(),
                    hex(c),
                    if accept { "is the authenticator" } else { "is not the authenticator" }
                ),
            )
        }
    };

    let (c, is_mac) = cand(&so::auth(&x, &k));
    let r = Auth::compute_and_verify(&c, dryoc::auth::Key::from(k), &x);
    say("Auth::compute_and_verify", &c, is_mac, r.is_ok())?;
    let mut a = Auth::new(dryoc::auth::Key::from(k));
    a.update(&x[..split].to_vec());
    a.update(&x[split..].to_vec());
    say("Auth::new/update/verify", &c, is_mac, a.verify(&c).is_ok())?;
    let mut a = Auth::new(dryoc::auth::Key::from(k));
    a.update(&x);
    say("Auth::new/update/verify (&[u8] code)", &c, is_mac, a.verify(&c.as_slice()).is_ok())?;

    let (c, is_mac) = cand(&so::onetimeauth(&x, &k));
    let r = OnetimeAuth::compute_and_verify(&c, dryoc::onetimeauth::Key::from(k), &x);
    say("OnetimeAuth::compute_and_verify", &c, is_mac, r.is_ok())?;
    let mut a = OnetimeAuth::new(dryoc::onetimeauth::Key::from(k));
    a.update(&x[..split].to_vec());
    a.update(&x[split..].to_vec());
    say("OnetimeAuth::new/update/verify", &c, is_mac, a.verify(&c).is_ok())?;
    let mut a = OnetimeAuth::new(dryoc::onetimeauth::Key::from(k));
    a.update(&x);
    say("OnetimeAuth::new/update/verify (&[u8] code)", &c, is_mac, a.verify(&c.as_slice()).is_ok())
}

/// k, m: the one-time key was CHOSEN (by the generator, or by an adversary) so that the correct Poly1305 tag of `m` is
/// a special value (all zero, 1, all ones, ..): s = target - poly_r(m) mod 2^128.  The tag is whatever libsodium
/// computes for (k, m); every verify entry point must accept it -- as libsodium's verify does -- and must give libsodium's
/// verdict (reject) on each of its 128 single-bit neighbours.
fn onetimeauth_verify_chosen_tag(i: &Input) -> Outcome {
    use dryoc::onetimeauth::{Key, OnetimeAuth};
    let (k, m) = (i.arr::<32>("k"), i.get("m"));
    let mv = m.to_vec();
    let tag = so::onetimeauth(m, &k);
    if !so::onetimeauth_verify(&tag, m, &k) {
        panic!("{} libsodium rejects its own one-time authenticator", HARNESS);
    }
    let what = format!("the correct authenticator {}", hex(&tag));

    // computed through every entry point
    let mut mac = [0u8; 16];
    crypto_onetimeauth(&mut mac, m, &k);
    eq("crypto_onetimeauth", &tag, &mac)?;
    let mac: Vec<u8> = OnetimeAuth::compute_to_vec(Key::from(k), &mv);
    eq("OnetimeAuth::compute_to_vec", &tag, &mac)?;
    let mac: dryoc::onetimeauth::Mac = OnetimeAuth::compute(Key::from(k), &mv);
    eq("OnetimeAuth::compute", &tag, mac.as_ref())?;

    // accepted by every verify entry point, in every container
    let split = m.len() / 2;
    let feed = || {
        let mut a = OnetimeAuth::new(Key::from(k));
        a.update(&m[..split].to_vec());
        a.update(&m[split..].to_vec());
        a
    };
    let (tag_vec, tag_slice): (Vec<u8>, &[u8]) = (tag.to_vec(), &tag);
    must_ok(crypto_onetimeauth_verify(&tag, m, &k), &format!("crypto_onetimeauth_verify({})", what))?;
    must_ok(
        OnetimeAuth::compute_and_verify(&mac, Key::from(k), &mv),
        &format!("OnetimeAuth::compute_and_verify({}, as returned by OnetimeAuth::compute)", what),
    )?;
    must_ok(OnetimeAuth::compute_and_verify(&tag, Key::from(k), &mv), &format!("OnetimeAuth::compute_and_verify({}, array)", what))?;
    must_ok(OnetimeAuth::compute_and_verify(&tag_vec, Key::from(k), &mv), &format!("OnetimeAuth::compute_and_verify({}, Vec)", what))?;
    must_ok(OnetimeAuth::compute_and_verify(&tag_slice, Key::from(k), &mv), &format!("OnetimeAuth::compute_and_verify({}, &[u8])", what))?;
    must_ok(feed().verify(&tag), &format!("OnetimeAuth::new/update/verify({}, array)", what))?;
    must_ok(feed().verify(&tag_vec), &format!("OnetimeAuth::new/update/verify({}, Vec)", what))?;
    must_ok(feed().verify(&mac), &format!("OnetimeAuth::new/update/verify({}, as returned by OnetimeAuth::compute)", what))?;

    // every single-bit neighbour gets libsodium's verdict
    for bit in 0..128usize {
        let mut bad = tag;
        bad[bit / 8] ^= 1 << (bit % 8);
        let oracle = so::onetimeauth_verify(&bad, m, &k);
        let w = format!("(bit {} of the authenticator {} flipped)", bit, hex(&tag));
        verdict(&format!("crypto_onetimeauth_verify {}", w), oracle, crypto_onetimeauth_verify(&bad, m, &k).is_ok())?;
        verdict(
            &format!("OnetimeAuth::compute_and_verify {}", w),
            oracle,
            OnetimeAuth::compute_and_verify(&bad, Key::from(k), &mv).is_ok(),
        )?;
        verdict(&format!("OnetimeAuth::new/update/verify {}", w), oracle, feed().verify(&bad).is_ok())?;
    }
    Ok(())
}

/// One-time key (r, s) with the given r for which the correct tag of `m` is `target`: the tag is
/// (poly_r(m) + s) mod 2^128, so s = target - tag(r, s = 0).  The polynomial value comes from libsodium; the result is
/// cross-checked against libsodium (a mismatch is a harness error, never a finding).
fn key_with_tag(r: &[u8; 16], m: &[u8], target: u128) -> [u8; 32] {
    let mut k = [0u8; 32];
    k[..16].copy_from_slice(r);
    let base = u128::from_le_bytes(so::onetimeauth(m, &k));
    k[16..].copy_from_slice(&target.wrapping_sub(base).to_le_bytes());
    if so::onetimeauth(m, &k) != target.to_le_bytes() {
        panic!("{} constructed one-time key does not give the chosen tag (k {}, m {})", HARNESS, hex(&k), hex(m));
    }
    k
}

pub const C07: Registry = &[
    ("generichash_defaults_key_container", generichash_defaults_key_container),
    ("onetimeauth_verify_chosen_tag", onetimeauth_verify_chosen_tag),
    ("generichash", generichash),
    ("generichash_object", generichash_object),
    ("sha512", sha512),
    ("auth", auth),
    ("auth_incremental", auth_split),
    ("onetimeauth", onetimeauth),
    ("onetimeauth_incremental", onetimeauth_split),
    ("onetimeauth_final_accumulator", onetimeauth),
    ("onetimeauth_pending_carry", onetimeauth),
    ("mac_verify_object", mac_verify_object),
    ("onetimeauth_adversarial", onetimeauth),
    ("shorthash", shorthash),
    ("hsalsa20", hsalsa20),
    ("hchacha20", hchacha20),
    ("increment", increment),
];

/// Poly1305 keys that stress the carry chains: r at its clamped maximum,
/// s all ones / zero, and friends.
fn adversarial_poly_keys(rng: &mut Rng) -> Vec<[u8; 32]> {
    let mut keys = Vec::new();
    for (r, s) in [(0xffu8, 0xffu8), (0xff, 0x00), (0x00, 0xff), (0x00, 0x00), (0xff, 0x5a)] {
        let mut k = [0u8; 32];
        k[..16].fill(r);
        k[16..].fill(s);
        keys.push(k);
    }
    // r = clamped maximum written explicitly (0x0ffffffc0ffffffc0ffffffc0fffffff)
    let mut k = [0xffu8; 32];
    let rmax = unhex("ffffff0ffcffff0ffcffff0ffcffff0f").unwrap();
    k[..16].copy_from_slice(&rmax);
    keys.push(k);
    let mut k = rng.arr::<32>();
    k[..16].copy_from_slice(&rmax);
    keys.push(k);
    // r = 1, r = 2^k patterns
    for b in [1u8, 2, 4, 0x80] {
        let mut k = [0u8; 32];
        k[0] = b;
        k[16..].fill(0xff);
        keys.push(k);
    }
    keys
}

pub fn c07(ctx: &mut Ctx) -> Search {
    // keyed default-length hasher of the object API (key in a Vec / slice of 16, 32, 64 bytes), short and block-sized messages
    {
        let lens = [0usize, 1, 64, 128, 129];
        for (j, kl) in [16usize, 32, 64].iter().enumerate() {
            let key = ctx.rng.bytes(*kl);
            let m = ctx.rng.bytes(lens[j % lens.len()] + j);
            ctx.run("generichash_defaults_key_container", Input::new().b("key", &key).b("m", &m))?;
        }
    }
    let t = ctx.thorough;

    // ---- generichash: outlen x key length x input length
    let keylens: Vec<usize> = if t { vec![0, 16, 17, 32, 33, 63, 64] } else { vec![0, 16, 32, 64] };
    let full_outlens: Vec<usize> = if t { (16..=64).collect() } else { vec![16, 17, 31, 32, 33, 47, 48, 63, 64] };
    for klen in &keylens {
        let key = ctx.rng.bytes(*klen);
        // every input length for a set of output lengths
        for outlen in &full_outlens {
            for len in 0..=300usize {
                if !t && *klen != 0 && *klen != 32 && len % 7 != 0 && !(126..=130).contains(&len) {
                    continue;
                }
                let m = ctx.rng.bytes(len);
                ctx.run("generichash", Input::new().u("outlen", *outlen as u64).b("key", &key).b("m", &m))?;
            }
        }
        // every output length for the block-boundary input lengths
        for outlen in 16..=64usize {
            for len in [0usize, 1, 63, 64, 65, 127, 128, 129, 255, 256, 257, 300] {
                let m = ctx.rng.bytes(len);
                ctx.run("generichash", Input::new().u("outlen", outlen as u64).b("key", &key).b("m", &m))?;
            }
        }
    }
    // out-of-range parameters
    for (outlen, klen) in [(0usize, 0usize), (65, 0), (100, 0), (32, 65), (65, 65), (15, 0), (32, 15)] {
        let key = ctx.rng.bytes(klen);
        ctx.run("generichash", Input::new().u("outlen", outlen as u64).b("key", &key).b("m", b"abc"))?;
    }

    // ---- everything else per input length
    let maxlen = if t { 600 } else { 300 };
    let poly_keys = adversarial_poly_keys(&mut ctx.rng);
    for len in (0..=maxlen).chain([1000, 1023, 1024, 1025, 4096]) {
        let m = ctx.rng.bytes(len);
        let k = ctx.rng.arr::<32>();
        ctx.run("sha512", Input::new().b("m", &m))?;
        ctx.run("auth", Input::new().b("k", &k).b("m", &m))?;
        ctx.run("onetimeauth", Input::new().b("k", &k).b("m", &m))?;
        ctx.run("shorthash", Input::new().b("k", &k[..16]).b("m", &m))?;
        if len <= 130 || t {
            let ff = vec![0xffu8; len];
            for pk in &poly_keys {
                ctx.run("onetimeauth_adversarial", Input::new().b("k", pk).b("m", &ff))?;
                ctx.run("onetimeauth_adversarial", Input::new().b("k", pk).b("m", &m))?;
            }
            ctx.run("auth", Input::new().b("k", &[0xffu8; 32]).b("m", &ff))?;
            ctx.run("sha512", Input::new().b("m", &ff))?;
            ctx.run("shorthash", Input::new().b("k", &[0xffu8; 16]).b("m", &ff))?;
        }
    }

    // ---- object API of the generic hash: key length != digest length, digest
    //      length != 32, keyed and not, one update and two
    for len in [0usize, 1, 3, 64, 127, 128, 129, 257, 300] {
        let m = ctx.rng.bytes(len);
        run_gh_object(ctx, "generichash_object", &m, None)?;
        let c = ctx.rng.below(len + 1);
        run_gh_object(ctx, "generichash_object", &m, Some(&cuts(&[c])))?;
    }

    // ---- incremental MACs (classic init/update/final and the Auth /
    //      OnetimeAuth objects) against libsodium's one-shot value: every
    //      two-part split a+b
    let maxsplit = if t { 140 } else { 80 };
    for len in 0..=maxsplit {
        let m = ctx.rng.bytes(len);
        let k = ctx.rng.arr::<32>();
        for c in 0..=len {
            let inp = Input::new().b("k", &k).b("m", &m).b("cuts", &cuts(&[c]));
            ctx.run("onetimeauth_incremental", inp.clone())?;
            ctx.run("auth_incremental", inp)?;
        }
        // three parts, the middle one completing a pending block exactly
        if len >= 16 {
            let a = 1 + ctx.rng.below(15);
            for c3 in [&[a, 16][..], &[a, 16, len][..], &[0, a, 16][..]] {
                let inp = Input::new().b("k", &k).b("m", &m).b("cuts", &cuts(c3));
                ctx.run("onetimeauth_incremental", inp.clone())?;
                ctx.run("auth_incremental", inp)?;
            }
        }
    }

    // ---- object-API verification accepts exactly the authenticator: codes
    //      that are too short, too long (right prefix), or differ in one bit
    for len in 0..=70u64 {
        let x = ctx.rng.bytes((len % 9) as usize);
        let k = ctx.rng.arr::<32>();
        for fill in [0u64, 0xa5] {
            ctx.run("mac_verify_object", Input::new().b("k", &k).b("x", &x).u("len", len).u("fill", fill))?;
        }
        if len == 16 || len == 32 {
            for flip in [0u64, 7, 64, 127, 128, 255] {
                ctx.run(
                    "mac_verify_object",
                    Input::new().b("k", &k).b("x", &x).u("len", len).u("fill", 0).u("flip", flip),
                )?;
            }
        }
    }

    // ---- Poly1305: messages constructed so that the final accumulator is
    //      p-2 .. p+4 = 2^130-1 .. (the conditional subtraction of p and its
    //      carry chain; random messages get there with probability 2^-128)
    let mut fkeys: Vec<[u8; 32]> = (0..if t { 24 } else { 4 }).map(|_| ctx.rng.arr::<32>()).collect();
    fkeys.extend(poly_keys.iter().copied());
    for k in &fkeys {
        for (off, _) in polymath::FINAL_TARGETS {
            for (nprefix, last_len) in [(0usize, 16usize), (1, 16), (2, 16), (5, 16), (1, 15)] {
                if last_len == 15 && !t && *off != 0 && *off != 4 {
                    continue;
                }
                if let Some(m) = polymath::message_with_final_accumulator(&mut ctx.rng, k, *off, nprefix, last_len) {
                    ctx.run("onetimeauth_final_accumulator", Input::new().b("k", k).b("m", &m))?;
                    let c = 16 * nprefix;
                    ctx.run(
                        "onetimeauth_incremental",
                        Input::new().b("k", k).b("m", &m).b("cuts", &cuts(&[c])),
                    )?;
                    if *off >= 5 && last_len == 16 {
                        // h = 2^130 + j: a carry into the all-ones middle limb is
                        // pending here; continue the message past that block
                        let mut m2 = m.clone();
                        let tl = 1 + ctx.rng.below(40);
                        let tail = ctx.rng.bytes(tl);
                        m2.extend_from_slice(&tail);
                        ctx.run("onetimeauth_pending_carry", Input::new().b("k", k).b("m", &m2))?;
                        ctx.run(
                            "onetimeauth_incremental",
                            Input::new().b("k", k).b("m", &m2).b("cuts", &cuts(&[m.len()])),
                        )?;
                    }
                }
            }
        }
    }
    // ---- Poly1305: a carry pending in the middle limb when the last full
    //      block has been absorbed (2^-44 for random data)
    for r in [1u64, 3, 5, 7, 0x0fff_ffff, 0x0800_0001, 1 + 2 * ctx.rng.below(1 << 27) as u64] {
        for nprefix in 0..4usize {
            for tail_len in [0usize, 1, 15, 16, 20] {
                let tail = ctx.rng.bytes(tail_len);
                if let Some((k, m, _)) = polymath::message_with_pending_carry(&mut ctx.rng, r, nprefix, &tail) {
                    ctx.run("onetimeauth_pending_carry", Input::new().b("k", &k).b("m", &m))?;
                }
            }
        }
    }

    // ---- Poly1305 verification of authenticators with special VALUES: keys chosen so that the correct tag is 0^16, 1,
    //      ff^16, .. (random keys get there with probability 2^-128); the correct tag must be accepted whatever it is
    {
        let mut rs: Vec<[u8; 16]> = vec![[0u8; 16], [0xffu8; 16], {
            let mut one = [0u8; 16];
            one[0] = 1;
            one
        }];
        for _ in 0..(if t { 6 } else { 2 }) {
            rs.push(ctx.rng.arr::<16>());
        }
        let mut targets: Vec<u128> = vec![0, 1, u128::MAX, u128::MAX - 1, 1 << 127, 0xff, 1 << 64];
        if t {
            targets.extend_from_slice(&[0x80, 1 << 120, 0xff << 120, (1 << 64) - 1, !((1u128 << 64) - 1), 0x0101_0101_0101_0101_0101_0101_0101_0101]);
        }
        let mlens: Vec<usize> = if t { vec![0, 1, 15, 16, 17, 31, 32, 33, 63, 64, 65, 127, 128, 129, 1100] } else { vec![0, 1, 16, 17, 64, 129] };
        for r in &rs {
            for len in &mlens {
                let m = ctx.rng.bytes(*len);
                for target in &targets {
                    let k = key_with_tag(r, &m, *target);
                    ctx.run("onetimeauth_verify_chosen_tag", Input::new().b("k", &k).b("m", &m))?;
                }
                let ff = vec![0xffu8; *len];
                let k = key_with_tag(r, &ff, 0);
                ctx.run("onetimeauth_verify_chosen_tag", Input::new().b("k", &k).b("m", &ff))?;
            }
        }
        // and ordinary keys through the same entry points
        for len in [0usize, 1, 16, 33] {
            let (k, m) = (ctx.rng.arr::<32>(), ctx.rng.bytes(len));
            ctx.run("onetimeauth_verify_chosen_tag", Input::new().b("k", &k).b("m", &m))?;
        }
    }

    // ---- core functions
    let n = if t { 2000 } else { 200 };
    for r in 0..n {
        let (inp, k, c) = (ctx.rng.arr::<16>(), ctx.rng.arr::<32>(), ctx.rng.arr::<16>());
        let mut i1 = Input::new().b("in", &inp).b("k", &k);
        if r % 2 == 1 {
            i1 = i1.b("c", &c);
        }
        ctx.run("hsalsa20", i1.clone())?;
        ctx.run("hchacha20", i1)?;
    }
    for fill in [0u8, 0xff] {
        let i1 = Input::new().b("in", &[fill; 16]).b("k", &[fill; 32]);
        ctx.run("hsalsa20", i1.clone())?;
        ctx.run("hchacha20", i1.clone())?;
        ctx.run("hsalsa20", i1.clone().b("c", &[fill; 16]))?;
        ctx.run("hchacha20", i1.b("c", &[fill; 16]))?;
    }

    // ---- increment
    for len in 0..=40usize {
        let mut cands: Vec<Vec<u8>> = vec![vec![0u8; len], vec![0xffu8; len], ctx.rng.bytes(len)];
        if len > 0 {
            for split in 0..len {
                // 0xff up to `split`, then a non-0xff byte: the carry stops there
                let mut v = vec![0xffu8; len];
                v[split] = 0xfe;
                cands.push(v.clone());
                v[split] = 0x00;
                cands.push(v);
            }
        }
        for b in cands {
            ctx.run("increment", Input::new().b("bytes", &b))?;
        }
    }
    Ok(())
}

// ======================================================================
// C08
// ======================================================================

/// cuts: big-endian positions (`width` bytes each), ascending; pieces are m[0..c0], m[c0..c1], ..
fn pieces_w<'a>(m: &'a [u8], cuts: &[u8], width: usize) -> Vec<&'a [u8]> {
    if cuts.len() % width != 0 {
        panic!("{} cuts must be groups of {} bytes", HARNESS, width);
    }
    let mut out = Vec::new();
    let mut prev = 0usize;
    for c in cuts.chunks(width) {
        let p = c.iter().fold(0usize, |a, x| (a << 8) | *x as usize);
        if p < prev || p > m.len() {
            panic!("{} bad cut position {}", HARNESS, p);
        }
        out.push(&m[prev..p]);
        prev = p;
    }
    out.push(&m[prev..]);
    out
}

/// cuts: big-endian u16 positions
fn pieces<'a>(m: &'a [u8], cuts: &[u8]) -> Vec<&'a [u8]> {
    pieces_w(m, cuts, 2)
}

/// The message of a split case: `m` verbatim, or -- for multi-KiB messages, so that the replay command stays short --
/// `len` bytes of the harness PRNG seeded with `mseed`.
fn message(i: &Input) -> Vec<u8> {
    if i.has("m") {
        return i.get("m").to_vec();
    }
    let len = i.num("len") as usize;
    if len > (64 << 20) {
        panic!("{} len must be at most 64 MiB", HARNESS);
    }
    Rng::new(i.num("mseed")).bytes(len)
}

/// The pieces of a split case: `cuts` (u16 positions) or `cuts32` (u32 positions, for update chunks of 64 KiB and more).
fn split<'a>(i: &Input, m: &'a [u8]) -> Vec<&'a [u8]> {
    if i.has("cuts32") {
        pieces_w(m, i.get("cuts32"), 4)
    } else {
        pieces(m, i.get("cuts"))
    }
}

fn desc(ps: &[&[u8]]) -> String {
    ps.iter().map(|p| p.len().to_string()).collect::<Vec<_>>().join("+")
}

fn generichash_split(i: &Input) -> Outcome {
    let (outlen, key, mv) = (i.num("outlen") as usize, i.get("key"), message(i));
    let m = &mv[..];
    let ps = split(i, m);
    let want = so::generichash(outlen, m, key).expect("valid parameters");
    let mut st = must_ok(crypto_generichash_init(key_opt(key), outlen), "crypto_generichash_init")?;
    for p in &ps {
        crypto_generichash_update(&mut st, p);
    }
    let mut out = vec![0u8; outlen];
    must_ok(crypto_generichash_final(st, &mut out), "crypto_generichash_final")?;
    eq(&format!("incremental generichash, pieces {}", desc(&ps)), &want, &out)?;
    let mut one = vec![0u8; outlen];
    must_ok(crypto_generichash(&mut one, m, key_opt(key)), "crypto_generichash")?;
    eq("incremental vs one-shot generichash", &one, &out)
}

fn auth_split(i: &Input) -> Outcome {
    let (k, mv) = (i.arr::<32>("k"), message(i));
    let m = &mv[..];
    let ps = split(i, m);
    let mut st = crypto_auth_init(&k);
    for p in &ps {
        crypto_auth_update(&mut st, p);
    }
    let mut out = [0u8; 32];
    crypto_auth_final(st, &mut out);
    let want = so::auth(m, &k);
    eq(&format!("incremental crypto_auth, pieces {}", desc(&ps)), &want, &out)?;
    let mut one = [0u8; 32];
    crypto_auth(&mut one, m, &k);
    eq("incremental vs one-shot crypto_auth", &one, &out)?;

    // object API
    use dryoc::auth::{Auth, Key};
    let feed = || {
        let mut a = Auth::new(Key::from(k));
        for p in &ps {
            a.update(&p.to_vec());
        }
        a
    };
    eq(
        &format!("Auth::new/update/finalize, pieces {}", desc(&ps)),
        &want,
        &feed().finalize_to_vec(),
    )?;
    must_ok(
        feed().verify(&want),
        &format!("Auth::new/update/verify(libsodium mac), pieces {}", desc(&ps)),
    )?;
    let mut bad = want;
    bad[m.len() % 32] ^= 0x04;
    must_err(feed().verify(&bad), "Auth::new/update/verify (one bit of the mac flipped)")
}

fn onetimeauth_split(i: &Input) -> Outcome {
    let (k, mv) = (i.arr::<32>("k"), message(i));
    let m = &mv[..];
    let ps = split(i, m);
    let mut st = crypto_onetimeauth_init(&k);
    for p in &ps {
        crypto_onetimeauth_update(&mut st, p);
    }
    let mut out = [0u8; 16];
    crypto_onetimeauth_final(st, &mut out);
    let want = so::onetimeauth(m, &k);
    eq(
        &format!("incremental crypto_onetimeauth, pieces {}", desc(&ps)),
        &want,
        &out,
    )?;
    let mut one = [0u8; 16];
    crypto_onetimeauth(&mut one, m, &k);
    eq("incremental vs one-shot crypto_onetimeauth", &one, &out)?;

    // object API
    use dryoc::onetimeauth::{Key, OnetimeAuth};
    let feed = || {
        let mut a = OnetimeAuth::new(Key::from(k));
        for p in &ps {
            a.update(&p.to_vec());
        }
        a
    };
    eq(
        &format!("OnetimeAuth::new/update/finalize, pieces {}", desc(&ps)),
        &want,
        &feed().finalize_to_vec(),
    )?;
    must_ok(
        feed().verify(&want),
        &format!("OnetimeAuth::new/update/verify(libsodium mac), pieces {}", desc(&ps)),
    )?;
    let mut bad = want;
    bad[m.len() % 16] ^= 0x04;
    must_err(feed().verify(&bad), "OnetimeAuth::new/update/verify (one bit of the mac flipped)")
}

fn sha512_split(i: &Input) -> Outcome {
    let mv = message(i);
    let m = &mv[..];
    let ps = split(i, m);
    let mut st = crypto_hash_sha512_init();
    for p in &ps {
        crypto_hash_sha512_update(&mut st, p);
    }
    let mut out = [0u8; 64];
    crypto_hash_sha512_final(st, &mut out);
    eq(&format!("incremental sha512, pieces {}", desc(&ps)), &so::sha512(m), &out)?;
    let mut one = [0u8; 64];
    crypto_hash_sha512(&mut one, m);
    eq("incremental vs one-shot sha512", &one, &out)
}

fn sign_ph_split(i: &Input) -> Outcome {
    let (seed, mv) = (i.arr::<32>("seed"), message(i));
    let m = &mv[..];
    let ps = split(i, m);
    let (pk, sk) = so::sign_seed_keypair(&seed);
    let want = so::sign_ph_create(&[m], &sk);
    let mut st = crypto_sign_init();
    for p in &ps {
        crypto_sign_update(&mut st, p);
    }
    let mut sig = [0u8; 64];
    must_ok(crypto_sign_final_create(st, &mut sig, &sk), "crypto_sign_final_create")?;
    eq(&format!("incremental ed25519ph signature, pieces {}", desc(&ps)), &want, &sig)?;
    let mut st = crypto_sign_init();
    for p in &ps {
        crypto_sign_update(&mut st, p);
    }
    must_ok(
        crypto_sign_final_verify(st, &want, &pk),
        &format!("crypto_sign_final_verify, pieces {}", desc(&ps)),
    )?;
    Ok(())
}

/// key (16..=64 bytes, any valid BLAKE2b key), m, cuts: the `*_with_defaults` constructor of the incremental hasher with
/// the key in a Vec / borrowed slice of ANY valid length (the whole container is the key, as for the one-shot
/// `hash_with_defaults*`), fed in pieces, equals the one-shot functions and libsodium's crypto_generichash with the
/// full key.
fn generichash_defaults_key_container(i: &Input) -> Outcome {
    use dryoc::generichash::GenericHash;
    let (key, m) = (i.get("key"), i.get("m"));
    let ps = if i.has("cuts") { pieces(m, i.get("cuts")) } else { vec![m] };
    let want = match so::generichash(32, m, key) {
        Some(w) => w,
        None => panic!("{} libsodium rejects a {}-byte key", HARNESS, key.len()),
    };
    let keyvec: Vec<u8> = key.to_vec();
    let keyslice: &[u8] = key;
    let what = format!("{}-byte key", key.len());

    // one-shot
    let one: Vec<u8> = must_ok(
        GenericHash::hash_with_defaults_to_vec::<_, Vec<u8>>(m, Some(&keyvec)),
        &format!("GenericHash::hash_with_defaults_to_vec ({} in a Vec)", what),
    )?;
    eq(&format!("GenericHash::hash_with_defaults_to_vec ({} in a Vec) vs libsodium", what), &want, &one)?;
    let one: Vec<u8> = must_ok(
        GenericHash::hash_with_defaults::<_, &[u8], _>(m, Some(&keyslice)),
        &format!("GenericHash::hash_with_defaults ({} as &[u8])", what),
    )?;
    eq(&format!("GenericHash::hash_with_defaults ({} as &[u8]) vs libsodium", what), &want, &one)?;

    // incremental, key in a Vec
    let mut h = must_ok(
        GenericHash::new_with_defaults::<Vec<u8>>(Some(&keyvec)),
        &format!("GenericHash::new_with_defaults ({} in a Vec)", what),
    )?;
    for p in &ps {
        h.update(*p);
    }
    let inc = must_ok(h.finalize_to_vec(), "GenericHash::finalize_to_vec")?;
    eq(
        &format!("GenericHash::new_with_defaults ({} in a Vec) / update / finalize, pieces {}: incremental vs libsodium (= one-shot)", what, desc(&ps)),
        &want,
        &inc,
    )?;
    // incremental, key as a borrowed slice
    let mut h = must_ok(
        GenericHash::new_with_defaults::<&[u8]>(Some(&keyslice)),
        &format!("GenericHash::new_with_defaults ({} as &[u8])", what),
    )?;
    for p in &ps {
        h.update(*p);
    }
    let inc: Vec<u8> = must_ok(h.finalize(), "GenericHash::finalize")?;
    eq(
        &format!("GenericHash::new_with_defaults ({} as &[u8]) / update / finalize, pieces {}: incremental vs libsodium (= one-shot)", what, desc(&ps)),
        &want,
        &inc,
    )?;
    // 32-byte keys also in the fixed-length containers
    if key.len() == 32 {
        let karr: [u8; 32] = key.try_into().unwrap();
        let mut h = must_ok(GenericHash::new_with_defaults::<[u8; 32]>(Some(&karr)), "GenericHash::new_with_defaults (array key)")?;
        for p in &ps {
            h.update(*p);
        }
        let inc = must_ok(h.finalize_to_vec(), "GenericHash::finalize_to_vec")?;
        eq(&format!("GenericHash::new_with_defaults (32-byte array key), pieces {}", desc(&ps)), &want, &inc)?;
    }
    Ok(())
}

pub const C08: Registry = &[
    ("generichash_defaults_key_container", generichash_defaults_key_container),
    ("generichash_split", generichash_split),
    ("generichash_object_split", generichash_object),
    ("auth_split", auth_split),
    ("onetimeauth_split", onetimeauth_split),
    ("onetimeauth_split_pending_carry", onetimeauth_split),
    ("onetimeauth_split_small_r", onetimeauth_split),
    ("onetimeauth_split_final_accumulator", onetimeauth_split),
    ("sha512_split", sha512_split),
    ("sign_ph_split", sign_ph_split),
];

fn cuts(ps: &[usize]) -> Vec<u8> {
    ps.iter().flat_map(|p| [(*p >> 8) as u8, *p as u8]).collect()
}

fn run_all_split(ctx: &mut Ctx, m: &[u8], cut: &[u8], gh: &[(usize, Vec<u8>)], k: &[u8; 32], seed: &[u8; 32], sign: bool) -> Search {
    for (outlen, key) in gh {
        ctx.run(
            "generichash_split",
            Input::new().u("outlen", *outlen as u64).b("key", key).b("m", m).b("cuts", cut),
        )?;
    }
    ctx.run("auth_split", Input::new().b("k", k).b("m", m).b("cuts", cut))?;
    ctx.run("onetimeauth_split", Input::new().b("k", k).b("m", m).b("cuts", cut))?;
    ctx.run("sha512_split", Input::new().b("m", m).b("cuts", cut))?;
    if sign {
        ctx.run("sign_ph_split", Input::new().b("seed", seed).b("m", m).b("cuts", cut))?;
    }
    Ok(())
}

pub fn c08(ctx: &mut Ctx) -> Search {
    let t = ctx.thorough;
    let maxlen = if t { 200 } else { 70 };
    let k = ctx.rng.arr::<32>();
    let seed = ctx.rng.arr::<32>();
    let gh: Vec<(usize, Vec<u8>)> = vec![(32, vec![]), (64, ctx.rng.bytes(32)), (17, ctx.rng.bytes(64))];

    // all 2-way splits
    for len in 0..=maxlen {
        let m = ctx.rng.bytes(len);
        for c in 0..=len {
            run_all_split(ctx, &m, &cuts(&[c]), &gh, &k, &seed, true)?;
        }
    }
    // 2-way splits around the block boundaries of longer messages
    for len in [255usize, 256, 257, 300, 384, 385, 1000] {
        let m = ctx.rng.bytes(len);
        for c in [0usize, 1, 15, 16, 17, 63, 64, 65, 127, 128, 129, 191, 192, 193, 255, 256, 257, len - 1, len] {
            if c <= len {
                run_all_split(ctx, &m, &cuts(&[c]), &gh, &k, &seed, true)?;
            }
        }
    }
    // update chunks of 64 KiB and more (a single chunk, a chunk of exactly / just over 64 KiB next to a short one, two large
    // chunks): message = `len` bytes of the PRNG seeded with `mseed`, positions as u32
    {
        let mut rng_l = Rng::new(0xC0851 + t as u64);
        let mut shapes: Vec<(usize, Vec<usize>)> = vec![
            (65536, vec![]),
            (65537, vec![]),
            (70000, vec![]),
            (131073, vec![]),
            (65537, vec![1]),
            (70000, vec![65536]),
            (131073, vec![65537]),
            (140001, vec![3, 70003]),
        ];
        if t {
            shapes.extend_from_slice(&[
                (65535, vec![]),
                (65536, vec![0]),
                (65600, vec![63]),
                (131072, vec![]),
                (131072, vec![65536]),
                (196609, vec![]),
                (200000, vec![65536, 131072]),
                (200001, vec![127, 65536 + 127]),
                (262144 + 4097, vec![]),
                ((1 << 20) + 1, vec![17]),
                ((2 << 20) + 65, vec![(1 << 20) + 64]),
            ]);
        }
        for (len, cs) in shapes {
            let c32: Vec<u8> = cs.iter().flat_map(|p| (*p as u32).to_be_bytes()).collect();
            let big = |rng: &mut Rng| Input::new().u("mseed", rng.next() >> 16).u("len", len as u64).b("cuts32", &c32);
            ctx.run("sha512_split", big(&mut rng_l))?;
            ctx.run("sign_ph_split", big(&mut rng_l).b("seed", &seed))?;
            ctx.run("auth_split", big(&mut rng_l).b("k", &k))?;
            ctx.run("onetimeauth_split", big(&mut rng_l).b("k", &k))?;
            for (outlen, key) in &gh {
                ctx.run("generichash_split", big(&mut rng_l).u("outlen", *outlen as u64).b("key", key))?;
            }
        }
    }
    // 3-way splits including empty pieces
    let lens3: Vec<usize> = if t { vec![0, 1, 16, 17, 63, 64, 65, 127, 128, 129, 130, 200, 256, 257] } else { vec![0, 1, 17, 64, 65, 128, 129, 200] };
    for len in lens3 {
        let m = ctx.rng.bytes(len);
        let marks: Vec<usize> = [0usize, 1, 15, 16, 17, 63, 64, 65, 127, 128, 129, len.saturating_sub(1), len]
            .into_iter()
            .filter(|p| *p <= len)
            .collect();
        for a in &marks {
            for b in &marks {
                if a <= b {
                    run_all_split(ctx, &m, &cuts(&[*a, *b]), &gh, &k, &seed, len % 2 == 0)?;
                }
            }
        }
        // empty updates everywhere
        run_all_split(ctx, &m, &cuts(&[0, 0, 0, len, len]), &gh, &k, &seed, true)?;
    }
    // object API of the generic hash (key length != digest length): splits
    // around the block boundary, single update, empty pieces
    for len in [0usize, 1, 64, 128, 129, 200] {
        let m = ctx.rng.bytes(len);
        let marks: Vec<usize> = [0usize, 1, 64, 127, 128, 129, len].into_iter().filter(|p| *p <= len).collect();
        for a in &marks {
            run_gh_object(ctx, "generichash_object_split", &m, Some(&cuts(&[*a])))?;
        }
        run_gh_object(ctx, "generichash_object_split", &m, None)?;
        run_gh_object(ctx, "generichash_object_split", &m, Some(&cuts(&[0, len / 2, len])))?;
    }

    // `GenericHash::new_with_defaults` keyed with a Vec / slice of every valid BLAKE2b key length (16..=64, in
    // particular longer than the 32-byte default): one update, two, several, empty pieces
    {
        let klens: Vec<usize> = if t { (33..=64).chain(16..=32).collect() } else { vec![33, 64, 48, 40, 63, 32, 31, 16] };
        for klen in klens {
            let key = ctx.rng.bytes(klen);
            for len in [0usize, 1, 17, 127, 128, 129, 200, 300] {
                if !t && klen != 33 && klen != 64 && len % 2 == 0 {
                    continue;
                }
                let m = ctx.rng.bytes(len);
                let base = Input::new().b("key", &key).b("m", &m);
                ctx.run("generichash_defaults_key_container", base.clone())?;
                let c = ctx.rng.below(len + 1);
                ctx.run("generichash_defaults_key_container", base.clone().b("cuts", &cuts(&[c])))?;
                ctx.run("generichash_defaults_key_container", base.clone().b("cuts", &cuts(&[0, len / 2, len / 2, len])))?;
                if len >= 129 {
                    ctx.run("generichash_defaults_key_container", base.b("cuts", &cuts(&[13, 64, 128, 129])))?;
                }
            }
        }
    }

    // Poly1305 with a carry pending in the middle limb right at the end of a
    // block (constructed; 2^-44 for random data): every split position, so
    // that an update call / a completed pending buffer ends exactly there
    let rs: Vec<u64> = if t {
        let mut v = vec![1u64, 3, 5, 7, 9, 0x0fff_ffff, 0x0800_0001];
        for _ in 0..12 {
            v.push(1 + 2 * ctx.rng.below(1 << 27) as u64);
        }
        v
    } else {
        vec![1, 3, 0x0fff_ffff, 1 + 2 * ctx.rng.below(1 << 27) as u64]
    };
    for r in rs {
        for nprefix in [0usize, 1, 2] {
            for tail_len in [0usize, 7, 20, 33] {
                let tail = ctx.rng.bytes(tail_len);
                let (k, m, end) = match polymath::message_with_pending_carry(&mut ctx.rng, r, nprefix, &tail) {
                    Some(x) => x,
                    None => continue,
                };
                for c in 0..=m.len() {
                    ctx.run(
                        "onetimeauth_split_pending_carry",
                        Input::new().b("k", &k).b("m", &m).b("cuts", &cuts(&[c])),
                    )?;
                }
                // three parts: the middle one ends at the critical block
                for a in [0usize, 1, end.saturating_sub(17), end.saturating_sub(16), end.saturating_sub(1)] {
                    if a <= end {
                        ctx.run(
                            "onetimeauth_split_pending_carry",
                            Input::new().b("k", &k).b("m", &m).b("cuts", &cuts(&[a, end])),
                        )?;
                    }
                }
            }
        }
    }
    // the same state for arbitrary r: a block after which the polynomial is
    // congruent to 5..9 leaves h = 2^130 + j, i.e. low limb j with the carry
    // into the (all-ones) middle limb pending
    for _ in 0..(if t { 10 } else { 3 }) {
        let k = ctx.rng.arr::<32>();
        for off in [5i64, 6, 9] {
            for nprefix in [1usize, 2] {
                let tail_len = [0usize, 7, 20, 33][ctx.rng.below(4)];
                let mut m = match polymath::message_with_final_accumulator(&mut ctx.rng, &k, off, nprefix, 16) {
                    Some(m) => m,
                    None => continue,
                };
                let end = m.len();
                let tail = ctx.rng.bytes(tail_len);
                m.extend_from_slice(&tail);
                for c in 0..=m.len() {
                    ctx.run(
                        "onetimeauth_split_pending_carry",
                        Input::new().b("k", &k).b("m", &m).b("cuts", &cuts(&[c])),
                    )?;
                }
                ctx.run(
                    "onetimeauth_split_pending_carry",
                    Input::new().b("k", &k).b("m", &m).b("cuts", &cuts(&[1, end])),
                )?;
            }
        }
    }
    // r = 1, r small, r = clamped maximum; messages of 0xff blocks (largest
    // limb values) with one lower byte; every split position
    for kb in [&[1u8][..], &[2], &[3], &[0xff, 0xff, 0xff, 0x0f], &[0xff; 16], &[0, 0, 0, 0, 0xfc]] {
        let mut k = [0u8; 32];
        k[..kb.len()].copy_from_slice(kb);
        ctx.rng.fill(&mut k[16..]);
        for len in [16usize, 32, 47, 48, 52, 64, 80] {
            for variant in 0..3 {
                let mut m = vec![0xffu8; len];
                match variant {
                    1 => m[len / 2] = 0xfa,
                    2 => {
                        for b in m.iter_mut().skip(16).take(16) {
                            *b = 0;
                        }
                    }
                    _ => {}
                }
                for c in 0..=len {
                    ctx.run(
                        "onetimeauth_split_small_r",
                        Input::new().b("k", &k).b("m", &m).b("cuts", &cuts(&[c])),
                    )?;
                }
            }
        }
    }
    // final accumulator p-2 .. 2^130-1 reached through every split
    for _ in 0..(if t { 8 } else { 2 }) {
        let k = ctx.rng.arr::<32>();
        for (off, _) in polymath::FINAL_TARGETS {
            if let Some(m) = polymath::message_with_final_accumulator(&mut ctx.rng, &k, *off, 2, 16) {
                for c in 0..=m.len() {
                    ctx.run(
                        "onetimeauth_split_final_accumulator",
                        Input::new().b("k", &k).b("m", &m).b("cuts", &cuts(&[c])),
                    )?;
                }
            }
        }
    }

    // random multi-way splits
    let n = if t { 1000 } else { 100 };
    for _ in 0..n {
        let len = ctx.rng.below(400);
        let m = ctx.rng.bytes(len);
        let mut ps: Vec<usize> = (0..ctx.rng.below(6)).map(|_| ctx.rng.below(len + 1)).collect();
        ps.sort();
        run_all_split(ctx, &m, &cuts(&ps), &gh, &k, &seed, true)?;
    }
    Ok(())
}
