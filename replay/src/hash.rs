//! C07 (one-shot hash / MAC / core primitives equal libsodium) and C08
//! (incremental == one-shot for any chunking).

use dryoc::classic::crypto_auth::*;
use dryoc::classic::crypto_core::{crypto_core_hchacha20, crypto_core_hsalsa20};
use dryoc::classic::crypto_generichash::*;
use dryoc::classic::crypto_hash::*;
use dryoc::classic::crypto_onetimeauth::*;
use dryoc::classic::crypto_shorthash::crypto_shorthash;
use dryoc::classic::crypto_sign::{crypto_sign_final_create, crypto_sign_final_verify, crypto_sign_init, crypto_sign_update};

use crate::so;
use crate::util::*;

// ======================================================================
// C07
// ======================================================================

fn key_opt(k: &[u8]) -> Option<&[u8]> {
    if k.is_empty() {
        None
    } else {
        Some(k)
    }
}

/// outlen, key (empty = unkeyed), m.  Parameters libsodium rejects must be
/// rejected, everything else must match byte for byte.
fn generichash(i: &Input) -> Outcome {
    let (outlen, key, m) = (i.num("outlen") as usize, i.get("key"), i.get("m"));
    let mut out = vec![0u8; outlen];
    let r = crypto_generichash(&mut out, m, key_opt(key));
    // dryoc documents (and enforces) 16 as the minimum digest and key length;
    // libsodium does not enforce its documented minimum.  Below it dryoc may
    // refuse, but if it answers the answer must be right.
    let documented = (16..=64).contains(&outlen) && (key.is_empty() || (16..=64).contains(&key.len()));
    match so::generichash(outlen, m, key) {
        Some(want) => {
            if !documented && r.is_err() {
                return Ok(());
            }
            must_ok(r, "crypto_generichash")?;
            eq("crypto_generichash", &want, &out)
        }
        None => must_err(r, "crypto_generichash (parameters libsodium rejects)"),
    }
}

fn sha512(i: &Input) -> Outcome {
    let m = i.get("m");
    let mut out = [0u8; 64];
    crypto_hash_sha512(&mut out, m);
    eq("crypto_hash_sha512", &so::sha512(m), &out)
}

fn auth(i: &Input) -> Outcome {
    let (k, m) = (i.arr::<32>("k"), i.get("m"));
    let want = so::auth(m, &k);
    let mut mac = [0u8; 32];
    crypto_auth(&mut mac, m, &k);
    eq("crypto_auth", &want, &mac)?;
    must_ok(crypto_auth_verify(&want, m, &k), "crypto_auth_verify(libsodium mac)")?;
    let mut bad = want;
    bad[m.len() % 32] ^= 0x01;
    verdict(
        "crypto_auth_verify (one bit of the mac flipped)",
        so::auth_verify(&bad, m, &k),
        crypto_auth_verify(&bad, m, &k).is_ok(),
    )
}

fn onetimeauth(i: &Input) -> Outcome {
    let (k, m) = (i.arr::<32>("k"), i.get("m"));
    let want = so::onetimeauth(m, &k);
    let mut mac = [0u8; 16];
    crypto_onetimeauth(&mut mac, m, &k);
    eq("crypto_onetimeauth", &want, &mac)?;
    must_ok(crypto_onetimeauth_verify(&want, m, &k), "crypto_onetimeauth_verify(libsodium mac)")?;
    let mut bad = want;
    bad[m.len() % 16] ^= 0x80;
    verdict(
        "crypto_onetimeauth_verify (one bit of the mac flipped)",
        so::onetimeauth_verify(&bad, m, &k),
        crypto_onetimeauth_verify(&bad, m, &k).is_ok(),
    )
}

fn shorthash(i: &Input) -> Outcome {
    let (k, m) = (i.arr::<16>("k"), i.get("m"));
    let mut out = [0u8; 8];
    crypto_shorthash(&mut out, m, &k);
    eq("crypto_shorthash", &so::shorthash(m, &k), &out)
}

fn consts(c: &[u8; 16]) -> (u32, u32, u32, u32) {
    let w = |j: usize| u32::from_le_bytes(c[j * 4..j * 4 + 4].try_into().unwrap());
    (w(0), w(1), w(2), w(3))
}

/// input, k, optional c (16 bytes of constants)
fn hsalsa20(i: &Input) -> Outcome {
    let (inp, k) = (i.arr::<16>("in"), i.arr::<32>("k"));
    let c = if i.has("c") { Some(i.arr::<16>("c")) } else { None };
    let want = so::hsalsa20(&inp, &k, c.as_ref());
    let mut out = [0u8; 32];
    crypto_core_hsalsa20(&mut out, &inp, &k, c.as_ref().map(consts));
    eq("crypto_core_hsalsa20", &want, &out)
}

fn hchacha20(i: &Input) -> Outcome {
    let (inp, k) = (i.arr::<16>("in"), i.arr::<32>("k"));
    let c = if i.has("c") { Some(i.arr::<16>("c")) } else { None };
    let want = so::hchacha20(&inp, &k, c.as_ref());
    let mut out = [0u8; 32];
    crypto_core_hchacha20(&mut out, &inp, &k, c.as_ref().map(consts));
    eq("crypto_core_hchacha20", &want, &out)
}

fn increment(i: &Input) -> Outcome {
    let b = i.get("bytes");
    let mut want = b.to_vec();
    so::increment(&mut want);
    let mut got = b.to_vec();
    dryoc::utils::increment_bytes(&mut got);
    eq("increment_bytes", &want, &got)?;
    let mut got2 = b.to_vec();
    dryoc::utils::sodium_increment(&mut got2);
    eq("sodium_increment", &want, &got2)
}

pub const C07: Registry = &[
    ("generichash", generichash),
    ("sha512", sha512),
    ("auth", auth),
    ("onetimeauth", onetimeauth),
    ("onetimeauth_adversarial", onetimeauth),
    ("shorthash", shorthash),
    ("hsalsa20", hsalsa20),
    ("hchacha20", hchacha20),
    ("increment", increment),
];

/// Poly1305 keys that stress the carry chains: r at its clamped maximum,
/// s all ones / zero, and friends.
fn adversarial_poly_keys(rng: &mut Rng) -> Vec<[u8; 32]> {
    let mut keys = Vec::new();
    for (r, s) in [(0xffu8, 0xffu8), (0xff, 0x00), (0x00, 0xff), (0x00, 0x00), (0xff, 0x5a)] {
        let mut k = [0u8; 32];
        k[..16].fill(r);
        k[16..].fill(s);
        keys.push(k);
    }
    // r = clamped maximum written explicitly (0x0ffffffc0ffffffc0ffffffc0fffffff)
    let mut k = [0xffu8; 32];
    let rmax = unhex("ffffff0ffcffff0ffcffff0ffcffff0f").unwrap();
    k[..16].copy_from_slice(&rmax);
    keys.push(k);
    let mut k = rng.arr::<32>();
    k[..16].copy_from_slice(&rmax);
    keys.push(k);
    // r = 1, r = 2^k patterns
    for b in [1u8, 2, 4, 0x80] {
        let mut k = [0u8; 32];
        k[0] = b;
        k[16..].fill(0xff);
        keys.push(k);
    }
    keys
}

pub fn c07(ctx: &mut Ctx) -> Search {
    let t = ctx.thorough;

    // ---- generichash: outlen x key length x input length
    let keylens: Vec<usize> = if t { vec![0, 16, 17, 32, 33, 63, 64] } else { vec![0, 16, 32, 64] };
    let full_outlens: Vec<usize> = if t { (16..=64).collect() } else { vec![16, 17, 31, 32, 33, 47, 48, 63, 64] };
    for klen in &keylens {
        let key = ctx.rng.bytes(*klen);
        // every input length for a set of output lengths
        for outlen in &full_outlens {
            for len in 0..=300usize {
                if !t && *klen != 0 && *klen != 32 && len % 7 != 0 && !(126..=130).contains(&len) {
                    continue;
                }
                let m = ctx.rng.bytes(len);
                ctx.run("generichash", Input::new().u("outlen", *outlen as u64).b("key", &key).b("m", &m))?;
            }
        }
        // every output length for the block-boundary input lengths
        for outlen in 16..=64usize {
            for len in [0usize, 1, 63, 64, 65, 127, 128, 129, 255, 256, 257, 300] {
                let m = ctx.rng.bytes(len);
                ctx.run("generichash", Input::new().u("outlen", outlen as u64).b("key", &key).b("m", &m))?;
            }
        }
    }
    // out-of-range parameters
    for (outlen, klen) in [(0usize, 0usize), (65, 0), (100, 0), (32, 65), (65, 65), (15, 0), (32, 15)] {
        let key = ctx.rng.bytes(klen);
        ctx.run("generichash", Input::new().u("outlen", outlen as u64).b("key", &key).b("m", b"abc"))?;
    }

    // ---- everything else per input length
    let maxlen = if t { 600 } else { 300 };
    let poly_keys = adversarial_poly_keys(&mut ctx.rng);
    for len in (0..=maxlen).chain([1000, 1023, 1024, 1025, 4096]) {
        let m = ctx.rng.bytes(len);
        let k = ctx.rng.arr::<32>();
        ctx.run("sha512", Input::new().b("m", &m))?;
        ctx.run("auth", Input::new().b("k", &k).b("m", &m))?;
        ctx.run("onetimeauth", Input::new().b("k", &k).b("m", &m))?;
        ctx.run("shorthash", Input::new().b("k", &k[..16]).b("m", &m))?;
        if len <= 130 || t {
            let ff = vec![0xffu8; len];
            for pk in &poly_keys {
                ctx.run("onetimeauth_adversarial", Input::new().b("k", pk).b("m", &ff))?;
                ctx.run("onetimeauth_adversarial", Input::new().b("k", pk).b("m", &m))?;
            }
            ctx.run("auth", Input::new().b("k", &[0xffu8; 32]).b("m", &ff))?;
            ctx.run("sha512", Input::new().b("m", &ff))?;
            ctx.run("shorthash", Input::new().b("k", &[0xffu8; 16]).b("m", &ff))?;
        }
    }

    // ---- core functions
    let n = if t { 2000 } else { 200 };
    for r in 0..n {
        let (inp, k, c) = (ctx.rng.arr::<16>(), ctx.rng.arr::<32>(), ctx.rng.arr::<16>());
        let mut i1 = Input::new().b("in", &inp).b("k", &k);
        if r % 2 == 1 {
            i1 = i1.b("c", &c);
        }
        ctx.run("hsalsa20", i1.clone())?;
        ctx.run("hchacha20", i1)?;
    }
    for fill in [0u8, 0xff] {
        let i1 = Input::new().b("in", &[fill; 16]).b("k", &[fill; 32]);
        ctx.run("hsalsa20", i1.clone())?;
        ctx.run("hchacha20", i1.clone())?;
        ctx.run("hsalsa20", i1.clone().b("c", &[fill; 16]))?;
        ctx.run("hchacha20", i1.b("c", &[fill; 16]))?;
    }

    // ---- increment
    for len in 0..=40usize {
        let mut cands: Vec<Vec<u8>> = vec![vec![0u8; len], vec![0xffu8; len], ctx.rng.bytes(len)];
        if len > 0 {
            for split in 0..len {
                // 0xff up to `split`, then a non-0xff byte: the carry stops there
                let mut v = vec![0xffu8; len];
                v[split] = 0xfe;
                cands.push(v.clone());
                v[split] = 0x00;
                cands.push(v);
            }
        }
        for b in cands {
            ctx.run("increment", Input::new().b("bytes", &b))?;
        }
    }
    Ok(())
}

// ======================================================================
// C08
// ======================================================================

/// cuts: big-endian u16 positions, ascending; pieces are m[0..c0], m[c0..c1], ..
fn pieces<'a>(m: &'a [u8], cuts: &[u8]) -> Vec<&'a [u8]> {
    if cuts.len() % 2 != 0 {
        panic!("{} cuts must be u16 pairs", HARNESS);
    }
    let mut out = Vec::new();
    let mut prev = 0usize;
    for c in cuts.chunks(2) {
        let p = ((c[0] as usize) << 8) | c[1] as usize;
        if p < prev || p > m.len() {
            panic!("{} bad cut position {}", HARNESS, p);
        }
        out.push(&m[prev..p]);
        prev = p;
    }
    out.push(&m[prev..]);
    out
}

fn desc(ps: &[&[u8]]) -> String {
    ps.iter().map(|p| p.len().to_string()).collect::<Vec<_>>().join("+")
}

fn generichash_split(i: &Input) -> Outcome {
    let (outlen, key, m) = (i.num("outlen") as usize, i.get("key"), i.get("m"));
    let ps = pieces(m, i.get("cuts"));
    let want = so::generichash(outlen, m, key).expect("valid parameters");
    let mut st = must_ok(crypto_generichash_init(key_opt(key), outlen), "crypto_generichash_init")?;
    for p in &ps {
        crypto_generichash_update(&mut st, p);
    }
    let mut out = vec![0u8; outlen];
    must_ok(crypto_generichash_final(st, &mut out), "crypto_generichash_final")?;
    eq(&format!("incremental generichash, pieces {}", desc(&ps)), &want, &out)?;
    let mut one = vec![0u8; outlen];
    must_ok(crypto_generichash(&mut one, m, key_opt(key)), "crypto_generichash")?;
    eq("incremental vs one-shot generichash", &one, &out)
}

fn auth_split(i: &Input) -> Outcome {
    let (k, m) = (i.arr::<32>("k"), i.get("m"));
    let ps = pieces(m, i.get("cuts"));
    let mut st = crypto_auth_init(&k);
    for p in &ps {
        crypto_auth_update(&mut st, p);
    }
    let mut out = [0u8; 32];
    crypto_auth_final(st, &mut out);
    eq(&format!("incremental crypto_auth, pieces {}", desc(&ps)), &so::auth(m, &k), &out)?;
    let mut one = [0u8; 32];
    crypto_auth(&mut one, m, &k);
    eq("incremental vs one-shot crypto_auth", &one, &out)
}

fn onetimeauth_split(i: &Input) -> Outcome {
    let (k, m) = (i.arr::<32>("k"), i.get("m"));
    let ps = pieces(m, i.get("cuts"));
    let mut st = crypto_onetimeauth_init(&k);
    for p in &ps {
        crypto_onetimeauth_update(&mut st, p);
    }
    let mut out = [0u8; 16];
    crypto_onetimeauth_final(st, &mut out);
    eq(
        &format!("incremental crypto_onetimeauth, pieces {}", desc(&ps)),
        &so::onetimeauth(m, &k),
        &out,
    )?;
    let mut one = [0u8; 16];
    crypto_onetimeauth(&mut one, m, &k);
    eq("incremental vs one-shot crypto_onetimeauth", &one, &out)
}

fn sha512_split(i: &Input) -> Outcome {
    let m = i.get("m");
    let ps = pieces(m, i.get("cuts"));
    let mut st = crypto_hash_sha512_init();
    for p in &ps {
        crypto_hash_sha512_update(&mut st, p);
    }
    let mut out = [0u8; 64];
    crypto_hash_sha512_final(st, &mut out);
    eq(&format!("incremental sha512, pieces {}", desc(&ps)), &so::sha512(m), &out)?;
    let mut one = [0u8; 64];
    crypto_hash_sha512(&mut one, m);
    eq("incremental vs one-shot sha512", &one, &out)
}

fn sign_ph_split(i: &Input) -> Outcome {
    let (seed, m) = (i.arr::<32>("seed"), i.get("m"));
    let ps = pieces(m, i.get("cuts"));
    let (pk, sk) = so::sign_seed_keypair(&seed);
    let want = so::sign_ph_create(&[m], &sk);
    let mut st = crypto_sign_init();
    for p in &ps {
        crypto_sign_update(&mut st, p);
    }
    let mut sig = [0u8; 64];
    must_ok(crypto_sign_final_create(st, &mut sig, &sk), "crypto_sign_final_create")?;
    eq(&format!("incremental ed25519ph signature, pieces {}", desc(&ps)), &want, &sig)?;
    let mut st = crypto_sign_init();
    for p in &ps {
        crypto_sign_update(&mut st, p);
    }
    must_ok(
        crypto_sign_final_verify(st, &want, &pk),
        &format!("crypto_sign_final_verify, pieces {}", desc(&ps)),
    )?;
    Ok(())
}

pub const C08: Registry = &[
    ("generichash_split", generichash_split),
    ("auth_split", auth_split),
    ("onetimeauth_split", onetimeauth_split),
    ("sha512_split", sha512_split),
    ("sign_ph_split", sign_ph_split),
];

fn cuts(ps: &[usize]) -> Vec<u8> {
    ps.iter().flat_map(|p| [(*p >> 8) as u8, *p as u8]).collect()
}

fn run_all_split(ctx: &mut Ctx, m: &[u8], cut: &[u8], gh: &[(usize, Vec<u8>)], k: &[u8; 32], seed: &[u8; 32], sign: bool) -> Search {
    for (outlen, key) in gh {
        ctx.run(
            "generichash_split",
            Input::new().u("outlen", *outlen as u64).b("key", key).b("m", m).b("cuts", cut),
        )?;
    }
    ctx.run("auth_split", Input::new().b("k", k).b("m", m).b("cuts", cut))?;
    ctx.run("onetimeauth_split", Input::new().b("k", k).b("m", m).b("cuts", cut))?;
    ctx.run("sha512_split", Input::new().b("m", m).b("cuts", cut))?;
    if sign {
        ctx.run("sign_ph_split", Input::new().b("seed", seed).b("m", m).b("cuts", cut))?;
    }
    Ok(())
}

pub fn c08(ctx: &mut Ctx) -> Search {
    let t = ctx.thorough;
    let maxlen = if t { 200 } else { 70 };
    let k = ctx.rng.arr::<32>();
    let seed = ctx.rng.arr::<32>();
    let gh: Vec<(usize, Vec<u8>)> = vec![(32, vec![]), (64, ctx.rng.bytes(32)), (17, ctx.rng.bytes(64))];

    // all 2-way splits
    for len in 0..=maxlen {
        let m = ctx.rng.bytes(len);
        for c in 0..=len {
            run_all_split(ctx, &m, &cuts(&[c]), &gh, &k, &seed, true)?;
        }
    }
    // 2-way splits around the block boundaries of longer messages
    for len in [255usize, 256, 257, 300, 384, 385, 1000] {
        let m = ctx.rng.bytes(len);
        for c in [0usize, 1, 15, 16, 17, 63, 64, 65, 127, 128, 129, 191, 192, 193, 255, 256, 257, len - 1, len] {
            if c <= len {
                run_all_split(ctx, &m, &cuts(&[c]), &gh, &k, &seed, true)?;
            }
        }
    }
    // 3-way splits including empty pieces
    let lens3: Vec<usize> = if t { vec![0, 1, 16, 17, 63, 64, 65, 127, 128, 129, 130, 200, 256, 257] } else { vec![0, 1, 17, 64, 65, 128, 129, 200] };
    for len in lens3 {
        let m = ctx.rng.bytes(len);
        let marks: Vec<usize> = [0usize, 1, 15, 16, 17, 63, 64, 65, 127, 128, 129, len.saturating_sub(1), len]
            .into_iter()
            .filter(|p| *p <= len)
            .collect();
        for a in &marks {
            for b in &marks {
                if a <= b {
                    run_all_split(ctx, &m, &cuts(&[*a, *b]), &gh, &k, &seed, len % 2 == 0)?;
                }
            }
        }
        // empty updates everywhere
        run_all_split(ctx, &m, &cuts(&[0, 0, 0, len, len]), &gh, &k, &seed, true)?;
    }
    // random multi-way splits
    let n = if t { 1000 } else { 100 };
    for _ in 0..n {
        let len = ctx.rng.below(400);
        let m = ctx.rng.bytes(len);
        let mut ps: Vec<usize> = (0..ctx.rng.below(6)).map(|_| ctx.rng.below(len + 1)).collect();
        ps.sort();
        run_all_split(ctx, &m, &cuts(&ps), &gh, &k, &seed, true)?;
    }
    Ok(())
}
