//! witness -- directed witness search on the real dryoc crate, with libsodium
//! as the oracle.
//!
//! Usage:
//!   witness <PROP> [--tier quick|thorough] [--seed N] [--all]
//!   witness <PROP> --case NAME --input name=HEX [name=HEX ...]
//!
//! Prints exactly one line of JSON on stdout.
//!   found : exit code 1      none : exit code 0      error : exit code 2

mod aead;
mod curve;
mod hash;
mod misc;
mod pwstr;
#[cfg(feature = "nightly")]
mod nightly;
#[cfg(feature = "nightly")]
mod nightly_os;
mod polymath;
mod sign;
mod so;
mod stream;
mod total;
mod util;

use serde_json::json;
use util::*;

type Gen = fn(&mut Ctx) -> Search;

fn property(id: &str) -> Option<(Registry, Option<Gen>)> {
    Some(match id {
        "C01" => (aead::C01, Some(aead::c01 as Gen)),
        "C02" => (aead::C02, Some(aead::c02 as Gen)),
        "C03" => (stream::C03, Some(stream::c03 as Gen)),
        "C04" => (total::C04, Some(total::c04 as Gen)),
        "C05" => (curve::C05, Some(curve::c05 as Gen)),
        "C06" => (sign::C06, Some(sign::c06 as Gen)),
        "C07" => (hash::C07, Some(hash::c07 as Gen)),
        "C08" => (hash::C08, Some(hash::c08 as Gen)),
        "C09" => (misc::C09, Some(misc::c09 as Gen)),
        "C10" => (pwstr::C10, Some(pwstr::c10 as Gen)),
        // nightly flavour: the stable cases plus every randomised constructor of the heap / locked containers
        #[cfg(feature = "nightly")]
        "C11" => {
            let all: Vec<(&'static str, CaseFn)> = misc::C11.iter().chain(nightly::C11.iter()).cloned().collect();
            (Box::leak(all.into_boxed_slice()), Some(nightly::c11 as Gen))
        }
        #[cfg(not(feature = "nightly"))]
        "C11" => (misc::C11, Some(misc::c11 as Gen)),
        "C12" => (misc::C12, Some(misc::c12 as Gen)),
        "C13" => (curve::C13, Some(curve::c13 as Gen)),
        #[cfg(feature = "nightly")]
        "C16" => (nightly::C16, Some(nightly::c16 as Gen)),
        #[cfg(not(feature = "nightly"))]
        "C16" => (misc::C16, Some(misc::c16 as Gen)),
        "C17" => (aead::C17, Some(aead::c17 as Gen)),
        #[cfg(feature = "nightly")]
        "C14" => (nightly_os::C14, Some(nightly_os::c14 as Gen)),
        #[cfg(feature = "nightly")]
        "C19" => (nightly_os::C19, Some(nightly_os::c19 as Gen)),
        #[cfg(feature = "nightly")]
        "C18" => (nightly::C18, Some(nightly::c18 as Gen)),
        // simd flavour: BLAKE2b in any chunking == one-shot == libsodium, with dryoc built on its portable-SIMD backend
        #[cfg(all(feature = "simd", not(feature = "nightly")))]
        "C18" => {
            // every BLAKE2b consumer with the SIMD backend compiled in: any chunking == one-shot == libsodium (C08), all
            // digest / key lengths (C07), and the KDF (salt = subkey id, personal = context: the parameter block)
            let all: Vec<(&'static str, CaseFn)> = hash::C08.iter().chain(hash::C07.iter()).chain(misc::C12.iter()).cloned().collect();
            fn c18_simd(ctx: &mut Ctx) -> Search {
                misc::c12(ctx)?;
                hash::c08(ctx)?;
                hash::c07(ctx)
            }
            (Box::leak(all.into_boxed_slice()), Some(c18_simd as Gen))
        }
        // properties about memory protection, build configurations and the
        // type system: nothing to replay against libsodium
        "C14" | "C15" | "C18" | "C19" | "C20" => (&[], None),
        _ => return None,
    })
}

fn finish(v: serde_json::Value, code: i32) -> ! {
    println!("{}", v);
    std::process::exit(code);
}

fn error(detail: String) -> ! {
    finish(json!({"status": "error", "detail": detail}), 2)
}

fn exe() -> String {
    std::env::current_exe()
        .ok()
        .and_then(|p| p.to_str().map(|s| s.to_string()))
        .unwrap_or_else(|| "/verif/cache/replay-target/release/witness".to_string())
}

fn found_json(prop: &str, f: &Found) -> serde_json::Value {
    let rerun = format!("{} {} --case {} --input {}", exe(), prop, f.case, f.input.to_args());
    json!({
        "status": "found",
        "property": prop,
        "case": f.case,
        "input": f.input.to_json(),
        "expected": f.fail.expected,
        "actual": f.fail.actual,
        "detail": f.fail.detail,
        "rerun_cmd": rerun.trim_end(),
    })
}

fn report_found(prop: &str, f: &Found) -> ! {
    finish(found_json(prop, f), 1)
}

/// `--all`: the first failure in the usual shape plus one entry per failing
/// case name.
fn report_all(prop: &str, ctx: &Ctx) -> ! {
    let mut v = found_json(prop, &ctx.failures[0].0);
    let list: Vec<serde_json::Value> = ctx
        .failures
        .iter()
        .map(|(f, n)| {
            let mut e = found_json(prop, f);
            e["failures"] = json!(n);
            e.as_object_mut().unwrap().remove("status");
            e
        })
        .collect();
    v["failing_cases"] = json!(list);
    v["cases_run"] = json!(ctx.cases_run);
    finish(v, 1)
}

fn main() {
    let args: Vec<String> = std::env::args().skip(1).collect();
    if args.is_empty() || args[0].starts_with('-') {
        error("usage: witness <PROP> [--tier quick|thorough] [--seed N] [--case NAME --input name=HEX ...]".into());
    }
    let prop = args[0].to_uppercase();
    let mut tier = "quick".to_string();
    let mut seed = 1u64;
    let mut case: Option<String> = None;
    let mut collect_all = false;
    let mut input = Input::new();
    let mut k = 1;
    while k < args.len() {
        match args[k].as_str() {
            "--tier" => {
                k += 1;
                tier = args.get(k).cloned().unwrap_or_default();
            }
            "--seed" => {
                k += 1;
                seed = match args.get(k).and_then(|s| s.parse().ok()) {
                    Some(s) => s,
                    None => error("--seed needs an unsigned integer".into()),
                };
            }
            "--all" => collect_all = true,
            "--case" => {
                k += 1;
                case = args.get(k).cloned();
            }
            "--input" => {
                k += 1;
                while k < args.len() && !args[k].starts_with("--") {
                    let (name, hexv) = match args[k].split_once('=') {
                        Some(p) => p,
                        None => error(format!("--input expects name=HEX, got '{}'", args[k])),
                    };
                    match unhex(hexv) {
                        Some(v) => input = input.b(name, &v),
                        None => error(format!("bad hex for input '{}'", name)),
                    }
                    k += 1;
                }
                continue;
            }
            other => error(format!("unknown argument '{}'", other)),
        }
        k += 1;
    }
    if tier != "quick" && tier != "thorough" {
        error(format!("unknown tier '{}'", tier));
    }

    let (registry, gen) = match property(&prop) {
        Some(p) => p,
        None => error(format!("unknown property '{}'", prop)),
    };

    install_silent_panic_hook();
    so::init();

    let mut ctx = Ctx {
        thorough: tier == "thorough",
        rng: Rng::new(seed),
        cases_run: 0,
        registry,
        trace: std::env::var_os("WITNESS_TRACE").is_some(),
        collect_all,
        failures: Vec::new(),
    };

    // everything below runs under catch so that a harness error becomes a
    // clean {"status":"error"} line
    let prop2 = prop.clone();
    let outcome = catch(move || -> (Ctx, Search) {
        let r = if let Some(name) = case {
            ctx.run(&name, input)
        } else if let Some(g) = gen {
            g(&mut ctx)
        } else {
            Ok(())
        };
        (ctx, r)
    });
    match outcome {
        Err(msg) => error(format!("{}: {}", prop2, msg)),
        Ok((ctx, Err(found))) => {
            let _ = ctx;
            report_found(&prop, &found)
        }
        Ok((ctx, Ok(()))) => {
            if !ctx.failures.is_empty() {
                report_all(&prop, &ctx)
            }
            if gen.is_none() {
                finish(
                    json!({"status": "none", "property": prop, "cases_run": 0,
                           "detail": "no replay cases for this property"}),
                    0,
                )
            }
            finish(json!({"status": "none", "property": prop, "cases_run": ctx.cases_run}), 0)
        }
    }
}
