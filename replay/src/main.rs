fn main() { unsafe { libsodium_sys::sodium_init(); } let mut q=[0u8;32]; dryoc::classic::crypto_core::crypto_scalarmult_base(&mut q,&[1u8;32]); println!("{:?}", q); }
