#![allow(unused_braces)]
//! C09 (Argon2), C11 (fresh randomness), C12 (KDF), C16 (byte / serde
//! encodings).

use dryoc::classic::crypto_kdf::crypto_kdf_derive_from_key;
use dryoc::classic::crypto_pwhash::{crypto_pwhash, crypto_pwhash_str, PasswordHashAlgorithm};
use dryoc::types::{Bytes, NewByteArray, StackByteArray};

use crate::so;
use crate::util::*;

// ======================================================================
// C09
// ======================================================================

/// alg (1 = argon2i13, 2 = argon2id13), outlen, pw, salt (16), ops, mem (bytes)
fn pwhash(i: &Input) -> Outcome {
    let alg = i.num("alg");
    let (outlen, ops, mem) = (i.num("outlen") as usize, i.num("ops"), i.num("mem") as usize);
    let (pw, salt) = (i.get("pw"), i.arr::<16>("salt"));
    let (dalg, salg) = match alg {
        1 => (PasswordHashAlgorithm::Argon2i13, so::ALG_ARGON2I13),
        2 => (PasswordHashAlgorithm::Argon2id13, so::ALG_ARGON2ID13),
        _ => panic!("{} alg must be 1 or 2", HARNESS),
    };
    let want = so::pwhash(outlen, pw, &salt, ops, mem, salg);
    let mut out = vec![0u8; outlen];
    let r = crypto_pwhash(&mut out, pw, &salt, ops, mem, dalg);
    match want {
        Some(w) => {
            must_ok(r, "crypto_pwhash")?;
            eq("crypto_pwhash output", &w, &out)
        }
        None => must_err(r, "crypto_pwhash (parameters libsodium rejects)"),
    }
}

/// Argon2i with fewer passes than libsodium's high-level API admits (dryoc accepts t = 1, 2): whatever dryoc returns as Ok
/// must be RFC 9106 for exactly the requested pass count (oracle: libsodium's Argon2 core)
fn pwhash_low_passes(i: &Input) -> Outcome {
    let alg = i.num("alg");
    let (outlen, ops, mem) = (i.num("outlen") as usize, i.num("ops"), i.num("mem") as usize);
    let (pw, salt) = (i.get("pw"), i.arr::<16>("salt"));
    let (dalg, salg) = match alg {
        1 => (PasswordHashAlgorithm::Argon2i13, so::ALG_ARGON2I13),
        _ => (PasswordHashAlgorithm::Argon2id13, so::ALG_ARGON2ID13),
    };
    let mut out = vec![0u8; outlen];
    if crypto_pwhash(&mut out, pw, &salt, ops, mem, dalg).is_err() {
        return Ok(());
    }
    match so::argon2_core(outlen, pw, &salt, ops as u32, (mem / 1024) as u32, salg) {
        Some(w) => eq("crypto_pwhash output (vs libsodium's Argon2 core)", &w, &out),
        None => Ok(()),
    }
}

/// Object API: hash_with_salt equals libsodium, verify accepts the password
/// and rejects another one.
fn pwhash_object(i: &Input) -> Outcome {
    use dryoc::pwhash::{Config, VecPwHash};
    let (outlen, ops, mem) = (i.num("outlen") as usize, i.num("ops"), i.num("mem") as usize);
    let (pw, salt) = (i.get("pw").to_vec(), i.arr::<16>("salt"));
    let want = match so::pwhash(outlen, &pw, &salt, ops, mem, so::ALG_ARGON2ID13) {
        Some(w) => w,
        None => panic!("{} pwhash_object needs valid parameters", HARNESS),
    };
    let cfg = Config::interactive()
        .with_opslimit(ops)
        .with_memlimit(mem)
        .with_hash_length(outlen)
        .with_salt_length(16);
    let h = must_ok(VecPwHash::hash_with_salt(&pw, salt.to_vec(), cfg), "PwHash::hash_with_salt")?;
    let (hash, _, _) = h.clone().into_parts();
    eq("PwHash::hash_with_salt hash", &want, &hash)?;
    must_ok(h.verify(&pw), "PwHash::verify(correct password)")?;
    let mut other = pw.clone();
    other.push(b'x');
    must_err(h.verify(&other), "PwHash::verify(wrong password)")
}

fn argon2id_string(mem: usize, ops: u64, salt: &[u8], hash: &[u8]) -> String {
    use base64::Engine as _;
    let b64 = base64::engine::general_purpose::STANDARD_NO_PAD;
    format!("$argon2id$v=19$m={},t={},p=1${}${}", mem / 1024, ops, b64.encode(salt), b64.encode(hash))
}

/// Object API with a caller-supplied salt of ANY length (in particular longer than Config::salt_length, which only
/// sizes the salt that `hash()` draws): outlen, pw, salt, salt_length (the Config value), ops, mem.
/// Oracle: libsodium's Argon2 through crypto_pwhash_str_verify of the encoded (parameters, full salt, hash) -- its
/// decoder accepts any salt length; for 16-byte salts crypto_pwhash itself as well.
fn pwhash_object_any_salt(i: &Input) -> Outcome {
    use dryoc::pwhash::{Config, VecPwHash};
    let (outlen, ops, mem) = (i.num("outlen") as usize, i.num("ops"), i.num("mem") as usize);
    let (pw, salt, salt_length) = (i.get("pw").to_vec(), i.get("salt").to_vec(), i.num("salt_length") as usize);
    if salt.len() < 8 || outlen < 16 {
        panic!("{} libsodium's Argon2 needs salt >= 8 bytes and output >= 16 bytes", HARNESS);
    }
    let mut other = pw.clone();
    other.push(b'x');
    let cfg = || {
        Config::interactive()
            .with_opslimit(ops)
            .with_memlimit(mem)
            .with_hash_length(outlen)
            .with_salt_length(salt_length)
    };
    let h = must_ok(VecPwHash::hash_with_salt(&pw, salt.clone(), cfg()), "PwHash::hash_with_salt")?;
    let (hash, stored_salt, _) = h.clone().into_parts();
    eq("salt stored by PwHash::hash_with_salt", &salt, &stored_salt)?;
    if hash.len() != outlen {
        return fail(outlen.to_string(), hash.len().to_string(), "PwHash::hash_with_salt hash length");
    }
    let encoded = argon2id_string(mem, ops, &salt, &hash);
    if so::pwhash_str_verify(&encoded, &other) {
        panic!("{} libsodium verifies {} for a wrong password", HARNESS, encoded);
    }
    if !so::pwhash_str_verify(&encoded, &pw) {
        return fail(
            format!("Argon2id(pw, the {}-byte salt, t={}, m={} KiB, {} bytes)", salt.len(), ops, mem / 1024, outlen),
            hex(&hash),
            format!(
                "PwHash::hash_with_salt (Config::salt_length {}): libsodium's Argon2 does not reproduce this hash from the full salt ({})",
                salt_length, encoded
            ),
        );
    }
    if salt.len() == 16 {
        let s16: [u8; 16] = salt[..].try_into().unwrap();
        if let Some(w) = so::pwhash(outlen, &pw, &s16, ops, mem, so::ALG_ARGON2ID13) {
            eq("PwHash::hash_with_salt hash vs libsodium crypto_pwhash", &w, &hash)?;
        }
    }
    must_ok(h.verify(&pw), "PwHash::verify(correct password)")?;
    must_err(h.verify(&other), "PwHash::verify(wrong password)")?;

    // a hash made elsewhere (classic crypto_pwhash over the full salt, confirmed by libsodium) verifies through the
    // object API, and the one of a different salt with the same first Config::salt_length bytes does not
    let mut foreign = vec![0u8; outlen];
    must_ok(
        crypto_pwhash(&mut foreign, &pw, &salt, ops, mem, PasswordHashAlgorithm::Argon2id13),
        "crypto_pwhash (same parameters, full salt)",
    )?;
    if !so::pwhash_str_verify(&argon2id_string(mem, ops, &salt, &foreign), &pw) {
        return fail(
            "Argon2id of the full salt",
            hex(&foreign),
            format!("crypto_pwhash with a {}-byte salt: libsodium's Argon2 does not reproduce this hash", salt.len()),
        );
    }
    must_ok(
        VecPwHash::from_parts(foreign.clone(), salt.clone(), cfg()).verify(&pw),
        "PwHash::verify of a hash computed by crypto_pwhash over the same (full) salt",
    )?;
    if salt.len() > 8 {
        let mut salt2 = salt.clone();
        let last = salt2.len() - 1;
        salt2[last] ^= 0x01;
        let r = VecPwHash::from_parts(foreign, salt2.clone(), cfg()).verify(&pw);
        if r.is_ok() {
            return fail(
                "Err",
                "Ok",
                format!(
                    "PwHash::verify accepts the hash of salt {} for the different salt {} (they differ in the last byte)",
                    hex(&salt),
                    hex(&salt2)
                ),
            );
        }
    }
    Ok(())
}

/// Object API on limits of any size: outlen, pw, salt (16), ops, mem.  When libsodium's crypto_pwhash (Argon2id) refuses
/// the limits, PwHash::hash_with_salt / verify / derive_keypair must refuse them as well -- in particular limits above the
/// 32-bit Argon2 parameters are not reduced modulo 2^32; otherwise the hash is libsodium's.
fn pwhash_object_limits(i: &Input) -> Outcome {
    use dryoc::pwhash::{Config, VecPwHash};
    let (outlen, ops, mem) = (i.num("outlen") as usize, i.num("ops"), i.num("mem") as usize);
    let (pw, salt) = (i.get("pw").to_vec(), i.arr::<16>("salt"));
    // what a 32-bit truncation would hash with: keep a defective tree cheap (the generator only uses such limits)
    let (t32, m32) = (ops & 0xffff_ffff, ((mem as u64 / 1024) & 0xffff_ffff) * 1024);
    if t32 > 16 || m32 > (64 << 20) {
        panic!("{} pwhash_object_limits: the low 32 bits of the costs must be small (t <= 16, m <= 64 MiB)", HARNESS);
    }
    let cfg = || Config::interactive().with_opslimit(ops).with_memlimit(mem).with_hash_length(outlen).with_salt_length(16);
    let r = VecPwHash::hash_with_salt(&pw, salt.to_vec(), cfg());
    match so::pwhash(outlen, &pw, &salt, ops, mem, so::ALG_ARGON2ID13) {
        Some(w) => {
            let h = must_ok(r, "PwHash::hash_with_salt")?;
            let (hash, _, _) = h.clone().into_parts();
            eq("PwHash::hash_with_salt hash", &w, &hash)?;
            must_ok(h.verify(&pw), "PwHash::verify(correct password)")
        }
        None => {
            let what = format!("(opslimit {}, memlimit {}: limits libsodium's crypto_pwhash refuses)", ops, mem);
            must_err(r, &format!("PwHash::hash_with_salt {}", what))?;
            // the hash of the truncated costs (if those are valid) stored under the out-of-range configuration
            let stored = so::pwhash(outlen, &pw, &salt, t32, m32 as usize, so::ALG_ARGON2ID13).unwrap_or_else(|| vec![0u8; outlen]);
            must_err(
                VecPwHash::from_parts(stored, salt.to_vec(), cfg()).verify(&pw),
                &format!("PwHash::verify of a hash stored with an out-of-range configuration {}", what),
            )?;
            let kp: Result<dryoc::keypair::StackKeyPair, _> = VecPwHash::derive_keypair(&pw, salt.to_vec(), cfg());
            must_err(kp, &format!("PwHash::derive_keypair {}", what))
        }
    }
}

/// libsodium's presets (the oracle for `Config::interactive()` & co.): (opslimit, memlimit)
fn so_preset(preset: u64) -> (u64, u64) {
    use libsodium_sys as ffi;
    unsafe {
        match preset {
            0 | 1 => (ffi::crypto_pwhash_opslimit_interactive() as u64, ffi::crypto_pwhash_memlimit_interactive() as u64),
            2 => (ffi::crypto_pwhash_opslimit_moderate() as u64, ffi::crypto_pwhash_memlimit_moderate() as u64),
            3 => (ffi::crypto_pwhash_opslimit_sensitive() as u64, ffi::crypto_pwhash_memlimit_sensitive() as u64),
            _ => panic!("{} preset must be 0 (interactive), 1 (default), 2 (moderate) or 3 (sensitive)", HARNESS),
        }
    }
}

/// The four numeric fields of a Config as its serialised form shows them: [opslimit, memlimit, hash_length, salt_length].
fn config_view(c: &dryoc::pwhash::Config) -> [u64; 4] {
    let v = match serde_json::to_value(c) {
        Ok(v) => v,
        Err(e) => panic!("{} cannot serialise Config: {}", HARNESS, e),
    };
    let f = |name: &str| -> u64 {
        match v.get(name).and_then(|x| x.as_u64()) {
            Some(x) => x,
            None => panic!("{} serialised Config has no numeric field {}: {}", HARNESS, name, v),
        }
    };
    [f("opslimit"), f("memlimit"), f("hash_length"), f("salt_length")]
}

const CONFIG_FIELDS: [&str; 4] = ["opslimit", "memlimit", "hash_length", "salt_length"];

/// preset, steps (one byte per builder call: 0 with_opslimit, 1 with_memlimit, 2 with_hash_length, 3 with_salt_length),
/// ops, mem, outlen, salt_length [, pw, salt (16)]: a chain of builder calls on a preset, in ANY order.  Each `with_*` call
/// sets its own field and leaves the other three as they were (statement of the builder; the presets' limits are
/// libsodium's constants) -- checked after every step on the serialised Config, which costs nothing.  When the chain has set
/// all of opslimit, memlimit and hash_length (so that the costs are the small ones given) and `pw` is present,
/// `PwHash::hash_with_salt` equals libsodium's crypto_pwhash with the intended parameters and verifies.
fn pwhash_config_builder(i: &Input) -> Outcome {
    use dryoc::pwhash::{Config, VecPwHash};
    let (preset, steps) = (i.num("preset"), i.get("steps"));
    let vals = [i.num("ops"), i.num("mem"), i.num("outlen"), i.num("salt_length")];
    let (pname, mut cfg) = match preset {
        0 => ("Config::interactive()", Config::interactive()),
        1 => ("Config::default()", Config::default()),
        2 => ("Config::moderate()", Config::moderate()),
        _ => ("Config::sensitive()", Config::sensitive()),
    };
    let (pops, pmem) = so_preset(preset);
    // hash_length 32 = crypto_pwhash_STRBYTES' hash, salt_length = crypto_pwhash_SALTBYTES
    let mut model: [u64; 4] = [pops, pmem, 32, unsafe { libsodium_sys::crypto_pwhash_saltbytes() } as u64];
    let mut chain = pname.to_string();
    let compare = |chain: &str, model: &[u64; 4], cfg: &Config| -> Outcome {
        let got = config_view(cfg);
        for k in 0..4 {
            if got[k] != model[k] {
                return fail(
                    format!("{} = {}", CONFIG_FIELDS[k], model[k]),
                    format!("{} = {}", CONFIG_FIELDS[k], got[k]),
                    format!(
                        "{}: the configuration is (opslimit {}, memlimit {}, hash_length {}, salt_length {}), the builder calls say ({}, {}, {}, {})",
                        chain, got[0], got[1], got[2], got[3], model[0], model[1], model[2], model[3]
                    ),
                );
            }
        }
        Ok(())
    };
    compare(&chain, &model, &cfg)?;
    for st in steps {
        let k = *st as usize;
        if k > 3 {
            panic!("{} builder step must be 0..=3", HARNESS);
        }
        cfg = match k {
            0 => cfg.with_opslimit(vals[0]),
            1 => cfg.with_memlimit(vals[1] as usize),
            2 => cfg.with_hash_length(vals[2] as usize),
            _ => cfg.with_salt_length(vals[3] as usize),
        };
        model[k] = vals[k];
        chain = format!("{}.with_{}({})", chain, CONFIG_FIELDS[k], vals[k]);
        compare(&chain, &model, &cfg)?;
    }
    if !i.has("pw") {
        return Ok(());
    }
    if ![0u8, 1, 2].iter().all(|k| steps.contains(k)) || vals[0] > 4 || vals[1] > (1 << 26) {
        panic!("{} hashing needs a chain that sets opslimit (<= 4), memlimit (<= 64 MiB) and hash_length", HARNESS);
    }
    let (pw, salt) = (i.get("pw").to_vec(), i.arr::<16>("salt"));
    let want = match so::pwhash(vals[2] as usize, &pw, &salt, vals[0], vals[1] as usize, so::ALG_ARGON2ID13) {
        Some(w) => w,
        None => panic!("{} libsodium refuses the parameters", HARNESS),
    };
    let h = must_ok(VecPwHash::hash_with_salt(&pw, salt.to_vec(), cfg.clone()), &format!("PwHash::hash_with_salt(.., {})", chain))?;
    let (hash, _, _) = h.clone().into_parts();
    if hash != want {
        return fail(hex(&want), hex(&hash), format!("PwHash::hash_with_salt(.., {}) vs libsodium crypto_pwhash(outlen {}, opslimit {}, memlimit {})", chain, vals[2], vals[0], vals[1]));
    }
    must_ok(h.verify(&pw), &format!("PwHash::verify(correct password), {}", chain))?;
    // a hash made by libsodium with the intended parameters, stored under the built configuration
    must_ok(
        VecPwHash::from_parts(want, salt.to_vec(), cfg).verify(&pw),
        &format!("PwHash::from_parts(libsodium's hash, salt, {}).verify(correct password)", chain),
    )
}

pub const C09: Registry = &[
    ("pwhash", pwhash),
    ("pwhash_low_passes", pwhash_low_passes),
    // memory sizes whose segment length (m/4 blocks) is above 128 and not a multiple of 128: the data-independent
    // addressing of Argon2i / Argon2id (pass 0, slices 0-1) uses a partly filled last address block
    ("pwhash_partial_address_block", pwhash),
    ("pwhash_object_partial_address_block", pwhash_object),
    // limits above the maxima whose low 32 bits are valid costs
    ("pwhash_out_of_range_low_bits_valid", pwhash),
    ("pwhash_object_out_of_range", pwhash_object_limits),
    ("pwhash_out_of_range", pwhash),
    ("pwhash_object", pwhash_object),
    ("pwhash_object_salt_length", pwhash_object_any_salt),
    ("pwhash_config_builder", pwhash_config_builder),
];

pub fn c09(ctx: &mut Ctx) -> Search {
    let t = ctx.thorough;
    // (segment length = m/4 blocks: above 128 the Argon2i address blocks are generated several times per segment, so sizes
    //  with m/4 > 128 and not a multiple of 128 are in both tiers)
    let mut mems_kib: Vec<u64> = vec![8, 9, 10, 11, 12, 13, 15, 16, 17, 31, 32, 33, 63, 64, 1000, 1500, 2600];
    if t {
        mems_kib.extend_from_slice(&[65, 100, 127, 128, 129, 255, 256, 1000, 1024, 1025, 4096]);
    }
    let outlens: [u64; 10] = [16, 31, 32, 33, 63, 64, 65, 96, 97, 128];
    let pwlens: [usize; 4] = [0, 1, 7, 33];
    let mk = |alg: u64, outlen: u64, pw: &[u8], salt: &[u8], ops: u64, mem: u64| {
        Input::new()
            .u("alg", alg)
            .u("outlen", outlen)
            .b("pw", pw)
            .b("salt", salt)
            .u("ops", ops)
            .u("mem", mem)
    };
    for (mi, m) in mems_kib.iter().enumerate() {
        for ops in 1..=4u64 {
            for (oi, outlen) in outlens.iter().enumerate() {
                for (pi, pwlen) in pwlens.iter().enumerate() {
                    // quick tier: a covering subset of the cross product
                    if !t && (mi + ops as usize + oi + pi) % 4 != 0 {
                        continue;
                    }
                    let pw = ctx.rng.bytes(*pwlen);
                    let salt = ctx.rng.arr::<16>();
                    ctx.run("pwhash", mk(2, *outlen, &pw, &salt, ops, m * 1024))?;
                    // libsodium only accepts Argon2i with at least 3 passes
                    if ops >= 3 {
                        ctx.run("pwhash", mk(1, *outlen, &pw, &salt, ops, m * 1024))?;
                    } else {
                        ctx.run("pwhash_low_passes", mk(1, *outlen, &pw, &salt, ops, m * 1024))?;
                    }
                }
            }
        }
        // memlimit that is not a multiple of 1 KiB
        let salt = ctx.rng.arr::<16>();
        ctx.run("pwhash", mk(2, 32, b"password", &salt, 2, m * 1024 + 1))?;
        ctx.run("pwhash", mk(2, 32, b"password", &salt, 2, m * 1024 + 1023))?;
        ctx.run("pwhash", mk(1, 32, b"password", &salt, 3, m * 1024 + 512))?;
    }
    // longer outputs and passwords
    // (beyond 2^16: a digest length taken from a truncated copy of the output length shows only there)
    let big: Vec<u64> = if t { vec![129, 160, 161, 255, 256, 257, 511, 512, 513, 1024, 1100, 65535, 65536, 65552, 65599, 131072 + 33] } else { vec![129, 160, 161, 256, 1024, 65552] };
    for outlen in big {
        let pw = ctx.rng.bytes((outlen % 300) as usize);
        let salt = ctx.rng.arr::<16>();
        ctx.run("pwhash", mk(2, outlen, &pw, &salt, 1, 8192))?;
        ctx.run("pwhash", mk(1, outlen, &pw, &salt, 3, 9 * 1024))?;
    }
    // segment length m/4 > 128 and not a multiple of 128 (129, 130, 250, 255, 257, 300, 449, 513 blocks), Argon2id with
    // 1 and 2 passes, Argon2i with 3 (libsodium's minimum)
    {
        // (own generator state: the inputs of the other cases stay what they were)
        let mut rng2 = ctx.rng.clone();
        let mut sizes: Vec<u64> = vec![516, 520, 1000, 1023, 1028, 1200, 1799, 2052];
        if t {
            sizes.extend_from_slice(&[515, 519, 640, 1020, 1027, 1536 + 4, 3000, 4100, 5000, 10001]);
        }
        for (j, m) in sizes.iter().enumerate() {
            let (pw, salt) = (rng2.bytes(j % 9), rng2.arr::<16>());
            let outlen = [32u64, 16, 64, 33][j % 4];
            ctx.run("pwhash_partial_address_block", mk(2, outlen, &pw, &salt, 1, m * 1024))?;
            ctx.run("pwhash_partial_address_block", mk(2, outlen, &pw, &salt, 2, m * 1024 + 1023))?;
            ctx.run("pwhash_partial_address_block", mk(1, outlen, &pw, &salt, 3, m * 1024))?;
            if t {
                ctx.run("pwhash_partial_address_block", mk(1, outlen, &pw, &salt, 4, m * 1024))?;
                ctx.run("pwhash_partial_address_block", mk(2, outlen, &pw, &salt, 3, m * 1024))?;
            }
            if t || j % 3 == 0 {
                ctx.run(
                    "pwhash_object_partial_address_block",
                    Input::new().u("outlen", outlen).b("pw", &pw).b("salt", &salt).u("ops", 1).u("mem", m * 1024),
                )?;
            }
        }
        // limits above the maxima whose low 32 bits are valid (and tiny) costs: refused by libsodium, not to be hashed with
        // the truncated costs.  (Before the list below, which contains limits that truncate to 2^32 - 1 passes.)
        let salt = rng2.arr::<16>();
        let kib = |k: u64| k * 1024;
        let over: Vec<(u64, u64)> = vec![
            // (ops, mem)
            ((1u64 << 32) + 1, 8192),
            ((1u64 << 32) + 3, kib(16)),
            ((5u64 << 32) + 2, 8192),
            ((1u64 << 63) + 4, kib(9)),
            (1, kib((1u64 << 32) + 8)),
            (3, kib((1u64 << 32) + 37) + 5),
            (2, kib((3u64 << 32) + 64)),
            (3, (1u64 << 63) + kib(8)),
            ((1u64 << 32) + 3, kib((1u64 << 32) + 8)),
            // controls: the maxima themselves are not used (2^32 - 1 passes / 4 TiB); just above the minimum
            (1, 8192),
            (3, kib(8) + 1023),
        ];
        for (ops, mem) in over {
            for alg in [2u64, 1] {
                // (Argon2i below libsodium's 3-pass minimum is not part of this class: only out-of-range limits and the
                // in-range controls libsodium accepts)
                if alg == 1 && ops < 3 {
                    continue;
                }
                ctx.run("pwhash_out_of_range_low_bits_valid", mk(alg, 32, b"pw", &salt, ops, mem))?;
            }
            ctx.run(
                "pwhash_object_out_of_range",
                Input::new().u("outlen", 32).b("pw", b"password").b("salt", &salt).u("ops", ops).u("mem", mem),
            )?;
        }
    }
    // out-of-range parameters: Err in both
    let salt = ctx.rng.arr::<16>();
    for alg in [1u64, 2] {
        let ok_ops = 3;
        for (outlen, ops, mem) in [
            (0u64, ok_ops, 8192u64),
            (1, ok_ops, 8192),
            (15, ok_ops, 8192),
            (32, 0, 8192),
            (32, 1u64 << 32, 8192),
            (32, u64::MAX, 8192),
            (32, ok_ops, 0),
            (32, ok_ops, 1),
            (32, ok_ops, 1024),
            (32, ok_ops, 8191),
            (32, ok_ops, 4398046510081),
            (32, ok_ops, u64::MAX),
        ] {
            ctx.run("pwhash_out_of_range", mk(alg, outlen, b"pw", &salt, ops, mem))?;
        }
    }
    // object API
    for (outlen, ops, mem) in [(32u64, 1u64, 8192u64), (16, 2, 9 * 1024), (64, 1, 16 * 1024), (97, 3, 11 * 1024)] {
        let pw = ctx.rng.bytes(9);
        let salt = ctx.rng.arr::<16>();
        ctx.run(
            "pwhash_object",
            Input::new().u("outlen", outlen).b("pw", &pw).b("salt", &salt).u("ops", ops).u("mem", mem),
        )?;
    }
    // builder chains on every preset, the calls in every order (own generator state)
    {
        let mut rng_b = Rng::new(0xB111D + t as u64);
        let orders: Vec<Vec<u8>> = {
            // all 24 orders of the four setters
            let mut v = Vec::new();
            for a in 0..4u8 {
                for b in 0..4u8 {
                    for c in 0..4u8 {
                        for d in 0..4u8 {
                            let o = [a, b, c, d];
                            if (0..4u8).all(|k| o.contains(&k)) {
                                v.push(o.to_vec());
                            }
                        }
                    }
                }
            }
            v
        };
        let params: [(u64, u64, u64, u64); 4] = [(1, 8192, 64, 16), (3, 65536, 16, 24), (2, 16 * 1024, 32, 8), (1, 9 * 1024, 33, 32)];
        // inspected only (nothing is hashed): single calls and partial chains on every preset, e.g. moderate().with_opslimit(1)
        for preset in 0..4u64 {
            let mut partial: Vec<Vec<u8>> = vec![vec![], vec![0], vec![1], vec![2], vec![3], vec![0, 0], vec![1, 0], vec![2, 0], vec![3, 0], vec![0, 1], vec![3, 2, 1], vec![1, 2, 3, 0, 1]];
            partial.extend(orders.iter().cloned());
            for (j, steps) in partial.iter().enumerate() {
                let (ops, mem, outlen, sl) = params[j % 4];
                ctx.run(
                    "pwhash_config_builder",
                    Input::new().u("preset", preset).b("steps", steps).u("ops", ops).u("mem", mem).u("outlen", outlen).u("salt_length", sl),
                )?;
            }
        }
        // hashed with the (small) costs the chain sets: every order (quick: a third of them per preset)
        for preset in 0..4u64 {
            for (j, steps) in orders.iter().enumerate() {
                if !t && (j + preset as usize) % 4 != 0 && steps[3] != 0 {
                    continue;
                }
                let (ops, mem, outlen, sl) = params[(j + preset as usize) % 4];
                let (pw, salt) = (rng_b.bytes(1 + j % 11), rng_b.arr::<16>());
                ctx.run(
                    "pwhash_config_builder",
                    Input::new()
                        .u("preset", preset)
                        .b("steps", steps)
                        .u("ops", ops)
                        .u("mem", mem)
                        .u("outlen", outlen)
                        .u("salt_length", sl)
                        .b("pw", &pw)
                        .b("salt", &salt),
                )?;
            }
        }
    }
    // object API, caller-supplied salts shorter / equal / longer than Config::salt_length (default 16)
    let mut shapes: Vec<(usize, u64, u64, u64, u64)> = vec![
        // (salt bytes, Config::salt_length, outlen, ops, mem)
        (16, 16, 32, 1, 8192),
        (17, 16, 32, 1, 8192),
        (24, 16, 32, 2, 9 * 1024),
        (32, 16, 64, 1, 8192),
        (64, 16, 32, 3, 8192),
        (40, 24, 32, 1, 8192),
        (8, 16, 16, 1, 8192),
        (12, 8, 32, 1, 12 * 1024),
        (33, 32, 33, 1, 8192),
    ];
    if t {
        for sl in [9usize, 15, 18, 20, 31, 48, 63, 65, 100, 128, 255] {
            shapes.push((sl, 16, 32, 1 + (sl as u64 % 3), 8192 + 1024 * (sl as u64 % 5)));
            shapes.push((sl, 8, 16 + sl as u64 % 50, 1, 8192));
        }
    }
    for (sl, cfg_sl, outlen, ops, mem) in shapes {
        let pw = ctx.rng.bytes(1 + sl % 11);
        let salt = ctx.rng.bytes(sl);
        ctx.run(
            "pwhash_object_salt_length",
            Input::new()
                .u("outlen", outlen)
                .b("pw", &pw)
                .b("salt", &salt)
                .u("salt_length", cfg_sl)
                .u("ops", ops)
                .u("mem", mem),
        )?;
    }
    Ok(())
}

// ======================================================================
// C11
// ======================================================================

/// No repeats, no all-zero value, no constant byte position.
pub(crate) fn fresh(what: &str, samples: &[Vec<u8>]) -> Outcome {
    let len = samples[0].len();
    if len == 0 || samples.iter().any(|s| s.len() != len) {
        return fail("equal non-zero lengths", "varying/zero lengths", format!("{}: bad sample lengths", what));
    }
    for (a, s) in samples.iter().enumerate() {
        if s.iter().all(|b| *b == 0) {
            return fail(
                "random bytes",
                hex(s),
                format!("{}: call #{} returned an all-zero value", what, a),
            );
        }
        for (b, s2) in samples.iter().enumerate().skip(a + 1) {
            if s == s2 {
                return fail(
                    "distinct values on every call",
                    hex(s),
                    format!("{}: calls #{} and #{} returned the same value", what, a, b),
                );
            }
        }
    }
    for pos in 0..len {
        let first = samples[0][pos];
        if samples.iter().all(|s| s[pos] == first) {
            return fail(
                "every byte position varies",
                format!("byte {} is always {:02x}", pos, first),
                format!("{}: byte position {} is constant over {} calls", what, pos, samples.len()),
            );
        }
    }
    Ok(())
}

fn collect(i: &Input, mut f: impl FnMut() -> Vec<u8>) -> Vec<Vec<u8>> {
    let n = i.num("n").max(2) as usize;
    (0..n).map(|_| f()).collect()
}

/// For entry points returning several values: check each component.
fn collect2(i: &Input, mut f: impl FnMut() -> (Vec<u8>, Vec<u8>)) -> (Vec<Vec<u8>>, Vec<Vec<u8>>) {
    let n = i.num("n").max(2) as usize;
    (0..n).map(|_| f()).unzip()
}

macro_rules! fresh1 {
    ($fname:ident, $what:expr, $body:expr) => {
        fn $fname(i: &Input) -> Outcome {
            fresh($what, &collect(i, || -> Vec<u8> { $body }))
        }
    };
}
macro_rules! fresh2 {
    ($fname:ident, $what:expr, $a:expr, $b:expr, $body:expr) => {
        fn $fname(i: &Input) -> Outcome {
            let (x, y) = collect2(i, || -> (Vec<u8>, Vec<u8>) { $body });
            fresh(concat!($what, " ", $a), &x)?;
            fresh(concat!($what, " ", $b), &y)
        }
    };
}

fresh1!(r_secretbox_keygen, "crypto_secretbox_keygen", {
    dryoc::classic::crypto_secretbox::crypto_secretbox_keygen().to_vec()
});
fresh1!(r_secretbox_keygen_inplace, "crypto_secretbox_keygen_inplace", {
    let mut k = [0u8; 32];
    dryoc::classic::crypto_secretbox::crypto_secretbox_keygen_inplace(&mut k);
    k.to_vec()
});
fresh2!(r_box_keypair, "crypto_box_keypair", "public key", "secret key", {
    let (pk, sk) = dryoc::classic::crypto_box::crypto_box_keypair();
    (pk.to_vec(), sk.to_vec())
});
fresh2!(r_box_keypair_inplace, "crypto_box_keypair_inplace", "public key", "secret key", {
    let (mut pk, mut sk) = ([0u8; 32], [0u8; 32]);
    dryoc::classic::crypto_box::crypto_box_keypair_inplace(&mut pk, &mut sk);
    (pk.to_vec(), sk.to_vec())
});
fresh2!(r_kx_keypair, "crypto_kx_keypair", "public key", "secret key", {
    let (pk, sk) = dryoc::classic::crypto_kx::crypto_kx_keypair();
    (pk.to_vec(), sk.to_vec())
});
fresh1!(r_kdf_keygen, "crypto_kdf_keygen", { dryoc::classic::crypto_kdf::crypto_kdf_keygen().to_vec() });
fresh1!(r_auth_keygen, "crypto_auth_keygen", { dryoc::classic::crypto_auth::crypto_auth_keygen().to_vec() });
fresh1!(r_onetimeauth_keygen, "crypto_onetimeauth_keygen", {
    dryoc::classic::crypto_onetimeauth::crypto_onetimeauth_keygen().to_vec()
});
fresh1!(r_generichash_keygen, "crypto_generichash_keygen", {
    dryoc::classic::crypto_generichash::crypto_generichash_keygen().to_vec()
});
fresh1!(r_shorthash_keygen, "crypto_shorthash_keygen", {
    dryoc::classic::crypto_shorthash::crypto_shorthash_keygen().to_vec()
});
fresh2!(r_sign_keypair, "crypto_sign_keypair", "public key", "secret key", {
    let (pk, sk) = dryoc::classic::crypto_sign::crypto_sign_keypair();
    (pk.to_vec(), sk.to_vec())
});
fresh1!(r_stream_keygen, "crypto_secretstream_xchacha20poly1305_keygen", {
    let mut k = [0u8; 32];
    dryoc::classic::crypto_secretstream_xchacha20poly1305::crypto_secretstream_xchacha20poly1305_keygen(&mut k);
    k.to_vec()
});
fresh1!(r_stream_header, "crypto_secretstream_xchacha20poly1305_init_push header", {
    use dryoc::classic::crypto_secretstream_xchacha20poly1305 as ss;
    let mut st = ss::State::new();
    let mut h = [0u8; 24];
    ss::crypto_secretstream_xchacha20poly1305_init_push(&mut st, &mut h, &[7u8; 32]);
    h.to_vec()
});
/// The C-style reuse of an output buffer: ONE header buffer handed to successive init_push calls, so from the second
/// call on it still holds the previous stream's header.  Every call must draw all 24 bytes again.
fn r_stream_header_reused_buffer(i: &Input) -> Outcome {
    use dryoc::classic::crypto_secretstream_xchacha20poly1305 as ss;
    let n = i.num("n").max(2) as usize;
    let mut h = [0u8; 24];
    let mut samples = Vec::new();
    for _ in 0..n {
        let mut st = ss::State::new();
        ss::crypto_secretstream_xchacha20poly1305_init_push(&mut st, &mut h, &[7u8; 32]);
        samples.push(h.to_vec());
    }
    fresh("crypto_secretstream_xchacha20poly1305_init_push header (header buffer reused across calls)", &samples)
}

/// The header buffer holds `fill` (one byte repeated, or 24 bytes) before every call.
fn r_stream_header_prefilled(i: &Input) -> Outcome {
    use dryoc::classic::crypto_secretstream_xchacha20poly1305 as ss;
    let n = i.num("n").max(2) as usize;
    let fill = i.get("fill");
    let mut pre = [0u8; 24];
    match fill.len() {
        1 => pre = [fill[0]; 24],
        24 => pre.copy_from_slice(fill),
        _ => panic!("{} fill must be 1 or 24 bytes", HARNESS),
    }
    let mut samples = Vec::new();
    for call in 0..n {
        let mut st = ss::State::new();
        let mut h = pre;
        ss::crypto_secretstream_xchacha20poly1305_init_push(&mut st, &mut h, &[7u8; 32]);
        if h == pre {
            return fail(
                "24 freshly drawn bytes",
                hex(&h),
                format!(
                    "crypto_secretstream_xchacha20poly1305_init_push (call #{}): the header is exactly what the caller's buffer held before the call -- nothing was drawn",
                    call
                ),
            );
        }
        samples.push(h.to_vec());
    }
    fresh("crypto_secretstream_xchacha20poly1305_init_push header (header buffer pre-filled by the caller)", &samples)
}

fresh1!(r_stream_header_object, "DryocStream::init_push header", {
    use dryoc::dryocstream::{DryocStream, Header, Key};
    let (_s, h): (_, Header) = DryocStream::init_push(&Key::from([7u8; 32]));
    h.to_vec()
});
fresh1!(r_seal_epk, "crypto_box_seal ephemeral public key", {
    let pk = so::scalarmult_base(&[9u8; 32]);
    let mut c = vec![0u8; 48 + 3];
    dryoc::classic::crypto_box::crypto_box_seal(&mut c, b"abc", &pk).expect("seal");
    c[..32].to_vec()
});
fresh1!(r_seal_epk_object, "DryocBox::seal ephemeral public key", {
    use dryoc::dryocbox::{PublicKey, VecBox};
    let pk = PublicKey::from(so::scalarmult_base(&[9u8; 32]));
    let b = VecBox::seal_to_vecbox(&b"abc"[..], &pk).expect("seal");
    b.to_vec()[..32].to_vec()
});
fresh1!(r_obj_secretbox_key, "dryocsecretbox::Key::gen", { dryoc::dryocsecretbox::Key::gen().to_vec() });
fresh1!(r_obj_secretbox_nonce, "dryocsecretbox::Nonce::gen", { dryoc::dryocsecretbox::Nonce::gen().to_vec() });
fresh1!(r_obj_box_nonce, "dryocbox::Nonce::gen", { dryoc::dryocbox::Nonce::gen().to_vec() });
fresh2!(r_obj_box_keypair, "dryocbox::KeyPair::gen", "public key", "secret key", {
    let kp = dryoc::dryocbox::KeyPair::gen();
    (kp.public_key.to_vec(), kp.secret_key.to_vec())
});
fresh1!(r_obj_stream_key, "dryocstream::Key::gen", { dryoc::dryocstream::Key::gen().to_vec() });
fresh2!(r_obj_kdf, "kdf::Kdf::gen", "main key", "context", {
    let (k, c) = dryoc::kdf::StackKdf::gen().into_parts();
    (k.to_vec(), c.to_vec())
});
fresh2!(r_obj_sign_keypair, "sign::SigningKeyPair::gen", "public key", "secret key", {
    let kp = dryoc::sign::SigningKeyPair::gen_with_defaults();
    (kp.public_key.to_vec(), kp.secret_key.to_vec())
});
fresh1!(r_obj_auth_key, "auth::Key::gen", { dryoc::auth::Key::gen().to_vec() });
fresh1!(r_obj_onetimeauth_key, "onetimeauth::Key::gen", { dryoc::onetimeauth::Key::gen().to_vec() });
fresh1!(r_obj_generichash_key, "generichash::Key::gen", { dryoc::generichash::Key::gen().to_vec() });
fresh1!(r_vec_gen, "<Vec<u8> as NewByteArray<32>>::gen", { <Vec<u8> as NewByteArray<32>>::gen() });
fresh1!(r_array_gen, "<[u8; 24] as NewByteArray<24>>::gen", { <[u8; 24] as NewByteArray<24>>::gen().to_vec() });
fresh1!(r_randombytes_buf, "rng::randombytes_buf", { dryoc::rng::randombytes_buf(32) });
// lengths well beyond any key size, not multiples of a power of two: every byte position must vary
fresh1!(r_randombytes_buf_long, "rng::randombytes_buf(777)", { dryoc::rng::randombytes_buf(777) });
fresh1!(r_copy_randombytes_long, "rng::copy_randombytes(1031 bytes)", {
    let mut v = vec![0u8; 1031];
    dryoc::rng::copy_randombytes(&mut v);
    v
});
fresh1!(r_copy_randombytes, "rng::copy_randombytes", {
    let mut b = vec![0u8; 32];
    dryoc::rng::copy_randombytes(&mut b);
    b
});
fresh2!(r_pwhash_salt, "PwHash::hash", "salt", "hash", {
    use dryoc::pwhash::{Config, VecPwHash};
    let cfg = Config::interactive().with_opslimit(1).with_memlimit(8192);
    let h = VecPwHash::hash(&b"password".to_vec(), cfg).expect("hash");
    let (hash, salt, _) = h.into_parts();
    (salt, hash)
});

// non-default salt lengths: the whole salt must be random, not only its first 16 bytes
macro_rules! pwhash_salt_len {
    ($fname:ident, $what:expr, $len:expr) => {
        fresh2!($fname, $what, "salt", "hash", {
            use dryoc::pwhash::{Config, VecPwHash};
            let cfg = Config::interactive().with_opslimit(1).with_memlimit(8192).with_salt_length($len);
            let h = VecPwHash::hash(&b"password".to_vec(), cfg).expect("hash");
            let (hash, salt, _) = h.into_parts();
            if salt.len() != $len {
                panic!("{} PwHash::hash returned a {}-byte salt for salt_length {}", HARNESS, salt.len(), $len);
            }
            (salt, hash)
        });
    };
}
pwhash_salt_len!(r_pwhash_salt_17, "PwHash::hash (salt_length 17)", 17);
pwhash_salt_len!(r_pwhash_salt_32, "PwHash::hash (salt_length 32)", 32);
pwhash_salt_len!(r_pwhash_salt_64, "PwHash::hash (salt_length 64)", 64);
pwhash_salt_len!(r_pwhash_salt_8, "PwHash::hash (salt_length 8)", 8);

/// `$argon2id$v=19$m=..,t=..,p=..$<salt>$<hash>` -> salt bytes
fn salt_of(s: &str) -> Option<Vec<u8>> {
    use base64::Engine as _;
    let parts: Vec<&str> = s.split('$').collect();
    if parts.len() != 6 || !parts[0].is_empty() || !parts[1].starts_with("argon2") {
        return None;
    }
    base64::engine::general_purpose::STANDARD_NO_PAD.decode(parts[4]).ok()
}

fn r_pwhash_str_salt(i: &Input) -> Outcome {
    let n = i.num("n").max(2) as usize;
    let mut salts = Vec::new();
    let mut strings = Vec::new();
    for _ in 0..n {
        let s = must_ok(crypto_pwhash_str(b"password", 1, 8192), "crypto_pwhash_str")?;
        match salt_of(&s) {
            Some(salt) => salts.push(salt),
            None => return fail("$argon2id$v=19$m=..$salt$hash", s, "cannot parse crypto_pwhash_str output"),
        }
        strings.push(s);
    }
    fresh("salt inside crypto_pwhash_str output", &salts).map_err(|mut f| {
        f.detail = format!("{} (e.g. {})", f.detail, strings[0]);
        f
    })
}

pub const C11: Registry = &[
    ("secretbox_keygen", r_secretbox_keygen),
    ("secretbox_keygen_inplace", r_secretbox_keygen_inplace),
    ("box_keypair", r_box_keypair),
    ("box_keypair_inplace", r_box_keypair_inplace),
    ("kx_keypair", r_kx_keypair),
    ("kdf_keygen", r_kdf_keygen),
    ("auth_keygen", r_auth_keygen),
    ("onetimeauth_keygen", r_onetimeauth_keygen),
    ("generichash_keygen", r_generichash_keygen),
    ("shorthash_keygen", r_shorthash_keygen),
    ("sign_keypair", r_sign_keypair),
    ("secretstream_keygen", r_stream_keygen),
    ("secretstream_init_push_header", r_stream_header),
    ("secretstream_init_push_header_reused_buffer", r_stream_header_reused_buffer),
    ("secretstream_init_push_header_prefilled_buffer", r_stream_header_prefilled),
    ("dryocstream_init_push_header", r_stream_header_object),
    ("box_seal_ephemeral_key", r_seal_epk),
    ("dryocbox_seal_ephemeral_key", r_seal_epk_object),
    ("dryocsecretbox_key_gen", r_obj_secretbox_key),
    ("dryocsecretbox_nonce_gen", r_obj_secretbox_nonce),
    ("dryocbox_nonce_gen", r_obj_box_nonce),
    ("dryocbox_keypair_gen", r_obj_box_keypair),
    ("dryocstream_key_gen", r_obj_stream_key),
    ("kdf_gen", r_obj_kdf),
    ("signingkeypair_gen", r_obj_sign_keypair),
    ("auth_key_gen", r_obj_auth_key),
    ("onetimeauth_key_gen", r_obj_onetimeauth_key),
    ("generichash_key_gen", r_obj_generichash_key),
    ("vec_gen", r_vec_gen),
    ("array_gen", r_array_gen),
    ("randombytes_buf", r_randombytes_buf),
    ("randombytes_buf_long", r_randombytes_buf_long),
    ("copy_randombytes_long", r_copy_randombytes_long),
    ("copy_randombytes", r_copy_randombytes),
    ("pwhash_salt", r_pwhash_salt),
    ("pwhash_salt_length_17", r_pwhash_salt_17),
    ("pwhash_salt_length_32", r_pwhash_salt_32),
    ("pwhash_salt_length_64", r_pwhash_salt_64),
    ("pwhash_salt_length_8", r_pwhash_salt_8),
    ("pwhash_str_salt", r_pwhash_str_salt),
];

/// Cases that take more than `n`: run by the generator with their extra inputs.
pub const C11_EXTRA: &[&str] = &["secretstream_init_push_header_prefilled_buffer"];

pub fn c11(ctx: &mut Ctx) -> Search {
    let n = if ctx.thorough { 512 } else { 64 };
    for (name, _) in C11 {
        if C11_EXTRA.contains(name) {
            continue;
        }
        ctx.run(name, Input::new().u("n", n))?;
    }
    // caller's header buffer in every pre-call state: 0xff.., 0x01.., one non-zero byte, pseudo-random
    let mut one = [0u8; 24];
    one[23] = 0x80;
    let fills: Vec<Vec<u8>> = vec![vec![0xff], vec![0x01], vec![0x00], one.to_vec(), ctx.rng.bytes(24), ctx.rng.bytes(24)];
    for fill in fills {
        ctx.run("secretstream_init_push_header_prefilled_buffer", Input::new().u("n", n).b("fill", &fill))?;
    }
    Ok(())
}

// ======================================================================
// C12
// ======================================================================

fn kdf_derive(i: &Input) -> Outcome {
    let (len, id) = (i.num("len") as usize, i.num("id"));
    let (ctxb, key) = (i.arr::<8>("ctx"), i.arr::<32>("key"));
    let want = so::kdf_derive(len, id, &ctxb, &key);
    let mut out = vec![0u8; len];
    let r = crypto_kdf_derive_from_key(&mut out, id, &ctxb, &key);
    match want {
        Some(w) => {
            must_ok(r, "crypto_kdf_derive_from_key")?;
            eq(&format!("crypto_kdf_derive_from_key, {}-byte subkey", len), &w, &out)?;
        }
        None => return must_err(r, "crypto_kdf_derive_from_key (length libsodium rejects)"),
    }
    if len == 32 {
        use dryoc::kdf::{Context, Key, StackKdf};
        let kdf = StackKdf::from_parts(Key::from(key), Context::from(ctxb));
        let sub = must_ok(kdf.derive_subkey_to_vec(id), "Kdf::derive_subkey_to_vec")?;
        eq("Kdf::derive_subkey_to_vec", &out, &sub)?;
    }
    Ok(())
}

pub const C12: Registry = &[("kdf_derive", kdf_derive), ("kdf_bad_length", kdf_derive)];

pub fn c12(ctx: &mut Ctx) -> Search {
    let t = ctx.thorough;
    let ids: [u64; 7] = [0, 1, 2, 1 << 32, 1 << 63, u64::MAX - 1, u64::MAX];
    // (contexts are 8 arbitrary bytes, not C strings: zero bytes in front of / between non-zero bytes included)
    let mut contexts: Vec<[u8; 8]> = vec![*b"Examples", [0u8; 8], [0xffu8; 8], *b"ctx\0\0\0\0\0", [1, 0, 0, 0, 0, 0, 0, 2], [0, 0, 0, 0, 0, 0, 0, 1], [0, b'a', b'b', 0, b'c', 0, 0, b'd']];
    let rounds = if t { 8 } else { 1 };
    for _ in 0..rounds {
        contexts.push(ctx.rng.arr());
    }
    for c in &contexts {
        let key = ctx.rng.arr::<32>();
        for id in ids {
            for len in 16..=64u64 {
                ctx.run("kdf_derive", Input::new().u("len", len).u("id", id).b("ctx", c).b("key", &key))?;
            }
        }
        for len in (0..=15u64).chain(65..=80) {
            ctx.run("kdf_bad_length", Input::new().u("len", len).u("id", 1).b("ctx", c).b("key", &key))?;
        }
    }
    for key in [[0u8; 32], [0xffu8; 32]] {
        for len in [16u64, 32, 64] {
            ctx.run(
                "kdf_derive",
                Input::new().u("len", len).u("id", 7).b("ctx", b"Examples").b("key", &key),
            )?;
        }
    }
    Ok(())
}

// ======================================================================
// C16
// ======================================================================

fn secretbox_bytes(i: &Input) -> Outcome {
    use dryoc::dryocsecretbox::{Key, Nonce, VecBox};
    let (k, n, m) = (i.arr::<32>("k"), i.arr::<24>("n"), i.get("m"));
    let (key, nonce) = (Key::from(k), Nonce::from(n));
    let want = so::secretbox_easy(m, &n, &k);
    let b = VecBox::encrypt_to_vecbox(m, &nonce, &key);
    let wire = b.to_vec();
    eq("DryocSecretBox::to_vec vs libsodium combined layout", &want, &wire)?;
    let b2 = must_ok(VecBox::from_bytes(&wire), "DryocSecretBox::from_bytes")?;
    if b2 != b {
        return fail("equal box", "different box", "from_bytes(to_bytes(box)) != box");
    }
    eq("to_bytes after from_bytes", &wire, &b2.to_vec())?;
    let p = must_ok(b2.decrypt_to_vec(&nonce, &key), "decrypt after from_bytes")?;
    eq("decrypt after from_bytes", m, &p)?;
    let (tag, data) = b.clone().into_parts();
    let b3 = VecBox::from_parts(tag, data);
    if b3 != b {
        return fail("equal box", "different box", "from_parts(into_parts(box)) != box");
    }
    // serde, both formats
    let js = must_ok(serde_json::to_string(&b), "serde_json::to_string(DryocSecretBox)")?;
    let bj: VecBox = must_ok(serde_json::from_str(&js), "serde_json::from_str(DryocSecretBox)")?;
    if bj != b {
        return fail(hex(&wire), hex(&bj.to_vec()), "JSON round trip of DryocSecretBox changed the box");
    }
    let bin = must_ok(bincode::serialize(&b), "bincode::serialize(DryocSecretBox)")?;
    let bb: VecBox = must_ok(bincode::deserialize(&bin), "bincode::deserialize(DryocSecretBox)")?;
    if bb != b {
        return fail(hex(&wire), hex(&bb.to_vec()), "bincode round trip of DryocSecretBox changed the box");
    }
    let p = must_ok(bb.decrypt_to_vec(&nonce, &key), "decrypt after bincode round trip")?;
    eq("decrypt after bincode round trip", m, &p)
}

fn box_bytes(i: &Input) -> Outcome {
    use dryoc::dryocbox::{KeyPair, Nonce, PublicKey, SecretKey, VecBox};
    let (ska, skb, n, m) = (i.arr::<32>("ska"), i.arr::<32>("skb"), i.arr::<24>("n"), i.get("m"));
    let (pka, pkb) = (so::scalarmult_base(&ska), so::scalarmult_base(&skb));
    let want = so::box_easy(m, &n, &pkb, &ska).expect("honest keys");
    let nonce = Nonce::from(n);
    let b = must_ok(
        VecBox::encrypt_to_vecbox(m, &nonce, &PublicKey::from(pkb), &SecretKey::from(ska)),
        "DryocBox::encrypt",
    )?;
    let wire = b.to_vec();
    eq("DryocBox::to_vec vs libsodium combined layout", &want, &wire)?;
    let b2 = must_ok(VecBox::from_bytes(&wire), "DryocBox::from_bytes")?;
    if b2 != b {
        return fail("equal box", "different box", "from_bytes(to_bytes(box)) != box");
    }
    let p = must_ok(
        b2.decrypt_to_vec(&nonce, &PublicKey::from(pka), &SecretKey::from(skb)),
        "decrypt after from_bytes",
    )?;
    eq("decrypt after from_bytes", m, &p)?;
    let (tag, data, epk) = b.clone().into_parts();
    if VecBox::from_parts(tag, data, epk) != b {
        return fail("equal box", "different box", "from_parts(into_parts(box)) != box");
    }
    for (fmt, rt) in [
        ("JSON", serde_json::to_vec(&b).ok().and_then(|v| serde_json::from_slice::<VecBox>(&v).ok())),
        ("bincode", bincode::serialize(&b).ok().and_then(|v| bincode::deserialize::<VecBox>(&v).ok())),
    ] {
        match rt {
            Some(x) if x == b => {}
            Some(x) => return fail(hex(&wire), hex(&x.to_vec()), format!("{} round trip of DryocBox changed the box", fmt)),
            None => return fail("Ok", "Err", format!("{} round trip of DryocBox failed", fmt)),
        }
    }
    // sealed box: epk || mac || data
    let kp = KeyPair {
        public_key: PublicKey::from(pkb),
        secret_key: SecretKey::from(skb),
    };
    let s = must_ok(VecBox::seal_to_vecbox(m, &kp.public_key), "DryocBox::seal")?;
    let swire = s.to_vec();
    if swire.len() != m.len() + 48 {
        return fail((m.len() + 48).to_string(), swire.len().to_string(), "sealed box wire length");
    }
    let s2 = must_ok(VecBox::from_sealed_bytes(&swire), "DryocBox::from_sealed_bytes")?;
    if s2 != s {
        return fail("equal box", "different box", "from_sealed_bytes(to_bytes(sealed)) != sealed");
    }
    let p = must_ok(s2.unseal_to_vec(&kp), "unseal after from_sealed_bytes")?;
    eq("unseal after from_sealed_bytes", m, &p)?;
    match so::box_seal_open(&swire, &pkb, &skb) {
        Some(p) => eq("libsodium opens sealed wire format", m, &p)?,
        None => return fail("Ok", "Err", "libsodium rejects the sealed wire format"),
    }
    let sj: VecBox = must_ok(
        serde_json::from_str(&must_ok(serde_json::to_string(&s), "to_string(sealed)")?),
        "JSON round trip of sealed DryocBox",
    )?;
    if sj != s {
        return fail(hex(&swire), hex(&sj.to_vec()), "JSON round trip of sealed DryocBox changed the box");
    }
    // key pair serde
    let kj: KeyPair = must_ok(
        serde_json::from_str(&must_ok(serde_json::to_string(&kp), "to_string(KeyPair)")?),
        "JSON round trip of KeyPair",
    )?;
    eq("KeyPair JSON round trip public key", kp.public_key.as_slice(), kj.public_key.as_slice())?;
    eq("KeyPair JSON round trip secret key", kp.secret_key.as_slice(), kj.secret_key.as_slice())?;
    let kb: KeyPair = must_ok(
        bincode::deserialize(&must_ok(bincode::serialize(&kp), "serialize(KeyPair)")?),
        "bincode round trip of KeyPair",
    )?;
    eq("KeyPair bincode round trip public key", kp.public_key.as_slice(), kb.public_key.as_slice())?;
    eq("KeyPair bincode round trip secret key", kp.secret_key.as_slice(), kb.secret_key.as_slice())
}

fn signed_bytes(i: &Input) -> Outcome {
    use dryoc::sign::{PublicKey, SecretKey, SigningKeyPair, VecSignedMessage};
    let (seed, m) = (i.arr::<32>("seed"), i.get("m"));
    let (pk, sk) = so::sign_seed_keypair(&seed);
    let want = so::sign(m, &sk);
    let kp: SigningKeyPair<PublicKey, SecretKey> = SigningKeyPair::from_seed(&seed);
    let s = must_ok(kp.sign_with_defaults(m.to_vec()), "sign_with_defaults")?;
    let wire = s.to_vec();
    eq("SignedMessage::to_vec vs libsodium combined layout", &want, &wire)?;
    let s2 = must_ok(VecSignedMessage::from_bytes(&wire), "SignedMessage::from_bytes")?;
    if s2 != s {
        return fail("equal", "different", "from_bytes(to_bytes(signed)) != signed");
    }
    must_ok(s2.verify(&PublicKey::from(pk)), "verify after from_bytes")?;
    let (sig, msg) = s.clone().into_parts();
    if VecSignedMessage::from_parts(sig, msg) != s {
        return fail("equal", "different", "from_parts(into_parts(signed)) != signed");
    }
    let sj: VecSignedMessage = must_ok(
        serde_json::from_str(&must_ok(serde_json::to_string(&s), "to_string(SignedMessage)")?),
        "JSON round trip of SignedMessage",
    )?;
    if sj != s {
        return fail(hex(&wire), hex(&sj.to_vec()), "JSON round trip of SignedMessage changed it");
    }
    let sb: VecSignedMessage = must_ok(
        bincode::deserialize(&must_ok(bincode::serialize(&s), "serialize(SignedMessage)")?),
        "bincode round trip of SignedMessage",
    )?;
    if sb != s {
        return fail(hex(&wire), hex(&sb.to_vec()), "bincode round trip of SignedMessage changed it");
    }
    must_ok(sb.verify(&PublicKey::from(pk)), "verify after bincode round trip")
}

fn rt_array<const N: usize>(bytes: &[u8]) -> Outcome {
    let a = match StackByteArray::<N>::try_from(bytes) {
        Ok(a) => a,
        Err(_) => panic!("{} bytes must be {} long", HARNESS, N),
    };
    let js = must_ok(serde_json::to_string(&a), "serde_json::to_string(StackByteArray)")?;
    let aj: StackByteArray<N> = must_ok(serde_json::from_str(&js), "serde_json::from_str(StackByteArray)")?;
    eq(&format!("JSON round trip of StackByteArray<{}>", N), bytes, aj.as_slice())?;
    let bin = must_ok(bincode::serialize(&a), "bincode::serialize(StackByteArray)")?;
    let ab: StackByteArray<N> = must_ok(bincode::deserialize(&bin), "bincode::deserialize(StackByteArray)")?;
    eq(&format!("bincode round trip of StackByteArray<{}>", N), bytes, ab.as_slice())
}

/// bytes of length 8, 12, 16, 24, 32 or 64
fn array_serde_roundtrip(i: &Input) -> Outcome {
    let b = i.get("bytes");
    match b.len() {
        8 => rt_array::<8>(b),
        12 => rt_array::<12>(b),
        16 => rt_array::<16>(b),
        24 => rt_array::<24>(b),
        32 => rt_array::<32>(b),
        64 => rt_array::<64>(b),
        n => panic!("{} unsupported array length {}", HARNESS, n),
    }
}

fn json_seq(elems: &[u8]) -> String {
    format!("[{}]", elems.iter().map(|e| e.to_string()).collect::<Vec<_>>().join(","))
}

fn parse_json_array<const N: usize>(js: &str) -> Result<Vec<u8>, String> {
    serde_json::from_str::<StackByteArray<N>>(js).map(|a| a.to_vec()).map_err(|e| e.to_string())
}

fn parse_bincode_array<const N: usize>(bin: &[u8]) -> Result<Vec<u8>, String> {
    bincode::deserialize::<StackByteArray<N>>(bin).map(|a| a.to_vec()).map_err(|e| e.to_string())
}

fn fixed_len_verdict(what: &str, n: usize, elems: &[u8], r: Result<Vec<u8>, String>) -> Outcome {
    if elems.len() == n {
        match r {
            Ok(v) => eq(what, elems, &v),
            Err(e) => fail("Ok", format!("Err({})", e), format!("{}: correct element count rejected", what)),
        }
    } else {
        match r {
            Err(_) => Ok(()),
            Ok(v) => fail(
                "Err (wrong element count)",
                format!("Ok({})", hex(&v)),
                format!(
                    "{}: {} elements decoded into a {}-byte array ({}) instead of failing",
                    what,
                    elems.len(),
                    n,
                    if elems.len() < n { "zero padded" } else { "truncated" }
                ),
            ),
        }
    }
}

/// len (array length), elems (the encoded elements; any count)
fn json_seq_length(i: &Input) -> Outcome {
    let (n, elems) = (i.num("len") as usize, i.get("elems"));
    let js = json_seq(elems);
    let r = match n {
        16 => parse_json_array::<16>(&js),
        24 => parse_json_array::<24>(&js),
        32 => parse_json_array::<32>(&js),
        64 => parse_json_array::<64>(&js),
        _ => panic!("{} unsupported array length {}", HARNESS, n),
    };
    fixed_len_verdict(&format!("StackByteArray<{}> from a JSON sequence", n), n, elems, r)
}

/// same through bincode's length-prefixed byte string
fn bincode_bytes_length(i: &Input) -> Outcome {
    let (n, elems) = (i.num("len") as usize, i.get("elems"));
    let mut bin = (elems.len() as u64).to_le_bytes().to_vec();
    bin.extend_from_slice(elems);
    let r = match n {
        16 => parse_bincode_array::<16>(&bin),
        24 => parse_bincode_array::<24>(&bin),
        32 => parse_bincode_array::<32>(&bin),
        64 => parse_bincode_array::<64>(&bin),
        _ => panic!("{} unsupported array length {}", HARNESS, n),
    };
    fixed_len_verdict(&format!("StackByteArray<{}> from bincode bytes", n), n, elems, r)
}

/// A secret box whose JSON "tag" has the wrong number of elements.
fn json_box_tag_length(i: &Input) -> Outcome {
    use dryoc::dryocsecretbox::VecBox;
    let (tag, data) = (i.get("tag"), i.get("data"));
    let js = format!("{{\"tag\":{},\"data\":{}}}", json_seq(tag), json_seq(data));
    let r = serde_json::from_str::<VecBox>(&js)
        .map(|b| b.to_vec()[..16].to_vec())
        .map_err(|e| e.to_string());
    fixed_len_verdict("DryocSecretBox tag from a JSON sequence", 16, tag, r)
}

/// x (any length): every combined-encoding decoder, for every container instantiation reachable on stable, accepts exactly
/// the encodings that hold at least the fixed-length prefix, and re-encodes to the same bytes.
fn from_bytes_min_length(i: &Input) -> Outcome {
    use dryoc::types::StackByteArray;
    let x = i.get("x");
    fn judge(what: &str, min: usize, x: &[u8], r: Result<Vec<u8>, String>) -> Outcome {
        match (x.len() >= min, r) {
            (true, Ok(v)) => eq(&format!("{} then to_vec", what), x, &v),
            (true, Err(e)) => fail("Ok", format!("Err({})", e), format!("{}: a {}-byte encoding (minimum {}) was rejected", what, x.len(), min)),
            (false, Err(_)) => Ok(()),
            (false, Ok(v)) => fail(
                "Err (too short for the fixed-length prefix)",
                format!("Ok, re-encodes as {}", hex(&v)),
                format!("{}: a {}-byte encoding is shorter than the {}-byte fixed-length prefix but was accepted", what, x.len(), min),
            ),
        }
    }
    let e = |e: dryoc::Error| e.to_string();
    judge("DryocSecretBox<Mac, Vec<u8>>::from_bytes", 16, x,
        dryoc::dryocsecretbox::VecBox::from_bytes(x).map(|b| b.to_vec()).map_err(e))?;
    judge("DryocSecretBox<Vec<u8>, Vec<u8>>::from_bytes", 16, x,
        dryoc::dryocsecretbox::DryocSecretBox::<Vec<u8>, Vec<u8>>::from_bytes(x).map(|b| b.to_vec()).map_err(e))?;
    judge("DryocBox<PublicKey, Mac, Vec<u8>>::from_bytes", 16, x,
        dryoc::dryocbox::VecBox::from_bytes(x).map(|b| b.to_vec()).map_err(e))?;
    judge("DryocBox<StackByteArray<32>, Vec<u8>, Vec<u8>>::from_bytes", 16, x,
        dryoc::dryocbox::DryocBox::<StackByteArray<32>, Vec<u8>, Vec<u8>>::from_bytes(x).map(|b| b.to_vec()).map_err(e))?;
    judge("DryocBox<PublicKey, Mac, Vec<u8>>::from_sealed_bytes", 48, x,
        dryoc::dryocbox::VecBox::from_sealed_bytes(x).map(|b| b.to_vec()).map_err(e))?;
    judge("DryocBox<StackByteArray<32>, Vec<u8>, Vec<u8>>::from_sealed_bytes", 48, x,
        dryoc::dryocbox::DryocBox::<StackByteArray<32>, Vec<u8>, Vec<u8>>::from_sealed_bytes(x).map(|b| b.to_vec()).map_err(e))?;
    judge("SignedMessage<Signature, Vec<u8>>::from_bytes", 64, x,
        dryoc::sign::VecSignedMessage::from_bytes(x).map(|b| b.to_vec()).map_err(e))?;
    judge("SignedMessage<Vec<u8>, Vec<u8>>::from_bytes", 64, x,
        dryoc::sign::SignedMessage::<Vec<u8>, Vec<u8>>::from_bytes(x).map(|b| b.to_vec()).map_err(e))
}

/// len, elems: TryFrom<&[u8]> for fixed-length arrays and the from_slices constructors accept exactly `len` bytes.
fn slice_exact_length(i: &Input) -> Outcome {
    use dryoc::types::StackByteArray;
    let (n, elems) = (i.num("len") as usize, i.get("elems"));
    fn tf<const N: usize>(x: &[u8]) -> Result<Vec<u8>, String> {
        StackByteArray::<N>::try_from(x).map(|a| a.to_vec()).map_err(|e| e.to_string())
    }
    let r = match n {
        16 => tf::<16>(elems),
        24 => tf::<24>(elems),
        32 => tf::<32>(elems),
        64 => tf::<64>(elems),
        _ => panic!("{} unsupported array length {}", HARNESS, n),
    };
    fixed_len_verdict(&format!("StackByteArray<{}>::try_from(&[u8])", n), n, elems, r)?;
    if n == 32 {
        let good = [7u8; 32];
        let r = dryoc::keypair::StackKeyPair::from_slices(elems, &good).map(|k| k.public_key.to_vec()).map_err(|e| e.to_string());
        fixed_len_verdict("KeyPair::from_slices public key", 32, elems, r)?;
        let r = dryoc::keypair::StackKeyPair::from_slices(&good, elems).map(|k| k.secret_key.to_vec()).map_err(|e| e.to_string());
        fixed_len_verdict("KeyPair::from_slices secret key", 32, elems, r)?;
        // signing key pairs: the public key slice is length-checked and kept as given even with a well-formed 64-byte secret key
        let (spk, ssk) = so::sign_seed_keypair(&[9u8; 32]);
        let r = dryoc::sign::SigningKeyPair::<dryoc::sign::PublicKey, dryoc::sign::SecretKey>::from_slices(elems, &ssk)
            .map(|k| k.public_key.to_vec())
            .map_err(|e| e.to_string());
        fixed_len_verdict("SigningKeyPair::from_slices public key (with a genuine 64-byte secret key)", 32, elems, r)?;
        let _ = spk;
    }
    if n == 64 {
        let good = [7u8; 32];
        let r = dryoc::sign::SigningKeyPair::<dryoc::sign::PublicKey, dryoc::sign::SecretKey>::from_slices(&good, elems)
            .map(|k| k.secret_key.to_vec())
            .map_err(|e| e.to_string());
        fixed_len_verdict("SigningKeyPair::from_slices secret key", 64, elems, r)?;
    }
    Ok(())
}

/// sk_c, sk_s (kx secret keys): `Session::into_parts` returns (rx, tx) — the same keys as the rx/tx views and as libsodium's
/// crypto_kx_client_session_keys / crypto_kx_server_session_keys (rx first), and the other objects' parts round-trip.
fn kx_session_parts(i: &Input) -> Outcome {
    use dryoc::kx::{KeyPair, Session, SessionKey};
    let (sc, ss) = (i.arr::<32>("sk_c"), i.arr::<32>("sk_s"));
    let kc: KeyPair = KeyPair::from_secret_key(dryoc::kx::SecretKey::from(sc));
    let ks: KeyPair = KeyPair::from_secret_key(dryoc::kx::SecretKey::from(ss));
    let want = so::kx_client(dryoc::types::ByteArray::as_array(&kc.public_key), &sc, dryoc::types::ByteArray::as_array(&ks.public_key));
    let sess: Session<SessionKey> = must_ok(Session::new_client_with_defaults(&kc, &ks.public_key), "Session::new_client_with_defaults")?;
    let (rxv, txv) = (sess.rx_as_slice().to_vec(), sess.tx_as_slice().to_vec());
    let (rx, tx) = sess.into_parts();
    eq("Session::into_parts().0 vs rx_as_slice()", &rxv, rx.as_slice())?;
    eq("Session::into_parts().1 vs tx_as_slice()", &txv, tx.as_slice())?;
    if let Some((wrx, wtx)) = want {
        eq("client Session::into_parts().0 vs libsodium rx", &wrx, rx.as_slice())?;
        eq("client Session::into_parts().1 vs libsodium tx", &wtx, tx.as_slice())?;
    }
    let want_s = so::kx_server(dryoc::types::ByteArray::as_array(&ks.public_key), &ss, dryoc::types::ByteArray::as_array(&kc.public_key));
    let sess: Session<SessionKey> = must_ok(Session::new_server_with_defaults(&ks, &kc.public_key), "Session::new_server_with_defaults")?;
    let (rx, tx) = sess.into_parts();
    if let Some((wrx, wtx)) = want_s {
        eq("server Session::into_parts().0 vs libsodium rx", &wrx, rx.as_slice())?;
        eq("server Session::into_parts().1 vs libsodium tx", &wtx, tx.as_slice())?;
    }
    Ok(())
}

pub const C16: Registry = &[
    ("kx_session_parts", kx_session_parts),
    ("from_bytes_min_length", from_bytes_min_length),
    ("slice_exact_length", slice_exact_length),
    ("secretbox_bytes_roundtrip", secretbox_bytes),
    ("box_bytes_roundtrip", box_bytes),
    ("signedmessage_bytes_roundtrip", signed_bytes),
    ("array_serde_roundtrip", array_serde_roundtrip),
    ("json_seq_length", json_seq_length),
    ("bincode_bytes_length", bincode_bytes_length),
    ("json_box_tag_length", json_box_tag_length),
];

pub fn c16(ctx: &mut Ctx) -> Search {
    let t = ctx.thorough;
    for len in lengths(t) {
        let m = ctx.rng.bytes(len);
        let (k, n) = (ctx.rng.arr::<32>(), ctx.rng.arr::<24>());
        ctx.run("secretbox_bytes_roundtrip", Input::new().b("k", &k).b("n", &n).b("m", &m))?;
        let (ska, skb) = (ctx.rng.arr::<32>(), ctx.rng.arr::<32>());
        ctx.run(
            "box_bytes_roundtrip",
            Input::new().b("ska", &ska).b("skb", &skb).b("n", &n).b("m", &m),
        )?;
        ctx.run("signedmessage_bytes_roundtrip", Input::new().b("seed", &k).b("m", &m))?;
    }
    for n in [8usize, 12, 16, 24, 32, 64] {
        for class in 0..4 {
            let b = match class {
                0 => vec![0u8; n],
                1 => vec![0xffu8; n],
                2 => (0..n as u8).collect(),
                _ => ctx.rng.bytes(n),
            };
            ctx.run("array_serde_roundtrip", Input::new().b("bytes", &b))?;
        }
    }
    for n in [16usize, 24, 32, 64] {
        for count in 0..=2 * n {
            let elems: Vec<u8> = (0..count).map(|j| (j as u8).wrapping_add(1)).collect();
            let inp = Input::new().u("len", n as u64).b("elems", &elems);
            ctx.run("json_seq_length", inp.clone())?;
            ctx.run("bincode_bytes_length", inp)?;
        }
    }
    for _ in 0..(if t { 16 } else { 3 }) {
        let (a, b) = (ctx.rng.arr::<32>(), ctx.rng.arr::<32>());
        ctx.run("kx_session_parts", Input::new().b("sk_c", &a).b("sk_s", &b))?;
    }
    for count in 0..=130usize {
        let x: Vec<u8> = (0..count).map(|j| (j as u8).wrapping_mul(7).wrapping_add(3)).collect();
        ctx.run("from_bytes_min_length", Input::new().b("x", &x))?;
    }
    for n in [16usize, 24, 32, 64] {
        for count in 0..=2 * n {
            let elems: Vec<u8> = (0..count).map(|j| (j as u8).wrapping_add(1)).collect();
            ctx.run("slice_exact_length", Input::new().u("len", n as u64).b("elems", &elems))?;
        }
    }
    for count in 0..=32usize {
        let tag: Vec<u8> = (0..count).map(|j| j as u8 + 1).collect();
        ctx.run("json_box_tag_length", Input::new().b("tag", &tag).b("data", b"data"))?;
    }
    Ok(())
}
