//! Witness cases for the containers that only exist with dryoc's `nightly` feature (page-aligned heap bytes, locked memory).
//! Built only in the `nightly` flavour of this crate (`cargo +nightly build --features nightly`); the oracle is the property
//! statement itself (round trips reproduce the bytes; a fixed-length container refuses any other element count; no panic).
use crate::util::*;
use dryoc::protected::*;
#[allow(unused_imports)]
use dryoc::types::*;

fn json_seq(elems: &[u8]) -> String {
    format!("[{}]", elems.iter().map(|e| e.to_string()).collect::<Vec<_>>().join(","))
}

fn bincode_bytes(elems: &[u8]) -> Vec<u8> {
    let mut bin = (elems.len() as u64).to_le_bytes().to_vec();
    bin.extend_from_slice(elems);
    bin
}

fn same(what: &str, elems: &[u8], r: Result<Vec<u8>, String>) -> Outcome {
    match r {
        Ok(v) => eq(what, elems, &v),
        Err(e) => fail(format!("Ok({})", hex(elems)), format!("Err({})", e), format!("{}: a well-formed encoding was rejected", what)),
    }
}

fn fixed(what: &str, n: usize, elems: &[u8], r: Result<Vec<u8>, String>) -> Outcome {
    if elems.len() == n {
        same(what, elems, r)
    } else {
        match r {
            Err(_) => Ok(()),
            Ok(v) => fail(
                "Err (wrong element count)",
                format!("Ok({})", hex(&v)),
                format!("{}: {} elements decoded into a {}-byte array instead of failing", what, elems.len(), n),
            ),
        }
    }
}

/// bytes: `HeapBytes::from(&[u8])` holds exactly the bytes.
fn heapbytes_from_slice(i: &Input) -> Outcome {
    let b = i.get("bytes");
    let h = HeapBytes::from(b);
    eq("HeapBytes::from(&[u8])", b, h.as_slice())
}

/// bytes: variable-length heap / locked bytes decode from a JSON element sequence and from a bincode byte string to exactly
/// the encoded elements, and what dryoc serialises decodes back to the same bytes.
fn heapbytes_serde(i: &Input) -> Outcome {
    let b = i.get("bytes");
    let js = json_seq(b);
    let bin = bincode_bytes(b);
    same("HeapBytes from a JSON sequence", b, serde_json::from_str::<HeapBytes>(&js).map(|h| h.as_slice().to_vec()).map_err(|e| e.to_string()))?;
    same("LockedBytes from a JSON sequence", b, serde_json::from_str::<LockedBytes>(&js).map(|h| h.as_slice().to_vec()).map_err(|e| e.to_string()))?;
    same("HeapBytes from bincode bytes", b, bincode::deserialize::<HeapBytes>(&bin).map(|h| h.as_slice().to_vec()).map_err(|e| e.to_string()))?;
    same("LockedBytes from bincode bytes", b, bincode::deserialize::<LockedBytes>(&bin).map(|h| h.as_slice().to_vec()).map_err(|e| e.to_string()))?;
    let l: LockedBytes = must_ok(HeapBytes::from_slice_into_locked(b), "HeapBytes::from_slice_into_locked")?;
    let js2 = must_ok(serde_json::to_string(&l), "serde_json::to_string(LockedBytes)")?;
    same("JSON round trip of LockedBytes", b, serde_json::from_str::<LockedBytes>(&js2).map(|h| h.as_slice().to_vec()).map_err(|e| e.to_string()))?;
    let bin2 = must_ok(bincode::serialize(&l), "bincode::serialize(LockedBytes)")?;
    same("bincode round trip of LockedBytes", b, bincode::deserialize::<LockedBytes>(&bin2).map(|h| h.as_slice().to_vec()).map_err(|e| e.to_string()))
}

fn locked_array<const N: usize>(elems: &[u8]) -> Outcome {
    let js = json_seq(elems);
    let bin = bincode_bytes(elems);
    fixed(
        &format!("Locked<HeapByteArray<{}>> from a JSON sequence", N),
        N,
        elems,
        serde_json::from_str::<Locked<HeapByteArray<N>>>(&js).map(|a| a.as_slice().to_vec()).map_err(|e| e.to_string()),
    )?;
    fixed(
        &format!("Locked<HeapByteArray<{}>> from bincode bytes", N),
        N,
        elems,
        bincode::deserialize::<Locked<HeapByteArray<N>>>(&bin).map(|a| a.as_slice().to_vec()).map_err(|e| e.to_string()),
    )?;
    if elems.len() == N {
        let a: Locked<HeapByteArray<N>> = must_ok(HeapByteArray::<N>::from_slice_into_locked(elems), "from_slice_into_locked")?;
        let js2 = must_ok(serde_json::to_string(&a), "serde_json::to_string(Locked<HeapByteArray>)")?;
        same(
            &format!("JSON round trip of Locked<HeapByteArray<{}>>", N),
            elems,
            serde_json::from_str::<Locked<HeapByteArray<N>>>(&js2).map(|a| a.as_slice().to_vec()).map_err(|e| e.to_string()),
        )?;
        let bin2 = must_ok(bincode::serialize(&a), "bincode::serialize(Locked<HeapByteArray>)")?;
        same(
            &format!("bincode round trip of Locked<HeapByteArray<{}>>", N),
            elems,
            bincode::deserialize::<Locked<HeapByteArray<N>>>(&bin2).map(|a| a.as_slice().to_vec()).map_err(|e| e.to_string()),
        )?;
    }
    Ok(())
}

/// len (16, 24, 32 or 64), elems (any count)
fn locked_array_length(i: &Input) -> Outcome {
    let (n, elems) = (i.num("len") as usize, i.get("elems"));
    match n {
        16 => locked_array::<16>(elems),
        24 => locked_array::<24>(elems),
        32 => locked_array::<32>(elems),
        64 => locked_array::<64>(elems),
        _ => panic!("{} unsupported array length {}", HARNESS, n),
    }
}

/// len, elems: TryFrom<&[u8]> for HeapByteArray and from_slice_into_locked accept exactly `len` bytes.
fn heap_array_try_from(i: &Input) -> Outcome {
    let (n, elems) = (i.num("len") as usize, i.get("elems"));
    fn one<const N: usize>(x: &[u8]) -> Outcome {
        fixed(
            &format!("HeapByteArray<{}>::try_from(&[u8])", N),
            N,
            x,
            HeapByteArray::<N>::try_from(x).map(|a| a.as_slice().to_vec()).map_err(|e| e.to_string()),
        )?;
        fixed(
            &format!("HeapByteArray<{}>::from_slice_into_locked", N),
            N,
            x,
            HeapByteArray::<N>::from_slice_into_locked(x).map(|a| a.as_slice().to_vec()).map_err(|e| e.to_string()),
        )
    }
    match n {
        16 => one::<16>(elems),
        24 => one::<24>(elems),
        32 => one::<32>(elems),
        64 => one::<64>(elems),
        _ => panic!("{} unsupported array length {}", HARNESS, n),
    }
}

pub const C16: Registry = &[
    ("heapbytes_from_slice", heapbytes_from_slice),
    ("heapbytes_serde", heapbytes_serde),
    ("locked_array_length", locked_array_length),
    ("heap_array_try_from", heap_array_try_from),
];

pub fn c16(ctx: &mut Ctx) -> Search {
    let t = ctx.thorough;
    for len in (0..=40usize).chain(if t { vec![63, 64, 65, 255, 256, 257, 4095, 4096, 4097, 10000] } else { vec![64, 4097] }) {
        let b: Vec<u8> = (0..len).map(|j| (j as u8).wrapping_mul(13).wrapping_add(1)).collect();
        ctx.run("heapbytes_from_slice", Input::new().b("bytes", &b))?;
        ctx.run("heapbytes_serde", Input::new().b("bytes", &b))?;
        let r = ctx.rng.bytes(len);
        ctx.run("heapbytes_serde", Input::new().b("bytes", &r))?;
    }
    for n in [16usize, 24, 32, 64] {
        for count in 0..=2 * n {
            let elems: Vec<u8> = (0..count).map(|j| (j as u8).wrapping_add(1)).collect();
            let inp = Input::new().u("len", n as u64).b("elems", &elems);
            ctx.run("locked_array_length", inp.clone())?;
            ctx.run("heap_array_try_from", inp)?;
        }
    }
    Ok(())
}

// ======================================================================
// C18 -- container independence: the result of every object-API operation is a function of the input BYTES only.
// Each case computes the same thing with stack / Vec containers and with the nightly-only heap, locked and
// read-only-locked containers (as inputs and as outputs) and compares every variant with libsodium.
// ======================================================================

use crate::so;

// A refused lock request is a property of the environment (RLIMIT_MEMLOCK), not of container independence: it is
// raised as a harness error (status "error"), never as a finding.
fn granted<T, E: std::fmt::Display>(r: Result<T, E>, what: &str) -> Result<T, Fail> {
    match r {
        Ok(v) => Ok(v),
        Err(e) => panic!("{} {} refused by the OS: {}", HARNESS, what, e),
    }
}

fn lk<const N: usize>(b: &[u8; N]) -> Result<Locked<HeapByteArray<N>>, Fail> {
    granted(HeapByteArray::<N>::from_slice_into_locked(b), "HeapByteArray::from_slice_into_locked")
}

fn ro<const N: usize>(b: &[u8; N]) -> Result<LockedRO<HeapByteArray<N>>, Fail> {
    granted(HeapByteArray::<N>::from_slice_into_readonly_locked(b), "HeapByteArray::from_slice_into_readonly_locked")
}

fn lkb(b: &[u8]) -> Result<Locked<HeapBytes>, Fail> {
    granted(HeapBytes::from_slice_into_locked(b), "HeapBytes::from_slice_into_locked")
}

fn rob(b: &[u8]) -> Result<LockedRO<HeapBytes>, Fail> {
    granted(HeapBytes::from_slice_into_readonly_locked(b), "HeapBytes::from_slice_into_readonly_locked")
}

fn clones_of_array<const N: usize>(b: &[u8]) -> Outcome {
    let a: [u8; N] = b.try_into().unwrap();
    let h = HeapByteArray::<N>::from(&a);
    eq(&format!("HeapByteArray<{}>::clone", N), b, h.clone().as_slice())?;
    // (Locked / LockedRO of a fixed-length array are not Clone: the locked clone needs a resizable container)
    eq(&format!("Locked<HeapByteArray<{}>>", N), b, lk(&a)?.as_slice())?;
    eq(&format!("LockedRO<HeapByteArray<{}>>", N), b, ro(&a)?.as_slice())?;
    let u = must_ok(lk(&a)?.munlock(), "munlock")?;
    eq(&format!("Unlocked<HeapByteArray<{}>>::clone", N), b, u.clone().as_slice())?;
    let uro = must_ok(u.mprotect_readonly(), "mprotect_readonly")?;
    eq(&format!("UnlockedRO<HeapByteArray<{}>>::clone", N), b, uro.clone().as_slice())
}

/// bytes: a clone of any container holds the same bytes as the original (as a clone of a Vec does), and leaves the
/// original unchanged.
fn clone_containers(i: &Input) -> Outcome {
    let b = i.get("bytes");
    eq("HeapBytes::clone", b, HeapBytes::from(b).clone().as_slice())?;
    let l = lkb(b)?;
    let lc = l.clone();
    eq("Locked<HeapBytes>::clone", b, lc.as_slice())?;
    eq("Locked<HeapBytes> after clone (original)", b, l.as_slice())?;
    let r = rob(b)?;
    let rc = r.clone();
    eq("LockedRO<HeapBytes>::clone", b, rc.as_slice())?;
    eq("LockedRO<HeapBytes>::clone().clone()", b, rc.clone().as_slice())?;
    eq("LockedRO<HeapBytes> after clone (original)", b, r.as_slice())?;
    // read-write locked -> read-only -> clone
    let r2 = must_ok(lkb(b)?.mprotect_readonly(), "mprotect_readonly")?;
    eq("Locked<HeapBytes>::mprotect_readonly().clone()", b, r2.clone().as_slice())?;
    let u = must_ok(lkb(b)?.munlock(), "munlock")?;
    eq("Unlocked<HeapBytes>::clone", b, u.clone().as_slice())?;
    let uro = must_ok(u.mprotect_readonly(), "mprotect_readonly")?;
    eq("UnlockedRO<HeapBytes>::clone", b, uro.clone().as_slice())?;
    match b.len() {
        16 => clones_of_array::<16>(b),
        24 => clones_of_array::<24>(b),
        32 => clones_of_array::<32>(b),
        64 => clones_of_array::<64>(b),
        _ => Ok(()),
    }
}

/// ska, skb: crypto_box_beforenm(pkb, ska) through every PrecalcSecretKey constructor and container.
fn precalc_containers(i: &Input) -> Outcome {
    use dryoc::dryocbox::{Nonce, VecBox};
    use dryoc::keypair::KeyPair;
    use dryoc::precalc::PrecalcSecretKey;
    let (ska, skb) = (i.arr::<32>("ska"), i.arr::<32>("skb"));
    let (pka, pkb) = (so::scalarmult_base(&ska), so::scalarmult_base(&skb));
    let want = match so::box_beforenm(&pkb, &ska) {
        Some(k) => k,
        None => panic!("{} libsodium refused an honest key pair", HARNESS),
    };
    let (spk, ssk) = (StackByteArray::<32>::from(pkb), StackByteArray::<32>::from(ska));

    let stack = PrecalcSecretKey::precalculate(&spk, &ssk);
    eq("PrecalcSecretKey::precalculate (stack)", &want, stack.as_slice())?;
    let l1 = must_ok(PrecalcSecretKey::precalculate_locked(&spk, &ssk), "precalculate_locked")?;
    eq("PrecalcSecretKey::precalculate_locked (stack keys)", &want, l1.as_slice())?;
    let l2 = must_ok(PrecalcSecretKey::precalculate_locked(&lk(&pkb)?, &lk(&ska)?), "precalculate_locked")?;
    eq("PrecalcSecretKey::precalculate_locked (locked keys)", &want, l2.as_slice())?;
    let r1 = must_ok(PrecalcSecretKey::precalculate_readonly_locked(&spk, &ssk), "precalculate_readonly_locked")?;
    eq("PrecalcSecretKey::precalculate_readonly_locked (stack keys)", &want, r1.as_slice())?;
    let r2 = must_ok(
        PrecalcSecretKey::precalculate_readonly_locked(&ro(&pkb)?, &ro(&ska)?),
        "precalculate_readonly_locked",
    )?;
    eq("PrecalcSecretKey::precalculate_readonly_locked (read-only locked keys)", &want, r2.as_slice())?;

    // the keypair wrappers
    let kp_l = KeyPair {
        public_key: lk(&pka)?,
        secret_key: lk(&ska)?,
    };
    let k = must_ok(kp_l.precalculate_locked(&spk), "KeyPair::precalculate_locked")?;
    eq("KeyPair<Locked, Locked>::precalculate_locked", &want, k.as_slice())?;
    let kp_r = KeyPair {
        public_key: ro(&pka)?,
        secret_key: ro(&ska)?,
    };
    let k = must_ok(kp_r.precalculate_readonly_locked(&spk), "KeyPair::precalculate_readonly_locked")?;
    eq("KeyPair<LockedRO, LockedRO>::precalculate_readonly_locked", &want, k.as_slice())?;
    let k = must_ok(kp_r.precalculate_readonly_locked(&ro(&pkb)?), "KeyPair::precalculate_readonly_locked")?;
    eq("KeyPair<LockedRO, LockedRO>::precalculate_readonly_locked (read-only locked peer key)", &want, k.as_slice())?;
    let kp_s = KeyPair {
        public_key: StackByteArray::<32>::from(pka),
        secret_key: ssk.clone(),
    };
    eq("KeyPair<Stack, Stack>::precalculate", &want, kp_s.precalculate(&spk).as_slice())?;

    // a box made with each precalculated key is libsodium's box
    let n = [0x24u8; 24];
    let m = b"container independence";
    let wire = so::box_easy(m, &n, &pkb, &ska).expect("honest keys");
    let nonce = Nonce::from(n);
    let b1 = must_ok(VecBox::precalc_encrypt_to_vecbox(&m[..], &nonce, &r1), "precalc_encrypt (read-only locked key)")?;
    eq("DryocBox::precalc_encrypt with a read-only locked precalculated key", &wire, &b1.to_vec())?;
    let b2 = must_ok(VecBox::precalc_encrypt_to_vecbox(&m[..], &nonce, &l2), "precalc_encrypt (locked key)")?;
    eq("DryocBox::precalc_encrypt with a locked precalculated key", &wire, &b2.to_vec())?;
    let bx = must_ok(VecBox::from_bytes(&wire), "DryocBox::from_bytes")?;
    // opened by the peer (skb, pka) with precalculated keys in each container
    let pr = must_ok(PrecalcSecretKey::precalculate_readonly_locked(&ro(&pka)?, &ro(&skb)?), "precalculate_readonly_locked")?;
    let p = must_ok(bx.precalc_decrypt_to_vec(&nonce, &pr), "precalc_decrypt (peer's read-only locked key)")?;
    eq("DryocBox::precalc_decrypt with the peer's read-only locked precalculated key", m, &p)?;
    let pl = must_ok(PrecalcSecretKey::precalculate_locked(&lk(&pka)?, &lk(&skb)?), "precalculate_locked")?;
    let p = must_ok(bx.precalc_decrypt_to_vec(&nonce, &pl), "precalc_decrypt (peer's locked key)")?;
    eq("DryocBox::precalc_decrypt with the peer's locked precalculated key", m, &p)
}

/// sk, peer_sk: kx sessions with stack, locked and read-only locked key pairs, into stack and locked session keys.
fn kx_containers(i: &Input) -> Outcome {
    use dryoc::keypair::KeyPair;
    use dryoc::kx::Session;
    let (sk, psk) = (i.arr::<32>("sk"), i.arr::<32>("peer_sk"));
    let (pk, ppk) = (so::scalarmult_base(&sk), so::scalarmult_base(&psk));
    let wc = so::kx_client(&pk, &sk, &ppk).expect("honest keys");
    let ws = so::kx_server(&pk, &sk, &ppk).expect("honest keys");
    macro_rules! check {
        ($what:expr, $kp:expr, $peer:expr, $skey:ty) => {{
            let s = must_ok(Session::<$skey>::new_client(&$kp, &$peer), concat!($what, " new_client"))?;
            eq(concat!($what, " client rx"), &wc.0, s.rx_as_slice())?;
            eq(concat!($what, " client tx"), &wc.1, s.tx_as_slice())?;
            let s = must_ok(Session::<$skey>::new_server(&$kp, &$peer), concat!($what, " new_server"))?;
            eq(concat!($what, " server rx"), &ws.0, s.rx_as_slice())?;
            eq(concat!($what, " server tx"), &ws.1, s.tx_as_slice())?;
            let s = must_ok($kp.kx_new_client_session::<$skey>(&$peer), concat!($what, " kx_new_client_session"))?;
            let (rx, tx) = s.into_parts();
            eq(concat!($what, " kx_new_client_session rx"), &wc.0, rx.as_slice())?;
            eq(concat!($what, " kx_new_client_session tx"), &wc.1, tx.as_slice())?;
            let s = must_ok($kp.kx_new_server_session::<$skey>(&$peer), concat!($what, " kx_new_server_session"))?;
            let (rx, tx) = s.into_parts();
            eq(concat!($what, " kx_new_server_session rx"), &ws.0, rx.as_slice())?;
            eq(concat!($what, " kx_new_server_session tx"), &ws.1, tx.as_slice())?;
        }};
    }
    let kp_s = KeyPair {
        public_key: StackByteArray::<32>::from(pk),
        secret_key: StackByteArray::<32>::from(sk),
    };
    let peer_s = StackByteArray::<32>::from(ppk);
    check!("kx Session<Stack> (stack key pair)", kp_s, peer_s, StackByteArray<32>);
    check!("kx Session<Locked> (stack key pair)", kp_s, peer_s, Locked<HeapByteArray<32>>);
    check!("kx Session<Heap> (stack key pair)", kp_s, peer_s, HeapByteArray<32>);
    let kp_l = KeyPair {
        public_key: lk(&pk)?,
        secret_key: lk(&sk)?,
    };
    let peer_l = lk(&ppk)?;
    check!("kx Session<Locked> (locked key pair)", kp_l, peer_l, Locked<HeapByteArray<32>>);
    check!("kx Session<Stack> (locked key pair)", kp_l, peer_l, StackByteArray<32>);
    let kp_r = KeyPair {
        public_key: ro(&pk)?,
        secret_key: ro(&sk)?,
    };
    let peer_r = ro(&ppk)?;
    check!("kx Session<Locked> (read-only locked key pair)", kp_r, peer_r, Locked<HeapByteArray<32>>);
    check!("kx Session<Vec> (read-only locked key pair)", kp_r, peer_r, Vec<u8>);
    Ok(())
}

/// key, ctx, id
fn kdf_containers(i: &Input) -> Outcome {
    use dryoc::kdf::Kdf;
    let (key, ctxb, id) = (i.arr::<32>("key"), i.arr::<8>("ctx"), i.num("id"));
    let want = so::kdf_derive(32, id, &ctxb, &key).expect("32-byte subkey");
    let ks = Kdf::from_parts(StackByteArray::<32>::from(key), StackByteArray::<8>::from(ctxb));
    let sub: StackByteArray<32> = must_ok(ks.derive_subkey(id), "Kdf<Stack>::derive_subkey")?;
    eq("Kdf<Stack, Stack>::derive_subkey -> Stack", &want, sub.as_slice())?;
    let sub: Locked<HeapByteArray<32>> = must_ok(ks.derive_subkey(id), "Kdf<Stack>::derive_subkey -> Locked")?;
    eq("Kdf<Stack, Stack>::derive_subkey -> Locked", &want, sub.as_slice())?;
    let kl = Kdf::from_parts(lk(&key)?, lk(&ctxb)?);
    let sub: Locked<HeapByteArray<32>> = must_ok(kl.derive_subkey(id), "Kdf<Locked>::derive_subkey")?;
    eq("Kdf<Locked, Locked>::derive_subkey -> Locked", &want, sub.as_slice())?;
    eq("Kdf<Locked, Locked>::derive_subkey_to_vec", &want, &must_ok(kl.derive_subkey_to_vec(id), "derive_subkey_to_vec")?)?;
    let kr = Kdf::from_parts(ro(&key)?, ro(&ctxb)?);
    let sub: HeapByteArray<32> = must_ok(kr.derive_subkey(id), "Kdf<LockedRO>::derive_subkey")?;
    eq("Kdf<LockedRO, LockedRO>::derive_subkey -> Heap", &want, sub.as_slice())?;
    let (k2, c2) = kr.into_parts();
    let kr2 = Kdf::from_parts(k2, c2);
    let sub: StackByteArray<32> = must_ok(kr2.derive_subkey(id), "Kdf<LockedRO>::from_parts(into_parts).derive_subkey")?;
    eq("Kdf<LockedRO>::from_parts(into_parts()).derive_subkey -> Stack", &want, sub.as_slice())
}

/// ska, skb, n, m
fn box_containers(i: &Input) -> Outcome {
    use dryoc::dryocbox::protected::LockedBox;
    use dryoc::dryocbox::{DryocBox, VecBox};
    use dryoc::keypair::KeyPair;
    let (ska, skb, n, m) = (i.arr::<32>("ska"), i.arr::<32>("skb"), i.arr::<24>("n"), i.get("m"));
    let (pka, pkb) = (so::scalarmult_base(&ska), so::scalarmult_base(&skb));
    let wire = so::box_easy(m, &n, &pkb, &ska).expect("honest keys");

    let b: LockedBox = must_ok(DryocBox::encrypt(m, &lk(&n)?, &lk(&pkb)?, &lk(&ska)?), "LockedBox::encrypt (locked keys)")?;
    eq("LockedBox::encrypt (locked nonce and keys)", &wire, &b.to_vec())?;
    let b2: VecBox = must_ok(DryocBox::encrypt(m, &ro(&n)?, &ro(&pkb)?, &ro(&ska)?), "VecBox::encrypt (read-only locked keys)")?;
    eq("VecBox::encrypt (read-only locked nonce and keys)", &wire, &b2.to_vec())?;
    let b3: DryocBox<HeapByteArray<32>, HeapByteArray<16>, HeapBytes> =
        must_ok(DryocBox::encrypt(&lkb(m)?, &n, &pkb, &ska), "HeapBox::encrypt (locked message)")?;
    eq("DryocBox<Heap..>::encrypt (locked message, array keys)", &wire, &b3.to_vec())?;

    let p: LockedBytes = must_ok(b.decrypt(&ro(&n)?, &ro(&pka)?, &ro(&skb)?), "LockedBox::decrypt (read-only locked keys)")?;
    eq("LockedBox::decrypt -> LockedBytes", m, p.as_slice())?;
    let p: Vec<u8> = must_ok(b.decrypt(&lk(&n)?, &lk(&pka)?, &lk(&skb)?), "LockedBox::decrypt (locked keys)")?;
    eq("LockedBox::decrypt -> Vec", m, &p)?;
    let fromwire: DryocBox<HeapByteArray<32>, HeapByteArray<16>, HeapBytes> = must_ok(DryocBox::from_bytes(&wire), "DryocBox<Heap..>::from_bytes")?;
    let p: LockedBytes = must_ok(fromwire.decrypt(&ro(&n)?, &ro(&pka)?, &lk(&skb)?), "DryocBox<Heap..>::from_bytes + decrypt")?;
    eq("DryocBox<Heap..>::from_bytes(libsodium box) + decrypt -> LockedBytes", m, p.as_slice())?;
    let tb: LockedBytes = b.to_bytes();
    eq("LockedBox::to_bytes -> LockedBytes", &wire, tb.as_slice())?;

    // sealed boxes opened with key pairs in every container
    let sealed = so::box_seal(m, &pkb);
    let sb: DryocBox<HeapByteArray<32>, HeapByteArray<16>, HeapBytes> = must_ok(DryocBox::from_sealed_bytes(&sealed), "DryocBox<Heap..>::from_sealed_bytes")?;
    let kp_l = KeyPair {
        public_key: lk(&pkb)?,
        secret_key: lk(&skb)?,
    };
    let p: LockedBytes = must_ok(sb.unseal(&kp_l), "DryocBox<Heap..>::unseal (locked key pair)")?;
    eq("DryocBox<Heap..>::unseal (locked key pair)", m, p.as_slice())?;
    let kp_r = KeyPair {
        public_key: ro(&pkb)?,
        secret_key: ro(&skb)?,
    };
    let p: Vec<u8> = must_ok(sb.unseal(&kp_r), "DryocBox<Heap..>::unseal (read-only locked key pair)")?;
    eq("DryocBox<Heap..>::unseal (read-only locked key pair)", m, &p)?;
    let mine: LockedBox = must_ok(DryocBox::seal(m, &ro(&pkb)?), "LockedBox::seal")?;
    let w = mine.to_vec();
    match so::box_seal_open(&w, &pkb, &skb) {
        Some(p) => eq("libsodium opens LockedBox::seal (read-only locked recipient key)", m, &p),
        None => fail("Ok", "Err", "libsodium rejects LockedBox::seal output"),
    }
}

/// k, n, m
fn secretbox_containers(i: &Input) -> Outcome {
    use dryoc::dryocsecretbox::protected::LockedBox;
    use dryoc::dryocsecretbox::{DryocSecretBox, VecBox};
    let (k, n, m) = (i.arr::<32>("k"), i.arr::<24>("n"), i.get("m"));
    let wire = so::secretbox_easy(m, &n, &k);
    let b: LockedBox = DryocSecretBox::encrypt(m, &lk(&n)?, &lk(&k)?);
    eq("LockedBox::encrypt (locked nonce and key)", &wire, &b.to_vec())?;
    let b2: VecBox = DryocSecretBox::encrypt(&rob(m)?, &ro(&n)?, &ro(&k)?);
    eq("VecBox::encrypt (read-only locked message, nonce and key)", &wire, &b2.to_vec())?;
    let kc = ro(&k)?;
    let b3: DryocSecretBox<HeapByteArray<16>, HeapBytes> = DryocSecretBox::encrypt(&rob(m)?.clone(), &n, &kc);
    eq("DryocSecretBox<Heap..>::encrypt (cloned read-only locked message)", &wire, &b3.to_vec())?;
    let p: LockedBytes = must_ok(b.decrypt(&ro(&n)?, &ro(&k)?), "LockedBox::decrypt (read-only locked key)")?;
    eq("LockedBox::decrypt -> LockedBytes", m, p.as_slice())?;
    let fw: DryocSecretBox<HeapByteArray<16>, HeapBytes> = must_ok(DryocSecretBox::from_bytes(&wire), "DryocSecretBox<Heap..>::from_bytes")?;
    let p: Vec<u8> = must_ok(fw.decrypt(&lk(&n)?, &kc), "DryocSecretBox<Heap..>::from_bytes + decrypt")?;
    eq("DryocSecretBox<Heap..>::from_bytes(libsodium box) + decrypt (read-only locked key)", m, &p)?;
    let tb: LockedBytes = b.to_bytes();
    eq("LockedBox::to_bytes -> LockedBytes", &wire, tb.as_slice())
}

/// pw, salt (16), outlen
fn pwhash_containers(i: &Input) -> Outcome {
    use dryoc::pwhash::{Config, PwHash};
    let (pw, salt, outlen) = (i.get("pw").to_vec(), i.arr::<16>("salt"), i.num("outlen") as usize);
    let want = so::pwhash(outlen, &pw, &salt, 1, 8192, so::ALG_ARGON2ID13).expect("minimal parameters");
    let cfg = || Config::interactive().with_opslimit(1).with_memlimit(8192).with_hash_length(outlen);
    let mut wrong = pw.clone();
    wrong.push(b'x');
    macro_rules! check {
        ($what:expr, $hash:ty, $saltv:expr) => {{
            let h: PwHash<$hash, _> = must_ok(PwHash::hash_with_salt(&pw, $saltv, cfg()), concat!($what, " hash_with_salt"))?;
            must_ok(h.verify(&pw), concat!($what, " verify(correct password)"))?;
            must_err(h.verify(&wrong), concat!($what, " verify(wrong password)"))?;
            must_ok(h.verify(&lkb(&pw)?), concat!($what, " verify(correct password in locked memory)"))?;
            let (hash, s, _) = h.into_parts();
            eq(concat!($what, " hash"), &want, hash.as_slice())?;
            eq(concat!($what, " stored salt"), &salt, s.as_slice())?;
        }};
    }
    check!("PwHash<Vec, Vec>", Vec<u8>, salt.to_vec());
    check!("PwHash<Locked, Locked>", Locked<HeapBytes>, lkb(&salt)?);
    check!("PwHash<Locked, LockedRO>", Locked<HeapBytes>, rob(&salt)?);
    check!("PwHash<Vec, LockedRO>", Vec<u8>, rob(&salt)?);
    check!("PwHash<Locked, Heap>", Locked<HeapBytes>, HeapBytes::from(&salt[..]));
    check!("PwHash<Locked, cloned LockedRO>", Locked<HeapBytes>, rob(&salt)?.clone());
    // a hash made by libsodium, stored in each container
    let p = PwHash::from_parts(lkb(&want)?, rob(&salt)?, cfg());
    must_ok(p.verify(&pw), "PwHash<Locked, LockedRO>::from_parts(libsodium hash).verify")?;
    must_err(p.verify(&wrong), "PwHash<Locked, LockedRO>::from_parts(libsodium hash).verify(wrong password)")?;
    let p = PwHash::from_parts(lkb(&want)?, lkb(&salt)?, cfg());
    must_ok(p.verify(&pw), "PwHash<Locked, Locked>::from_parts(libsodium hash).verify")
}

/// seed, m
fn sign_containers(i: &Input) -> Outcome {
    use dryoc::sign::protected::{LockedSignedMessage, LockedSigningKeyPair};
    use dryoc::sign::{SignedMessage, SigningKeyPair};
    let (seed, m) = (i.arr::<32>("seed"), i.get("m"));
    let (pk, sk) = so::sign_seed_keypair(&seed);
    let want = so::sign(m, &sk);
    let kp: LockedSigningKeyPair = SigningKeyPair::from_seed(&lk(&seed)?);
    eq("SigningKeyPair<Locked, Locked>::from_seed public key", &pk, kp.public_key.as_slice())?;
    eq("SigningKeyPair<Locked, Locked>::from_seed secret key", &sk, kp.secret_key.as_slice())?;
    let kp2: LockedSigningKeyPair = SigningKeyPair::from_secret_key(lk(&sk)?);
    eq("SigningKeyPair<Locked, Locked>::from_secret_key public key", &pk, kp2.public_key.as_slice())?;
    let s: LockedSignedMessage = must_ok(kp.sign(lkb(m)?), "SigningKeyPair<Locked>::sign")?;
    eq("SignedMessage<Locked, Locked>::to_vec", &want, &s.to_vec())?;
    must_ok(s.verify(&ro(&pk)?), "SignedMessage<Locked, Locked>::verify (read-only locked public key)")?;
    let kp_r = SigningKeyPair {
        public_key: ro(&pk)?,
        secret_key: ro(&sk)?,
    };
    let s2: SignedMessage<HeapByteArray<64>, HeapBytes> = must_ok(kp_r.sign(HeapBytes::from(m)), "SigningKeyPair<LockedRO>::sign")?;
    eq("SigningKeyPair<LockedRO, LockedRO>::sign -> SignedMessage<Heap, Heap>", &want, &s2.to_vec())?;
    must_ok(s2.verify(&kp_r.public_key), "SignedMessage<Heap, Heap>::verify (read-only locked public key)")?;
    let s3 = must_ok(kp_r.sign_with_defaults(rob(m)?.clone()), "SigningKeyPair<LockedRO>::sign_with_defaults (cloned read-only locked message)")?;
    eq("SigningKeyPair<LockedRO>::sign_with_defaults (cloned read-only locked message)", &want, &s3.to_vec())?;
    let s4: SignedMessage<Locked<HeapByteArray<64>>, LockedRO<HeapBytes>> = must_ok(kp_r.sign(rob(m)?.clone()), "SigningKeyPair<LockedRO>::sign (cloned read-only locked message)")?;
    eq("SignedMessage<Locked, cloned LockedRO>::to_vec", &want, &s4.to_vec())?;
    must_ok(s4.verify(&lk(&pk)?), "SignedMessage<Locked, cloned LockedRO>::verify")?;
    let parsed: SignedMessage<HeapByteArray<64>, HeapBytes> = must_ok(SignedMessage::from_bytes(&want), "SignedMessage<Heap, Heap>::from_bytes")?;
    must_ok(parsed.verify(&lk(&pk)?), "SignedMessage<Heap, Heap>::from_bytes(libsodium).verify (locked public key)")?;
    let tb: LockedBytes = parsed.to_bytes();
    eq("SignedMessage<Heap, Heap>::to_bytes -> LockedBytes", &want, tb.as_slice())
}

/// key, m
fn mac_containers(i: &Input) -> Outcome {
    use dryoc::auth::Auth;
    use dryoc::generichash::GenericHash;
    use dryoc::onetimeauth::OnetimeAuth;
    let (k, m) = (i.arr::<32>("key"), i.get("m").to_vec());
    let want = so::auth(&m, &k);
    let mac: Locked<HeapByteArray<32>> = Auth::compute(lk(&k)?, &m);
    eq("Auth::compute (locked key) -> Locked", &want, mac.as_slice())?;
    let mac: HeapByteArray<32> = Auth::compute(ro(&k)?, &lkb(&m)?);
    eq("Auth::compute (read-only locked key, locked input) -> Heap", &want, mac.as_slice())?;
    let mac: StackByteArray<32> = Auth::compute(ro(&k)?, &rob(&m)?.clone());
    eq("Auth::compute (read-only locked key, cloned read-only locked input) -> Stack", &want, mac.as_slice())?;
    must_ok(Auth::compute_and_verify(&ro(&want)?, lk(&k)?, &m), "Auth::compute_and_verify (read-only locked MAC)")?;

    let want1 = so::onetimeauth(&m, &k);
    let mac: Locked<HeapByteArray<16>> = OnetimeAuth::compute(lk(&k)?, &m);
    eq("OnetimeAuth::compute (locked key) -> Locked", &want1, mac.as_slice())?;
    let mac: StackByteArray<16> = OnetimeAuth::compute(ro(&k)?, &rob(&m)?.clone());
    eq("OnetimeAuth::compute (read-only locked key, cloned read-only locked input) -> Stack", &want1, mac.as_slice())?;
    must_ok(
        OnetimeAuth::compute_and_verify(&ro(&want1)?, ro(&k)?, &m),
        "OnetimeAuth::compute_and_verify (read-only locked MAC)",
    )?;

    let want2 = so::generichash(32, &m, &k).expect("generichash");
    let h: Locked<HeapByteArray<32>> = must_ok(GenericHash::<32, 32>::hash(&m, Some(&lk(&k)?)), "GenericHash::hash (locked key)")?;
    eq("GenericHash::hash (locked key) -> Locked", &want2, h.as_slice())?;
    let h: HeapByteArray<32> =
        must_ok(GenericHash::<32, 32>::hash(&rob(&m)?.clone(), Some(&ro(&k)?)), "GenericHash::hash (read-only locked key)")?;
    eq("GenericHash::hash (read-only locked key, cloned read-only locked input) -> Heap", &want2, h.as_slice())
}

/// k, m: a stream pushed with a key in each container is pulled by libsodium, and vice versa.
fn stream_containers(i: &Input) -> Outcome {
    use dryoc::dryocstream::{DryocStream, Tag};
    let (k, m) = (i.arr::<32>("k"), i.get("m"));
    // push side: header drawn by dryoc into each header container
    let (mut ps, header): (_, Locked<HeapByteArray<24>>) = DryocStream::init_push(&ro(&k)?);
    let c: LockedBytes = must_ok(ps.push(&rob(m)?.clone(), None, Tag::MESSAGE), "DryocStream::push (cloned read-only locked message) -> LockedBytes")?;
    let hdr: [u8; 24] = header.as_slice().try_into().unwrap();
    let mut sl = so::stream_init_pull(&hdr, &k);
    match so::stream_pull(&mut sl, c.as_slice(), None) {
        Some((p, _)) => eq("libsodium pull of DryocStream::push (read-only locked key, locked header, cloned read-only locked message)", m, &p)?,
        None => return fail("Ok", "Err", "libsodium rejects DryocStream::push output made with a read-only locked key"),
    }
    // pull side: libsodium pushes, dryoc pulls with key and header in protected containers
    let header2 = [0x42u8; 24];
    let mut sp = so::stream_init_pull(&header2, &k);
    let c2 = so::stream_push(&mut sp, m, None, 0);
    let mut pull = DryocStream::init_pull(&ro(&k)?, &ro(&header2)?);
    let (p, _): (LockedBytes, Tag) = must_ok(pull.pull(&lkb(&c2)?, None), "DryocStream::pull (locked ciphertext) -> LockedBytes")?;
    eq("DryocStream::pull with read-only locked key and header", m, p.as_slice())?;
    let mut pull = DryocStream::init_pull(&lk(&k)?, &lk(&header2)?);
    let (p, _) = must_ok(pull.pull_to_vec(&rob(&c2)?.clone(), None), "DryocStream::pull_to_vec (cloned read-only locked ciphertext)")?;
    eq("DryocStream::pull with locked key and header, cloned read-only locked ciphertext", m, &p)
}

fn conversions_of_array<const N: usize>(b: &[u8]) -> Outcome {
    let a: [u8; N] = b.try_into().unwrap();
    let keep = a;
    eq(&format!("HeapByteArray<{}>::from(&[u8; N])", N), b, HeapByteArray::<N>::from(&a).as_slice())?;
    eq(&format!("HeapByteArray<{}>::from([u8; N]) (by value)", N), b, HeapByteArray::<N>::from(a).as_slice())?;
    let into: HeapByteArray<N> = a.into();
    eq(&format!("[u8; {}]::into() -> HeapByteArray (by value)", N), b, into.as_array())?;
    eq("the caller's array after the by-value conversion (arrays are Copy)", &keep, &a)?;
    match HeapByteArray::<N>::try_from(b) {
        Ok(h) => eq(&format!("HeapByteArray<{}>::try_from(&[u8])", N), b, h.as_slice())?,
        Err(e) => return fail("Ok", format!("Err({})", e), "HeapByteArray::try_from(&[u8]) refused a slice of exactly N bytes"),
    }
    let st = StackByteArray::<N>::from(a);
    eq(&format!("StackByteArray<{}>::from([u8; N])", N), b, st.as_slice())?;
    eq(&format!("HeapByteArray<{}>::from(StackByteArray)", N), b, HeapByteArray::<N>::from(st.clone()).as_slice())?;
    let h2: HeapByteArray<N> = st.into();
    eq(&format!("StackByteArray<{}>::into() -> HeapByteArray", N), b, h2.as_slice())?;
    // by value, then locked / read-only locked / unlocked again
    let l = granted(HeapByteArray::<N>::from(a).mlock(), "HeapByteArray::mlock")?;
    eq(&format!("HeapByteArray<{}>::from([u8; N]).mlock()", N), b, l.as_slice())?;
    let r = must_ok(l.mprotect_readonly(), "mprotect_readonly")?;
    eq(&format!("HeapByteArray<{}>::from([u8; N]).mlock().mprotect_readonly()", N), b, r.as_slice())?;
    // all conversions agree with each other (PartialEq of the containers)
    if HeapByteArray::<N>::from(a) != HeapByteArray::<N>::from(&a) {
        return fail("equal", "not equal", format!("HeapByteArray<{}>::from([u8; N]) != HeapByteArray::from(&[u8; N])", N));
    }
    Ok(())
}

/// bytes: every conversion INTO a heap container reproduces the bytes (by reference, by value, from a slice, from a stack
/// array), also after locking; fixed-length conversions for 8, 16, 24, 32 and 64 bytes.
fn heap_conversions(i: &Input) -> Outcome {
    let b = i.get("bytes");
    eq("HeapBytes::from(&[u8])", b, HeapBytes::from(b).as_slice())?;
    let hb: HeapBytes = b.into();
    eq("<&[u8]>::into() -> HeapBytes", b, hb.as_slice())?;
    eq("HeapBytes::from(&[u8]).mlock()", b, granted(HeapBytes::from(b).mlock(), "HeapBytes::mlock")?.as_slice())?;
    match b.len() {
        8 => conversions_of_array::<8>(b),
        16 => conversions_of_array::<16>(b),
        24 => conversions_of_array::<24>(b),
        32 => conversions_of_array::<32>(b),
        64 => conversions_of_array::<64>(b),
        _ => Ok(()),
    }
}

/// key, ctx, id, m: KDF subkeys and keyed hashes / MACs with the key placed into a heap array through each conversion equal
/// the stack variant's and libsodium's.
fn converted_key_containers(i: &Input) -> Outcome {
    use dryoc::auth::Auth;
    use dryoc::generichash::GenericHash;
    use dryoc::kdf::Kdf;
    let (key, ctxb, id, m) = (i.arr::<32>("key"), i.arr::<8>("ctx"), i.num("id"), i.get("m").to_vec());
    let want = so::kdf_derive(32, id, &ctxb, &key).expect("32-byte subkey");
    let stack: Kdf<StackByteArray<32>, StackByteArray<8>> = Kdf::from_parts(key.into(), ctxb.into());
    eq("Kdf<Stack, Stack> (arrays converted by value)", &want, &must_ok(stack.derive_subkey_to_vec(id), "derive_subkey_to_vec")?)?;
    let vecs: Kdf<Vec<u8>, Vec<u8>> = Kdf::from_parts(key.to_vec(), ctxb.to_vec());
    eq("Kdf<Vec, Vec>", &want, &must_ok(vecs.derive_subkey_to_vec(id), "derive_subkey_to_vec")?)?;
    let by_val: Kdf<HeapByteArray<32>, HeapByteArray<8>> = Kdf::from_parts(key.into(), ctxb.into());
    eq("Kdf<Heap, Heap> (key and context converted by value: [u8; N].into())", &want, &must_ok(by_val.derive_subkey_to_vec(id), "derive_subkey_to_vec")?)?;
    let out: HeapByteArray<32> = must_ok(by_val.derive_subkey(id), "Kdf<Heap>::derive_subkey -> Heap")?;
    eq("Kdf<Heap, Heap> (by value) -> Heap", &want, out.as_slice())?;
    let by_ref: Kdf<HeapByteArray<32>, HeapByteArray<8>> = Kdf::from_parts((&key).into(), (&ctxb).into());
    eq("Kdf<Heap, Heap> (converted by reference)", &want, &must_ok(by_ref.derive_subkey_to_vec(id), "derive_subkey_to_vec")?)?;
    let tried: Kdf<HeapByteArray<32>, HeapByteArray<8>> = Kdf::from_parts(
        must_ok(HeapByteArray::<32>::try_from(&key[..]), "HeapByteArray::try_from")?,
        must_ok(HeapByteArray::<8>::try_from(&ctxb[..]), "HeapByteArray::try_from")?,
    );
    eq("Kdf<Heap, Heap> (converted from slices)", &want, &must_ok(tried.derive_subkey_to_vec(id), "derive_subkey_to_vec")?)?;
    let from_stack: Kdf<HeapByteArray<32>, HeapByteArray<8>> =
        Kdf::from_parts(StackByteArray::<32>::from(key).into(), StackByteArray::<8>::from(ctxb).into());
    eq("Kdf<Heap, Heap> (converted from stack arrays)", &want, &must_ok(from_stack.derive_subkey_to_vec(id), "derive_subkey_to_vec")?)?;
    let locked: Kdf<Locked<HeapByteArray<32>>, Locked<HeapByteArray<8>>> = Kdf::from_parts(
        granted(HeapByteArray::<32>::from(key).mlock(), "mlock")?,
        granted(HeapByteArray::<8>::from(ctxb).mlock(), "mlock")?,
    );
    eq("Kdf<Locked, Locked> (by value, then mlock)", &want, &must_ok(locked.derive_subkey_to_vec(id), "derive_subkey_to_vec")?)?;

    let wanth = so::generichash(32, &m, &key).expect("generichash");
    let hk: HeapByteArray<32> = key.into();
    let h: Vec<u8> = must_ok(GenericHash::<32, 32>::hash(&m, Some(&hk)), "GenericHash::hash (heap key, by value)")?;
    eq("GenericHash::hash (key = [u8; 32].into() heap array)", &wanth, &h)?;
    let h: Vec<u8> = must_ok(GenericHash::<32, 32>::hash(&m, Some(&HeapByteArray::<32>::from(&key))), "GenericHash::hash (heap key, by reference)")?;
    eq("GenericHash::hash (key = HeapByteArray::from(&[u8; 32]))", &wanth, &h)?;
    let h: Vec<u8> = must_ok(GenericHash::<32, 32>::hash(&m, Some(&StackByteArray::<32>::from(key))), "GenericHash::hash (stack key)")?;
    eq("GenericHash::hash (stack key)", &wanth, &h)?;
    let h: Vec<u8> = must_ok(GenericHash::<32, 32>::hash(&HeapBytes::from(&m[..]), Some(&key)), "GenericHash::hash (array key, heap input)")?;
    eq("GenericHash::hash (array key, HeapBytes input)", &wanth, &h)?;
    let wanta = so::auth(&m, &key);
    let mac: Vec<u8> = Auth::compute(HeapByteArray::<32>::from(key), &m);
    eq("Auth::compute (key = HeapByteArray::from([u8; 32]))", &wanta, &mac)
}

/// k, n, ska, skb, m, tail: keys and nonces handed to the object API as BORROWED SLICES `&[u8]` of a longer buffer (the
/// key bytes followed by `tail`) that lives in a Vec, in heap bytes or in locked memory: whatever holds the buffer, only
/// its leading bytes are the key -- the result equals libsodium's on the leading bytes and the one obtained with the
/// fixed-length locked containers.
fn borrowed_slice_containers(i: &Input) -> Outcome {
    use dryoc::dryocbox::protected::LockedBox as PkLockedBox;
    use dryoc::dryocbox::DryocBox;
    use dryoc::dryocsecretbox::protected::LockedBox;
    use dryoc::dryocsecretbox::DryocSecretBox;
    let (k, n, m, tail) = (i.arr::<32>("k"), i.arr::<24>("n"), i.get("m"), i.get("tail"));
    let (ska, skb) = (i.arr::<32>("ska"), i.arr::<32>("skb"));
    let (pka, pkb) = (so::scalarmult_base(&ska), so::scalarmult_base(&skb));
    let long = |head: &[u8]| -> Vec<u8> { [head, tail].concat() };
    let how = format!("{} trailing bytes", tail.len());

    let wire = so::secretbox_easy(m, &n, &k);
    let (kv, nv) = (long(&k), long(&n));
    let (kh, nh) = (HeapBytes::from(&kv[..]), HeapBytes::from(&nv[..]));
    let (kl, nl) = (lkb(&kv)?, rob(&nv)?);
    let variants: [(&str, &[u8], &[u8]); 3] = [
        ("slices of a Vec", &kv, &nv),
        ("slices of HeapBytes", kh.as_slice(), nh.as_slice()),
        ("slices of locked / read-only locked HeapBytes", kl.as_slice(), nl.as_slice()),
    ];
    for (name, ks, ns) in variants {
        let b: LockedBox = DryocSecretBox::encrypt(m, &ns, &ks);
        eq(&format!("DryocSecretBox::encrypt -> LockedBox, key and nonce as {} ({})", name, how), &wire, &b.to_vec())?;
        let p: LockedBytes = must_ok(b.decrypt(&ns, &ks), &format!("LockedBox::decrypt, key and nonce as {} ({})", name, how))?;
        eq(&format!("LockedBox::decrypt plaintext, key and nonce as {}", name), m, p.as_slice())?;
    }
    let b: LockedBox = DryocSecretBox::encrypt(m, &lk(&n)?, &lk(&k)?);
    eq("DryocSecretBox::encrypt -> LockedBox (fixed-length locked key and nonce)", &wire, &b.to_vec())?;

    let wire = so::box_easy(m, &n, &pkb, &ska).expect("honest keys");
    let (pkbv, skav, pkav, skbv) = (long(&pkb), long(&ska), long(&pka), long(&skb));
    let (pkbl, skal, pkal, skbl) = (lkb(&pkbv)?, lkb(&skav)?, rob(&pkav)?, rob(&skbv)?);
    let (npk, nsk, nn): (&[u8], &[u8], &[u8]) = (pkbl.as_slice(), skal.as_slice(), nl_as(&nv));
    let b: PkLockedBox = must_ok(DryocBox::encrypt(m, &nn, &npk, &nsk), "DryocBox::encrypt (slices of locked buffers)")?;
    eq(&format!("DryocBox::encrypt -> LockedBox, nonce and keys as slices of locked buffers ({})", how), &wire, &b.to_vec())?;
    let (rpk, rsk): (&[u8], &[u8]) = (pkal.as_slice(), skbl.as_slice());
    let p: LockedBytes = must_ok(b.decrypt(&nn, &rpk, &rsk), &format!("LockedBox::decrypt, nonce and keys as slices of read-only locked buffers ({})", how))?;
    eq("LockedBox::decrypt plaintext (slices of read-only locked buffers)", m, p.as_slice())?;
    let (vpk, vsk): (&[u8], &[u8]) = (&pkbv, &skav);
    let b: PkLockedBox = must_ok(DryocBox::encrypt(m, &nn, &vpk, &vsk), "DryocBox::encrypt (slices of Vecs)")?;
    eq(&format!("DryocBox::encrypt -> LockedBox, keys as slices of Vecs ({})", how), &wire, &b.to_vec())
}

fn nl_as(v: &[u8]) -> &[u8] {
    v
}

// ---------------------------------------------------------------------------------------------------------------------
// The `protected::*` type ALIASES of every object-API module (generichash, auth, onetimeauth, kdf, kx, sign, dryocbox,
// dryocsecretbox, dryocstream, pwhash), used by NAME as key / nonce / output containers -- as the modules' documentation
// does.  An alias is only a name for a container, so the result is the one obtained with the stack alias of the same name
// and libsodium's: the same bytes AND the same length (where the API infers a length from the container, e.g. the digest
// length of GenericHash, a wrong alias silently computes something else).
// ---------------------------------------------------------------------------------------------------------------------

/// a fresh container of the alias' own length holding the leading bytes of `src` (as much as fits)
fn filled<T: MutBytes>(mut t: T, src: &[u8]) -> T {
    let n = t.len().min(src.len());
    t.as_mut_slice()[..n].copy_from_slice(&src[..n]);
    t
}

fn alias_len(what: &str, libsodium: usize, stack: usize, heap: usize) -> Outcome {
    if stack == libsodium && heap == libsodium {
        return Ok(());
    }
    fail(
        format!("{} bytes (libsodium)", libsodium),
        format!("stack alias {} bytes, protected alias {} bytes", stack, heap),
        format!("{}: length of a container made by the alias (new_byte_array)", what),
    )
}

/// bytes and length of a result held in a protected alias against libsodium's and the stack alias'
fn alias_eq(what: &str, libsodium: &[u8], stack: &[u8], protected: &[u8]) -> Outcome {
    if stack != libsodium {
        return fail(hex(libsodium), hex(stack), format!("{}: result in the stack alias vs libsodium", what));
    }
    if protected.len() != stack.len() {
        return fail(
            format!("{} bytes: {}", stack.len(), hex(stack)),
            format!("{} bytes: {}", protected.len(), hex(protected)),
            format!("{}: LENGTH of the result in the protected alias vs the stack alias of the same name / libsodium", what),
        );
    }
    eq(&format!("{}: result in the protected alias vs the stack alias of the same name / libsodium", what), libsodium, protected)
}

/// key (32), m, seed (32), ska, skb, n (24), ctx (8), id, pw, salt (16)
fn protected_alias_containers(i: &Input) -> Outcome {
    use libsodium_sys as ffi;
    let (key, m, seed) = (i.arr::<32>("key"), i.get("m").to_vec(), i.arr::<32>("seed"));
    let (ska, skb, n, ctxb, id) = (i.arr::<32>("ska"), i.arr::<32>("skb"), i.arr::<24>("n"), i.arr::<8>("ctx"), i.num("id"));
    let (pka, pkb) = (so::scalarmult_base(&ska), so::scalarmult_base(&skb));

    // ---- generichash: the digest length is inferred from the output container, the key length from the key container
    {
        use dryoc::generichash::{self as gh, GenericHash};
        let dl = unsafe { ffi::crypto_generichash_bytes() } as usize;
        let kl = unsafe { ffi::crypto_generichash_keybytes() } as usize;
        let want = so::generichash(dl, &m, &key[..kl.min(32)]).expect("generichash");
        let want_nokey = so::generichash(dl, &m, &[]).expect("generichash");
        let sk = filled(gh::Key::new_byte_array(), &key);
        let pk = filled(gh::protected::Key::new_byte_array(), &key);
        let lkey: Locked<gh::protected::Key> = granted(filled(gh::protected::Key::new_byte_array(), &key).mlock(), "mlock")?;
        let rokey = must_ok(granted(filled(gh::protected::Key::new_byte_array(), &key).mlock(), "mlock")?.mprotect_readonly(), "mprotect_readonly")?;
        let stack: gh::Hash = must_ok(GenericHash::hash(&m, Some(&sk)), "GenericHash::hash -> generichash::Hash")?;
        let heap: gh::protected::Hash = must_ok(GenericHash::hash(&m, Some(&pk)), "GenericHash::hash -> generichash::protected::Hash")?;
        alias_eq("GenericHash::hash (key in generichash::protected::Key) -> generichash::protected::Hash", &want, stack.as_slice(), heap.as_slice())?;
        let locked: Locked<gh::protected::Hash> = must_ok(GenericHash::hash(&m, Some(&lkey)), "GenericHash::hash -> Locked<protected::Hash>")?;
        alias_eq("GenericHash::hash (key in Locked<protected::Key>) -> Locked<generichash::protected::Hash>", &want, stack.as_slice(), locked.as_slice())?;
        let locked: Locked<gh::protected::Hash> =
            must_ok(GenericHash::hash(&granted(HeapBytes::from_slice_into_readonly_locked(&m), "from_slice_into_readonly_locked")?, Some(&rokey)), "GenericHash::hash (read-only locked input and key)")?;
        alias_eq("GenericHash::hash (read-only locked input and key, as in the module documentation) -> Locked<generichash::protected::Hash>", &want, stack.as_slice(), locked.as_slice())?;
        // key in the stack alias, output in the protected one and vice versa
        let heap: gh::protected::Hash = must_ok(GenericHash::hash(&m, Some(&sk)), "GenericHash::hash (stack key) -> protected::Hash")?;
        alias_eq("GenericHash::hash (key in generichash::Key) -> generichash::protected::Hash", &want, stack.as_slice(), heap.as_slice())?;
        let stack2: gh::Hash = must_ok(GenericHash::hash(&m, Some(&pk)), "GenericHash::hash (protected key) -> Hash")?;
        alias_eq("GenericHash::hash (key in generichash::protected::Key) -> generichash::Hash", &want, stack.as_slice(), stack2.as_slice())?;
        // no key
        let stack_nk: gh::Hash = must_ok(GenericHash::hash::<_, gh::Key, _>(&m, None), "GenericHash::hash (no key) -> Hash")?;
        let heap_nk: gh::protected::Hash = must_ok(GenericHash::hash::<_, gh::protected::Key, _>(&m, None), "GenericHash::hash (no key) -> protected::Hash")?;
        alias_eq("GenericHash::hash (no key) -> generichash::protected::Hash", &want_nokey, stack_nk.as_slice(), heap_nk.as_slice())?;
        // incremental
        let cut = m.len() / 3;
        let mut h = must_ok(GenericHash::new(Some(&sk)), "GenericHash::new")?;
        h.update(&m[..cut]);
        h.update(&m[cut..]);
        let stack_i: gh::Hash = must_ok(h.finalize(), "GenericHash::finalize -> Hash")?;
        let mut h = must_ok(GenericHash::new(Some(&lkey)), "GenericHash::new (locked key)")?;
        h.update(&m[..cut]);
        h.update(&m[cut..]);
        let locked_i: Locked<gh::protected::Hash> = must_ok(h.finalize(), "GenericHash::finalize -> Locked<protected::Hash>")?;
        alias_eq("GenericHash::new / update / finalize -> Locked<generichash::protected::Hash>", &want, stack_i.as_slice(), locked_i.as_slice())?;
        let mut h = must_ok(GenericHash::new(Some(&pk)), "GenericHash::new (heap key)")?;
        h.update(&m);
        let heap_i: gh::protected::Hash = must_ok(h.finalize(), "GenericHash::finalize -> protected::Hash")?;
        alias_eq("GenericHash::new / update / finalize -> generichash::protected::Hash", &want, stack_i.as_slice(), heap_i.as_slice())?;
    }

    // ---- auth / onetimeauth
    {
        use dryoc::auth::{self, Auth};
        let want = so::auth(&m, &key);
        let stack: auth::Mac = Auth::compute(filled(auth::Key::new_byte_array(), &key), &m);
        let heap: auth::protected::Mac = Auth::compute(filled(auth::protected::Key::new_byte_array(), &key), &m);
        alias_eq("Auth::compute (auth::protected::Key) -> auth::protected::Mac", &want, stack.as_slice(), heap.as_slice())?;
        let lkey: Locked<auth::protected::Key> = granted(filled(auth::protected::Key::new_byte_array(), &key).mlock(), "mlock")?;
        let locked: Locked<auth::protected::Mac> = Auth::compute(lkey, &m);
        alias_eq("Auth::compute (Locked<auth::protected::Key>) -> Locked<auth::protected::Mac>", &want, stack.as_slice(), locked.as_slice())?;
        let mut a = Auth::new(filled(auth::protected::Key::new_byte_array(), &key));
        a.update(&m);
        let inc: Locked<auth::protected::Mac> = a.finalize();
        alias_eq("Auth::new / update / finalize -> Locked<auth::protected::Mac>", &want, stack.as_slice(), inc.as_slice())?;
        must_ok(Auth::compute_and_verify(&heap, filled(auth::protected::Key::new_byte_array(), &key), &m), "Auth::compute_and_verify (MAC in auth::protected::Mac)")?;

        use dryoc::onetimeauth::{self as ota, OnetimeAuth};
        let want = so::onetimeauth(&m, &key);
        let stack: ota::Mac = OnetimeAuth::compute(filled(ota::Key::new_byte_array(), &key), &m);
        let heap: ota::protected::Mac = OnetimeAuth::compute(filled(ota::protected::Key::new_byte_array(), &key), &m);
        alias_eq("OnetimeAuth::compute (onetimeauth::protected::Key) -> onetimeauth::protected::Mac", &want, stack.as_slice(), heap.as_slice())?;
        let lkey: Locked<ota::protected::Key> = granted(filled(ota::protected::Key::new_byte_array(), &key).mlock(), "mlock")?;
        let locked: Locked<ota::protected::Mac> = OnetimeAuth::compute(lkey, &m);
        alias_eq("OnetimeAuth::compute (Locked<protected::Key>) -> Locked<onetimeauth::protected::Mac>", &want, stack.as_slice(), locked.as_slice())?;
    }

    // ---- kdf
    {
        use dryoc::kdf::{self, Kdf};
        let want = so::kdf_derive(unsafe { ffi::crypto_kdf_keybytes() } as usize, id, &ctxb, &key).expect("subkey");
        let ks: kdf::StackKdf = Kdf::from_parts(filled(kdf::Key::new_byte_array(), &key), filled(kdf::Context::new_byte_array(), &ctxb));
        let stack: kdf::Key = must_ok(ks.derive_subkey(id), "StackKdf::derive_subkey -> kdf::Key")?;
        let kl: kdf::protected::LockedKdf = Kdf::from_parts(
            granted(filled(kdf::protected::Key::new_byte_array(), &key).mlock(), "mlock")?,
            granted(filled(kdf::protected::Context::new_byte_array(), &ctxb).mlock(), "mlock")?,
        );
        let heap: kdf::protected::Key = must_ok(kl.derive_subkey(id), "LockedKdf::derive_subkey -> kdf::protected::Key")?;
        alias_eq("kdf::protected::LockedKdf::derive_subkey -> kdf::protected::Key", &want, stack.as_slice(), heap.as_slice())?;
        let locked: Locked<kdf::protected::Key> = must_ok(kl.derive_subkey(id), "LockedKdf::derive_subkey -> Locked<kdf::protected::Key>")?;
        alias_eq("kdf::protected::LockedKdf::derive_subkey -> Locked<kdf::protected::Key>", &want, stack.as_slice(), locked.as_slice())?;
    }

    // ---- kx
    {
        use dryoc::keypair::KeyPair;
        use dryoc::kx::{self, Session};
        let (wrx, wtx) = so::kx_client(&pka, &ska, &pkb).expect("honest keys");
        let kp_s: kx::KeyPair = KeyPair { public_key: filled(kx::PublicKey::new_byte_array(), &pka), secret_key: filled(kx::SecretKey::new_byte_array(), &ska) };
        let ss: kx::StackSession = must_ok(Session::new_client(&kp_s, &filled(kx::PublicKey::new_byte_array(), &pkb)), "StackSession::new_client")?;
        let kp_l: kx::protected::LockedKeyPair = KeyPair {
            public_key: granted(filled(kx::protected::PublicKey::new_byte_array(), &pka).mlock(), "mlock")?,
            secret_key: granted(filled(kx::protected::SecretKey::new_byte_array(), &ska).mlock(), "mlock")?,
        };
        let peer: Locked<kx::protected::PublicKey> = granted(filled(kx::protected::PublicKey::new_byte_array(), &pkb).mlock(), "mlock")?;
        let ls: kx::protected::LockedSession = must_ok(Session::new_client(&kp_l, &peer), "LockedSession::new_client")?;
        alias_eq("kx::protected::LockedSession::new_client (LockedKeyPair) rx", &wrx, ss.rx_as_slice(), ls.rx_as_slice())?;
        alias_eq("kx::protected::LockedSession::new_client (LockedKeyPair) tx", &wtx, ss.tx_as_slice(), ls.tx_as_slice())?;
        let kp_r: kx::protected::LockedROKeyPair = KeyPair {
            public_key: must_ok(granted(filled(kx::protected::PublicKey::new_byte_array(), &pka).mlock(), "mlock")?.mprotect_readonly(), "mprotect_readonly")?,
            secret_key: must_ok(granted(filled(kx::protected::SecretKey::new_byte_array(), &ska).mlock(), "mlock")?.mprotect_readonly(), "mprotect_readonly")?,
        };
        let peer_r = must_ok(granted(filled(kx::protected::PublicKey::new_byte_array(), &pkb).mlock(), "mlock")?.mprotect_readonly(), "mprotect_readonly")?;
        let hs: Session<kx::protected::SessionKey> = must_ok(Session::new_client(&kp_r, &peer_r), "Session<kx::protected::SessionKey>::new_client")?;
        let (rx, tx) = hs.into_parts();
        alias_eq("Session<kx::protected::SessionKey>::new_client (LockedROKeyPair) rx", &wrx, ss.rx_as_slice(), rx.as_slice())?;
        alias_eq("Session<kx::protected::SessionKey>::new_client (LockedROKeyPair) tx", &wtx, ss.tx_as_slice(), tx.as_slice())?;
    }

    // ---- sign
    {
        use dryoc::sign::{self, SigningKeyPair};
        let (pk, sk) = so::sign_seed_keypair(&seed);
        let want = so::sign(&m, &sk);
        let kp_s: SigningKeyPair<sign::PublicKey, sign::SecretKey> = SigningKeyPair::from_seed(&seed);
        let stack: sign::VecSignedMessage = must_ok(kp_s.sign_with_defaults(m.clone()), "sign_with_defaults")?;
        let kp_l: sign::protected::LockedSigningKeyPair = SigningKeyPair::from_seed(&lk(&seed)?);
        alias_eq("sign::protected::LockedSigningKeyPair::from_seed public key", &pk, kp_s.public_key.as_slice(), kp_l.public_key.as_slice())?;
        alias_eq("sign::protected::LockedSigningKeyPair::from_seed secret key", &sk, kp_s.secret_key.as_slice(), kp_l.secret_key.as_slice())?;
        let msg: Locked<sign::protected::Message> = granted(sign::protected::Message::from_slice_into_locked(&m), "from_slice_into_locked")?;
        let signed: sign::protected::LockedSignedMessage = must_ok(kp_l.sign(msg), "LockedSigningKeyPair::sign -> LockedSignedMessage")?;
        alias_eq("sign::protected::LockedSignedMessage::to_vec", &want, &stack.to_vec(), &signed.to_vec())?;
        must_ok(signed.verify(&kp_l.public_key), "LockedSignedMessage::verify")?;
        let (sig, body) = signed.into_parts();
        alias_eq("sign::protected::LockedSignedMessage signature part", &want[..64], &stack.to_vec()[..64], sig.as_slice())?;
        alias_eq("sign::protected::LockedSignedMessage message part", &m, &stack.to_vec()[64..], body.as_slice())?;
        let heap_signed: sign::SignedMessage<sign::protected::Signature, sign::protected::Message> =
            must_ok(kp_l.sign(sign::protected::Message::from(&m[..])), "LockedSigningKeyPair::sign -> SignedMessage<protected::Signature, protected::Message>")?;
        alias_eq("SignedMessage<sign::protected::Signature, sign::protected::Message>::to_vec", &want, &stack.to_vec(), &heap_signed.to_vec())?;
        must_ok(heap_signed.verify(&filled(sign::protected::PublicKey::new_byte_array(), &pk)), "SignedMessage::verify (sign::protected::PublicKey)")?;
    }

    // ---- dryocbox / dryocsecretbox
    {
        use dryoc::dryocbox::{self as bx, DryocBox};
        let want = so::box_easy(&m, &n, &pkb, &ska).expect("honest keys");
        let stack: bx::VecBox = must_ok(
            DryocBox::encrypt(&m, &filled(bx::Nonce::new_byte_array(), &n), &filled(bx::PublicKey::new_byte_array(), &pkb), &filled(bx::SecretKey::new_byte_array(), &ska)),
            "VecBox::encrypt",
        )?;
        let (pn, ppk, psk) = (
            filled(bx::protected::Nonce::new_byte_array(), &n),
            granted(filled(bx::protected::PublicKey::new_byte_array(), &pkb).mlock(), "mlock")?,
            granted(filled(bx::protected::SecretKey::new_byte_array(), &ska).mlock(), "mlock")?,
        );
        let locked: bx::protected::LockedBox = must_ok(DryocBox::encrypt(&m, &pn, &ppk, &psk), "dryocbox::protected::LockedBox::encrypt")?;
        alias_eq("dryocbox::protected::LockedBox::encrypt (protected::Nonce, Locked<protected::PublicKey / SecretKey>)", &want, &stack.to_vec(), &locked.to_vec())?;
        let kp_b: bx::protected::LockedKeyPair = dryoc::keypair::KeyPair {
            public_key: granted(filled(bx::protected::PublicKey::new_byte_array(), &pkb).mlock(), "mlock")?,
            secret_key: granted(filled(bx::protected::SecretKey::new_byte_array(), &skb).mlock(), "mlock")?,
        };
        let p: LockedBytes = must_ok(locked.decrypt(&pn, &filled(bx::protected::PublicKey::new_byte_array(), &pka), &kp_b.secret_key), "LockedBox::decrypt")?;
        eq("dryocbox::protected::LockedBox::decrypt (LockedKeyPair's secret key)", &m, p.as_slice())?;
        let hb: DryocBox<bx::protected::PublicKey, bx::protected::Mac, HeapBytes> = must_ok(DryocBox::encrypt(&m, &pn, &ppk, &psk), "DryocBox<protected::PublicKey, protected::Mac, HeapBytes>::encrypt")?;
        alias_eq("DryocBox<dryocbox::protected::PublicKey, dryocbox::protected::Mac, HeapBytes>::encrypt", &want, &stack.to_vec(), &hb.to_vec())?;

        use dryoc::dryocsecretbox::{self as sb, DryocSecretBox};
        let want = so::secretbox_easy(&m, &n, &key);
        let stack: sb::VecBox = DryocSecretBox::encrypt(&m, &filled(sb::Nonce::new_byte_array(), &n), &filled(sb::Key::new_byte_array(), &key));
        let (pn, pk) = (
            granted(filled(sb::protected::Nonce::new_byte_array(), &n).mlock(), "mlock")?,
            granted(filled(sb::protected::Key::new_byte_array(), &key).mlock(), "mlock")?,
        );
        let locked: sb::protected::LockedBox = DryocSecretBox::encrypt(&m, &pn, &pk);
        alias_eq("dryocsecretbox::protected::LockedBox::encrypt (Locked<protected::Nonce>, Locked<protected::Key>)", &want, &stack.to_vec(), &locked.to_vec())?;
        let hb: DryocSecretBox<sb::protected::Mac, HeapBytes> = DryocSecretBox::encrypt(&m, &filled(sb::protected::Nonce::new_byte_array(), &n), &filled(sb::protected::Key::new_byte_array(), &key));
        alias_eq("DryocSecretBox<dryocsecretbox::protected::Mac, HeapBytes>::encrypt", &want, &stack.to_vec(), &hb.to_vec())?;
        let p: LockedBytes = must_ok(locked.decrypt(&pn, &pk), "dryocsecretbox::protected::LockedBox::decrypt")?;
        eq("dryocsecretbox::protected::LockedBox::decrypt", &m, p.as_slice())?;
    }

    // ---- dryocstream
    {
        use dryoc::dryocstream::{self as st, DryocStream, Tag};
        let pkey: Locked<st::protected::Key> = granted(filled(st::protected::Key::new_byte_array(), &key).mlock(), "mlock")?;
        let (mut push, header): (_, st::protected::Header) = DryocStream::init_push(&pkey);
        let c: LockedBytes = must_ok(push.push(&m, None, Tag::MESSAGE), "DryocStream::push")?;
        let hl = unsafe { ffi::crypto_secretstream_xchacha20poly1305_headerbytes() } as usize;
        if header.len() != hl {
            return fail(hl.to_string(), header.len().to_string(), "DryocStream::init_push -> dryocstream::protected::Header: header length");
        }
        let hdr: [u8; 24] = header.as_slice().try_into().unwrap();
        let mut sl = so::stream_init_pull(&hdr, &key);
        match so::stream_pull(&mut sl, c.as_slice(), None) {
            Some((p, _)) => eq("libsodium pull of DryocStream::push (Locked<dryocstream::protected::Key>, protected::Header)", &m, &p)?,
            None => return fail("Ok", "Err", "libsodium rejects DryocStream::push output (key in Locked<dryocstream::protected::Key>, header in protected::Header)"),
        }
        let header2 = [0x42u8; 24];
        let mut sp = so::stream_init_pull(&header2, &key);
        let c2 = so::stream_push(&mut sp, &m, None, 0);
        let mut pull = DryocStream::init_pull(&filled(st::protected::Key::new_byte_array(), &key), &filled(st::protected::Header::new_byte_array(), &header2));
        let (p, _) = must_ok(pull.pull_to_vec(&c2, None), "DryocStream::pull_to_vec (protected::Key, protected::Header)")?;
        let mut pull_s = DryocStream::init_pull(&filled(st::Key::new_byte_array(), &key), &filled(st::Header::new_byte_array(), &header2));
        let (p_s, _) = must_ok(pull_s.pull_to_vec(&c2, None), "DryocStream::pull_to_vec (Key, Header)")?;
        alias_eq("DryocStream::init_pull (dryocstream::protected::Key, protected::Header) + pull", &m, &p_s, &p)?;
    }

    // ---- pwhash (resizable aliases): minimal costs
    {
        use dryoc::pwhash::{self as ph, Config, PwHash};
        let (pw, salt) = (i.get("pw").to_vec(), i.arr::<16>("salt"));
        let want = so::pwhash(32, &pw, &salt, 1, 8192, so::ALG_ARGON2ID13).expect("minimal parameters");
        let cfg = || Config::interactive().with_opslimit(1).with_memlimit(8192);
        let stack: ph::VecPwHash = must_ok(PwHash::hash_with_salt(&pw, ph::Salt::from(&salt[..]), cfg()), "VecPwHash::hash_with_salt")?;
        let lsalt: Locked<ph::protected::Salt> = granted(ph::protected::Salt::from_slice_into_locked(&salt), "from_slice_into_locked")?;
        let locked: ph::protected::LockedPwHash = must_ok(PwHash::hash_with_salt(&pw, lsalt, cfg()), "pwhash::protected::LockedPwHash::hash_with_salt")?;
        must_ok(locked.verify(&pw), "LockedPwHash::verify")?;
        let (sh, _, _) = stack.into_parts();
        let (lh, ls, _) = locked.into_parts();
        alias_eq("pwhash::protected::LockedPwHash::hash_with_salt hash", &want, &sh, lh.as_slice())?;
        eq("pwhash::protected::LockedPwHash stored salt", &salt, ls.as_slice())?;
        let heap: PwHash<ph::protected::Hash, ph::protected::Salt> = must_ok(PwHash::hash_with_salt(&pw, ph::protected::Salt::from(&salt[..]), cfg()), "PwHash<protected::Hash, protected::Salt>::hash_with_salt")?;
        let (hh, _, _) = heap.into_parts();
        alias_eq("PwHash<pwhash::protected::Hash, pwhash::protected::Salt>::hash_with_salt hash", &want, &sh, hh.as_slice())?;
    }

    // ---- lengths of every fixed-length alias pair (stack alias, protected alias of the same name) vs libsodium's constant
    macro_rules! len_of {
        ($m:ident, $name:ident, $c:ident) => {{
            let s = <dryoc::$m::$name>::new_byte_array();
            let p = <dryoc::$m::protected::$name>::new_byte_array();
            alias_len(concat!(stringify!($m), "::", stringify!($name), " / ", stringify!($m), "::protected::", stringify!($name)), unsafe { ffi::$c() } as usize, s.len(), p.len())?;
            let l: Locked<dryoc::$m::protected::$name> = granted(<dryoc::$m::protected::$name>::new_locked(), "new_locked")?;
            alias_len(concat!("Locked<", stringify!($m), "::protected::", stringify!($name), ">"), unsafe { ffi::$c() } as usize, s.len(), l.len())?;
        }};
    }
    len_of!(generichash, Hash, crypto_generichash_bytes);
    len_of!(generichash, Key, crypto_generichash_keybytes);
    len_of!(auth, Key, crypto_auth_keybytes);
    len_of!(auth, Mac, crypto_auth_bytes);
    len_of!(onetimeauth, Key, crypto_onetimeauth_keybytes);
    len_of!(onetimeauth, Mac, crypto_onetimeauth_bytes);
    len_of!(kdf, Key, crypto_kdf_keybytes);
    len_of!(kdf, Context, crypto_kdf_contextbytes);
    len_of!(kx, SessionKey, crypto_kx_sessionkeybytes);
    len_of!(kx, PublicKey, crypto_kx_publickeybytes);
    len_of!(kx, SecretKey, crypto_kx_secretkeybytes);
    len_of!(sign, PublicKey, crypto_sign_publickeybytes);
    len_of!(sign, SecretKey, crypto_sign_secretkeybytes);
    len_of!(sign, Signature, crypto_sign_bytes);
    len_of!(dryocbox, PublicKey, crypto_box_publickeybytes);
    len_of!(dryocbox, SecretKey, crypto_box_secretkeybytes);
    len_of!(dryocbox, Nonce, crypto_box_noncebytes);
    len_of!(dryocbox, Mac, crypto_box_macbytes);
    len_of!(dryocsecretbox, Key, crypto_secretbox_keybytes);
    len_of!(dryocsecretbox, Nonce, crypto_secretbox_noncebytes);
    len_of!(dryocsecretbox, Mac, crypto_secretbox_macbytes);
    len_of!(dryocstream, Key, crypto_secretstream_xchacha20poly1305_keybytes);
    len_of!(dryocstream, Header, crypto_secretstream_xchacha20poly1305_headerbytes);
    len_of!(dryocstream, Nonce, crypto_stream_chacha20_ietf_noncebytes);
    Ok(())
}

pub const C18: Registry = &[
    ("borrowed_slice_containers", borrowed_slice_containers),
    ("heap_conversions", heap_conversions),
    ("converted_key_containers", converted_key_containers),
    ("clone_containers", clone_containers),
    ("precalc_containers", precalc_containers),
    ("kx_containers", kx_containers),
    ("kdf_containers", kdf_containers),
    ("box_containers", box_containers),
    ("secretbox_containers", secretbox_containers),
    ("pwhash_containers", pwhash_containers),
    ("sign_containers", sign_containers),
    ("mac_containers", mac_containers),
    ("stream_containers", stream_containers),
    ("protected_alias_containers", protected_alias_containers),
];

pub fn c18(ctx: &mut Ctx) -> Search {
    let t = ctx.thorough;
    let lens: Vec<usize> = if t {
        (0..=40).chain([63, 64, 65, 100, 255, 256, 257, 1000, 4095, 4096, 4097, 8192, 10000]).collect()
    } else {
        vec![0, 1, 15, 16, 17, 24, 32, 33, 64, 100, 4096, 4097]
    };
    for len in &lens {
        let b = ctx.rng.bytes(*len);
        ctx.run("clone_containers", Input::new().b("bytes", &b))?;
    }
    // every conversion into a heap container (8 = KDF context, 16/24/32/64 = MAC, nonce, key, signature lengths)
    // (own generator state: the inputs of the cases below stay what they were)
    let mut rng2 = ctx.rng.clone();
    for len in [8usize, 16, 24, 32, 64].iter().chain(lens.iter()) {
        let b = rng2.bytes(*len);
        ctx.run("heap_conversions", Input::new().b("bytes", &b))?;
    }
    // keys / nonces as borrowed slices of longer buffers held in Vec / heap / locked memory (own generator state)
    {
        let mut rng3 = Rng::new(0xB0220 + t as u64);
        let tls: Vec<usize> = if t { vec![0, 1, 8, 32, 100, 4096] } else { vec![0, 1, 8, 32] };
        for (j, tl) in tls.into_iter().enumerate() {
            let mlen = [0usize, 1, 33, 257, 4097, 64][j % 6];
            let (k, n, ska, skb) = (rng3.arr::<32>(), rng3.arr::<24>(), rng3.arr::<32>(), rng3.arr::<32>());
            let (m, tail) = (rng3.bytes(mlen), rng3.bytes(tl));
            ctx.run(
                "borrowed_slice_containers",
                Input::new().b("k", &k).b("n", &n).b("ska", &ska).b("skb", &skb).b("m", &m).b("tail", &tail),
            )?;
        }
    }
    // the protected::* aliases of every module by name (own generator state)
    {
        let mut rng4 = Rng::new(0xA11A5 + t as u64);
        let mlens: Vec<usize> = if t { vec![0, 1, 18, 64, 127, 128, 129, 300, 1000, 4097] } else { vec![0, 18, 129, 300] };
        for (j, mlen) in mlens.into_iter().enumerate() {
            let inp = Input::new()
                .b("key", &rng4.arr::<32>())
                .b("m", &rng4.bytes(mlen))
                .b("seed", &rng4.arr::<32>())
                .b("ska", &rng4.arr::<32>())
                .b("skb", &rng4.arr::<32>())
                .b("n", &rng4.arr::<24>())
                .b("ctx", &rng4.arr::<8>())
                .u("id", [0u64, 1, 1 << 32, u64::MAX][j % 4])
                .b("pw", &rng4.bytes(1 + j % 9))
                .b("salt", &rng4.arr::<16>());
            ctx.run("protected_alias_containers", inp)?;
        }
    }
    let rounds = if t { 24 } else { 4 };
    for r in 0..rounds {
        {
            let (key, c, m) = (rng2.arr::<32>(), rng2.arr::<8>(), rng2.bytes([0usize, 1, 55, 129][r % 4]));
            let id = [0u64, 1, 1 << 32, u64::MAX][r % 4];
            ctx.run("converted_key_containers", Input::new().b("key", &key).b("ctx", &c).u("id", id).b("m", &m))?;
        }
        let (ska, skb) = (ctx.rng.arr::<32>(), ctx.rng.arr::<32>());
        ctx.run("precalc_containers", Input::new().b("ska", &ska).b("skb", &skb))?;
        ctx.run("kx_containers", Input::new().b("sk", &ska).b("peer_sk", &skb))?;
        let (key, c) = (ctx.rng.arr::<32>(), ctx.rng.arr::<8>());
        let id = [0u64, 1, 1 << 32, u64::MAX][r % 4];
        ctx.run("kdf_containers", Input::new().b("key", &key).b("ctx", &c).u("id", id))?;
        let mlen = [0usize, 1, 33, 257, 4097, 16, 64, 1000][r % 8];
        let (n, m) = (ctx.rng.arr::<24>(), ctx.rng.bytes(mlen));
        ctx.run("box_containers", Input::new().b("ska", &ska).b("skb", &skb).b("n", &n).b("m", &m))?;
        ctx.run("secretbox_containers", Input::new().b("k", &key).b("n", &n).b("m", &m))?;
        ctx.run("sign_containers", Input::new().b("seed", &key).b("m", &m))?;
        ctx.run("mac_containers", Input::new().b("key", &key).b("m", &m))?;
        ctx.run("stream_containers", Input::new().b("k", &key).b("m", &m))?;
        let pw = ctx.rng.bytes(1 + r % 9);
        let salt = ctx.rng.arr::<16>();
        let outlen = [32u64, 16, 64, 33][r % 4];
        ctx.run("pwhash_containers", Input::new().b("pw", &pw).b("salt", &salt).u("outlen", outlen))?;
    }
    Ok(())
}

// ======================================================================
// C11 (nightly flavour) -- every randomised constructor of the heap / locked / read-only locked containers and of the
// object APIs' protected aliases draws fresh randomness on every call: no all-zero value, no repeats over N calls, no
// constant byte position.  The stable cases of `misc::C11` run in this flavour too (see main.rs).
// ======================================================================

use crate::misc::fresh;

fn n_of(i: &Input) -> usize {
    i.num("n").max(2) as usize
}

fn os<T>(r: Result<T, std::io::Error>, what: &str) -> T {
    match r {
        Ok(v) => v,
        Err(e) => panic!("{} {} refused by the OS: {}", HARNESS, what, e),
    }
}

macro_rules! nfresh1 {
    ($fname:ident, $what:expr, $body:expr) => {
        fn $fname(i: &Input) -> Outcome {
            let samples: Vec<Vec<u8>> = (0..n_of(i)).map(|_| -> Vec<u8> { $body }).collect();
            fresh($what, &samples)
        }
    };
}
macro_rules! nfresh2 {
    ($fname:ident, $what:expr, $a:expr, $b:expr, $body:expr) => {
        fn $fname(i: &Input) -> Outcome {
            let (x, y): (Vec<Vec<u8>>, Vec<Vec<u8>>) = (0..n_of(i)).map(|_| -> (Vec<u8>, Vec<u8>) { $body }).unzip();
            fresh(concat!($what, " ", $a), &x)?;
            fresh(concat!($what, " ", $b), &y)
        }
    };
}

/// The four randomised constructors of a fixed-length heap array of N bytes.
fn heap_array_gens<const N: usize>(i: &Input) -> Outcome {
    let n = n_of(i);
    let s: Vec<Vec<u8>> = (0..n).map(|_| HeapByteArray::<N>::gen().as_slice().to_vec()).collect();
    fresh(&format!("HeapByteArray::<{}>::gen", N), &s)?;
    let s: Vec<Vec<u8>> = (0..n).map(|_| Locked::<HeapByteArray<N>>::gen().as_slice().to_vec()).collect();
    fresh(&format!("Locked::<HeapByteArray<{}>>::gen", N), &s)?;
    let s: Vec<Vec<u8>> = (0..n).map(|_| os(HeapByteArray::<N>::gen_locked(), "gen_locked").as_slice().to_vec()).collect();
    fresh(&format!("HeapByteArray::<{}>::gen_locked", N), &s)?;
    let s: Vec<Vec<u8>> = (0..n).map(|_| os(HeapByteArray::<N>::gen_readonly_locked(), "gen_readonly_locked").as_slice().to_vec()).collect();
    fresh(&format!("HeapByteArray::<{}>::gen_readonly_locked", N), &s)
}

/// len: 8, 16, 24, 32 or 64
fn r_heap_array_gens(i: &Input) -> Outcome {
    match i.num("len") {
        8 => heap_array_gens::<8>(i),
        16 => heap_array_gens::<16>(i),
        24 => heap_array_gens::<24>(i),
        32 => heap_array_gens::<32>(i),
        64 => heap_array_gens::<64>(i),
        l => panic!("{} unsupported array length {}", HARNESS, l),
    }
}

/// One protected alias (a `HeapByteArray<N>` under a module-specific name): gen, gen_locked, gen_readonly_locked.
macro_rules! alias_gens {
    ($fname:ident, $ty:ty, $name:expr) => {
        fn $fname(i: &Input) -> Outcome {
            let n = n_of(i);
            let s: Vec<Vec<u8>> = (0..n).map(|_| <$ty>::gen().as_slice().to_vec()).collect();
            fresh(concat!($name, "::gen"), &s)?;
            let s: Vec<Vec<u8>> = (0..n).map(|_| os(<$ty>::gen_locked(), "gen_locked").as_slice().to_vec()).collect();
            fresh(concat!($name, "::gen_locked"), &s)?;
            let s: Vec<Vec<u8>> =
                (0..n).map(|_| os(<$ty>::gen_readonly_locked(), "gen_readonly_locked").as_slice().to_vec()).collect();
            fresh(concat!($name, "::gen_readonly_locked"), &s)
        }
    };
}
alias_gens!(r_p_secretbox_key, dryoc::dryocsecretbox::protected::Key, "dryocsecretbox::protected::Key");
alias_gens!(r_p_secretbox_nonce, dryoc::dryocsecretbox::protected::Nonce, "dryocsecretbox::protected::Nonce");
alias_gens!(r_p_box_nonce, dryoc::dryocbox::protected::Nonce, "dryocbox::protected::Nonce");
alias_gens!(r_p_box_secretkey, dryoc::dryocbox::protected::SecretKey, "dryocbox::protected::SecretKey");
alias_gens!(r_p_stream_key, dryoc::dryocstream::protected::Key, "dryocstream::protected::Key");
alias_gens!(r_p_stream_nonce, dryoc::dryocstream::protected::Nonce, "dryocstream::protected::Nonce");
alias_gens!(r_p_auth_key, dryoc::auth::protected::Key, "auth::protected::Key");
alias_gens!(r_p_onetimeauth_key, dryoc::onetimeauth::protected::Key, "onetimeauth::protected::Key");
alias_gens!(r_p_generichash_key, dryoc::generichash::protected::Key, "generichash::protected::Key");
alias_gens!(r_p_kdf_key, dryoc::kdf::protected::Key, "kdf::protected::Key");
alias_gens!(r_p_kdf_context, dryoc::kdf::protected::Context, "kdf::protected::Context");
alias_gens!(r_p_kx_secretkey, dryoc::kx::protected::SecretKey, "kx::protected::SecretKey");
alias_gens!(r_p_sign_secretkey, dryoc::sign::protected::SecretKey, "sign::protected::SecretKey");

nfresh2!(r_box_locked_keypair, "KeyPair::gen_locked_keypair", "public key", "secret key", {
    let kp = os(dryoc::dryocbox::protected::LockedKeyPair::gen_locked_keypair(), "gen_locked_keypair");
    (kp.public_key.as_slice().to_vec(), kp.secret_key.as_slice().to_vec())
});
nfresh2!(r_box_readonly_locked_keypair, "KeyPair::gen_readonly_locked_keypair", "public key", "secret key", {
    let kp = os(dryoc::dryocbox::protected::LockedROKeyPair::gen_readonly_locked_keypair(), "gen_readonly_locked_keypair");
    (kp.public_key.as_slice().to_vec(), kp.secret_key.as_slice().to_vec())
});
nfresh2!(r_box_keypair_gen_locked_containers, "KeyPair::<Locked, Locked>::gen", "public key", "secret key", {
    let kp = dryoc::keypair::KeyPair::<Locked<HeapByteArray<32>>, Locked<HeapByteArray<32>>>::gen();
    (kp.public_key.as_slice().to_vec(), kp.secret_key.as_slice().to_vec())
});
nfresh2!(r_box_keypair_gen_heap_containers, "KeyPair::<Heap, Heap>::gen", "public key", "secret key", {
    let kp = dryoc::keypair::KeyPair::<HeapByteArray<32>, HeapByteArray<32>>::gen();
    (kp.public_key.as_slice().to_vec(), kp.secret_key.as_slice().to_vec())
});
nfresh2!(r_sign_locked_keypair, "SigningKeyPair::gen_locked_keypair", "public key", "secret key", {
    let kp = os(dryoc::sign::protected::LockedSigningKeyPair::gen_locked_keypair(), "gen_locked_keypair");
    (kp.public_key.as_slice().to_vec(), kp.secret_key.as_slice().to_vec())
});
nfresh2!(r_sign_readonly_locked_keypair, "SigningKeyPair::gen_readonly_locked_keypair", "public key", "secret key", {
    let kp = os(
        dryoc::sign::SigningKeyPair::<LockedRO<HeapByteArray<32>>, LockedRO<HeapByteArray<64>>>::gen_readonly_locked_keypair(),
        "gen_readonly_locked_keypair",
    );
    (kp.public_key.as_slice().to_vec(), kp.secret_key.as_slice().to_vec())
});
nfresh2!(r_sign_keypair_gen_locked_containers, "SigningKeyPair::<Locked, Locked>::gen", "public key", "secret key", {
    let kp = dryoc::sign::SigningKeyPair::<Locked<HeapByteArray<32>>, Locked<HeapByteArray<64>>>::gen();
    (kp.public_key.as_slice().to_vec(), kp.secret_key.as_slice().to_vec())
});
nfresh2!(r_kdf_gen_locked, "LockedKdf::gen", "main key", "context", {
    let (k, c) = dryoc::kdf::protected::LockedKdf::gen().into_parts();
    (k.as_slice().to_vec(), c.as_slice().to_vec())
});
nfresh2!(r_kdf_gen_heap, "Kdf::<Heap, Heap>::gen", "main key", "context", {
    let (k, c) = dryoc::kdf::Kdf::<HeapByteArray<32>, HeapByteArray<8>>::gen().into_parts();
    (k.as_slice().to_vec(), c.as_slice().to_vec())
});
nfresh1!(r_stream_header_locked, "DryocStream::init_push header (locked header container, read-only locked key)", {
    use dryoc::dryocstream::DryocStream;
    let key = os(dryoc::dryocstream::protected::Key::gen_locked().and_then(|k| k.mprotect_readonly()), "gen_locked + mprotect_readonly");
    let (_s, h): (_, Locked<HeapByteArray<24>>) = DryocStream::init_push(&key);
    h.as_slice().to_vec()
});
nfresh1!(r_seal_epk_locked, "LockedBox seal ephemeral public key", {
    use dryoc::dryocbox::protected::LockedBox;
    use dryoc::dryocbox::DryocBox;
    let pk = crate::so::scalarmult_base(&[9u8; 32]);
    let b: LockedBox = DryocBox::seal(&b"abc"[..], &pk).expect("seal");
    b.to_vec()[..32].to_vec()
});

/// One key, one plaintext, a "random" read-only locked nonce per message: the ciphertexts must all differ (a repeated
/// nonce under one key is the catastrophic failure fresh nonces exist to prevent).
fn r_secretbox_nonce_use(i: &Input) -> Outcome {
    use dryoc::dryocsecretbox::protected::{Key, LockedBox, Nonce};
    use dryoc::dryocsecretbox::DryocSecretBox;
    let key = os(Key::gen_locked(), "gen_locked");
    let mut seen: Vec<Vec<u8>> = Vec::new();
    for call in 0..n_of(i) {
        let nonce = os(Nonce::gen_readonly_locked(), "gen_readonly_locked");
        let b: LockedBox = DryocSecretBox::encrypt(&b"attack at dawn"[..], &nonce, &key);
        let c = b.to_vec();
        if let Some(prev) = seen.iter().position(|x| *x == c) {
            return fail(
                "a different ciphertext for every message (fresh nonce per message)",
                hex(&c),
                format!(
                    "messages #{} and #{} were encrypted under the same key and the same nonce {} obtained from Nonce::gen_readonly_locked",
                    prev,
                    call,
                    hex(nonce.as_slice())
                ),
            );
        }
        seen.push(c);
    }
    Ok(())
}

pub const C11: Registry = &[
    ("heap_array_gens", r_heap_array_gens),
    ("protected_secretbox_key_gens", r_p_secretbox_key),
    ("protected_secretbox_nonce_gens", r_p_secretbox_nonce),
    ("protected_box_nonce_gens", r_p_box_nonce),
    ("protected_box_secretkey_gens", r_p_box_secretkey),
    ("protected_stream_key_gens", r_p_stream_key),
    ("protected_stream_nonce_gens", r_p_stream_nonce),
    ("protected_auth_key_gens", r_p_auth_key),
    ("protected_onetimeauth_key_gens", r_p_onetimeauth_key),
    ("protected_generichash_key_gens", r_p_generichash_key),
    ("protected_kdf_key_gens", r_p_kdf_key),
    ("protected_kdf_context_gens", r_p_kdf_context),
    ("protected_kx_secretkey_gens", r_p_kx_secretkey),
    ("protected_sign_secretkey_gens", r_p_sign_secretkey),
    ("box_locked_keypair", r_box_locked_keypair),
    ("box_readonly_locked_keypair", r_box_readonly_locked_keypair),
    ("box_keypair_gen_locked_containers", r_box_keypair_gen_locked_containers),
    ("box_keypair_gen_heap_containers", r_box_keypair_gen_heap_containers),
    ("sign_locked_keypair", r_sign_locked_keypair),
    ("sign_readonly_locked_keypair", r_sign_readonly_locked_keypair),
    ("sign_keypair_gen_locked_containers", r_sign_keypair_gen_locked_containers),
    ("kdf_gen_locked", r_kdf_gen_locked),
    ("kdf_gen_heap", r_kdf_gen_heap),
    ("dryocstream_init_push_header_locked", r_stream_header_locked),
    ("dryocbox_seal_ephemeral_key_locked", r_seal_epk_locked),
    ("secretbox_readonly_locked_nonce_use", r_secretbox_nonce_use),
];

/// Stable cases first (same binary, dryoc built with its nightly feature), then the protected-memory constructors.
pub fn c11(ctx: &mut Ctx) -> Search {
    crate::misc::c11(ctx)?;
    let n = if ctx.thorough { 512 } else { 64 };
    for len in [8u64, 16, 24, 32, 64] {
        ctx.run("heap_array_gens", Input::new().u("n", n).u("len", len))?;
    }
    for (name, _) in C11 {
        if *name == "heap_array_gens" {
            continue;
        }
        ctx.run(name, Input::new().u("n", n))?;
    }
    Ok(())
}
