//! Witness cases for the containers that only exist with dryoc's `nightly` feature (page-aligned heap bytes, locked memory).
//! Built only in the `nightly` flavour of this crate (`cargo +nightly build --features nightly`); the oracle is the property
//! statement itself (round trips reproduce the bytes; a fixed-length container refuses any other element count; no panic).
use crate::util::*;
use dryoc::protected::*;
#[allow(unused_imports)]
use dryoc::types::*;

fn json_seq(elems: &[u8]) -> String {
    format!("[{}]", elems.iter().map(|e| e.to_string()).collect::<Vec<_>>().join(","))
}

fn bincode_bytes(elems: &[u8]) -> Vec<u8> {
    let mut bin = (elems.len() as u64).to_le_bytes().to_vec();
    bin.extend_from_slice(elems);
    bin
}

fn same(what: &str, elems: &[u8], r: Result<Vec<u8>, String>) -> Outcome {
    match r {
        Ok(v) => eq(what, elems, &v),
        Err(e) => fail(format!("Ok({})", hex(elems)), format!("Err({})", e), format!("{}: a well-formed encoding was rejected", what)),
    }
}

fn fixed(what: &str, n: usize, elems: &[u8], r: Result<Vec<u8>, String>) -> Outcome {
    if elems.len() == n {
        same(what, elems, r)
    } else {
        match r {
            Err(_) => Ok(()),
            Ok(v) => fail(
                "Err (wrong element count)",
                format!("Ok({})", hex(&v)),
                format!("{}: {} elements decoded into a {}-byte array instead of failing", what, elems.len(), n),
            ),
        }
    }
}

/// bytes: `HeapBytes::from(&[u8])` holds exactly the bytes.
fn heapbytes_from_slice(i: &Input) -> Outcome {
    let b = i.get("bytes");
    let h = HeapBytes::from(b);
    eq("HeapBytes::from(&[u8])", b, h.as_slice())
}

/// bytes: variable-length heap / locked bytes decode from a JSON element sequence and from a bincode byte string to exactly
/// the encoded elements, and what dryoc serialises decodes back to the same bytes.
fn heapbytes_serde(i: &Input) -> Outcome {
    let b = i.get("bytes");
    let js = json_seq(b);
    let bin = bincode_bytes(b);
    same("HeapBytes from a JSON sequence", b, serde_json::from_str::<HeapBytes>(&js).map(|h| h.as_slice().to_vec()).map_err(|e| e.to_string()))?;
    same("LockedBytes from a JSON sequence", b, serde_json::from_str::<LockedBytes>(&js).map(|h| h.as_slice().to_vec()).map_err(|e| e.to_string()))?;
    same("HeapBytes from bincode bytes", b, bincode::deserialize::<HeapBytes>(&bin).map(|h| h.as_slice().to_vec()).map_err(|e| e.to_string()))?;
    same("LockedBytes from bincode bytes", b, bincode::deserialize::<LockedBytes>(&bin).map(|h| h.as_slice().to_vec()).map_err(|e| e.to_string()))?;
    let l: LockedBytes = must_ok(HeapBytes::from_slice_into_locked(b), "HeapBytes::from_slice_into_locked")?;
    let js2 = must_ok(serde_json::to_string(&l), "serde_json::to_string(LockedBytes)")?;
    same("JSON round trip of LockedBytes", b, serde_json::from_str::<LockedBytes>(&js2).map(|h| h.as_slice().to_vec()).map_err(|e| e.to_string()))?;
    let bin2 = must_ok(bincode::serialize(&l), "bincode::serialize(LockedBytes)")?;
    same("bincode round trip of LockedBytes", b, bincode::deserialize::<LockedBytes>(&bin2).map(|h| h.as_slice().to_vec()).map_err(|e| e.to_string()))
}

fn locked_array<const N: usize>(elems: &[u8]) -> Outcome {
    let js = json_seq(elems);
    let bin = bincode_bytes(elems);
    fixed(
        &format!("Locked<HeapByteArray<{}>> from a JSON sequence", N),
        N,
        elems,
        serde_json::from_str::<Locked<HeapByteArray<N>>>(&js).map(|a| a.as_slice().to_vec()).map_err(|e| e.to_string()),
    )?;
    fixed(
        &format!("Locked<HeapByteArray<{}>> from bincode bytes", N),
        N,
        elems,
        bincode::deserialize::<Locked<HeapByteArray<N>>>(&bin).map(|a| a.as_slice().to_vec()).map_err(|e| e.to_string()),
    )?;
    if elems.len() == N {
        let a: Locked<HeapByteArray<N>> = must_ok(HeapByteArray::<N>::from_slice_into_locked(elems), "from_slice_into_locked")?;
        let js2 = must_ok(serde_json::to_string(&a), "serde_json::to_string(Locked<HeapByteArray>)")?;
        same(
            &format!("JSON round trip of Locked<HeapByteArray<{}>>", N),
            elems,
            serde_json::from_str::<Locked<HeapByteArray<N>>>(&js2).map(|a| a.as_slice().to_vec()).map_err(|e| e.to_string()),
        )?;
        let bin2 = must_ok(bincode::serialize(&a), "bincode::serialize(Locked<HeapByteArray>)")?;
        same(
            &format!("bincode round trip of Locked<HeapByteArray<{}>>", N),
            elems,
            bincode::deserialize::<Locked<HeapByteArray<N>>>(&bin2).map(|a| a.as_slice().to_vec()).map_err(|e| e.to_string()),
        )?;
    }
    Ok(())
}

/// len (16, 24, 32 or 64), elems (any count)
fn locked_array_length(i: &Input) -> Outcome {
    let (n, elems) = (i.num("len") as usize, i.get("elems"));
    match n {
        16 => locked_array::<16>(elems),
        24 => locked_array::<24>(elems),
        32 => locked_array::<32>(elems),
        64 => locked_array::<64>(elems),
        _ => panic!("{} unsupported array length {}", HARNESS, n),
    }
}

/// len, elems: TryFrom<&[u8]> for HeapByteArray and from_slice_into_locked accept exactly `len` bytes.
fn heap_array_try_from(i: &Input) -> Outcome {
    let (n, elems) = (i.num("len") as usize, i.get("elems"));
    fn one<const N: usize>(x: &[u8]) -> Outcome {
        fixed(
            &format!("HeapByteArray<{}>::try_from(&[u8])", N),
            N,
            x,
            HeapByteArray::<N>::try_from(x).map(|a| a.as_slice().to_vec()).map_err(|e| e.to_string()),
        )?;
        fixed(
            &format!("HeapByteArray<{}>::from_slice_into_locked", N),
            N,
            x,
            HeapByteArray::<N>::from_slice_into_locked(x).map(|a| a.as_slice().to_vec()).map_err(|e| e.to_string()),
        )
    }
    match n {
        16 => one::<16>(elems),
        24 => one::<24>(elems),
        32 => one::<32>(elems),
        64 => one::<64>(elems),
        _ => panic!("{} unsupported array length {}", HARNESS, n),
    }
}

pub const C16: Registry = &[
    ("heapbytes_from_slice", heapbytes_from_slice),
    ("heapbytes_serde", heapbytes_serde),
    ("locked_array_length", locked_array_length),
    ("heap_array_try_from", heap_array_try_from),
];

pub fn c16(ctx: &mut Ctx) -> Search {
    let t = ctx.thorough;
    for len in (0..=40usize).chain(if t { vec![63, 64, 65, 255, 256, 257, 4095, 4096, 4097, 10000] } else { vec![64, 4097] }) {
        let b: Vec<u8> = (0..len).map(|j| (j as u8).wrapping_mul(13).wrapping_add(1)).collect();
        ctx.run("heapbytes_from_slice", Input::new().b("bytes", &b))?;
        ctx.run("heapbytes_serde", Input::new().b("bytes", &b))?;
        let r = ctx.rng.bytes(len);
        ctx.run("heapbytes_serde", Input::new().b("bytes", &r))?;
    }
    for n in [16usize, 24, 32, 64] {
        for count in 0..=2 * n {
            let elems: Vec<u8> = (0..count).map(|j| (j as u8).wrapping_add(1)).collect();
            let inp = Input::new().u("len", n as u64).b("elems", &elems);
            ctx.run("locked_array_length", inp.clone())?;
            ctx.run("heap_array_try_from", inp)?;
        }
    }
    Ok(())
}
