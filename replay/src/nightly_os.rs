//! Witness cases for the two OS-facing properties of dryoc's protected memory (cargo feature `nightly`, Linux only):
//!
//!   C14  after every constructor / transition the kernel's view of the region (page rights and VM_LOCKED as shown by
//!        /proc/self/smaps, VmLck of /proc/self/status, faulting accesses probed in a forked child, guard pages) is what the
//!        type advertises, contents are unchanged, and after the last drop nothing stays locked or protected;
//!   C19  a refused lock request (k-th and later `mlock` calls fail with ENOMEM / EPERM / EAGAIN) is reported as `Err` by every
//!        Result-returning constructor / transition: no panic, no hang, no crash, earlier regions intact, all released on drop.
//!
//! Techniques
//!   * interposition: this executable defines `mlock`, `munlock` and `mprotect` itself, so dryoc's calls through the `libc`
//!     crate bind to these definitions at link time; they record every call, forward to the kernel with `syscall(2)` and can
//!     refuse lock requests on demand (fault injection);
//!   * observation: /proc/self/smaps (permission string + `lo` in VmFlags per mapping), VmLck, forked access probes;
//!   * isolation: every case body runs in a forked child that reports its outcome through a pipe, so a SIGSEGV, an abort, a
//!     spinning retry loop (detected in the interposer by counting re-issues of the same refused request) or any other hang
//!     (parent-side deadline) becomes a finding with the step it happened in, and residual kernel state never leaks into the
//!     next case.
#![allow(clippy::all)]
use crate::util::*;
use dryoc::protected::*;
#[allow(unused_imports)]
use dryoc::types::*;
use std::cell::{RefCell, UnsafeCell};
use std::sync::atomic::{AtomicI32, AtomicUsize, Ordering::SeqCst};

// =============================================================================================== interposed system calls ====

const NEVER: usize = usize::MAX;
/// the same refused lock request may be re-issued this often before the case is declared a hang
const REISSUE_CAP: usize = 10_000;
/// parent-side deadline for one case (seconds)
const CASE_DEADLINE_S: u64 = 15;

/// distinct lock requests seen since the last reset
static LOCK_REQS: AtomicUsize = AtomicUsize::new(0);
/// lock requests with (1-based) index >= REFUSE_FROM are refused with REFUSE_ERRNO
static REFUSE_FROM: AtomicUsize = AtomicUsize::new(NEVER);
static REFUSE_ERRNO: AtomicI32 = AtomicI32::new(libc::ENOMEM);
/// distinct lock requests refused by injection
static REFUSED: AtomicUsize = AtomicUsize::new(0);
/// lock requests the kernel itself refused (environment, or a request the kernel cannot honour)
static GENUINE: AtomicUsize = AtomicUsize::new(0);
static LAST_GENUINE_ERRNO: AtomicI32 = AtomicI32::new(0);
/// the last refused request and how often it has been repeated
static LAST_REF_ADDR: AtomicUsize = AtomicUsize::new(0);
static LAST_REF_LEN: AtomicUsize = AtomicUsize::new(0);
static REISSUES: AtomicUsize = AtomicUsize::new(0);
/// calls that went through the interposer at all (sanity: proves that dryoc's libc calls bind to this file)
static SEEN: AtomicUsize = AtomicUsize::new(0);
/// write end of the result pipe inside a case child
static RESULT_FD: AtomicI32 = AtomicI32::new(-1);

#[derive(Clone, Copy)]
struct Call {
    kind: u8, // 0 mlock, 1 munlock, 2 mprotect
    addr: usize,
    len: usize,
    arg: i32,
    ret: i32,
    errno: i32,
    injected: bool,
}

const RING: usize = 40;
struct Ring(UnsafeCell<[Call; RING]>);
// the witness is single-threaded
unsafe impl Sync for Ring {}
static CALLS: Ring = Ring(UnsafeCell::new([Call { kind: 0, addr: 0, len: 0, arg: 0, ret: 0, errno: 0, injected: false }; RING]));
static NCALLS: AtomicUsize = AtomicUsize::new(0);

/// allocation-free: `mprotect` is called from inside dryoc's page allocator
fn record(c: Call) {
    let n = NCALLS.fetch_add(1, SeqCst);
    unsafe {
        (*CALLS.0.get())[n % RING] = c;
    }
    SEEN.fetch_add(1, SeqCst);
}

fn errno_name(e: i32) -> String {
    match e {
        libc::ENOMEM => "ENOMEM".into(),
        libc::EPERM => "EPERM".into(),
        libc::EAGAIN => "EAGAIN".into(),
        libc::EINVAL => "EINVAL".into(),
        libc::EACCES => "EACCES".into(),
        _ => format!("errno {}", e),
    }
}

/// the recorded calls, oldest first
fn calls() -> String {
    let n = NCALLS.load(SeqCst);
    let from = n.saturating_sub(RING);
    let mut out = Vec::new();
    if from > 0 {
        out.push(format!("... {} earlier", from));
    }
    for k in from..n {
        let c = unsafe { (*CALLS.0.get())[k % RING] };
        let name = ["mlock", "munlock", "mprotect"][c.kind as usize];
        let arg = if c.kind == 2 {
            format!(
                ",{}{}{}",
                if c.arg & libc::PROT_READ != 0 { "r" } else { "-" },
                if c.arg & libc::PROT_WRITE != 0 { "w" } else { "-" },
                if c.arg & libc::PROT_EXEC != 0 { "x" } else { "-" }
            )
        } else {
            String::new()
        };
        let res = if c.ret == 0 {
            "0".to_string()
        } else {
            format!("-1 {}{}", errno_name(c.errno), if c.injected { " [injected]" } else { "" })
        };
        out.push(format!("{}({:#x},{}{})={}", name, c.addr, c.len, arg, res));
    }
    if out.is_empty() {
        "none".into()
    } else {
        out.join(" ")
    }
}

unsafe fn errno() -> i32 {
    *libc::__errno_location()
}

#[no_mangle]
pub unsafe extern "C" fn mlock(addr: *const libc::c_void, len: libc::size_t) -> libc::c_int {
    let from = REFUSE_FROM.load(SeqCst);
    let a = addr as usize;
    // a refused request that is simply issued again is still the same request
    let repeated = a != 0 && LAST_REF_ADDR.load(SeqCst) == a && LAST_REF_LEN.load(SeqCst) == len;
    let idx = if repeated { LOCK_REQS.load(SeqCst) } else { LOCK_REQS.fetch_add(1, SeqCst) + 1 };
    if idx >= from {
        let e = REFUSE_ERRNO.load(SeqCst);
        if repeated {
            if REISSUES.fetch_add(1, SeqCst) + 1 > REISSUE_CAP {
                hang_detected(a, len, e);
            }
        } else {
            LAST_REF_ADDR.store(a, SeqCst);
            LAST_REF_LEN.store(len, SeqCst);
            REISSUES.store(0, SeqCst);
            REFUSED.fetch_add(1, SeqCst);
            record(Call { kind: 0, addr: a, len, arg: 0, ret: -1, errno: e, injected: true });
        }
        *libc::__errno_location() = e;
        return -1;
    }
    LAST_REF_ADDR.store(0, SeqCst);
    let ret = libc::syscall(libc::SYS_mlock, addr, len) as libc::c_int;
    let e = if ret != 0 { errno() } else { 0 };
    if ret != 0 {
        GENUINE.fetch_add(1, SeqCst);
        LAST_GENUINE_ERRNO.store(e, SeqCst);
    }
    record(Call { kind: 0, addr: a, len, arg: 0, ret, errno: e, injected: false });
    if ret != 0 {
        *libc::__errno_location() = e;
    }
    ret
}

#[no_mangle]
pub unsafe extern "C" fn munlock(addr: *const libc::c_void, len: libc::size_t) -> libc::c_int {
    let ret = libc::syscall(libc::SYS_munlock, addr, len) as libc::c_int;
    let e = if ret != 0 { errno() } else { 0 };
    record(Call { kind: 1, addr: addr as usize, len, arg: 0, ret, errno: e, injected: false });
    if ret != 0 {
        *libc::__errno_location() = e;
    }
    ret
}

#[no_mangle]
pub unsafe extern "C" fn mprotect(addr: *mut libc::c_void, len: libc::size_t, prot: libc::c_int) -> libc::c_int {
    let ret = libc::syscall(libc::SYS_mprotect, addr, len, prot) as libc::c_int;
    let e = if ret != 0 { errno() } else { 0 };
    record(Call { kind: 2, addr: addr as usize, len, arg: prot, ret, errno: e, injected: false });
    if ret != 0 {
        *libc::__errno_location() = e;
    }
    ret
}

/// Called from inside the interposed `mlock` when the code under test keeps re-issuing a refused request: the only way out of
/// that loop is to end the child; the verdict goes through the result pipe first.
fn hang_detected(addr: usize, len: usize, e: i32) -> ! {
    let f = Fail {
        expected: "Err (the refusal reported to the caller)".into(),
        actual: format!("hang: the refused lock request was re-issued more than {} times", REISSUE_CAP),
        detail: detail(format!(
            "mlock({:#x},{}) was refused with {} and the code under test issued the very same request again more than {} times \
             without returning: a retry loop that never gives up",
            addr,
            len,
            errno_name(e),
            REISSUE_CAP
        )),
    };
    send_result(&Ok(Err(f)));
    unsafe { libc::_exit(0) }
}

fn reset_interposer() {
    LOCK_REQS.store(0, SeqCst);
    REFUSE_FROM.store(NEVER, SeqCst);
    REFUSED.store(0, SeqCst);
    GENUINE.store(0, SeqCst);
    LAST_REF_ADDR.store(0, SeqCst);
    REISSUES.store(0, SeqCst);
    NCALLS.store(0, SeqCst);
}

/// refuse the `nth` lock request counted from now (1 = the next one) and every later one
fn refuse_from_next(nth: usize, e: i32) {
    LAST_REF_ADDR.store(0, SeqCst);
    REISSUES.store(0, SeqCst);
    REFUSE_ERRNO.store(e, SeqCst);
    REFUSE_FROM.store(LOCK_REQS.load(SeqCst) + nth, SeqCst);
}

fn refuse_off() {
    REFUSE_FROM.store(NEVER, SeqCst);
    LAST_REF_ADDR.store(0, SeqCst);
}

/// a refused request followed by a new allocation at the same address is a new request
fn new_step() {
    LAST_REF_ADDR.store(0, SeqCst);
    REISSUES.store(0, SeqCst);
}

// ============================================================================================================ the trail ====

thread_local! {
    static TRAIL: RefCell<Vec<String>> = const { RefCell::new(Vec::new()) };
}

fn send_raw(s: &str) {
    let fd = RESULT_FD.load(SeqCst);
    if fd < 0 {
        return;
    }
    let b = s.as_bytes();
    let mut off = 0;
    while off < b.len() {
        let n = unsafe { libc::write(fd, b[off..].as_ptr() as *const libc::c_void, b.len() - off) };
        if n <= 0 {
            break;
        }
        off += n as usize;
    }
}

fn flat(s: &str) -> String {
    s.replace(['\t', '\n', '\r'], " ")
}

/// names the operation that is about to run: part of every finding, and (through the pipe) what the parent reports when the
/// child dies in it
fn op(s: impl Into<String>) {
    let s = s.into();
    send_raw(&format!("S\t{}\n", flat(&s)));
    TRAIL.with(|t| {
        if let Ok(mut t) = t.try_borrow_mut() {
            t.push(s)
        }
    });
    new_step();
}

fn trail() -> String {
    TRAIL.with(|t| match t.try_borrow() {
        Ok(t) if !t.is_empty() => t.join(" -> "),
        _ => "(start)".into(),
    })
}

fn detail(msg: String) -> String {
    format!("{}; sequence: {}; system calls seen: {}", msg, trail(), calls())
}

// ============================================================================================== case isolation (fork) ====

const SKIP_ENV: &str = "SKIP-ENVIRONMENT";

/// Err(String) = panic message
fn send_result(r: &Result<Outcome, String>) {
    let line = match r {
        Ok(Ok(())) => "R\tOK\n".to_string(),
        Ok(Err(f)) => format!("R\tFAIL\t{}\t{}\t{}\n", flat(&f.expected), flat(&f.actual), flat(&f.detail)),
        Err(msg) if msg.starts_with(HARNESS) => format!("R\tHARNESS\t{}\n", flat(msg)),
        Err(msg) => format!(
            "R\tFAIL\tno panic (Ok or Err)\tpanic\t{}\n",
            flat(&detail(format!("panicked: {}", msg)))
        ),
    };
    send_raw(&line);
}

fn signal_name(s: i32) -> String {
    match s {
        libc::SIGSEGV => "SIGSEGV".into(),
        libc::SIGBUS => "SIGBUS".into(),
        libc::SIGABRT => "SIGABRT".into(),
        libc::SIGKILL => "SIGKILL".into(),
        libc::SIGILL => "SIGILL".into(),
        _ => format!("signal {}", s),
    }
}

/// Runs `body` in a forked child and returns its outcome.
fn isolated(body: impl FnOnce() -> Outcome) -> Outcome {
    let mut fds = [0 as libc::c_int; 2];
    if unsafe { libc::pipe(fds.as_mut_ptr()) } != 0 {
        panic!("{} pipe() failed", HARNESS);
    }
    let pid = unsafe { libc::fork() };
    if pid < 0 {
        panic!("{} fork() failed", HARNESS);
    }
    if pid == 0 {
        unsafe { libc::close(fds[0]) };
        RESULT_FD.store(fds[1], SeqCst);
        reset_interposer();
        TRAIL.with(|t| t.borrow_mut().clear());
        let r = catch(body);
        send_result(&r);
        unsafe { libc::_exit(0) }
    }
    unsafe { libc::close(fds[1]) };
    let start = std::time::Instant::now();
    let mut buf: Vec<u8> = Vec::new();
    let mut timed_out = false;
    loop {
        let left = (CASE_DEADLINE_S * 1000).saturating_sub(start.elapsed().as_millis() as u64);
        if left == 0 {
            timed_out = true;
            break;
        }
        let mut p = libc::pollfd { fd: fds[0], events: libc::POLLIN, revents: 0 };
        let n = unsafe { libc::poll(&mut p, 1, left.min(1000) as libc::c_int) };
        if n < 0 {
            if unsafe { errno() } == libc::EINTR {
                continue;
            }
            break;
        }
        if n == 0 {
            continue;
        }
        let mut chunk = [0u8; 4096];
        let got = unsafe { libc::read(fds[0], chunk.as_mut_ptr() as *mut libc::c_void, chunk.len()) };
        if got <= 0 {
            break;
        }
        buf.extend_from_slice(&chunk[..got as usize]);
    }
    if timed_out {
        unsafe { libc::kill(pid, libc::SIGKILL) };
    }
    unsafe { libc::close(fds[0]) };
    let mut status: libc::c_int = 0;
    unsafe { libc::waitpid(pid, &mut status, 0) };

    let text = String::from_utf8_lossy(&buf).to_string();
    let mut last_step = String::from("(start)");
    let mut steps: Vec<String> = Vec::new();
    let mut verdict: Option<Vec<String>> = None;
    for line in text.lines() {
        let parts: Vec<&str> = line.split('\t').collect();
        match parts.first() {
            Some(&"S") if parts.len() >= 2 => {
                last_step = parts[1].to_string();
                steps.push(last_step.clone());
            }
            Some(&"R") => verdict = Some(parts[1..].iter().map(|s| s.to_string()).collect()),
            _ => {}
        }
    }
    if let Some(v) = verdict {
        match v.first().map(|s| s.as_str()) {
            Some("OK") => return Ok(()),
            Some("HARNESS") => panic!("{}", v.get(1).cloned().unwrap_or_else(|| HARNESS.to_string())),
            Some("FAIL") if v.len() >= 4 => {
                if v[1] == SKIP_ENV {
                    eprintln!("note: case skipped (environment): {}", v[3]);
                    return Ok(());
                }
                return fail(v[1].clone(), v[2].clone(), v[3].clone());
            }
            _ => panic!("{} malformed verdict from the case child: {:?}", HARNESS, v),
        }
    }
    let seq = steps.join(" -> ");
    if timed_out {
        return fail(
            "the operation returns (Ok or Err)",
            format!("hang: no result after {} s", CASE_DEADLINE_S),
            format!("the case child did not finish within {} s and was killed; it was in step: {}; sequence: {}", CASE_DEADLINE_S, last_step, seq),
        );
    }
    if libc::WIFSIGNALED(status) {
        let s = libc::WTERMSIG(status);
        return fail(
            "Ok or Err",
            format!("process killed by {}", signal_name(s)),
            format!("the process running the sequence was killed by {} during step: {}; sequence: {}", signal_name(s), last_step, seq),
        );
    }
    fail(
        "Ok or Err",
        format!("process ended with exit status {} without a result", libc::WEXITSTATUS(status)),
        format!("the process running the sequence ended (abort / exit) during step: {}; sequence: {}", last_step, seq),
    )
}

// ==================================================================================================== observing the OS ====

fn page() -> usize {
    unsafe { libc::sysconf(libc::_SC_PAGE_SIZE) as usize }
}

#[derive(Clone, Debug)]
struct Vma {
    start: usize,
    end: usize,
    perms: String,
    locked: bool,
    name: String,
}

/// /proc/self/smaps: one entry per mapping with its rights and whether VmFlags contains `lo` (VM_LOCKED)
fn smaps() -> Vec<Vma> {
    let text = match std::fs::read_to_string("/proc/self/smaps") {
        Ok(t) => t,
        Err(e) => panic!("{} cannot read /proc/self/smaps: {}", HARNESS, e),
    };
    let mut v: Vec<Vma> = Vec::new();
    for line in text.lines() {
        let mut it = line.split_whitespace();
        let first = it.next().unwrap_or("");
        if let Some((a, b)) = first.split_once('-') {
            if let (Ok(a), Ok(b)) = (usize::from_str_radix(a, 16), usize::from_str_radix(b, 16)) {
                let perms = it.next().unwrap_or("????");
                let name = it.nth(3).unwrap_or("").to_string();
                v.push(Vma { start: a, end: b, perms: perms.chars().take(3).collect(), locked: false, name });
                continue;
            }
        }
        if let Some(flags) = line.strip_prefix("VmFlags:") {
            if let Some(last) = v.last_mut() {
                last.locked = flags.split_whitespace().any(|f| f == "lo");
            }
        }
    }
    v
}

fn lookup(v: &[Vma], addr: usize) -> Option<&Vma> {
    v.iter().find(|m| m.start <= addr && addr < m.end)
}

fn vmlck_kb() -> u64 {
    let text = match std::fs::read_to_string("/proc/self/status") {
        Ok(t) => t,
        Err(e) => panic!("{} cannot read /proc/self/status: {}", HARNESS, e),
    };
    for line in text.lines() {
        if let Some(rest) = line.strip_prefix("VmLck:") {
            return rest.split_whitespace().next().and_then(|s| s.parse().ok()).unwrap_or(0);
        }
    }
    panic!("{} no VmLck line in /proc/self/status", HARNESS)
}

/// true if the access faults (probed in a forked child, so the witness survives)
fn access_faults(addr: usize, write: bool) -> bool {
    unsafe {
        let pid = libc::fork();
        if pid < 0 {
            panic!("{} fork() failed", HARNESS);
        }
        if pid == 0 {
            if write {
                let v = std::ptr::read_volatile(addr as *const u8);
                std::ptr::write_volatile(addr as *mut u8, v ^ 0xff);
            } else {
                let v = std::ptr::read_volatile(addr as *const u8);
                std::hint::black_box(v);
            }
            libc::_exit(0);
        }
        let mut status: libc::c_int = 0;
        libc::waitpid(pid, &mut status, 0);
        libc::WIFSIGNALED(status) && (libc::WTERMSIG(status) == libc::SIGSEGV || libc::WTERMSIG(status) == libc::SIGBUS)
    }
}

/// address range of a region's data
#[derive(Clone, Copy, Debug)]
struct Region {
    ptr: usize,
    len: usize,
}

fn reg(s: &[u8]) -> Region {
    Region { ptr: s.as_ptr() as usize, len: s.len() }
}

impl Region {
    fn first_page(&self) -> usize {
        self.ptr & !(page() - 1)
    }
    fn npages(&self) -> usize {
        if self.len == 0 {
            0
        } else {
            (self.ptr + self.len - self.first_page() + page() - 1) / page()
        }
    }
    fn pages(&self) -> Vec<usize> {
        (0..self.npages()).map(|k| self.first_page() + k * page()).collect()
    }
    fn overlaps(&self, o: &Region) -> bool {
        self.len > 0 && o.len > 0 && self.first_page() < o.first_page() + o.npages() * page() && o.first_page() < self.first_page() + self.npages() * page()
    }
}

fn lockname(l: bool) -> &'static str {
    if l {
        "locked"
    } else {
        "not locked"
    }
}

fn inaccessible(v: &[Vma], addr: usize) -> bool {
    match lookup(v, addr) {
        None => true,
        Some(m) => m.perms == "---",
    }
}

/// The kernel's view of `r` must be what the type advertises: every data page has rights `perms` and is locked iff `locked`;
/// the page before the data is a guard page; so is a page at most one page beyond the page-rounded end (`aft` = false when the
/// allocation may be larger than the data, i.e. after an unlocked Vec growth).
fn check(what: &str, r: Region, perms: &str, locked: bool, aft: bool) -> Outcome {
    if r.len == 0 {
        return Ok(());
    }
    let v = smaps();
    let n = r.npages();
    for (k, a) in r.pages().into_iter().enumerate() {
        let (p, l) = match lookup(&v, a) {
            Some(m) => (m.perms.clone(), m.locked),
            None => ("unmapped".to_string(), false),
        };
        if p != perms || l != locked {
            return fail(
                format!("{} {}", perms, lockname(locked)),
                format!("{} {}", p, lockname(l)),
                detail(format!(
                    "{}: data page {} of {} (address {:#x}) of the {}-byte region at {:#x} is {}, {} in /proc/self/smaps, but the type advertises {}, {}",
                    what, k + 1, n, a, r.len, r.ptr, p, lockname(l), perms, lockname(locked)
                )),
            );
        }
    }
    let fore = r.first_page() - page();
    if !inaccessible(&v, fore) {
        return fail(
            "--- (guard page before the data)",
            lookup(&v, fore).map(|m| m.perms.clone()).unwrap_or_default(),
            detail(format!("{}: the page before the {}-byte region at {:#x} is accessible", what, r.len, r.ptr)),
        );
    }
    if aft {
        let end = r.first_page() + n * page();
        if !inaccessible(&v, end) && !inaccessible(&v, end + page()) {
            return fail(
                "--- (guard page after the data)",
                format!(
                    "{} / {}",
                    lookup(&v, end).map(|m| m.perms.clone()).unwrap_or_default(),
                    lookup(&v, end + page()).map(|m| m.perms.clone()).unwrap_or_default()
                ),
                detail(format!("{}: neither of the two pages after the {}-byte region at {:#x} is inaccessible", what, r.len, r.ptr)),
            );
        }
    }
    Ok(())
}

/// direct observation of the rights by a faulting access (first and last byte)
fn probe(what: &str, r: Region, perms: &str) -> Outcome {
    if r.len == 0 {
        return Ok(());
    }
    for a in [r.ptr, r.ptr + r.len - 1] {
        let (rf, wf) = (access_faults(a, false), access_faults(a, true));
        let (want_rf, want_wf) = match perms {
            "rw-" => (false, false),
            "r--" => (false, true),
            _ => (true, true),
        };
        if rf != want_rf || wf != want_wf {
            let s = |b: bool| if b { "faults" } else { "succeeds" };
            return fail(
                format!("read {}, write {}", s(want_rf), s(want_wf)),
                format!("read {}, write {}", s(rf), s(wf)),
                detail(format!(
                    "{}: access to byte {} of the {}-byte region at {:#x} (type advertises {}), probed in a forked child",
                    what, a - r.ptr, r.len, r.ptr, perms
                )),
            );
        }
    }
    Ok(())
}

fn same(what: &str, expected: &[u8], actual: &[u8]) -> Outcome {
    if expected == actual {
        return Ok(());
    }
    let at = expected.iter().zip(actual.iter()).position(|(a, b)| a != b).unwrap_or(expected.len().min(actual.len()));
    let win = |s: &[u8]| hex(&s[at.min(s.len())..(at + 16).min(s.len())]);
    fail(
        format!("{} bytes, from offset {}: {}", expected.len(), at, win(expected)),
        format!("{} bytes, from offset {}: {}", actual.len(), at, win(actual)),
        detail(format!("{}: contents changed (first difference at offset {})", what, at)),
    )
}

/// After the last handle is gone: VmLck is back at `base`, no mapping is locked, the former data and guard pages are ordinary
/// read-write heap again (or unmapped), and the brk heap holds no page with altered rights.
fn released(what: &str, regions: &[Region], base: u64) -> Outcome {
    let now = vmlck_kb();
    let v = smaps();
    if now != base {
        let still: Vec<String> = v.iter().filter(|m| m.locked).map(|m| format!("{:#x}-{:#x} {} {}", m.start, m.end, m.perms, m.name)).collect();
        return fail(
            format!("VmLck {} kB (as before the sequence)", base),
            format!("VmLck {} kB", now),
            detail(format!("{}: {} kB stay locked after every handle was dropped; locked mappings: [{}]", what, now - base.min(now), still.join(", "))),
        );
    }
    for r in regions {
        let mut pages = r.pages();
        if r.len > 0 {
            pages.push(r.first_page() - page());
            pages.push(r.first_page() + r.npages() * page());
        }
        for a in pages {
            if let Some(m) = lookup(&v, a) {
                if m.locked || m.perms != "rw-" {
                    return fail(
                        "rw- not locked (or unmapped)",
                        format!("{} {}", m.perms, lockname(m.locked)),
                        detail(format!("{}: page {:#x} of the former {}-byte region at {:#x} (data or guard page) after drop", what, a, r.len, r.ptr)),
                    );
                }
            }
        }
    }
    for m in &v {
        if m.name == "[heap]" && (m.perms != "rw-" || m.locked) {
            return fail(
                "every [heap] mapping rw- and not locked",
                format!("{:#x}-{:#x} {} {}", m.start, m.end, m.perms, lockname(m.locked)),
                detail(format!("{}: a page range of the heap keeps altered rights / lock state after every handle was dropped", what)),
            );
        }
    }
    Ok(())
}

/// `Ok` demanded by the property.  A refusal by the kernel itself (no injection active) is the environment's locked-memory
/// limit: the case is skipped, not reported.
fn ok<T, E: std::fmt::Debug>(r: Result<T, E>, what: &str) -> Result<T, Fail> {
    match r {
        Ok(v) => Ok(v),
        Err(e) => {
            if GENUINE.load(SeqCst) > 0 && REFUSE_FROM.load(SeqCst) == NEVER {
                return fail(
                    SKIP_ENV,
                    "",
                    format!("the kernel refused a lock request ({}) in {}: {}", errno_name(LAST_GENUINE_ERRNO.load(SeqCst)), what, calls()),
                );
            }
            fail("Ok", format!("Err({:?})", e), detail(format!("{} returned Err", what)))
        }
    }
}

fn pat(len: usize, salt: u8) -> Vec<u8> {
    (0..len).map(|j| (j as u8).wrapping_mul(13).wrapping_add(salt).wrapping_add((j >> 8) as u8)).collect()
}

/// sanity of the harness itself: dryoc's lock request must have passed through this file
fn interposer_live() {
    if SEEN.load(SeqCst) == 0 {
        panic!("{} dryoc's mlock/mprotect calls do not reach the interposer of the witness binary", HARNESS);
    }
}

// ================================================================================================================= C14 ====

/// lengths for which the fixed-length containers are instantiated
const FIXED_LENS: &[usize] = &[1, 16, 31, 32, 64, 4095, 4096, 4097, 8192, 8193, 10000, 12288];

macro_rules! with_len {
    ($len:expr, $f:ident $(, $a:expr)*) => {
        match $len {
            1 => $f::<1>($($a),*),
            16 => $f::<16>($($a),*),
            31 => $f::<31>($($a),*),
            32 => $f::<32>($($a),*),
            64 => $f::<64>($($a),*),
            4095 => $f::<4095>($($a),*),
            4096 => $f::<4096>($($a),*),
            4097 => $f::<4097>($($a),*),
            8192 => $f::<8192>($($a),*),
            8193 => $f::<8193>($($a),*),
            10000 => $f::<10000>($($a),*),
            12288 => $f::<12288>($($a),*),
            other => panic!("{} unsupported fixed length {} (supported: {:?})", HARNESS, other, FIXED_LENS),
        }
    };
}

#[derive(Clone, Copy, PartialEq, Eq)]
enum Walk {
    LockFirst,
    Relock,
    ReadonlyFirst,
    NoAccess,
    NoAccessThenLock,
    DropStates,
    CloneUnlocked,
}

/// The type-state walks, once for the resizable and once for the fixed-length container (the bodies only use what both offer).
macro_rules! c14_walks {
    ($m:ident, [$($gen:tt)*], [$($use_gen:tt)*], $ty:ty) => {
        mod $m {
            use super::*;

            /// Locked -> readonly -> readwrite (write) -> munlock -> mlock -> readonly -> munlock -> noaccess -> readwrite -> drop
            pub fn lock_first<$($gen)*>(src: &[u8], base: u64, l: Locked<$ty>) -> Outcome {
                let mut src = src.to_vec();
                let n = src.len();
                let r = reg(l.as_slice());
                check("new locked region", r, "rw-", true, true)?;
                same("new locked region", &src, l.as_slice())?;
                interposer_live();
                op("mprotect_readonly");
                let l = ok(l.mprotect_readonly(), "mprotect_readonly")?;
                let r = reg(l.as_slice());
                check("Locked -> mprotect_readonly", r, "r--", true, true)?;
                same("Locked -> mprotect_readonly", &src, l.as_slice())?;
                probe("Locked -> mprotect_readonly", r, "r--")?;
                op("mprotect_readwrite");
                let mut l = ok(l.mprotect_readwrite(), "mprotect_readwrite")?;
                let r = reg(l.as_slice());
                check("LockedRO -> mprotect_readwrite", r, "rw-", true, true)?;
                same("LockedRO -> mprotect_readwrite", &src, l.as_slice())?;
                if n > 0 {
                    op("write first and last byte");
                    l.as_mut_slice()[0] ^= 0x55;
                    src[0] ^= 0x55;
                    l.as_mut_slice()[n - 1] ^= 0xaa;
                    src[n - 1] ^= 0xaa;
                }
                op("munlock");
                let u = ok(l.munlock(), "munlock")?;
                let r = reg(u.as_slice());
                check("Locked -> munlock", r, "rw-", false, true)?;
                same("Locked -> munlock", &src, u.as_slice())?;
                op("mlock");
                let l = ok(u.mlock(), "mlock")?;
                let r = reg(l.as_slice());
                check("Locked -> munlock -> mlock", r, "rw-", true, true)?;
                same("Locked -> munlock -> mlock", &src, l.as_slice())?;
                op("mprotect_readonly");
                let l = ok(l.mprotect_readonly(), "mprotect_readonly")?;
                op("munlock");
                let u = ok(l.munlock(), "munlock")?;
                let r = reg(u.as_slice());
                check("LockedRO -> munlock", r, "r--", false, true)?;
                same("LockedRO -> munlock", &src, u.as_slice())?;
                op("mprotect_noaccess");
                let na = ok(u.mprotect_noaccess(), "mprotect_noaccess")?;
                check("UnlockedRO -> mprotect_noaccess", r, "---", false, true)?;
                probe("UnlockedRO -> mprotect_noaccess", r, "---")?;
                op("mprotect_readwrite");
                let mut u = ok(na.mprotect_readwrite(), "mprotect_readwrite")?;
                let r2 = reg(u.as_slice());
                check("NoAccess -> mprotect_readwrite", r2, "rw-", false, true)?;
                same("NoAccess -> mprotect_readwrite", &src, u.as_slice())?;
                if n > 0 {
                    u.as_mut_slice()[n / 2] ^= 1;
                }
                op("drop");
                drop(u);
                released("after drop", &[r, r2], base)
            }

            /// Locked -> munlock -> mlock -> munlock -> mlock -> readonly -> munlock -> mlock -> drop
            pub fn relock<$($gen)*>(src: &[u8], base: u64, l: Locked<$ty>) -> Outcome {
                let r = reg(l.as_slice());
                check("new locked region", r, "rw-", true, true)?;
                let mut l = l;
                for round in 1..=2 {
                    op("munlock");
                    let u = ok(l.munlock(), "munlock")?;
                    check(&format!("munlock (round {})", round), reg(u.as_slice()), "rw-", false, true)?;
                    op("mlock");
                    l = ok(u.mlock(), "mlock")?;
                    check(&format!("locked again after munlock (round {})", round), reg(l.as_slice()), "rw-", true, true)?;
                    same("locked again after munlock", src, l.as_slice())?;
                }
                op("mprotect_readonly");
                let l = ok(l.mprotect_readonly(), "mprotect_readonly")?;
                op("munlock");
                let u = ok(l.munlock(), "munlock")?;
                check("LockedRO -> munlock", reg(u.as_slice()), "r--", false, true)?;
                op("mlock");
                let l = ok(u.mlock(), "mlock")?;
                let r2 = reg(l.as_slice());
                check("LockedRO -> munlock -> mlock", r2, "r--", true, true)?;
                same("LockedRO -> munlock -> mlock", src, l.as_slice())?;
                op("drop");
                drop(l);
                released("after drop", &[r, r2], base)
            }

            /// (read-only first, lock second) UnlockedRO -> mlock -> probe -> readwrite -> drop
            pub fn ro_then_lock<$($gen)*>(src: &[u8], base: u64, u: UnlockedRO<$ty>) -> Outcome {
                let r = reg(u.as_slice());
                check("unlocked read-only region", r, "r--", false, true)?;
                same("unlocked read-only region", src, u.as_slice())?;
                probe("unlocked read-only region", r, "r--")?;
                interposer_live();
                op("mlock");
                let l = ok(u.mlock(), "mlock")?;
                let r = reg(l.as_slice());
                check("UnlockedRO -> mlock", r, "r--", true, true)?;
                same("UnlockedRO -> mlock", src, l.as_slice())?;
                probe("UnlockedRO -> mlock", r, "r--")?;
                op("mprotect_readwrite");
                let mut l = ok(l.mprotect_readwrite(), "mprotect_readwrite")?;
                let r2 = reg(l.as_slice());
                check("UnlockedRO -> mlock -> mprotect_readwrite", r2, "rw-", true, true)?;
                same("UnlockedRO -> mlock -> mprotect_readwrite", src, l.as_slice())?;
                if !src.is_empty() {
                    l.as_mut_slice()[src.len() - 1] ^= 1;
                }
                op("mprotect_readonly");
                let l = ok(l.mprotect_readonly(), "mprotect_readonly")?;
                check("back to LockedRO", reg(l.as_slice()), "r--", true, true)?;
                op("drop");
                drop(l);
                released("after drop of a LockedRO region", &[r, r2], base)
            }

            pub fn readonly_first<$($gen)*>(src: &[u8], base: u64, l: Locked<$ty>) -> Outcome {
                op("munlock");
                let u = ok(l.munlock(), "munlock")?;
                check("Locked -> munlock", reg(u.as_slice()), "rw-", false, true)?;
                op("mprotect_readonly");
                let u = ok(u.mprotect_readonly(), "mprotect_readonly")?;
                ro_then_lock::<$($use_gen)*>(src, base, u)
            }

            /// Locked -> munlock -> noaccess -> readonly -> noaccess -> drop (from NoAccess)
            pub fn noaccess<$($gen)*>(src: &[u8], base: u64, l: Locked<$ty>) -> Outcome {
                let r = reg(l.as_slice());
                op("munlock");
                let u = ok(l.munlock(), "munlock")?;
                op("mprotect_noaccess");
                let na = ok(u.mprotect_noaccess(), "mprotect_noaccess")?;
                check("Unlocked -> mprotect_noaccess", r, "---", false, true)?;
                probe("Unlocked -> mprotect_noaccess", r, "---")?;
                op("mprotect_readonly");
                let u = ok(na.mprotect_readonly(), "mprotect_readonly")?;
                let r2 = reg(u.as_slice());
                check("NoAccess -> mprotect_readonly", r2, "r--", false, true)?;
                same("NoAccess -> mprotect_readonly", src, u.as_slice())?;
                op("mprotect_noaccess");
                let na = ok(u.mprotect_noaccess(), "mprotect_noaccess")?;
                check("UnlockedRO -> mprotect_noaccess", r2, "---", false, true)?;
                op("drop");
                drop(na);
                released("after drop of a NoAccess region", &[r, r2], base)
            }

            /// Unlocked -> noaccess -> mlock: either the lock is granted (pages ---, locked) or the call returns Err; in both
            /// cases nothing may stay locked once everything is dropped.
            pub fn noaccess_then_lock<$($gen)*>(_src: &[u8], base: u64, l: Locked<$ty>) -> Outcome {
                let r = reg(l.as_slice());
                op("munlock");
                let u = ok(l.munlock(), "munlock")?;
                op("mprotect_noaccess");
                let na = ok(u.mprotect_noaccess(), "mprotect_noaccess")?;
                check("Unlocked -> mprotect_noaccess", r, "---", false, true)?;
                op("mlock");
                match na.mlock() {
                    Ok(l) => {
                        check("NoAccess -> mlock returned Ok", r, "---", true, true)?;
                        op("drop");
                        drop(l);
                    }
                    Err(e) => {
                        op(format!("(mlock of the no-access region returned Err({:?}): region consumed and dropped)", e.kind()));
                    }
                }
                released("after NoAccess -> mlock and drop", &[r], base)
            }

            /// drop from every type state
            pub fn drop_states<$($gen)*>(mk: &dyn Fn() -> Result<Locked<$ty>, Fail>, base: u64) -> Outcome {
                // Locked
                let l = mk()?;
                let r = reg(l.as_slice());
                op("drop (Locked)");
                drop(l);
                released("drop of a Locked region", &[r], base)?;
                // LockedRO
                let l = mk()?;
                let r = reg(l.as_slice());
                op("mprotect_readonly");
                let l = ok(l.mprotect_readonly(), "mprotect_readonly")?;
                op("drop (LockedRO)");
                drop(l);
                released("drop of a LockedRO region", &[r], base)?;
                // Unlocked
                let l = mk()?;
                let r = reg(l.as_slice());
                op("munlock");
                let u = ok(l.munlock(), "munlock")?;
                if vmlck_kb() != base {
                    return fail(format!("VmLck {} kB", base), format!("VmLck {} kB", vmlck_kb()), detail("after munlock of the only locked region".into()));
                }
                op("drop (Unlocked)");
                drop(u);
                released("drop of an Unlocked region", &[r], base)?;
                // UnlockedRO
                let l = mk()?;
                let r = reg(l.as_slice());
                op("munlock");
                let u = ok(l.munlock(), "munlock")?;
                op("mprotect_readonly");
                let u = ok(u.mprotect_readonly(), "mprotect_readonly")?;
                op("drop (UnlockedRO)");
                drop(u);
                released("drop of an UnlockedRO region", &[r], base)?;
                // NoAccess
                let l = mk()?;
                let r = reg(l.as_slice());
                op("munlock");
                let u = ok(l.munlock(), "munlock")?;
                op("mprotect_noaccess");
                let na = ok(u.mprotect_noaccess(), "mprotect_noaccess")?;
                op("drop (NoAccess)");
                drop(na);
                released("drop of a NoAccess region", &[r], base)
            }

            /// clone of Unlocked and of UnlockedRO: the clone has the advertised rights and the same bytes, the original is
            /// untouched, both release everything
            pub fn clone_unlocked<$($gen)*>(src: &[u8], base: u64, l: Locked<$ty>) -> Outcome {
                op("munlock");
                let u = ok(l.munlock(), "munlock")?;
                let r = reg(u.as_slice());
                op("clone (Unlocked)");
                let c = u.clone();
                let rc = reg(c.as_slice());
                if src.len() > 0 && rc.ptr == r.ptr {
                    return fail("a separate region", "same address", detail("clone of an Unlocked region shares the original's memory".into()));
                }
                check("clone of an Unlocked region", rc, "rw-", false, false)?;
                same("clone of an Unlocked region", src, c.as_slice())?;
                check("original after clone", r, "rw-", false, true)?;
                op("mprotect_readonly (original)");
                let uro = ok(u.mprotect_readonly(), "mprotect_readonly")?;
                op("clone (UnlockedRO)");
                let cro = uro.clone();
                let rcro = reg(cro.as_slice());
                check("clone of an UnlockedRO region", rcro, "r--", false, false)?;
                same("clone of an UnlockedRO region", src, cro.as_slice())?;
                probe("clone of an UnlockedRO region", rcro, "r--")?;
                check("original after clone", reg(uro.as_slice()), "r--", false, true)?;
                check("first clone after the second", rc, "rw-", false, false)?;
                op("mlock (clone of UnlockedRO)");
                let lro = ok(cro.mlock(), "mlock")?;
                check("clone of UnlockedRO -> mlock", reg(lro.as_slice()), "r--", true, false)?;
                check("original while its clone is locked", reg(uro.as_slice()), "r--", false, true)?;
                op("drop (original)");
                drop(uro);
                check("locked clone after the original was dropped", reg(lro.as_slice()), "r--", true, false)?;
                same("locked clone after the original was dropped", src, lro.as_slice())?;
                op("drop (clones)");
                drop(lro);
                drop(c);
                released("after dropping original and clones", &[r, rc, rcro], base)
            }

            pub fn run<$($gen)*>(w: Walk, src: &[u8], base: u64, l: Locked<$ty>) -> Outcome {
                match w {
                    Walk::LockFirst => lock_first::<$($use_gen)*>(src, base, l),
                    Walk::Relock => relock::<$($use_gen)*>(src, base, l),
                    Walk::ReadonlyFirst => readonly_first::<$($use_gen)*>(src, base, l),
                    Walk::NoAccess => noaccess::<$($use_gen)*>(src, base, l),
                    Walk::NoAccessThenLock => noaccess_then_lock::<$($use_gen)*>(src, base, l),
                    Walk::CloneUnlocked => clone_unlocked::<$($use_gen)*>(src, base, l),
                    Walk::DropStates => panic!("{} drop_states is dispatched separately", HARNESS),
                }
            }
        }
    };
}

c14_walks!(hb, [], [], HeapBytes);
c14_walks!(arr, [const N: usize], [N], HeapByteArray<N>);

fn mk_hb(src: &[u8]) -> Result<Locked<HeapBytes>, Fail> {
    op(format!("HeapBytes::from_slice_into_locked({} bytes)", src.len()));
    ok(HeapBytes::from_slice_into_locked(src), "HeapBytes::from_slice_into_locked")
}

fn mk_arr<const N: usize>(src: &[u8]) -> Result<Locked<HeapByteArray<N>>, Fail> {
    op(format!("HeapByteArray::<{}>::from_slice_into_locked", N));
    ok(HeapByteArray::<N>::from_slice_into_locked(src), "HeapByteArray::from_slice_into_locked")
}

fn stack_arr<const N: usize>(src: &[u8]) -> StackByteArray<N> {
    match StackByteArray::<N>::try_from(src) {
        Ok(s) => s,
        Err(_) => panic!("{} StackByteArray::<{}>::try_from failed", HARNESS, N),
    }
}

fn mk_stack<const N: usize>(src: &[u8]) -> Result<Locked<HeapByteArray<N>>, Fail> {
    op(format!("StackByteArray::<{}>::mlock", N));
    ok(stack_arr::<N>(src).mlock(), "StackByteArray::mlock")
}

fn walk_arr<const N: usize>(w: Walk, stack: bool, src: &[u8], base: u64) -> Outcome {
    if w == Walk::DropStates {
        return if stack { arr::drop_states::<N>(&|| mk_stack::<N>(src), base) } else { arr::drop_states::<N>(&|| mk_arr::<N>(src), base) };
    }
    if stack && w == Walk::ReadonlyFirst {
        // the entry point that produces an unlocked read-only region without any lock
        op(format!("StackByteArray::<{}>::mprotect_readonly", N));
        let u = ok(stack_arr::<N>(src).mprotect_readonly(), "StackByteArray::mprotect_readonly")?;
        return arr::ro_then_lock::<N>(src, base, u);
    }
    let l = if stack { mk_stack::<N>(src)? } else { mk_arr::<N>(src)? };
    arr::run::<N>(w, src, base, l)
}

/// kind: 0 HeapBytes, 1 HeapByteArray<len>, 2 StackByteArray<len> (locked through Lockable / its own entry points)
fn walk(i: &Input, w: Walk) -> Outcome {
    let (kind, len) = (i.num("kind"), i.num("len") as usize);
    let src = pat(len, 7);
    let base = vmlck_kb();
    match kind {
        0 => {
            if w == Walk::DropStates {
                return hb::drop_states(&|| mk_hb(&src), base);
            }
            let l = mk_hb(&src)?;
            hb::run(w, &src, base, l)
        }
        1 => with_len!(len, walk_arr, w, false, &src, base),
        2 => with_len!(len, walk_arr, w, true, &src, base),
        _ => panic!("{} kind must be 0 (HeapBytes), 1 (HeapByteArray) or 2 (StackByteArray)", HARNESS),
    }
}

fn walk_lock_first(i: &Input) -> Outcome {
    isolated(|| walk(i, Walk::LockFirst))
}
fn walk_relock(i: &Input) -> Outcome {
    isolated(|| walk(i, Walk::Relock))
}
fn walk_readonly_first(i: &Input) -> Outcome {
    isolated(|| walk(i, Walk::ReadonlyFirst))
}
fn walk_noaccess(i: &Input) -> Outcome {
    isolated(|| walk(i, Walk::NoAccess))
}
fn noaccess_then_lock(i: &Input) -> Outcome {
    isolated(|| walk(i, Walk::NoAccessThenLock))
}
fn drop_states(i: &Input) -> Outcome {
    isolated(|| walk(i, Walk::DropStates))
}
fn clone_unlocked(i: &Input) -> Outcome {
    isolated(|| walk(i, Walk::CloneUnlocked))
}

/// len: clone of Locked<HeapBytes> and of LockedRO<HeapBytes>
fn clone_locked(i: &Input) -> Outcome {
    isolated(|| {
        let len = i.num("len") as usize;
        let src = pat(len, 3);
        let base = vmlck_kb();
        let l = mk_hb(&src)?;
        let r = reg(l.as_slice());
        op("clone (Locked)");
        let mut c = l.clone();
        let rc = reg(c.as_slice());
        if len > 0 && rc.ptr == r.ptr {
            return fail("a separate region", "same address", detail("clone of a Locked region shares the original's memory".into()));
        }
        check("clone of a Locked region", rc, "rw-", true, true)?;
        same("clone of a Locked region", &src, c.as_slice())?;
        check("original after clone", r, "rw-", true, true)?;
        if len > 0 {
            c.as_mut_slice()[0] ^= 0xff;
            same("original after a write to its clone", &src, l.as_slice())?;
        }
        op("mprotect_readonly (original)");
        let lro = ok(l.mprotect_readonly(), "mprotect_readonly")?;
        op("clone (LockedRO)");
        let cro = lro.clone();
        let rcro = reg(cro.as_slice());
        check("clone of a LockedRO region", rcro, "r--", true, true)?;
        same("clone of a LockedRO region", &src, cro.as_slice())?;
        probe("clone of a LockedRO region", rcro, "r--")?;
        check("original after clone", reg(lro.as_slice()), "r--", true, true)?;
        op("drop (original)");
        drop(lro);
        check("clone of Locked after the original was dropped", rc, "rw-", true, true)?;
        check("clone of LockedRO after the original was dropped", rcro, "r--", true, true)?;
        same("clone of LockedRO after the original was dropped", &src, cro.as_slice())?;
        op("drop (clones)");
        drop(c);
        drop(cro);
        released("after dropping original and clones", &[r, rc, rcro], base)
    })
}

/// from, to, fill: resize of a locked HeapBytes region
fn resize_locked(i: &Input) -> Outcome {
    isolated(|| {
        let (a, b, fill) = (i.num("from") as usize, i.num("to") as usize, i.num("fill") as u8);
        let src = pat(a, 11);
        let base = vmlck_kb();
        let mut l = mk_hb(&src)?;
        let r = reg(l.as_slice());
        check("new locked region", r, "rw-", true, true)?;
        op(format!("resize({}, {:#04x})", b, fill));
        l.resize(b, fill);
        let r2 = reg(l.as_slice());
        let mut want = src.clone();
        want.resize(b, fill);
        if l.len() != b {
            return fail(format!("len {}", b), format!("len {}", l.len()), detail("length after resize of a locked region".into()));
        }
        check("locked region after resize", r2, "rw-", true, true)?;
        same("locked region after resize", &want, l.as_slice())?;
        let moved = r2.ptr < r.first_page().saturating_sub(page()) || r2.ptr >= r.first_page() + (r.npages() + 2) * page();
        if moved && !r.overlaps(&r2) {
            // the data now lives elsewhere, the old allocation was handed back: it must not stay locked or protected
            let v = smaps();
            for p in r.pages() {
                if let Some(m) = lookup(&v, p) {
                    if m.locked || m.perms != "rw-" {
                        return fail(
                            "rw- not locked (or unmapped)",
                            format!("{} {}", m.perms, lockname(m.locked)),
                            detail(format!("page {:#x} of the region that was replaced by the resize (old {} bytes at {:#x}, new {} bytes at {:#x})", p, a, r.ptr, b, r2.ptr)),
                        );
                    }
                }
            }
        }
        if b > 0 {
            l.as_mut_slice()[b - 1] ^= 1;
            want[b - 1] ^= 1;
        }
        op("mprotect_readonly");
        let l = ok(l.mprotect_readonly(), "mprotect_readonly")?;
        check("resized region -> mprotect_readonly", reg(l.as_slice()), "r--", true, true)?;
        same("resized region -> mprotect_readonly", &want, l.as_slice())?;
        op("drop");
        drop(l);
        released("after drop of a resized locked region", &[r, r2], base)
    })
}

/// lens (big-endian u16 each): a chain of resizes on one locked region, then munlock, then drop
fn resize_chain(i: &Input) -> Outcome {
    isolated(|| {
        let raw = i.get("lens");
        if raw.len() % 2 != 0 || raw.is_empty() {
            panic!("{} lens must be a non-empty list of big-endian u16", HARNESS);
        }
        let lens: Vec<usize> = raw.chunks(2).map(|c| ((c[0] as usize) << 8) | c[1] as usize).collect();
        let base = vmlck_kb();
        op("HeapBytes::new_locked");
        let mut l = ok(HeapBytes::new_locked(), "HeapBytes::new_locked")?;
        let mut want: Vec<u8> = Vec::new();
        let mut regions = Vec::new();
        for (k, n) in lens.iter().enumerate() {
            let fill = 0x40 + k as u8;
            op(format!("resize({}, {:#04x})", n, fill));
            l.resize(*n, fill);
            want.resize(*n, fill);
            let r = reg(l.as_slice());
            regions.push(r);
            check("locked region after resize", r, "rw-", true, true)?;
            same("locked region after resize", &want, l.as_slice())?;
            if *n > 0 {
                l.as_mut_slice()[n / 2] = k as u8;
                want[n / 2] = k as u8;
            }
        }
        op("munlock");
        let u = ok(l.munlock(), "munlock")?;
        check("resized region -> munlock", reg(u.as_slice()), "rw-", false, true)?;
        same("resized region -> munlock", &want, u.as_slice())?;
        if vmlck_kb() != base {
            return fail(
                format!("VmLck {} kB", base),
                format!("VmLck {} kB", vmlck_kb()),
                detail("after munlock of the only region: pages of earlier sizes of the region are still locked".into()),
            );
        }
        op("drop");
        drop(u);
        released("after drop", &regions, base)
    })
}

/// from, to: an unlocked region grows / shrinks through the plain Vec path and is locked afterwards
fn resize_unlocked_then_lock(i: &Input) -> Outcome {
    isolated(|| {
        let (a, b) = (i.num("from") as usize, i.num("to") as usize);
        let src = pat(a, 5);
        let base = vmlck_kb();
        let l = mk_hb(&src)?;
        let r0 = reg(l.as_slice());
        op("munlock");
        let mut u = ok(l.munlock(), "munlock")?;
        op(format!("resize({}, 0x21) (unlocked)", b));
        u.resize(b, 0x21);
        let mut want = src.clone();
        want.resize(b, 0x21);
        let r = reg(u.as_slice());
        check("unlocked region after resize", r, "rw-", false, false)?;
        same("unlocked region after resize", &want, u.as_slice())?;
        op("mlock");
        let l = ok(u.mlock(), "mlock")?;
        let r = reg(l.as_slice());
        check("resized region -> mlock", r, "rw-", true, false)?;
        op("mprotect_readonly");
        let l = ok(l.mprotect_readonly(), "mprotect_readonly")?;
        check("resized region -> mlock -> mprotect_readonly", r, "r--", true, false)?;
        same("resized region -> mlock -> mprotect_readonly", &want, l.as_slice())?;
        op("drop");
        drop(l);
        released("after drop", &[r0, r], base)
    })
}

fn constructors_arr<const N: usize>(base: u64) -> Outcome {
    let src = pat(N, 9);
    op(format!("HeapByteArray::<{}>::new_locked", N));
    let a = ok(HeapByteArray::<N>::new_locked(), "new_locked")?;
    check("new_locked", reg(a.as_slice()), "rw-", true, true)?;
    same("new_locked", &vec![0u8; N], a.as_slice())?;
    op("new_readonly_locked");
    let b = ok(HeapByteArray::<N>::new_readonly_locked(), "new_readonly_locked")?;
    check("new_readonly_locked", reg(b.as_slice()), "r--", true, true)?;
    op("gen_locked");
    let c = ok(HeapByteArray::<N>::gen_locked(), "gen_locked")?;
    check("gen_locked", reg(c.as_slice()), "rw-", true, true)?;
    op("gen_readonly_locked");
    let d = ok(HeapByteArray::<N>::gen_readonly_locked(), "gen_readonly_locked")?;
    check("gen_readonly_locked", reg(d.as_slice()), "r--", true, true)?;
    op("from_slice_into_readonly_locked");
    let e = ok(HeapByteArray::<N>::from_slice_into_readonly_locked(&src), "from_slice_into_readonly_locked")?;
    check("from_slice_into_readonly_locked", reg(e.as_slice()), "r--", true, true)?;
    same("from_slice_into_readonly_locked", &src, e.as_slice())?;
    probe("from_slice_into_readonly_locked", reg(e.as_slice()), "r--")?;
    op("Locked::<HeapByteArray>::new_byte_array");
    let f = <Locked<HeapByteArray<N>> as NewByteArray<N>>::new_byte_array();
    check("Locked::new_byte_array", reg(f.as_slice()), "rw-", true, true)?;
    op("Locked::<HeapByteArray>::gen");
    let g = <Locked<HeapByteArray<N>> as NewByteArray<N>>::gen();
    check("Locked::gen", reg(g.as_slice()), "rw-", true, true)?;
    op("Locked::<HeapByteArray>::default");
    let h = <Locked<HeapByteArray<N>> as Default>::default();
    check("Locked::default", reg(h.as_slice()), "rw-", true, true)?;
    op("HeapByteArray::from(array).mlock (Lockable)");
    let k = ok(HeapByteArray::<N>::try_from(&src[..]).map_err(|e| format!("{:?}", e)).and_then(|x| x.mlock().map_err(|e| format!("{:?}", e))), "Lockable::mlock")?;
    check("Lockable::mlock", reg(k.as_slice()), "rw-", true, true)?;
    same("Lockable::mlock", &src, k.as_slice())?;
    // the generic constructor traits of dryoc::types, as the object API's generic code reaches a locked output container
    op("<Locked<HeapByteArray> as NewBytes>::new_bytes");
    let mut nb = <Locked<HeapByteArray<N>> as NewBytes>::new_bytes();
    if nb.len() != N {
        return fail(N.to_string(), nb.len().to_string(), detail(format!("<Locked<HeapByteArray<{}>> as NewBytes>::new_bytes(): length of the region", N)));
    }
    check("<Locked<HeapByteArray> as NewBytes>::new_bytes", reg(nb.as_slice()), "rw-", true, true)?;
    same("<Locked<HeapByteArray> as NewBytes>::new_bytes", &vec![0u8; N], nb.as_slice())?;
    nb.as_mut_slice().copy_from_slice(&src);
    check("new_bytes, written", reg(nb.as_slice()), "rw-", true, true)?;
    op("new_bytes -> mprotect_readonly");
    let nb = ok(nb.mprotect_readonly(), "mprotect_readonly")?;
    check("new_bytes -> read-only", reg(nb.as_slice()), "r--", true, true)?;
    same("new_bytes -> read-only", &src, nb.as_slice())?;
    op("new_bytes -> mprotect_readonly -> mprotect_readwrite");
    let nb = ok(nb.mprotect_readwrite(), "mprotect_readwrite")?;
    check("new_bytes -> read-only -> read-write", reg(nb.as_slice()), "rw-", true, true)?;
    same("new_bytes -> read-only -> read-write", &src, nb.as_slice())?;
    op("from_slice_into_locked");
    let fl = ok(HeapByteArray::<N>::from_slice_into_locked(&src), "from_slice_into_locked")?;
    check("from_slice_into_locked", reg(fl.as_slice()), "rw-", true, true)?;
    same("from_slice_into_locked", &src, fl.as_slice())?;
    // through a generic function that only knows the trait bound (as GenericHash / Kdf / Session outputs do)
    fn generic_new<const M: usize, T: NewByteArray<M>>() -> T {
        T::new_byte_array()
    }
    fn generic_bytes<T: NewBytes>() -> T {
        T::new_bytes()
    }
    op("generic T::new_byte_array(), T = Locked<HeapByteArray>");
    let g1: Locked<HeapByteArray<N>> = generic_new::<N, _>();
    check("generic T::new_byte_array()", reg(g1.as_slice()), "rw-", true, true)?;
    op("generic T::new_bytes(), T = Locked<HeapByteArray>");
    let g2: Locked<HeapByteArray<N>> = generic_bytes();
    check("generic T::new_bytes()", reg(g2.as_slice()), "rw-", true, true)?;
    // all of them live at once: every one still as advertised
    check("new_locked (all constructors live)", reg(a.as_slice()), "rw-", true, true)?;
    check("gen_readonly_locked (all constructors live)", reg(d.as_slice()), "r--", true, true)?;
    let regions = vec![
        reg(a.as_slice()),
        reg(b.as_slice()),
        reg(c.as_slice()),
        reg(d.as_slice()),
        reg(e.as_slice()),
        reg(f.as_slice()),
        reg(g.as_slice()),
        reg(h.as_slice()),
        reg(k.as_slice()),
        reg(nb.as_slice()),
        reg(fl.as_slice()),
        reg(g1.as_slice()),
        reg(g2.as_slice()),
    ];
    op("drop (all)");
    drop((a, b, c, d, e, f, g, h, k));
    drop((nb, fl, g1, g2));
    released("after dropping every constructed region", &regions, base)
}

/// kind 0: HeapBytes constructors with `len` bytes; kind 1: HeapByteArray<len> constructors
fn constructors(i: &Input) -> Outcome {
    isolated(|| {
        let (kind, len) = (i.num("kind"), i.num("len") as usize);
        let base = vmlck_kb();
        if kind == 1 {
            return with_len!(len, constructors_arr, base);
        }
        let src = pat(len, 9);
        op("HeapBytes::new_locked");
        let a = ok(HeapBytes::new_locked(), "new_locked")?;
        op("HeapBytes::new_readonly_locked");
        let b = ok(HeapBytes::new_readonly_locked(), "new_readonly_locked")?;
        op("HeapBytes::gen_locked");
        let c = ok(HeapBytes::gen_locked(), "gen_locked")?;
        op("HeapBytes::gen_readonly_locked");
        let d = ok(HeapBytes::gen_readonly_locked(), "gen_readonly_locked")?;
        if a.len() + b.len() + c.len() + d.len() != 0 {
            return fail("empty regions", "non-empty", detail("HeapBytes::new_locked & co. return empty regions".into()));
        }
        op(format!("HeapBytes::from_slice_into_readonly_locked({} bytes)", len));
        let e = ok(HeapBytes::from_slice_into_readonly_locked(&src), "from_slice_into_readonly_locked")?;
        check("from_slice_into_readonly_locked", reg(e.as_slice()), "r--", true, true)?;
        same("from_slice_into_readonly_locked", &src, e.as_slice())?;
        probe("from_slice_into_readonly_locked", reg(e.as_slice()), "r--")?;
        op("HeapBytes::from(slice).mlock (Lockable)");
        let f = ok(HeapBytes::from(&src[..]).mlock(), "Lockable::mlock")?;
        check("Lockable::mlock", reg(f.as_slice()), "rw-", true, true)?;
        same("Lockable::mlock", &src, f.as_slice())?;
        op("Locked::<HeapBytes>::default + resize");
        let mut g = <Locked<HeapBytes> as Default>::default();
        g.resize(len, 0x6b);
        check("Locked::default + resize", reg(g.as_slice()), "rw-", true, true)?;
        same("Locked::default + resize", &vec![0x6b; len], g.as_slice())?;
        op("<Locked<HeapBytes> as NewBytes>::new_bytes + resize");
        let mut h = <Locked<HeapBytes> as NewBytes>::new_bytes();
        if !h.is_empty() {
            return fail("empty region", format!("{} bytes", h.len()), detail("<Locked<HeapBytes> as NewBytes>::new_bytes() returns an empty region".into()));
        }
        h.resize(len, 0x5d);
        check("NewBytes::new_bytes + resize", reg(h.as_slice()), "rw-", true, true)?;
        same("NewBytes::new_bytes + resize", &vec![0x5d; len], h.as_slice())?;
        op("new_bytes + resize -> mprotect_readonly");
        let h = ok(h.mprotect_readonly(), "mprotect_readonly")?;
        check("NewBytes::new_bytes + resize -> read-only", reg(h.as_slice()), "r--", true, true)?;
        op("HeapBytes::new_locked + resize");
        let mut a = a;
        a.resize(len, 0x11);
        check("new_locked + resize", reg(a.as_slice()), "rw-", true, true)?;
        same("new_locked + resize", &vec![0x11; len], a.as_slice())?;
        op("HeapBytes::gen_locked + resize");
        let mut c = c;
        c.resize(len, 0x22);
        check("gen_locked + resize", reg(c.as_slice()), "rw-", true, true)?;
        op("HeapBytes::from_slice_into_locked");
        let fl = ok(HeapBytes::from_slice_into_locked(&src), "from_slice_into_locked")?;
        check("from_slice_into_locked", reg(fl.as_slice()), "rw-", true, true)?;
        same("from_slice_into_locked", &src, fl.as_slice())?;
        op("new_readonly_locked -> mprotect_readwrite + resize");
        let mut b = ok(b.mprotect_readwrite(), "mprotect_readwrite")?;
        b.resize(len, 0x33);
        check("new_readonly_locked -> read-write + resize", reg(b.as_slice()), "rw-", true, true)?;
        let regions = vec![reg(e.as_slice()), reg(f.as_slice()), reg(g.as_slice()), reg(h.as_slice()), reg(a.as_slice()), reg(c.as_slice()), reg(fl.as_slice()), reg(b.as_slice())];
        op("drop (all)");
        drop((a, b, c, d, e, f, g));
        drop((h, fl));
        released("after dropping every constructed region", &regions, base)
    })
}

/// several regions of different states live side by side; transitions and drops of one never change another
fn many_regions(i: &Input) -> Outcome {
    isolated(|| {
        let order = i.num("order");
        let base = vmlck_kb();
        let (s1, s2, s3, s4, s5) = (pat(4097, 1), pat(32, 2), pat(8192, 3), pat(1, 4), pat(4096, 5));
        let r1 = mk_hb(&s1)?;
        let r2 = mk_arr::<32>(&s2)?;
        op("mprotect_readonly (#2)");
        let r2 = ok(r2.mprotect_readonly(), "mprotect_readonly")?;
        let r3 = mk_hb(&s3)?;
        op("munlock (#3)");
        let r3 = ok(r3.munlock(), "munlock")?;
        let r4 = mk_hb(&s4)?;
        op("munlock, mprotect_readonly (#4)");
        let r4 = ok(ok(r4.munlock(), "munlock")?.mprotect_readonly(), "mprotect_readonly")?;
        let r5 = mk_arr::<4096>(&s5)?;
        let g5 = reg(r5.as_slice());
        op("munlock, mprotect_noaccess (#5)");
        let r5 = ok(ok(r5.munlock(), "munlock")?.mprotect_noaccess(), "mprotect_noaccess")?;
        let (g1, g2, g3, g4) = (reg(r1.as_slice()), reg(r2.as_slice()), reg(r3.as_slice()), reg(r4.as_slice()));
        let all = |which: &str, live: [bool; 5]| -> Outcome {
            if live[0] {
                check(&format!("#1 Locked<HeapBytes> 4097 ({})", which), g1, "rw-", true, true)?;
            }
            if live[1] {
                check(&format!("#2 LockedRO<HeapByteArray<32>> ({})", which), g2, "r--", true, true)?;
            }
            if live[2] {
                check(&format!("#3 Unlocked<HeapBytes> 8192 ({})", which), g3, "rw-", false, true)?;
            }
            if live[3] {
                check(&format!("#4 UnlockedRO<HeapBytes> 1 ({})", which), g4, "r--", false, true)?;
            }
            if live[4] {
                check(&format!("#5 NoAccess<HeapByteArray<4096>> ({})", which), g5, "---", false, true)?;
            }
            Ok(())
        };
        all("all live", [true; 5])?;
        same("#1", &s1, r1.as_slice())?;
        same("#2", &s2, r2.as_slice())?;
        same("#3", &s3, r3.as_slice())?;
        same("#4", &s4, r4.as_slice())?;
        if order % 2 == 0 {
            op("drop #1");
            drop(r1);
            all("after drop of #1", [false, true, true, true, true])?;
            op("mlock (#3)");
            let r3 = ok(r3.mlock(), "mlock")?;
            check("#3 after mlock", reg(r3.as_slice()), "rw-", true, true)?;
            all("after mlock of #3", [false, true, false, true, true])?;
            op("drop #2");
            drop(r2);
            check("#3 after drop of #2", reg(r3.as_slice()), "rw-", true, true)?;
            all("after drop of #2", [false, false, false, true, true])?;
            op("drop #5, #4, #3");
            drop(r5);
            drop(r4);
            same("#3", &s3, r3.as_slice())?;
            drop(r3);
        } else {
            op("drop #5");
            drop(r5);
            all("after drop of #5", [true, true, true, true, false])?;
            op("munlock (#2)");
            let r2 = ok(r2.munlock(), "munlock")?;
            check("#2 after munlock", reg(r2.as_slice()), "r--", false, true)?;
            all("after munlock of #2", [true, false, true, true, false])?;
            op("drop #3, #4");
            drop(r3);
            drop(r4);
            all("after drop of #3 and #4", [true, false, false, false, false])?;
            same("#1", &s1, r1.as_slice())?;
            op("drop #2, #1");
            drop(r2);
            drop(r1);
        }
        released("after dropping all five regions", &[g1, g2, g3, g4, g5], base)
    })
}

/// the `*_locked` constructors of the object API produce regions with the advertised rights
fn object_api(_i: &Input) -> Outcome {
    isolated(|| {
        use dryoc::keypair::KeyPair;
        use dryoc::kx::protected::{LockedKeyPair, LockedROKeyPair, LockedSession};
        use dryoc::kx::Session;
        use dryoc::precalc::PrecalcSecretKey;
        use dryoc::sign::protected::LockedSigningKeyPair;
        use dryoc::sign::SigningKeyPair;
        let base = vmlck_kb();
        let mut regions = Vec::new();
        op("KeyPair::gen_locked_keypair");
        let kp: LockedKeyPair = ok(KeyPair::gen_locked_keypair(), "gen_locked_keypair")?;
        for (n, s) in [("public key", kp.public_key.as_slice()), ("secret key", kp.secret_key.as_slice())] {
            check(&format!("gen_locked_keypair {}", n), reg(s), "rw-", true, true)?;
            regions.push(reg(s));
        }
        op("KeyPair::gen_readonly_locked_keypair");
        let kpro: LockedROKeyPair = ok(KeyPair::gen_readonly_locked_keypair(), "gen_readonly_locked_keypair")?;
        for (n, s) in [("public key", kpro.public_key.as_slice()), ("secret key", kpro.secret_key.as_slice())] {
            check(&format!("gen_readonly_locked_keypair {}", n), reg(s), "r--", true, true)?;
            regions.push(reg(s));
        }
        let other = dryoc::keypair::StackKeyPair::gen();
        op("KeyPair::precalculate_locked");
        let pc = ok(kp.precalculate_locked(&other.public_key), "precalculate_locked")?;
        check("precalculate_locked", reg(pc.as_slice()), "rw-", true, true)?;
        regions.push(reg(pc.as_slice()));
        op("KeyPair::precalculate_readonly_locked");
        let pcro = ok(kpro.precalculate_readonly_locked(&other.public_key), "precalculate_readonly_locked")?;
        check("precalculate_readonly_locked", reg(pcro.as_slice()), "r--", true, true)?;
        regions.push(reg(pcro.as_slice()));
        op("PrecalcSecretKey::precalculate_locked");
        let pc2 = ok(PrecalcSecretKey::precalculate_locked(&other.public_key, &other.secret_key), "PrecalcSecretKey::precalculate_locked")?;
        check("PrecalcSecretKey::precalculate_locked", reg(pc2.as_slice()), "rw-", true, true)?;
        regions.push(reg(pc2.as_slice()));
        op("SigningKeyPair::gen_locked_keypair");
        let sk: LockedSigningKeyPair = ok(SigningKeyPair::gen_locked_keypair(), "SigningKeyPair::gen_locked_keypair")?;
        for (n, s) in [("public key", sk.public_key.as_slice()), ("secret key", sk.secret_key.as_slice())] {
            check(&format!("SigningKeyPair::gen_locked_keypair {}", n), reg(s), "rw-", true, true)?;
            regions.push(reg(s));
        }
        op("SigningKeyPair::gen_readonly_locked_keypair");
        let skro = ok(
            SigningKeyPair::<LockedRO<dryoc::sign::protected::PublicKey>, LockedRO<dryoc::sign::protected::SecretKey>>::gen_readonly_locked_keypair(),
            "SigningKeyPair::gen_readonly_locked_keypair",
        )?;
        for (n, s) in [("public key", skro.public_key.as_slice()), ("secret key", skro.secret_key.as_slice())] {
            check(&format!("SigningKeyPair::gen_readonly_locked_keypair {}", n), reg(s), "r--", true, true)?;
            regions.push(reg(s));
        }
        op("Session::<Locked<SessionKey>>::new_client");
        let sess: LockedSession = ok(Session::new_client(&kpro, &kpro.public_key), "Session::new_client")?;
        for (n, s) in [("rx", sess.rx_as_slice()), ("tx", sess.tx_as_slice())] {
            check(&format!("locked session key {}", n), reg(s), "rw-", true, true)?;
            regions.push(reg(s));
        }
        op("drop (all)");
        drop((kp, kpro, pc, pcro, pc2, sk, skro, sess));
        released("after dropping every object", &regions, base)
    })
}

pub const C14: Registry = &[
    ("walk_lock_first", walk_lock_first),
    ("walk_relock", walk_relock),
    ("walk_readonly_first", walk_readonly_first),
    ("walk_noaccess", walk_noaccess),
    ("drop_states", drop_states),
    ("clone_unlocked", clone_unlocked),
    ("clone_locked", clone_locked),
    ("resize_locked", resize_locked),
    ("resize_chain", resize_chain),
    ("resize_unlocked_then_lock", resize_unlocked_then_lock),
    ("constructors", constructors),
    ("many_regions", many_regions),
    ("object_api", object_api),
    ("noaccess_then_lock", noaccess_then_lock),
];

/// false when this environment cannot lock a few pages at all (then nothing can be observed)
fn can_lock() -> bool {
    let mut able = true;
    let r = isolated(|| {
        let n = 3 * page();
        unsafe {
            let p = libc::mmap(std::ptr::null_mut(), n, libc::PROT_READ | libc::PROT_WRITE, libc::MAP_PRIVATE | libc::MAP_ANONYMOUS, -1, 0);
            if p == libc::MAP_FAILED || libc::syscall(libc::SYS_mlock, p, n) != 0 {
                return fail(SKIP_ENV, "", "this environment cannot lock three pages (RLIMIT_MEMLOCK)");
            }
            let lo = smaps().iter().any(|m| m.start <= p as usize && (p as usize) < m.end && m.locked);
            if !lo || vmlck_kb() == 0 {
                return fail("X", "", "smaps/VmLck do not show a locked mapping");
            }
        }
        Ok(())
    });
    if let Err(f) = r {
        eprintln!("note: {}", f.detail);
        able = false;
    }
    able
}

fn be16(lens: &[usize]) -> Vec<u8> {
    lens.iter().flat_map(|n| [(*n >> 8) as u8, *n as u8]).collect()
}

pub fn c14(ctx: &mut Ctx) -> Search {
    if !can_lock() {
        return Ok(());
    }
    let t = ctx.thorough;
    let ps = page();
    // region lengths: sub-page, page - 1, page, page + 1, multi-page
    let fixed: Vec<usize> = if t { FIXED_LENS.to_vec() } else { vec![1, 31, 32, 4095, 4096, 4097, 8192, 10000] };
    let mut free: Vec<usize> = vec![0, 1, 16, 31, 32, 64, ps - 1, ps, ps + 1, 2 * ps, 2 * ps + 1, 10000];
    if t {
        free.extend_from_slice(&[2, 33, 100, 1000, ps - 2, ps + 2, 2 * ps - 1, 3 * ps - 1, 3 * ps, 3 * ps + 1, 4 * ps + 1, 20000]);
    }
    let walks = ["walk_lock_first", "walk_relock", "walk_readonly_first", "walk_noaccess", "drop_states", "clone_unlocked"];
    for w in walks {
        for len in &free {
            ctx.run(w, Input::new().u("kind", 0).u("len", *len as u64))?;
        }
        for len in &fixed {
            ctx.run(w, Input::new().u("kind", 1).u("len", *len as u64))?;
            if t || [32usize, 64, 4097].contains(len) || w == "walk_readonly_first" {
                ctx.run(w, Input::new().u("kind", 2).u("len", *len as u64))?;
            }
        }
    }
    for len in &free {
        ctx.run("clone_locked", Input::new().u("len", *len as u64))?;
        ctx.run("constructors", Input::new().u("kind", 0).u("len", *len as u64))?;
    }
    for len in &fixed {
        ctx.run("constructors", Input::new().u("kind", 1).u("len", *len as u64))?;
    }
    if !t {
        // key / MAC sized regions through every constructor as well
        for len in [16u64, 64] {
            ctx.run("constructors", Input::new().u("kind", 1).u("len", len))?;
        }
    }
    let rl: Vec<usize> = if t { free.clone() } else { vec![0, 1, 16, 64, ps - 1, ps, ps + 1, 2 * ps, 2 * ps + 1, 10000] };
    for a in &rl {
        for b in &rl {
            ctx.run("resize_locked", Input::new().u("from", *a as u64).u("to", *b as u64).u("fill", 0xc3))?;
        }
    }
    for (a, b) in [(1usize, ps + 1), (ps, ps + 1), (ps + 1, 16), (2 * ps + 1, ps), (10, 3 * ps), (3 * ps, 0), (0, 2 * ps)] {
        ctx.run("resize_unlocked_then_lock", Input::new().u("from", a as u64).u("to", b as u64))?;
    }
    let mut chains: Vec<Vec<usize>> = vec![
        vec![1, ps, ps + 1, 2 * ps + 1, ps, 16, 0, ps + 1],
        vec![2 * ps + 1, 16],
        vec![ps + 1, ps],
        vec![10000, 0],
        vec![32, 64, 32],
    ];
    let rounds = if t { 40 } else { 8 };
    for _ in 0..rounds {
        let n = 2 + ctx.rng.below(6);
        let pool = [0usize, 1, 31, 32, ps - 1, ps, ps + 1, 2 * ps, 2 * ps + 1, 10000, 3 * ps + 7];
        chains.push((0..n).map(|_| pool[ctx.rng.below(pool.len())]).collect());
    }
    for c in &chains {
        ctx.run("resize_chain", Input::new().b("lens", &be16(c)))?;
    }
    ctx.run("many_regions", Input::new().u("order", 0))?;
    ctx.run("many_regions", Input::new().u("order", 1))?;
    ctx.run("object_api", Input::new())?;
    // last: locking a no-access region (a request the kernel cannot honour)
    for len in &free {
        ctx.run("noaccess_then_lock", Input::new().u("kind", 0).u("len", *len as u64))?;
    }
    for len in &fixed {
        ctx.run("noaccess_then_lock", Input::new().u("kind", 1).u("len", *len as u64))?;
    }
    Ok(())
}

// ================================================================================================================= C19 ====

/// what a successful entry point hands back: the object (kept alive) and what its regions advertise
struct Adv {
    what: String,
    r: Region,
    perms: &'static str,
    locked: bool,
    bytes: Option<Vec<u8>>,
}

struct Held {
    _obj: Box<dyn std::any::Any>,
    adv: Vec<Adv>,
}

fn held<T: 'static>(obj: T, adv: Vec<Adv>) -> Held {
    Held { _obj: Box::new(obj), adv }
}

fn adv(what: &str, s: &[u8], perms: &'static str, locked: bool, bytes: Option<&[u8]>) -> Adv {
    Adv { what: what.to_string(), r: reg(s), perms, locked, bytes: bytes.map(|b| b.to_vec()) }
}

fn verify_held(h: &Held, when: &str) -> Outcome {
    for a in &h.adv {
        let what = format!("{} ({})", a.what, when);
        check(&what, a.r, a.perms, a.locked, true)?;
        if let Some(b) = &a.bytes {
            if a.perms != "---" {
                let now = unsafe { std::slice::from_raw_parts(a.r.ptr as *const u8, a.r.len) };
                same(&what, b, now)?;
            }
        }
    }
    Ok(())
}

enum Ran {
    /// the preparation of the entry (not the operation under test) could not get its lock: nothing to judge
    PrepRefused,
    Done(Result<Held, String>),
}

const ENTRY_NAMES: &[&str] = &[
    /* 0 */ "HeapBytes::new_locked (empty region)",
    /* 1 */ "HeapBytes::new_readonly_locked (empty region)",
    /* 2 */ "HeapBytes::gen_locked (empty region)",
    /* 3 */ "HeapBytes::from_slice_into_locked(5000 bytes)",
    /* 4 */ "HeapBytes::from_slice_into_readonly_locked(33 bytes)",
    /* 5 */ "HeapBytes::from(&[u8; 4096]).mlock() (Lockable)",
    /* 6 */ "HeapByteArray::<32>::new_locked",
    /* 7 */ "HeapByteArray::<32>::new_readonly_locked",
    /* 8 */ "HeapByteArray::<32>::gen_locked",
    /* 9 */ "HeapByteArray::<32>::gen_readonly_locked",
    /* 10 */ "HeapByteArray::<32>::from_slice_into_locked",
    /* 11 */ "HeapByteArray::<32>::from_slice_into_readonly_locked",
    /* 12 */ "HeapByteArray::<4097>::from_slice_into_locked",
    /* 13 */ "HeapByteArray::<64>::default().mlock() (Lockable)",
    /* 14 */ "StackByteArray::<32>::mlock",
    /* 15 */ "Unlocked<HeapByteArray<32>>::mlock (locked before, unlocked, locked again)",
    /* 16 */ "UnlockedRO<HeapByteArray<32>>::mlock (from StackByteArray::mprotect_readonly)",
    /* 17 */ "UnlockedRO<HeapBytes>::mlock (5000 bytes: locked, unlocked, read-only, locked again)",
    /* 18 */ "NoAccess<HeapByteArray<32>>::mlock",
    /* 19 */ "KeyPair::new_locked_keypair",
    /* 20 */ "KeyPair::gen_locked_keypair",
    /* 21 */ "KeyPair::gen_readonly_locked_keypair",
    /* 22 */ "LockedKeyPair::precalculate_locked",
    /* 23 */ "LockedROKeyPair::precalculate_readonly_locked",
    /* 24 */ "PrecalcSecretKey::precalculate_locked",
    /* 25 */ "PrecalcSecretKey::precalculate_readonly_locked",
    /* 26 */ "SigningKeyPair::new_locked_keypair",
    /* 27 */ "SigningKeyPair::gen_locked_keypair",
    /* 28 */ "SigningKeyPair::gen_readonly_locked_keypair",
    /* 29 */ "HeapBytes::from_slice_into_locked(1 byte)",
    /* 30 */ "HeapBytes::from_slice_into_readonly_locked(8192 bytes)",
    /* 31 */ "Session::<Locked<SessionKey>>::new_client",
    /* 32 */ "Session::<Locked<SessionKey>>::new_server",
];
/// entries 0..FIRST_SESSION_ENTRY are the constructors / transitions of the protected module and the `*_locked` constructors
const FIRST_SESSION_ENTRY: usize = 31;

fn dbg<T, E: std::fmt::Debug>(r: Result<T, E>) -> Result<T, String> {
    r.map_err(|e| format!("{:?}", e))
}

/// Runs entry point `e`.  `arm` is called immediately before the operation under test (after any preparation).  A preparation
/// step that fails returns `PrepRefused` (only possible when a refusal is already active).
fn run_entry(e: usize, arm: &dyn Fn()) -> Ran {
    use dryoc::keypair::KeyPair;
    use dryoc::kx::protected::{LockedKeyPair, LockedROKeyPair, LockedSession};
    use dryoc::kx::Session;
    use dryoc::precalc::PrecalcSecretKey;
    use dryoc::sign::protected::LockedSigningKeyPair;
    use dryoc::sign::SigningKeyPair;
    type SignRO = SigningKeyPair<LockedRO<dryoc::sign::protected::PublicKey>, LockedRO<dryoc::sign::protected::SecretKey>>;
    let name = ENTRY_NAMES[e];
    macro_rules! prep {
        ($r:expr) => {
            match $r {
                Ok(v) => v,
                Err(_) => return Ran::PrepRefused,
            }
        };
    }
    let one = |r: Result<Held, String>| Ran::Done(r);
    match e {
        0 => {
            arm();
            one(dbg(HeapBytes::new_locked()).map(|x| held(x, vec![])))
        }
        1 => {
            arm();
            one(dbg(HeapBytes::new_readonly_locked()).map(|x| held(x, vec![])))
        }
        2 => {
            arm();
            one(dbg(HeapBytes::gen_locked()).map(|x| held(x, vec![])))
        }
        3 | 29 => {
            let src = pat(if e == 3 { 5000 } else { 1 }, 21);
            arm();
            one(dbg(HeapBytes::from_slice_into_locked(&src)).map(|x| {
                let a = adv(name, x.as_slice(), "rw-", true, Some(&src));
                held(x, vec![a])
            }))
        }
        4 | 30 => {
            let src = pat(if e == 4 { 33 } else { 8192 }, 22);
            arm();
            one(dbg(HeapBytes::from_slice_into_readonly_locked(&src)).map(|x| {
                let a = adv(name, x.as_slice(), "r--", true, Some(&src));
                held(x, vec![a])
            }))
        }
        5 => {
            let src = pat(4096, 23);
            let h = HeapBytes::from(&src[..]);
            arm();
            one(dbg(h.mlock()).map(|x| {
                let a = adv(name, x.as_slice(), "rw-", true, Some(&src));
                held(x, vec![a])
            }))
        }
        6 => {
            arm();
            one(dbg(HeapByteArray::<32>::new_locked()).map(|x| {
                let a = adv(name, x.as_slice(), "rw-", true, Some(&[0u8; 32]));
                held(x, vec![a])
            }))
        }
        7 => {
            arm();
            one(dbg(HeapByteArray::<32>::new_readonly_locked()).map(|x| {
                let a = adv(name, x.as_slice(), "r--", true, Some(&[0u8; 32]));
                held(x, vec![a])
            }))
        }
        8 => {
            arm();
            one(dbg(HeapByteArray::<32>::gen_locked()).map(|x| {
                let a = adv(name, x.as_slice(), "rw-", true, None);
                held(x, vec![a])
            }))
        }
        9 => {
            arm();
            one(dbg(HeapByteArray::<32>::gen_readonly_locked()).map(|x| {
                let a = adv(name, x.as_slice(), "r--", true, None);
                held(x, vec![a])
            }))
        }
        10 => {
            let src = pat(32, 24);
            arm();
            one(dbg(HeapByteArray::<32>::from_slice_into_locked(&src)).map(|x| {
                let a = adv(name, x.as_slice(), "rw-", true, Some(&src));
                held(x, vec![a])
            }))
        }
        11 => {
            let src = pat(32, 25);
            arm();
            one(dbg(HeapByteArray::<32>::from_slice_into_readonly_locked(&src)).map(|x| {
                let a = adv(name, x.as_slice(), "r--", true, Some(&src));
                held(x, vec![a])
            }))
        }
        12 => {
            let src = pat(4097, 26);
            arm();
            one(dbg(HeapByteArray::<4097>::from_slice_into_locked(&src)).map(|x| {
                let a = adv(name, x.as_slice(), "rw-", true, Some(&src));
                held(x, vec![a])
            }))
        }
        13 => {
            let h = HeapByteArray::<64>::default();
            arm();
            one(dbg(h.mlock()).map(|x| {
                let a = adv(name, x.as_slice(), "rw-", true, Some(&[0u8; 64]));
                held(x, vec![a])
            }))
        }
        14 => {
            let src = pat(32, 27);
            let s = stack_arr::<32>(&src);
            arm();
            one(dbg(s.mlock()).map(|x| {
                let a = adv(name, x.as_slice(), "rw-", true, Some(&src));
                held(x, vec![a])
            }))
        }
        15 => {
            let src = pat(32, 28);
            let l = prep!(HeapByteArray::<32>::from_slice_into_locked(&src));
            let u = prep!(l.munlock());
            arm();
            one(dbg(u.mlock()).map(|x| {
                let a = adv(name, x.as_slice(), "rw-", true, Some(&src));
                held(x, vec![a])
            }))
        }
        16 => {
            let src = pat(32, 29);
            let u = prep!(stack_arr::<32>(&src).mprotect_readonly());
            arm();
            one(dbg(u.mlock()).map(|x| {
                let a = adv(name, x.as_slice(), "r--", true, Some(&src));
                held(x, vec![a])
            }))
        }
        17 => {
            let src = pat(5000, 30);
            let l = prep!(HeapBytes::from_slice_into_locked(&src));
            let u = prep!(l.munlock());
            let u = prep!(u.mprotect_readonly());
            arm();
            one(dbg(u.mlock()).map(|x| {
                let a = adv(name, x.as_slice(), "r--", true, Some(&src));
                held(x, vec![a])
            }))
        }
        18 => {
            let src = pat(32, 31);
            let l = prep!(HeapByteArray::<32>::from_slice_into_locked(&src));
            let r = reg(l.as_slice());
            let u = prep!(l.munlock());
            let na = prep!(u.mprotect_noaccess());
            arm();
            one(dbg(na.mlock()).map(|x| held(x, vec![Adv { what: name.to_string(), r, perms: "---", locked: true, bytes: None }])))
        }
        19 | 20 => {
            arm();
            let r: Result<LockedKeyPair, _> = if e == 19 { KeyPair::new_locked_keypair() } else { KeyPair::gen_locked_keypair() };
            one(dbg(r).map(|x| {
                let a = vec![adv(name, x.public_key.as_slice(), "rw-", true, None), adv(name, x.secret_key.as_slice(), "rw-", true, None)];
                held(x, a)
            }))
        }
        21 => {
            arm();
            let r: Result<LockedROKeyPair, _> = KeyPair::gen_readonly_locked_keypair();
            one(dbg(r).map(|x| {
                let a = vec![adv(name, x.public_key.as_slice(), "r--", true, None), adv(name, x.secret_key.as_slice(), "r--", true, None)];
                held(x, a)
            }))
        }
        22 => {
            let kp: LockedKeyPair = prep!(KeyPair::gen_locked_keypair());
            let other = dryoc::keypair::StackKeyPair::gen();
            arm();
            one(dbg(kp.precalculate_locked(&other.public_key)).map(|x| {
                let a = vec![adv(name, x.as_slice(), "rw-", true, None), adv("its keypair", kp.secret_key.as_slice(), "rw-", true, None)];
                held((x, kp), a)
            }))
        }
        23 => {
            let kp: LockedROKeyPair = prep!(KeyPair::gen_readonly_locked_keypair());
            let other = dryoc::keypair::StackKeyPair::gen();
            arm();
            one(dbg(kp.precalculate_readonly_locked(&other.public_key)).map(|x| {
                let a = vec![adv(name, x.as_slice(), "r--", true, None), adv("its keypair", kp.secret_key.as_slice(), "r--", true, None)];
                held((x, kp), a)
            }))
        }
        24 => {
            let other = dryoc::keypair::StackKeyPair::gen();
            arm();
            one(dbg(PrecalcSecretKey::precalculate_locked(&other.public_key, &other.secret_key)).map(|x| {
                let a = vec![adv(name, x.as_slice(), "rw-", true, None)];
                held(x, a)
            }))
        }
        25 => {
            let other = dryoc::keypair::StackKeyPair::gen();
            arm();
            one(dbg(PrecalcSecretKey::precalculate_readonly_locked(&other.public_key, &other.secret_key)).map(|x| {
                let a = vec![adv(name, x.as_slice(), "r--", true, None)];
                held(x, a)
            }))
        }
        26 | 27 => {
            arm();
            let r: Result<LockedSigningKeyPair, _> = if e == 26 { SigningKeyPair::new_locked_keypair() } else { SigningKeyPair::gen_locked_keypair() };
            one(dbg(r).map(|x| {
                let a = vec![adv(name, x.public_key.as_slice(), "rw-", true, None), adv(name, x.secret_key.as_slice(), "rw-", true, None)];
                held(x, a)
            }))
        }
        28 => {
            arm();
            one(dbg(SignRO::gen_readonly_locked_keypair()).map(|x| {
                let a = vec![adv(name, x.public_key.as_slice(), "r--", true, None), adv(name, x.secret_key.as_slice(), "r--", true, None)];
                held(x, a)
            }))
        }
        31 | 32 => {
            let me = dryoc::keypair::StackKeyPair::gen();
            let peer = dryoc::keypair::StackKeyPair::gen();
            arm();
            let r: Result<LockedSession, _> = if e == 31 { Session::new_client(&me, &peer.public_key) } else { Session::new_server(&me, &peer.public_key) };
            one(dbg(r).map(|x| {
                let a = vec![adv(name, x.rx_as_slice(), "rw-", true, None), adv(name, x.tx_as_slice(), "rw-", true, None)];
                held(x, a)
            }))
        }
        _ => panic!("{} entry must be 0..{}", HARNESS, ENTRY_NAMES.len() - 1),
    }
}

fn errno_of(i: &Input) -> i32 {
    let e = i.num("errno") as i32;
    if ![libc::ENOMEM, libc::EPERM, libc::EAGAIN].contains(&e) {
        panic!("{} errno must be {} (ENOMEM), {} (EPERM) or {} (EAGAIN)", HARNESS, libc::ENOMEM, libc::EPERM, libc::EAGAIN);
    }
    e
}

/// Judges one step that ran with refusal possibly active.  `req`/`refd`: lock requests issued / refused during the step.
fn judge(name: &str, how: &str, r: Result<Ran, String>, req: usize, refd: usize, genuine: usize) -> Result<Option<Held>, Fail> {
    match r {
        Err(msg) => {
            if msg.starts_with(HARNESS) {
                std::panic::resume_unwind(Box::new(msg));
            }
            fail(
                if refd > 0 { "Err (the refused lock reported to the caller)" } else { "no panic (Ok or Err)" },
                "panic",
                detail(format!(
                    "{} panicked instead of returning an error ({}; {} lock request(s) issued in this step, {} refused): {}",
                    name, how, req, refd, msg
                )),
            )
        }
        Ok(Ran::PrepRefused) => Ok(None),
        Ok(Ran::Done(Ok(h))) => {
            if refd > 0 {
                return fail(
                    "Err",
                    "Ok",
                    detail(format!("{} returned Ok although {} of its {} lock request(s) was refused ({})", name, refd, req, how)),
                );
            }
            Ok(Some(h))
        }
        Ok(Ran::Done(Err(e))) => {
            if refd == 0 {
                if genuine > 0 {
                    // the kernel itself refused (locked-memory limit of this environment, or a no-access region)
                    return Ok(None);
                }
                return fail("Ok", format!("Err({})", e), detail(format!("{} failed although no lock request was refused ({})", name, how)));
            }
            Ok(None)
        }
    }
}

/// entry, j, errno: a few earlier regions exist; entry point `entry` runs with its own j-th (and every later) lock request
/// refused with `errno`.  It must return Err exactly if a request was refused -- no panic, crash or hang --, the earlier
/// regions stay as they were, and after dropping everything nothing is locked.
fn refuse_entry(i: &Input) -> Outcome {
    isolated(|| {
        let (e, j, en) = (i.num("entry") as usize, i.num("j") as usize, errno_of(i));
        if e >= ENTRY_NAMES.len() || j == 0 {
            panic!("{} entry must be 0..{} and j >= 1", HARNESS, ENTRY_NAMES.len() - 1);
        }
        let name = ENTRY_NAMES[e];
        let base = vmlck_kb();
        let (p1, p2, p3) = (pat(32, 41), pat(5000, 42), pat(32, 43));
        op("earlier regions: #1 HeapByteArray::<32>::from_slice_into_locked");
        let mut e1 = ok(HeapByteArray::<32>::from_slice_into_locked(&p1), "earlier region #1")?;
        op("#2 HeapBytes::from_slice_into_readonly_locked(5000 bytes)");
        let e2 = ok(HeapBytes::from_slice_into_readonly_locked(&p2), "earlier region #2")?;
        op("#3 StackByteArray::<32>::mprotect_readonly");
        let e3 = ok(stack_arr::<32>(&p3).mprotect_readonly(), "earlier region #3")?;
        interposer_live();
        let earlier = vec![
            adv("earlier region #1 (Locked<HeapByteArray<32>>)", e1.as_slice(), "rw-", true, Some(&p1)),
            adv("earlier region #2 (LockedRO<HeapBytes>, 5000 bytes)", e2.as_slice(), "r--", true, Some(&p2)),
            adv("earlier region #3 (UnlockedRO<HeapByteArray<32>>)", e3.as_slice(), "r--", false, Some(&p3)),
        ];
        let how = format!("its lock request #{} and all later ones refused with {}", j, errno_name(en));
        op(format!("{} with {}", name, how));
        let (req0, ref0, gen0) = (std::cell::Cell::new(0usize), REFUSED.load(SeqCst), std::cell::Cell::new(0usize));
        let arm = || {
            req0.set(LOCK_REQS.load(SeqCst));
            gen0.set(GENUINE.load(SeqCst));
            refuse_from_next(j, en);
        };
        req0.set(LOCK_REQS.load(SeqCst));
        let r = catch(|| run_entry(e, &arm));
        refuse_off();
        let (req, refd, gen) = (LOCK_REQS.load(SeqCst) - req0.get(), REFUSED.load(SeqCst) - ref0, GENUINE.load(SeqCst) - gen0.get());
        let h = judge(name, &how, r, req, refd, gen)?;
        op("(refusal over) check the earlier regions");
        let eh = Held { _obj: Box::new(()), adv: earlier };
        verify_held(&eh, "after the refused operation")?;
        e1.as_mut_slice()[0] ^= 0xff;
        if let Some(h) = &h {
            verify_held(h, "returned Ok, nothing was refused")?;
        }
        let mut regions: Vec<Region> = eh.adv.iter().map(|a| a.r).collect();
        if let Some(h) = &h {
            regions.extend(h.adv.iter().map(|a| a.r));
        }
        op("drop (all)");
        drop(h);
        drop((e1, e2, e3));
        released("after dropping the earlier regions and the result", &regions, base)
    })
}

/// the order in which the sequence case runs entry points (one region of every kind, transitions in between)
const SEQUENCE: &[usize] = &[8, 4, 14, 15, 16, 20, 3, 10, 17, 22, 11, 5, 27, 12, 24, 21, 9, 13];

/// k, errno [, session=1]: the whole sequence with the k-th and all later lock requests refused
fn refuse_sequence(i: &Input) -> Outcome {
    isolated(|| {
        let (k, en) = (i.num("k") as usize, errno_of(i));
        if k == 0 {
            panic!("{} k >= 1", HARNESS);
        }
        let with_session = i.has("session") && i.num("session") == 1;
        let base = vmlck_kb();
        let mut live: Vec<Held> = Vec::new();
        refuse_from_next(k, en);
        let mut seq: Vec<usize> = SEQUENCE.to_vec();
        if with_session {
            seq.push(31);
            seq.push(32);
        }
        for e in seq {
            let name = ENTRY_NAMES[e];
            let how = format!("lock request #{} of the sequence and all later ones refused with {}", k, errno_name(en));
            op(name.to_string());
            let (req0, ref0, gen0) = (LOCK_REQS.load(SeqCst), REFUSED.load(SeqCst), GENUINE.load(SeqCst));
            let r = catch(|| run_entry(e, &|| {}));
            let (req, refd, gen) = (LOCK_REQS.load(SeqCst) - req0, REFUSED.load(SeqCst) - ref0, GENUINE.load(SeqCst) - gen0);
            // a preparation step inside the entry may have absorbed the refusal: then the operation under test never ran
            if let Some(h) = judge(name, &how, r, req, refd, gen)? {
                live.push(h);
            }
        }
        let total = LOCK_REQS.load(SeqCst);
        refuse_off();
        op(format!("(refusal over; {} lock requests were issued) check every region created before the refusal", total));
        for h in &live {
            verify_held(h, "after the rest of the sequence ran under refusal")?;
        }
        let regions: Vec<Region> = live.iter().flat_map(|h| h.adv.iter().map(|a| a.r)).collect();
        op("drop (all)");
        drop(live);
        released("after dropping every region of the sequence", &regions, base)
    })
}

// ------------------------------------------------------------------------------------------- nothing left behind on a refusal ----
//
// A refused lock request makes the constructor return early.  Whatever secret it had already derived at that point must have
// been wiped: the dead part of the stack (the frames of the call that just returned) is searched for the 32-byte shared
// secret.  The needle is computed by libsodium on ANOTHER thread (another stack) and only ever held in masked form, so neither
// the oracle nor the search can be what is found.  On a tree that asks for the locked region first, nothing has been derived
// when the refusal arrives; the search is silent by construction there.

const STACK_MASK: u8 = 0xa5;
/// the operation runs this far below the case body's frame, so that the shallow frames of what follows do not overwrite it
const DEEP_PAD: usize = 64 * 1024;
/// how far below the searching frame the dead stack is read
const SCAN_WINDOW: usize = 512 * 1024;

/// Searches the stack of the current thread, from SCAN_WINDOW bytes below this frame up to it, for `masked[i] ^ STACK_MASK`.
#[inline(never)]
fn stack_holds(masked: &[u8]) -> bool {
    let marker = 0u8;
    let top = std::hint::black_box(&marker) as *const u8 as usize;
    let bottom = top - SCAN_WINDOW;
    let n = masked.len();
    let mut addr = bottom;
    while addr + n <= top {
        let mut k = 0;
        while k < n {
            let b = unsafe { std::ptr::read_volatile((addr + k) as *const u8) };
            if b ^ STACK_MASK != masked[k] {
                break;
            }
            k += 1;
        }
        if k == n {
            return true;
        }
        addr += 1;
    }
    false
}

/// maps (and clears) the part of the stack the search reads
#[inline(never)]
fn clear_deep() {
    let mut z = [0u8; SCAN_WINDOW + DEEP_PAD];
    std::hint::black_box(&mut z);
}

#[inline(never)]
fn plant(masked: &[u8]) {
    let mut local = [0u8; 32];
    for (l, m) in local.iter_mut().zip(masked.iter()) {
        *l = m ^ STACK_MASK;
    }
    std::hint::black_box(&mut local);
}

/// Runs `f` DEEP_PAD bytes below the caller and hands its result up WITHOUT touching it: nothing is called between the return
/// of `f` and the return to the caller, so the dead frames of `f` (and of everything it called) stay as `f` left them until the
/// caller -- whose own frames are at least DEEP_PAD bytes higher -- has searched them.  (A wrapper that inspects or drops the
/// result itself overwrites the first few dozen bytes below its frame, exactly where the callee's locals were.)
#[inline(never)]
fn deep<T>(f: impl FnOnce() -> T) -> T {
    let mut pad = [0u8; DEEP_PAD];
    std::hint::black_box(&mut pad);
    let r = deep_inner(f);
    std::hint::black_box(&mut pad);
    r
}

#[inline(never)]
fn deep_inner<T>(f: impl FnOnce() -> T) -> T {
    f()
}

const PRECALC_VARIANTS: &[&str] = &[
    "PrecalcSecretKey::precalculate_locked",
    "PrecalcSecretKey::precalculate_readonly_locked",
    "LockedKeyPair::precalculate_locked",
    "LockedROKeyPair::precalculate_readonly_locked",
];

type BoxLockedKp = dryoc::keypair::KeyPair<Locked<HeapByteArray<32>>, Locked<HeapByteArray<32>>>;
type BoxLockedRoKp = dryoc::keypair::KeyPair<LockedRO<HeapByteArray<32>>, LockedRO<HeapByteArray<32>>>;

/// the untouched result of a precalculation
enum Precalculated {
    Rw(Result<dryoc::precalc::PrecalcSecretKey<Locked<HeapByteArray<32>>>, std::io::Error>),
    Ro(Result<dryoc::precalc::PrecalcSecretKey<LockedRO<HeapByteArray<32>>>, std::io::Error>),
}

impl Precalculated {
    /// Some(bytes) = Ok (the precalculated key), None = Err
    fn bytes(self) -> Option<Vec<u8>> {
        match self {
            Precalculated::Rw(r) => r.ok().map(|k| k.as_slice().to_vec()),
            Precalculated::Ro(r) => r.ok().map(|k| k.as_slice().to_vec()),
        }
    }
}

/// Runs the precalculation DEEP_PAD bytes below the caller.
fn precalc_deep(variant: usize, pk: &StackByteArray<32>, sk: &StackByteArray<32>, kp_l: Option<&BoxLockedKp>, kp_r: Option<&BoxLockedRoKp>) -> Precalculated {
    use dryoc::precalc::PrecalcSecretKey;
    match variant {
        0 => deep(|| Precalculated::Rw(PrecalcSecretKey::precalculate_locked(pk, sk))),
        1 => deep(|| Precalculated::Ro(PrecalcSecretKey::precalculate_readonly_locked(pk, sk))),
        2 => {
            let kp = kp_l.expect("locked key pair");
            deep(|| Precalculated::Rw(kp.precalculate_locked(pk)))
        }
        _ => {
            let kp = kp_r.expect("read-only locked key pair");
            deep(|| Precalculated::Ro(kp.precalculate_readonly_locked(pk)))
        }
    }
}

/// variant (index into PRECALC_VARIANTS), errno, sk, peer_sk: the precalculation of the shared secret into locked memory with
/// its lock request refused.  It must return Err (no panic), and must not leave the shared secret -- which it may or may not have
/// derived before asking for the region -- in its dead stack frames.  Afterwards, with the refusal lifted, the same call
/// succeeds and yields libsodium's crypto_box_beforenm.
fn refused_precalc_wipes(i: &Input) -> Outcome {
    isolated(|| {
        let (variant, en) = (i.num("variant") as usize, errno_of(i));
        if variant >= PRECALC_VARIANTS.len() {
            panic!("{} variant must be 0..{}", HARNESS, PRECALC_VARIANTS.len() - 1);
        }
        let name = PRECALC_VARIANTS[variant];
        let (sk, peer_sk) = (i.arr::<32>("sk"), i.arr::<32>("peer_sk"));
        // public keys and the needle: libsodium, on another thread; the shared secret comes back masked
        let (pk, peer_pk, masked): ([u8; 32], [u8; 32], Vec<u8>) = match std::thread::spawn(move || {
            let (pk, peer_pk) = (crate::so::scalarmult_base(&sk), crate::so::scalarmult_base(&peer_sk));
            let shared = crate::so::box_beforenm(&peer_pk, &sk);
            (pk, peer_pk, shared.map(|k| k.iter().map(|b| b ^ STACK_MASK).collect::<Vec<u8>>()))
        })
        .join()
        {
            Ok((a, b, Some(m))) => (a, b, m),
            _ => panic!("{} libsodium refuses the key pair", HARNESS),
        };
        let base = vmlck_kb();
        let (spk, ssk) = (stack_arr::<32>(&peer_pk), stack_arr::<32>(&sk));
        op("earlier regions: the key pair in locked memory");
        let kp_l: Option<BoxLockedKp> = if variant == 2 {
            Some(dryoc::keypair::KeyPair {
                public_key: ok(HeapByteArray::<32>::from_slice_into_locked(&pk), "from_slice_into_locked")?,
                secret_key: ok(HeapByteArray::<32>::from_slice_into_locked(&sk), "from_slice_into_locked")?,
            })
        } else {
            None
        };
        let kp_r: Option<BoxLockedRoKp> = if variant == 3 {
            Some(dryoc::keypair::KeyPair {
                public_key: ok(HeapByteArray::<32>::from_slice_into_readonly_locked(&pk), "from_slice_into_readonly_locked")?,
                secret_key: ok(HeapByteArray::<32>::from_slice_into_readonly_locked(&sk), "from_slice_into_readonly_locked")?,
            })
        } else {
            None
        };
        let mut earlier: Vec<Adv> = Vec::new();
        if let Some(k) = &kp_l {
            earlier.push(adv("locked public key", k.public_key.as_slice(), "rw-", true, Some(&pk)));
            earlier.push(adv("locked secret key", k.secret_key.as_slice(), "rw-", true, Some(&sk)));
        }
        if let Some(k) = &kp_r {
            earlier.push(adv("read-only locked public key", k.public_key.as_slice(), "r--", true, Some(&pk)));
            earlier.push(adv("read-only locked secret key", k.secret_key.as_slice(), "r--", true, Some(&sk)));
        }
        // the search itself: clean slate, then the positive control
        clear_deep();
        let control: Vec<u8> = (0..32u8).map(|j| j.wrapping_mul(37).wrapping_add(11)).collect();
        if stack_holds(&control) {
            panic!("{} the control pattern is on the stack before it was planted", HARNESS);
        }
        deep(|| plant(&control));
        if !stack_holds(&control) {
            panic!("{} the stack search does not find a pattern left in a dead frame {} bytes below", HARNESS, DEEP_PAD);
        }
        if stack_holds(&masked) {
            panic!("{} the shared secret is on this stack before dryoc computed it", HARNESS);
        }
        let how = format!("its lock request refused with {}", errno_name(en));
        op(format!("{} with {}", name, how));
        let (req0, ref0) = (LOCK_REQS.load(SeqCst), REFUSED.load(SeqCst));
        refuse_from_next(1, en);
        let r = catch(|| precalc_deep(variant, &spk, &ssk, kp_l.as_ref(), kp_r.as_ref()));
        // (first the search, then everything else: the result is still untouched)
        let leaked = stack_holds(&masked);
        refuse_off();
        let (req, refd) = (LOCK_REQS.load(SeqCst) - req0, REFUSED.load(SeqCst) - ref0);
        match r.map(|p| p.bytes()) {
            Err(msg) => {
                if msg.starts_with(HARNESS) {
                    std::panic::resume_unwind(Box::new(msg));
                }
                return fail("Err (the refused lock reported to the caller)", "panic", detail(format!("{} panicked instead of returning an error ({}): {}", name, how, msg)));
            }
            Ok(Some(_)) if refd > 0 => {
                return fail("Err", "Ok", detail(format!("{} returned Ok although {} of its {} lock request(s) was refused ({})", name, refd, req, how)));
            }
            Ok(Some(_)) => panic!("{} {} issued no lock request", HARNESS, name),
            Ok(None) => {}
        }
        if leaked {
            let secret: Vec<u8> = masked.iter().map(|b| b ^ STACK_MASK).collect();
            return fail(
                "no copy of the shared secret in the dead stack frames after the refused call",
                format!("the 32 bytes {} (= crypto_box_beforenm(peer public key, secret key)) are in the stack below the caller", hex(&secret)),
                detail(format!(
                    "{} returned Err ({}), but left the shared secret it had already derived unwiped on the stack (searched {} KiB below the calling frame)",
                    name,
                    how,
                    SCAN_WINDOW / 1024
                )),
            );
        }
        op("(refusal over) check the earlier regions, then the same call again");
        let eh = Held { _obj: Box::new(()), adv: earlier };
        verify_held(&eh, "after the refused operation")?;
        let again = match precalc_deep(variant, &spk, &ssk, kp_l.as_ref(), kp_r.as_ref()).bytes() {
            Some(k) => k,
            None => {
                if GENUINE.load(SeqCst) > 0 {
                    return fail(SKIP_ENV, "", format!("the kernel refused a lock request in {}", name));
                }
                return fail("Ok", "Err", detail(format!("{} failed although no lock request was refused any more", name)));
            }
        };
        let masked_again: Vec<u8> = again.iter().map(|b| b ^ STACK_MASK).collect();
        if masked_again != masked {
            return fail("libsodium's crypto_box_beforenm", hex(&again), detail(format!("{} (lock granted) differs from libsodium's shared secret", name)));
        }
        let regions: Vec<Region> = eh.adv.iter().map(|a| a.r).collect();
        op("drop (all)");
        drop((kp_l, kp_r));
        released("after dropping the key pair", &regions, base)
    })
}

pub const C19: Registry = &[("refuse_entry", refuse_entry), ("refuse_sequence", refuse_sequence), ("refused_precalc_wipes", refused_precalc_wipes)];

pub fn c19(ctx: &mut Ctx) -> Search {
    if !can_lock() {
        return Ok(());
    }
    let errnos = [libc::ENOMEM, libc::EPERM, libc::EAGAIN];
    let js: &[u64] = if ctx.thorough { &[1, 2, 3, 4] } else { &[1, 2, 3] };
    for e in 0..FIRST_SESSION_ENTRY {
        for j in js {
            if e == 18 && *j > 1 {
                // nothing injected: the kernel's own answer for a no-access region is C14's noaccess_then_lock
                continue;
            }
            for en in errnos {
                ctx.run("refuse_entry", Input::new().u("entry", e as u64).u("j", *j).u("errno", en as u64))?;
            }
        }
    }
    // the precalculation entry points: a refusal leaves nothing derived behind (own generator state)
    {
        let mut rng_w = Rng::new(0xC19D + ctx.thorough as u64);
        for round in 0..(if ctx.thorough { 3 } else { 1 }) {
            for variant in 0..PRECALC_VARIANTS.len() as u64 {
                let (sk, peer_sk) = (rng_w.arr::<32>(), rng_w.arr::<32>());
                for (k, en) in errnos.iter().enumerate() {
                    if !ctx.thorough && round == 0 && k != (variant as usize) % 3 && k != 0 {
                        continue;
                    }
                    ctx.run("refused_precalc_wipes", Input::new().u("variant", variant).u("errno", *en as u64).b("sk", &sk).b("peer_sk", &peer_sk))?;
                }
            }
        }
    }
    let kmax = if ctx.thorough { 40 } else { 30 };
    for k in 1..=kmax {
        for en in errnos {
            ctx.run("refuse_sequence", Input::new().u("k", k).u("errno", en as u64))?;
        }
    }
    // NOT part of the sweep (runnable with --case refuse_entry --input entry=1f ..): kx `Session::<Locked<..>>::new_client /
    // new_server` return a Result for the key exchange, but obtain their locked output through the INFALLIBLE trait method
    // `NewByteArray::new_byte_array()`, which panics on a refused lock. C19 speaks of the protected-memory constructors and
    // transitions whose own signature returns a Result; an infallible allocation trait cannot report the refusal without an
    // API change. Recorded in DESIGN.md (seen, left alone); kept out of the sweep so that it is never reported as a violation
    // of some unrelated change.
    let _ = FIRST_SESSION_ENTRY;
    Ok(())
}
