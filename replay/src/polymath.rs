//! Generator-side arithmetic for Poly1305: constructs keys / messages whose
//! accumulator passes through chosen values (h = p-1, p, p+1.., 2^130-1 at
//! finalisation; a carry pending in the middle 44-bit limb at the end of a
//! block).  Random data reaches these states with probability 2^-44..2^-128,
//! so they have to be solved for.
//!
//! Nothing in here is ever used as an oracle: the expected tag of every
//! constructed message still comes from libsodium.  The functions that build
//! messages cross-check their own arithmetic against libsodium and raise a
//! harness error (not a finding) if it is off.

use crate::so;
use crate::util::*;

const M26: u64 = (1 << 26) - 1;

/// Element of Z/(2^130-5), 5 limbs of 26 bits (limb 1 may exceed by a carry).
#[derive(Clone, Copy, Debug)]
pub struct Fe([u64; 5]);

impl Fe {
    pub fn small(v: u64) -> Fe {
        Fe([v & M26, (v >> 26) & M26, v >> 52, 0, 0])
    }

    pub fn from_u128(v: u128) -> Fe {
        let l = |s: u32| ((v >> s) as u64) & M26;
        Fe([l(0), l(26), l(52), l(78), (v >> 104) as u64])
    }

    /// Little-endian bytes, at most 16.
    pub fn from_le(b: &[u8]) -> Fe {
        assert!(b.len() <= 16);
        let mut a = [0u8; 16];
        a[..b.len()].copy_from_slice(b);
        Fe::from_u128(u128::from_le_bytes(a))
    }

    /// 2^(8*n), n <= 16
    pub fn pow2_bytes(n: usize) -> Fe {
        assert!(n <= 16);
        if n == 16 {
            Fe([0, 0, 0, 0, 1 << 24])
        } else {
            Fe::from_u128(1u128 << (8 * n))
        }
    }

    /// Clamped r of a 32-byte one-time key.
    pub fn r_of_key(k: &[u8; 32]) -> Fe {
        let mut r = [0u8; 16];
        r.copy_from_slice(&k[..16]);
        for j in [3usize, 7, 11, 15] {
            r[j] &= 15;
        }
        for j in [4usize, 8, 12] {
            r[j] &= 252;
        }
        Fe::from_le(&r)
    }

    fn carry(mut d: [u128; 5]) -> Fe {
        for _ in 0..2 {
            for j in 0..4 {
                let c = d[j] >> 26;
                d[j] &= M26 as u128;
                d[j + 1] += c;
            }
            let c = d[4] >> 26;
            d[4] &= M26 as u128;
            d[0] += c * 5;
        }
        let c = d[0] >> 26;
        d[0] &= M26 as u128;
        d[1] += c;
        Fe([d[0] as u64, d[1] as u64, d[2] as u64, d[3] as u64, d[4] as u64])
    }

    pub fn add(self, o: Fe) -> Fe {
        let mut d = [0u128; 5];
        for j in 0..5 {
            d[j] = (self.0[j] + o.0[j]) as u128;
        }
        Fe::carry(d)
    }

    pub fn mul(self, o: Fe) -> Fe {
        let a: Vec<u128> = self.0.iter().map(|x| *x as u128).collect();
        let b: Vec<u128> = o.0.iter().map(|x| *x as u128).collect();
        let d = [
            a[0] * b[0] + 5 * (a[1] * b[4] + a[2] * b[3] + a[3] * b[2] + a[4] * b[1]),
            a[0] * b[1] + a[1] * b[0] + 5 * (a[2] * b[4] + a[3] * b[3] + a[4] * b[2]),
            a[0] * b[2] + a[1] * b[1] + a[2] * b[0] + 5 * (a[3] * b[4] + a[4] * b[3]),
            a[0] * b[3] + a[1] * b[2] + a[2] * b[1] + a[3] * b[0] + 5 * (a[4] * b[4]),
            a[0] * b[4] + a[1] * b[3] + a[2] * b[2] + a[3] * b[1] + a[4] * b[0],
        ];
        Fe::carry(d)
    }

    pub fn neg(self) -> Fe {
        // p - 1 == -1
        self.mul(Fe([M26 - 5, M26, M26, M26, M26]))
    }

    pub fn sub(self, o: Fe) -> Fe {
        self.add(o.neg())
    }

    /// self^(p-2); p - 2 = 2^130 - 7 has bits 129..3 set, then 0,0,1.
    pub fn inv(self) -> Fe {
        let mut acc = Fe::small(1);
        for bit in (0..130).rev() {
            acc = acc.mul(acc);
            if bit >= 3 || bit == 0 {
                acc = acc.mul(self);
            }
        }
        acc
    }

    /// Fully reduced value as (low 128 bits, bits 128..129).
    pub fn canon(self) -> (u128, u8) {
        let mut h = self.0;
        // three rounds: after the first the value is < 2^130 + small, after the
        // second (if it wrapped again) it is tiny, the third clears limb 0
        for _ in 0..3 {
            for j in 0..4 {
                let c = h[j] >> 26;
                h[j] &= M26;
                h[j + 1] += c;
            }
            let c = h[4] >> 26;
            h[4] &= M26;
            h[0] += c * 5;
        }
        if h.iter().any(|l| *l > M26) {
            panic!("{} polymath: limbs not normalised", HARNESS);
        }
        // g = h + 5 - 2^130
        let mut g = h;
        g[0] += 5;
        for j in 0..4 {
            let c = g[j] >> 26;
            g[j] &= M26;
            g[j + 1] += c;
        }
        if g[4] >> 26 != 0 {
            g[4] &= M26;
            h = g;
        }
        let lo = (h[0] as u128)
            | ((h[1] as u128) << 26)
            | ((h[2] as u128) << 52)
            | ((h[3] as u128) << 78)
            | (((h[4] & 0xff_ffff) as u128) << 104);
        (lo, (h[4] >> 24) as u8)
    }

    pub fn is_zero(self) -> bool {
        self.canon() == (0, 0)
    }
}

/// Accumulator (mod p) after absorbing `full` (a multiple of 16 bytes).
pub fn absorb_full(mut h: Fe, r: Fe, full: &[u8]) -> Fe {
    assert!(full.len() % 16 == 0);
    let hibit = Fe::pow2_bytes(16);
    for b in full.chunks(16) {
        h = h.add(Fe::from_le(b)).add(hibit).mul(r);
    }
    h
}

/// The tag libsodium must produce if the final accumulator is congruent to
/// `target`: (target mod p) + s mod 2^128.
fn tag_for(target: Fe, key: &[u8; 32]) -> [u8; 16] {
    let (lo, _) = target.canon();
    let s = u128::from_le_bytes(key[16..].try_into().unwrap());
    lo.wrapping_add(s).to_le_bytes()
}

/// Targets for the final accumulator, as (offset from p, label).  With the
/// partial reduction every Poly1305 implementation uses, a polynomial value
/// congruent to t in 0..=4 leaves the accumulator at p + t (>= p: the final
/// conditional subtraction is what produces the right tag), p-1 and p-2 sit
/// just below, 5 and 6 wrap to small values.
pub const FINAL_TARGETS: &[(i64, &str)] = &[
    (0, "h=p"),
    (1, "h=p+1"),
    (2, "h=p+2"),
    (3, "h=p+3"),
    (4, "h=p+4=2^130-1"),
    (-1, "h=p-1"),
    (-2, "h=p-2"),
    (5, "h=2^130 (wraps to 5)"),
    (6, "h=2^130+1"),
];

fn target_fe(off: i64) -> Fe {
    if off >= 0 {
        Fe::small(off as u64)
    } else {
        Fe::small((-off) as u64).neg()
    }
}

/// A message for `key` whose final accumulator is congruent to `off` (mod p):
/// `nprefix` random 16-byte blocks, then one solved block.  `last_len` is 16
/// (full last block) or 15 (the message ends in a 15-byte partial block).
/// None if r is not invertible or no solution turned up within the budget.
pub fn message_with_final_accumulator(
    rng: &mut Rng,
    key: &[u8; 32],
    off: i64,
    nprefix: usize,
    last_len: usize,
) -> Option<Vec<u8>> {
    message_with_final_accumulator_fe(rng, key, target_fe(off), nprefix, last_len)
}

/// A message for `key` whose Poly1305 tag is exactly `tag`: the final accumulator is solved to (tag - s) mod 2^128
/// (a value below p), same shape parameters as `message_with_final_accumulator`.  In XSalsa20-Poly1305 the one-time
/// key is the head of the keystream, so this gives a ciphertext body (and thus a box) with a chosen tag.
pub fn message_with_tag(rng: &mut Rng, key: &[u8; 32], tag: &[u8; 16], nprefix: usize, last_len: usize) -> Option<Vec<u8>> {
    let s = u128::from_le_bytes(key[16..].try_into().unwrap());
    let h = u128::from_le_bytes(*tag).wrapping_sub(s);
    let m = message_with_final_accumulator_fe(rng, key, Fe::from_u128(h), nprefix, last_len)?;
    if so::onetimeauth(&m, key) != *tag {
        panic!("{} polymath: constructed message does not have the chosen tag (key {}, m {})", HARNESS, hex(key), hex(&m));
    }
    Some(m)
}

/// Same as `message_with_final_accumulator` for an arbitrary target residue.
pub fn message_with_final_accumulator_fe(
    rng: &mut Rng,
    key: &[u8; 32],
    target: Fe,
    nprefix: usize,
    last_len: usize,
) -> Option<Vec<u8>> {
    assert!(last_len == 16 || last_len == 15);
    let r = Fe::r_of_key(key);
    if r.is_zero() {
        return None;
    }
    let rinv = r.inv();
    if r.mul(rinv).canon() != (1, 0) {
        panic!("{} polymath: r * r^-1 != 1", HARNESS);
    }
    let want = target.mul(rinv); // value of (h_prev + last block incl. its marker bit)
    let marker = Fe::pow2_bytes(last_len);
    let budget = if last_len == 16 { 200 } else { 60_000 };
    let mut prefix = rng.bytes(16 * nprefix);
    let fixed = absorb_full(Fe::small(0), r, &prefix[..16 * nprefix.saturating_sub(1)]);
    for attempt in 0..budget {
        // vary the last prefix block only (cheap), or nothing if there is no prefix
        let h_prev = if nprefix == 0 {
            if attempt > 0 {
                return None;
            }
            fixed
        } else {
            let at = 16 * (nprefix - 1);
            let blk = rng.arr::<16>();
            prefix[at..].copy_from_slice(&blk);
            absorb_full(fixed, r, &blk)
        };
        let (lo, hi) = want.sub(h_prev).sub(marker).canon();
        if hi != 0 || (last_len == 15 && (lo >> 120) != 0) {
            continue;
        }
        let mut m = prefix.clone();
        m.extend_from_slice(&lo.to_le_bytes()[..last_len]);
        // cross-check the construction against libsodium
        if so::onetimeauth(&m, key) != tag_for(target, key) {
            panic!(
                "{} polymath: constructed message does not reach the target accumulator (key {}, m {})",
                HARNESS,
                hex(key),
                hex(&m)
            );
        }
        return Some(m);
    }
    None
}

// ---------------------------------------------------------------------
// Pending carry in the middle limb (44/44/42-bit representation, the one
// 64-bit implementations use).  Only for keys whose clamped r fits the low
// limb (r < 2^44), where h*r is a plain integer product.
// ---------------------------------------------------------------------

/// hi * 2^128 + lo
#[derive(Clone, Copy)]
struct Wide {
    lo: u128,
    hi: u64,
}

impl Wide {
    fn add(self, o: Wide) -> Wide {
        let (lo, c) = self.lo.overflowing_add(o.lo);
        Wide { lo, hi: self.hi + o.hi + c as u64 }
    }
    fn mul_small(self, r: u64) -> Wide {
        let (a0, a1) = (self.lo as u64 as u128, (self.lo >> 64) as u64 as u128);
        let p0 = a0 * r as u128;
        let p1 = a1 * r as u128;
        let (lo, c) = p0.overflowing_add(p1 << 64);
        Wide { lo, hi: self.hi * r + (p1 >> 64) as u64 + c as u64 }
    }
}

const M44: u128 = (1 << 44) - 1;
const M88: u128 = (1 << 88) - 1;

/// One block step of the integer model: returns (new state, pending carry?).
fn wide_step(v: Wide, blk: u128, r: u64) -> (Wide, bool) {
    let h = v.add(Wide { lo: blk, hi: 1 });
    let x = h.mul_small(r);
    let c = x.hi >> 2;
    let x0 = x.lo & M44;
    let x1 = (x.lo >> 44) & M44;
    let pending = x1 == M44 && x0 + 5 * c as u128 > M44;
    let next = Wide { lo: x.lo, hi: x.hi & 3 }.add(Wide { lo: 5 * c as u128, hi: 0 });
    (next, pending)
}

/// r^-1 mod 2^128 for odd r.
fn inv_pow2(r: u128) -> u128 {
    let mut x = r; // correct to 3 bits
    for _ in 0..7 {
        x = x.wrapping_mul(2u128.wrapping_sub(r.wrapping_mul(x)));
    }
    x
}

/// Key with clamped r = `r` (odd, < 2^28) and pad `s`; message of `nprefix`
/// random blocks, then blocks that leave a carry pending in the middle limb
/// right after the last of them, then `tail`.  Returns (key, message, end
/// offset of the block after which the carry is pending).
pub fn message_with_pending_carry(
    rng: &mut Rng,
    r: u64,
    nprefix: usize,
    tail: &[u8],
) -> Option<([u8; 32], Vec<u8>, usize)> {
    assert!(r % 2 == 1 && r < (1 << 28));
    let mut key = [0u8; 32];
    key[..8].copy_from_slice(&r.to_le_bytes());
    rng.fill(&mut key[16..]);
    let rinv = inv_pow2(r as u128);

    let mut m = rng.bytes(16 * nprefix);
    let mut v = Wide { lo: 0, hi: 0 };
    for b in m.chunks(16) {
        v = wide_step(v, u128::from_le_bytes(b.try_into().unwrap()), r).0;
    }
    for _ in 0..8 {
        // solve the low 88 bits of the block: r * (v + 2^128 + b) == 2^88 - 1 - delta (mod 2^88)
        let delta = rng.below(5) as u128;
        let low = (M88 - delta).wrapping_mul(rinv).wrapping_sub(v.lo) & M88;
        for hi40 in [rng.next() as u128 & 0xff_ffff_ffff, 0xff_ffff_ffff] {
            let blk = low | (hi40 << 88);
            let (next, pending) = wide_step(v, blk, r);
            if pending {
                m.extend_from_slice(&blk.to_le_bytes());
                let end = m.len();
                m.extend_from_slice(tail);
                let _ = next;
                return Some((key, m, end));
            }
        }
        // accumulator too small for the product to pass 2^130: pump it up
        let pump = u128::MAX;
        m.extend_from_slice(&pump.to_le_bytes());
        v = wide_step(v, pump, r).0;
    }
    None
}
