//! C10: password-hash strings are self-describing and interoperate with libsodium (oracle: libsodium's own
//! crypto_pwhash_str_alg / _verify / _needs_rehash through libsodium-sys). All costs are kept minimal (8 KiB .. 64 KiB).
use crate::util::*;
use dryoc::classic::crypto_pwhash::*;
use libsodium_sys as ffi;

fn so_str_alg(pw: &[u8], ops: u64, mem: usize, alg: i32) -> Option<String> {
    let mut out = [0 as libc::c_char; 128];
    let rc = unsafe {
        ffi::crypto_pwhash_str_alg(
            out.as_mut_ptr(),
            pw.as_ptr() as *const libc::c_char,
            pw.len() as libc::c_ulonglong,
            ops as libc::c_ulonglong,
            mem,
            alg,
        )
    };
    if rc != 0 {
        return None;
    }
    let bytes: Vec<u8> = out.iter().take_while(|c| **c != 0).map(|c| *c as u8).collect();
    String::from_utf8(bytes).ok()
}

fn cstr(s: &str) -> Vec<libc::c_char> {
    // NUL-terminated, at least crypto_pwhash_STRBYTES long (libsodium's prototype takes a char[128])
    let mut z: Vec<libc::c_char> = s.bytes().map(|b| b as libc::c_char).collect();
    z.push(0);
    while z.len() < 128 {
        z.push(0);
    }
    z
}

fn so_verify(s: &str, pw: &[u8]) -> bool {
    let z = cstr(s);
    unsafe { ffi::crypto_pwhash_str_verify(z.as_ptr(), pw.as_ptr() as *const libc::c_char, pw.len() as libc::c_ulonglong) == 0 }
}

/// 0: parameters match, 1: rehash needed, -1: error
fn so_needs_rehash(s: &str, ops: u64, mem: usize) -> i32 {
    let z = cstr(s);
    unsafe { ffi::crypto_pwhash_str_needs_rehash(z.as_ptr(), ops as libc::c_ulonglong, mem) }
}

fn s_eq(what: &str, expected: &str, actual: &str) -> Outcome {
    if expected == actual {
        Ok(())
    } else {
        fail(expected, actual, format!("{} differs", what))
    }
}

/// pw, ops, mem, alg (1 = argon2i, 2 = argon2id): a string produced by libsodium verifies under dryoc (classic and object
/// API) for the right password only, and parsing + re-encoding it returns the same string.
fn libsodium_string(i: &Input) -> Outcome {
    use dryoc::pwhash::VecPwHash;
    let (pw, ops, mem, alg) = (i.get("pw"), i.num("ops"), i.num("mem") as usize, i.num("alg") as i32);
    let s = match so_str_alg(pw, ops, mem, alg) {
        Some(s) => s,
        None => panic!("{} libsodium refused ops={} mem={} alg={}", HARNESS, ops, mem, alg),
    };
    must_ok(crypto_pwhash_str_verify(&s, pw), &format!("crypto_pwhash_str_verify of libsodium's {}", s))?;
    let mut wrong = pw.to_vec();
    wrong.push(b'x');
    must_err(crypto_pwhash_str_verify(&s, &wrong), "crypto_pwhash_str_verify with a wrong password")?;
    let p = must_ok(VecPwHash::from_string(&s), &format!("PwHash::from_string of libsodium's {}", s))?;
    must_ok(p.verify(&pw.to_vec()), "PwHash::verify of a libsodium string, right password")?;
    must_err(p.verify(&wrong), "PwHash::verify of a libsodium string, wrong password")?;
    s_eq("PwHash::from_string(s).to_string() (parse and re-encode)", &s, &p.to_string())
}

/// pw, ops, mem: a string produced by dryoc names the parameters actually used and is accepted by libsodium.
fn dryoc_string(i: &Input) -> Outcome {
    use dryoc::pwhash::{Config, VecPwHash};
    let (pw, ops, mem) = (i.get("pw"), i.num("ops"), i.num("mem") as usize);
    let s = must_ok(crypto_pwhash_str(pw, ops, mem), "crypto_pwhash_str")?;
    let want_prefix = format!("$argon2id$v=19$m={},t={},p=1$", mem / 1024, ops);
    if !s.starts_with(&want_prefix) {
        return fail(format!("{}<salt>$<hash>", want_prefix), s, "crypto_pwhash_str does not name the parameters it used");
    }
    if !so_verify(&s, pw) {
        return fail("libsodium accepts", "libsodium rejects", format!("crypto_pwhash_str output {} with the right password", s));
    }
    let mut wrong = pw.to_vec();
    wrong.push(b'x');
    if so_verify(&s, &wrong) {
        return fail("libsodium rejects", "libsodium accepts", format!("crypto_pwhash_str output {} with a wrong password", s));
    }
    // object API, non-default lengths
    for (sl, hl) in [(16usize, 32usize), (8, 16), (24, 64), (64, 128), (9, 33)] {
        let cfg = Config::interactive().with_opslimit(ops).with_memlimit(mem).with_salt_length(sl).with_hash_length(hl);
        let p: VecPwHash = must_ok(VecPwHash::hash(&pw.to_vec(), cfg), "PwHash::hash")?;
        let ps = p.to_string();
        if !ps.starts_with(&want_prefix) {
            return fail(format!("{}<salt>$<hash>", want_prefix), ps, "PwHash::to_string does not name the parameters it used");
        }
        if !so_verify(&ps, pw) {
            return fail("libsodium accepts", "libsodium rejects", format!("PwHash::to_string output {} (salt {}, hash {} bytes)", ps, sl, hl));
        }
        let q = must_ok(VecPwHash::from_string(&ps), "PwHash::from_string(to_string())")?;
        s_eq("to_string(from_string(to_string(p)))", &ps, &q.to_string())?;
        // the parsed object is the object that was encoded: it still verifies the password (and only that one)
        must_ok(q.verify(&pw.to_vec()), &format!("from_string({}).verify(right password) (salt {}, hash {} bytes)", ps, sl, hl))?;
        must_err(q.verify(&wrong), "from_string(to_string(p)).verify(wrong password)")?;
    }
    Ok(())
}

/// s_ops, s_mem, alg (parameters of the stored string), ops, mem (the caller's current limits): same answer as libsodium.
fn needs_rehash(i: &Input) -> Outcome {
    use dryoc::pwhash::{Config, VecPwHash};
    let (s_ops, s_mem, alg) = (i.num("s_ops"), i.num("s_mem") as usize, i.num("alg") as i32);
    let (ops, mem) = (i.num("ops"), i.num("mem") as usize);
    let s = match so_str_alg(b"pw", s_ops, s_mem, alg) {
        Some(s) => s,
        None => panic!("{} libsodium refused ops={} mem={} alg={}", HARNESS, s_ops, s_mem, alg),
    };
    let want = so_needs_rehash(&s, ops, mem);
    let got = crypto_pwhash_str_needs_rehash(&s, ops, mem);
    let show = |r: &Result<bool, dryoc::Error>| match r {
        Ok(b) => format!("Ok({})", b),
        Err(_) => "Err".to_string(),
    };
    let wants = match want {
        0 => "Ok(false)",
        1 => "Ok(true)",
        _ => "Err",
    };
    // libsodium answers "rehash" (1) for a string of the other algorithm; the property only speaks about cost parameters
    if alg == 2 && show(&got) != wants {
        return fail(wants, show(&got), format!("crypto_pwhash_str_needs_rehash({}, {}, {})", s, ops, mem));
    }
    if alg == 1 && want == -1 && got.is_ok() {
        return fail("Err", show(&got), format!("crypto_pwhash_str_needs_rehash({}, {}, {})", s, ops, mem));
    }
    // "answers false exactly when both cost parameters match"
    let matches = ops == s_ops && mem / 1024 == s_mem / 1024;
    if let Ok(b) = got {
        if b == matches {
            return fail(format!("Ok({})", !matches), show(&got), format!("needs_rehash of {} against ops={} mem={}", s, ops, mem));
        }
    }
    let p = must_ok(VecPwHash::from_string(&s), "PwHash::from_string")?;
    let cfg = Config::interactive().with_opslimit(ops).with_memlimit(mem);
    let _ = (p, cfg);
    Ok(())
}

pub const C10: Registry = &[
    ("libsodium_string", libsodium_string),
    ("dryoc_string", dryoc_string),
    ("needs_rehash", needs_rehash),
];

pub fn c10(ctx: &mut Ctx) -> Search {
    let t = ctx.thorough;
    let pws: Vec<Vec<u8>> = vec![b"".to_vec(), b"password".to_vec(), ctx.rng.bytes(33), vec![0xffu8; 7]];
    let costs: Vec<(u64, usize)> = if t {
        vec![(1, 8192), (2, 8192), (3, 8192), (3, 16384), (4, 65536), (3, 9000), (5, 8192 + 1023), (3, 9 * 1024), (3, 10 * 1024 + 5), (3, 11 * 1024), (4, 13 * 1024)]
    } else {
        vec![(1, 8192), (3, 8192), (3, 9000), (3, 9 * 1024), (3, 10 * 1024 + 5), (3, 11 * 1024), (1, 1000 * 1024), (3, 1500 * 1024)]
    };
    for pw in &pws {
        for &(ops, mem) in &costs {
            for alg in [2u64, 1u64] {
                if alg == 1 && ops < 3 {
                    continue; // libsodium: argon2i needs opslimit >= 3
                }
                ctx.run("libsodium_string", Input::new().b("pw", pw).u("ops", ops).u("mem", mem as u64).u("alg", alg))?;
            }
            ctx.run("dryoc_string", Input::new().b("pw", pw).u("ops", ops).u("mem", mem as u64))?;
        }
    }
    let big = [(1u64 << 32) + 3, u64::MAX];
    for &(s_ops, s_mem) in &[(3u64, 8192usize), (4, 16384)] {
        for alg in [2u64, 1u64] {
            let mut cands: Vec<(u64, usize)> = vec![
                (s_ops, s_mem),
                (s_ops + 1, s_mem),
                (s_ops, s_mem * 2),
                (s_ops, s_mem + 1023),
                (s_ops, s_mem + 1024),
                (s_ops - 1, s_mem),
                (s_ops + 1, s_mem * 2),
            ];
            for b in big {
                cands.push((b, s_mem));
                cands.push(((1u64 << 32) + s_ops, s_mem));
            }
            cands.push((s_ops, ((1usize << 32) + s_mem / 1024) * 1024));
            for (ops, mem) in cands {
                ctx.run(
                    "needs_rehash",
                    Input::new().u("s_ops", s_ops).u("s_mem", s_mem as u64).u("alg", alg).u("ops", ops).u("mem", mem as u64),
                )?;
            }
        }
    }
    Ok(())
}
