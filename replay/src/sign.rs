//! C06: Ed25519 signing is exact, verification is strict (decisions equal
//! libsodium's).

use dryoc::classic::crypto_sign::*;
use dryoc::types::Bytes;

use crate::so;
use crate::util::*;

/// Ed25519 group order L, little endian.
const L: [u8; 32] = [
    0xed, 0xd3, 0xf5, 0x5c, 0x1a, 0x63, 0x12, 0x58, 0xd6, 0x9c, 0xf7, 0xa2, 0xde, 0xf9, 0xde, 0x14, 0, 0, 0, 0, 0, 0,
    0, 0, 0, 0, 0, 0, 0, 0, 0, 0x10,
];

/// a + k*L over 256 bits; None if it does not fit.
fn add_kl(s: &[u8], k: u32) -> Option<[u8; 32]> {
    let mut out = [0u8; 32];
    out.copy_from_slice(s);
    for _ in 0..k {
        let mut carry = 0u16;
        for j in 0..32 {
            let v = out[j] as u16 + L[j] as u16 + carry;
            out[j] = v as u8;
            carry = v >> 8;
        }
        if carry != 0 {
            return None;
        }
    }
    Some(out)
}

fn keypair_from_seed(i: &Input) -> Outcome {
    let seed = i.arr::<32>("seed");
    let (wpk, wsk) = so::sign_seed_keypair(&seed);
    let (pk, sk) = crypto_sign_seed_keypair(&seed);
    eq("crypto_sign_seed_keypair public key", &wpk, &pk)?;
    eq("crypto_sign_seed_keypair secret key", &wsk, &sk)?;
    let (mut pk2, mut sk2) = ([0u8; 32], [0u8; 64]);
    crypto_sign_seed_keypair_inplace(&mut pk2, &mut sk2, &seed);
    eq("crypto_sign_seed_keypair_inplace public key", &wpk, &pk2)?;
    eq("crypto_sign_seed_keypair_inplace secret key", &wsk, &sk2)
}

fn sign_combined(i: &Input) -> Outcome {
    let (seed, m) = (i.arr::<32>("seed"), i.get("m"));
    let (pk, sk) = so::sign_seed_keypair(&seed);
    let want = so::sign(m, &sk);

    let mut sm = vec![0u8; m.len() + 64];
    must_ok(crypto_sign(&mut sm, m, &sk), "crypto_sign")?;
    eq("crypto_sign signed message", &want, &sm)?;

    let mut out = vec![0u8; m.len()];
    must_ok(crypto_sign_open(&mut out, &want, &pk), "crypto_sign_open(libsodium signed message)")?;
    eq("crypto_sign_open message", m, &out)?;
    match so::sign_open(&sm, &pk) {
        Some(p) => eq("libsodium crypto_sign_open of dryoc's signed message", m, &p)?,
        None => return fail("Ok", "Err", "libsodium rejects dryoc's signed message"),
    }

    // object API
    use dryoc::sign::{PublicKey, SecretKey, SigningKeyPair, VecSignedMessage};
    let kp: SigningKeyPair<PublicKey, SecretKey> = SigningKeyPair::from_seed(&seed);
    let signed = must_ok(kp.sign_with_defaults(m.to_vec()), "SigningKeyPair::sign_with_defaults")?;
    eq("SignedMessage::to_vec", &want, &signed.to_vec())?;
    must_ok(signed.verify(&kp.public_key), "SignedMessage::verify")?;
    let parsed = must_ok(VecSignedMessage::from_bytes(&want), "SignedMessage::from_bytes")?;
    must_ok(parsed.verify(&PublicKey::from(pk)), "SignedMessage::verify (libsodium signed message)")?;
    let (_, pm) = parsed.into_parts();
    eq("SignedMessage message part", m, pm.as_slice())
}

fn sign_detached(i: &Input) -> Outcome {
    let (seed, m) = (i.arr::<32>("seed"), i.get("m"));
    let (pk, sk) = so::sign_seed_keypair(&seed);
    let want = so::sign_detached(m, &sk);

    let mut sig = [0u8; 64];
    must_ok(crypto_sign_detached(&mut sig, m, &sk), "crypto_sign_detached")?;
    eq("crypto_sign_detached signature", &want, &sig)?;
    must_ok(crypto_sign_verify_detached(&want, m, &pk), "crypto_sign_verify_detached")?;
    if !so::sign_verify_detached(&sig, m, &pk) {
        return fail("Ok", "Err", "libsodium rejects dryoc's detached signature");
    }
    Ok(())
}

/// The malleated signature (R, S + k*L) must be rejected.
fn verify_s_plus_kl(i: &Input) -> Outcome {
    let (seed, m) = (i.arr::<32>("seed"), i.get("m"));
    let k = i.num("k") as u32;
    let (pk, sk) = so::sign_seed_keypair(&seed);
    let good = so::sign_detached(m, &sk);
    let s2 = match add_kl(&good[32..], k) {
        Some(s) => s,
        None => panic!("{} S + {}L does not fit in 256 bits", HARNESS, k),
    };
    let mut bad = good;
    bad[32..].copy_from_slice(&s2);
    if so::sign_verify_detached(&bad, m, &pk) {
        panic!("{} libsodium accepted S+kL", HARNESS);
    }
    let what = format!("signature with S replaced by S+{}L (sig={})", k, hex(&bad));
    if crypto_sign_verify_detached(&bad, m, &pk).is_ok() {
        return fail("Err", "Ok", format!("crypto_sign_verify_detached accepted a {}", what));
    }
    let mut sm = bad.to_vec();
    sm.extend_from_slice(m);
    let mut out = vec![0u8; m.len()];
    if crypto_sign_open(&mut out, &sm, &pk).is_ok() {
        return fail("Err", "Ok", format!("crypto_sign_open accepted a {}", what));
    }
    Ok(())
}

/// Arbitrary (sig, m, pk): accept/reject must equal libsodium's, in the
/// detached, combined and object forms.
fn verify_verdict(i: &Input) -> Outcome {
    let (sig, m, pk) = (i.arr::<64>("sig"), i.get("m"), i.arr::<32>("pk"));
    let want = so::sign_verify_detached(&sig, m, &pk);
    verdict(
        "crypto_sign_verify_detached",
        want,
        crypto_sign_verify_detached(&sig, m, &pk).is_ok(),
    )?;
    let mut sm = sig.to_vec();
    sm.extend_from_slice(m);
    let mut out = vec![0u8; m.len()];
    verdict("crypto_sign_open", want, crypto_sign_open(&mut out, &sm, &pk).is_ok())?;
    let r = dryoc::sign::VecSignedMessage::from_bytes(&sm).and_then(|s| s.verify(&dryoc::sign::PublicKey::from(pk)));
    verdict("SignedMessage::verify", want, r.is_ok())?;

    // the same (sig, m, pk) through the incremental / pre-hashed entry points
    let want_ph = so::sign_ph_verify(&[m], &sig, &pk);
    verdict(
        "crypto_sign_init/update/final_verify (ed25519ph)",
        want_ph,
        d_ph_verify(m, &sig, &pk),
    )?;
    let split = m.len() / 2;
    let mut st = crypto_sign_init();
    crypto_sign_update(&mut st, &m[..split]);
    crypto_sign_update(&mut st, &m[split..]);
    verdict(
        "crypto_sign_init/update/update/final_verify (ed25519ph)",
        want_ph,
        crypto_sign_final_verify(st, &sig, &pk).is_ok(),
    )?;
    use dryoc::sign::{IncrementalSigner, PublicKey, Signature};
    let mut verifier = IncrementalSigner::new();
    verifier.update(&m.to_vec());
    let r = verifier.verify(&Signature::from(sig), &PublicKey::from(pk));
    verdict("IncrementalSigner::verify", want_ph, r.is_ok())
}

fn d_ph_sign(m: &[u8], sk: &[u8; 64]) -> Result<[u8; 64], Fail> {
    let mut st = crypto_sign_init();
    crypto_sign_update(&mut st, m);
    let mut sig = [0u8; 64];
    must_ok(crypto_sign_final_create(st, &mut sig, sk), "crypto_sign_final_create")?;
    Ok(sig)
}

fn d_ph_verify(m: &[u8], sig: &[u8; 64], pk: &[u8; 32]) -> bool {
    let mut st = crypto_sign_init();
    crypto_sign_update(&mut st, m);
    crypto_sign_final_verify(st, sig, pk).is_ok()
}

fn sign_prehashed(i: &Input) -> Outcome {
    let (seed, m) = (i.arr::<32>("seed"), i.get("m"));
    let (pk, sk) = so::sign_seed_keypair(&seed);
    let want = so::sign_ph_create(&[m], &sk);
    let sig = d_ph_sign(m, &sk)?;
    eq("crypto_sign_final_create (ed25519ph) signature", &want, &sig)?;
    if !d_ph_verify(m, &want, &pk) {
        return fail("Ok", "Err", "crypto_sign_final_verify rejects libsodium's ed25519ph signature");
    }
    if !so::sign_ph_verify(&[m], &sig, &pk) {
        return fail("Ok", "Err", "libsodium rejects dryoc's ed25519ph signature");
    }
    // object API
    use dryoc::sign::{IncrementalSigner, PublicKey, SecretKey, Signature};
    let mut signer = IncrementalSigner::new();
    signer.update(&m.to_vec());
    let osig: Signature = must_ok(signer.finalize(&SecretKey::from(sk)), "IncrementalSigner::finalize")?;
    eq("IncrementalSigner signature", &want, osig.as_slice())?;
    let mut verifier = IncrementalSigner::new();
    verifier.update(&m.to_vec());
    must_ok(verifier.verify(&osig, &PublicKey::from(pk)), "IncrementalSigner::verify")?;
    Ok(())
}

/// A pure signature must not verify in pre-hashed mode and vice versa.
fn cross_mode(i: &Input) -> Outcome {
    let (seed, m) = (i.arr::<32>("seed"), i.get("m"));
    let (pk, sk) = so::sign_seed_keypair(&seed);
    let pure = so::sign_detached(m, &sk);
    let ph = so::sign_ph_create(&[m], &sk);
    verdict(
        "ed25519ph verification of a pure Ed25519 signature",
        so::sign_ph_verify(&[m], &pure, &pk),
        d_ph_verify(m, &pure, &pk),
    )?;
    verdict(
        "pure verification of an ed25519ph signature",
        so::sign_verify_detached(&ph, m, &pk),
        crypto_sign_verify_detached(&ph, m, &pk).is_ok(),
    )?;
    // the pure signature over the SHA-512 digest is not a ph signature either
    let digest = so::sha512(m);
    let over_digest = so::sign_detached(&digest, &sk);
    verdict(
        "ed25519ph verification of a pure signature over SHA-512(m)",
        so::sign_ph_verify(&[m], &over_digest, &pk),
        d_ph_verify(m, &over_digest, &pk),
    )
}

/// seed, mseed, len: a message of `len` bytes drawn from the harness PRNG seeded with `mseed` (multi-KiB messages; the
/// replay command stays short).  Every pure and pre-hashed entry point signs / opens / verifies it as libsodium does
/// (one message = one update chunk in the pre-hashed mode), and a libsodium signature over it no longer verifies once a
/// bit anywhere in the message is changed -- in particular in the bytes after the last multiple of 64 KiB -- or the last
/// byte is cut off.  (A size-dependent path -- buffering thresholds, piecewise feeding of bulk input -- only shows here.)
fn large_message(i: &Input) -> Outcome {
    let seed = i.arr::<32>("seed");
    let len = i.num("len") as usize;
    if len > (64 << 20) {
        panic!("{} large_message: len must be at most 64 MiB", HARNESS);
    }
    let m = Rng::new(i.num("mseed")).bytes(len);
    let base = Input::new().b("seed", &seed).b("m", &m);
    sign_detached(&base)?;
    sign_combined(&base)?;
    sign_prehashed(&base)?;

    let (pk, sk) = so::sign_seed_keypair(&seed);
    let pure = so::sign_detached(&m, &sk);
    let ph = so::sign_ph_create(&[&m], &sk);
    let vin = |sig: &[u8], m: &[u8]| Input::new().b("sig", sig).b("m", m).b("pk", &pk);
    verify_verdict(&vin(&pure, &m))?;
    verify_verdict(&vin(&ph, &m))?;
    if len == 0 {
        return Ok(());
    }
    let mut positions = vec![0usize, len / 2, len - 1, (len - 1) & !0xffff, len & !0xffff, len & !0x7f];
    positions.retain(|p| *p < len);
    positions.dedup();
    let ctxt = |r: Outcome, what: String| -> Outcome {
        r.map_err(|mut f| {
            f.detail = format!("{} [{} of the {}-byte message]", f.detail, what, len);
            f
        })
    };
    for p in positions {
        let mut m2 = m.clone();
        m2[p] ^= 0x10;
        ctxt(verify_verdict(&vin(&pure, &m2)), format!("pure signature, bit 4 of byte {} changed", p))?;
        ctxt(verify_verdict(&vin(&ph, &m2)), format!("ed25519ph signature, bit 4 of byte {} changed", p))?;
    }
    ctxt(verify_verdict(&vin(&pure, &m[..len - 1])), "pure signature, last byte cut off".into())?;
    ctxt(verify_verdict(&vin(&ph, &m[..len - 1])), "ed25519ph signature, last byte cut off".into())
}

// ---------------------------------------------------------------------
// Signatures whose commitment R or public key A carries a small-order (8-torsion) component without being small
// order itself.  No signer produces them and no bit flip reaches them: they are constructed with libsodium's group
// and scalar primitives.  libsodium compares [S]B - [k]A with R exactly (cofactorless), so it rejects them unless
// the torsion parts happen to cancel; a cofactored comparison accepts all of them.  The verdict is libsodium's.
// ---------------------------------------------------------------------

/// A point of order 8 (from libsodium's small-order list).
const T8: [u8; 32] = [
    0xc7, 0x17, 0x6a, 0x70, 0x3d, 0x4d, 0xd8, 0x4f, 0xba, 0x3c, 0x0b, 0x76, 0x0d, 0x10, 0x67, 0x0f, 0x2a, 0x20, 0x53, 0xfa,
    0x2c, 0x39, 0xcc, 0xc6, 0x4e, 0xc7, 0xfd, 0x77, 0x92, 0xac, 0x03, 0x7a,
];
const DOM2_PH: &[u8] = b"SigEd25519 no Ed25519 collisions\x01\x00";

/// j * T8 for j = 0..8 (index 0 is the identity).
fn torsion_points() -> Vec<[u8; 32]> {
    let mut identity = [0u8; 32];
    identity[0] = 1;
    let mut v = vec![identity];
    for j in 1..8 {
        match so::ed25519_add(&v[j - 1], &T8) {
            Some(p) => v.push(p),
            None => panic!("{} libsodium cannot add the torsion point", HARNESS),
        }
    }
    if so::ed25519_add(&v[7], &T8) != Some(identity) {
        panic!("{} T8 does not have order 8", HARNESS);
    }
    v
}

fn sha512_cat(parts: &[&[u8]]) -> [u8; 64] {
    so::sha512(&parts.concat())
}

/// (sig, pk') with R' = rB + t_r, A' = A + t_a, S = r + H(R', A', M) * a  (a = the seed's secret scalar).
fn torsion_forgery(seed: &[u8; 32], m: &[u8], t_r: &[u8; 32], t_a: &[u8; 32], prehashed: bool) -> ([u8; 64], [u8; 32]) {
    let (pk, _) = so::sign_seed_keypair(seed);
    let a = secret_scalar(seed);
    let r = so::ed25519_scalar_reduce(&sha512_cat(&[b"witness C06 torsion nonce", &a, m]));
    let rb = so::ed25519_base_noclamp(&r).expect("r != 0");
    let big_r = so::ed25519_add(&rb, t_r).expect("R + torsion");
    let pk2 = so::ed25519_add(&pk, t_a).expect("A + torsion");
    let k = if prehashed {
        let ph = so::sha512(m);
        so::ed25519_scalar_reduce(&sha512_cat(&[DOM2_PH, &big_r, &pk2, &ph]))
    } else {
        so::ed25519_scalar_reduce(&sha512_cat(&[&big_r, &pk2, m]))
    };
    let s_ = so::ed25519_scalar_muladd(&k, &a, &r);
    let mut sig = [0u8; 64];
    sig[..32].copy_from_slice(&big_r);
    sig[32..].copy_from_slice(&s_);
    (sig, pk2)
}

/// The seed's secret scalar a (clamped, reduced mod L), checked against the public key.
fn secret_scalar(seed: &[u8; 32]) -> [u8; 32] {
    let (pk, _) = so::sign_seed_keypair(seed);
    let h = so::sha512(seed);
    let mut a = [0u8; 64];
    a[..32].copy_from_slice(&h[..32]);
    a[0] &= 248;
    a[31] &= 127;
    a[31] |= 64;
    let a = so::ed25519_scalar_reduce(&a);
    if so::ed25519_base_noclamp(&a) != Some(pk) {
        panic!("{} secret scalar does not reproduce the public key", HARNESS);
    }
    a
}

/// (sig, pk') with R = `r_enc` exactly as given (a small-order encoding), A' = A + t_a, S = H(R, A', M) * a mod L.
/// [S]B - [k]A' = -[k]t_a: for t_a = identity this is the identity for every message, so with R = 01 00..00 the group
/// equation holds; with a torsion component in A' it equals any chosen small-order R for about one message in eight.
/// No signer emits such a signature; libsodium refuses every small-order R before looking at the equation.
fn small_order_r_forgery(seed: &[u8; 32], m: &[u8], r_enc: &[u8; 32], t_a: &[u8; 32], prehashed: bool) -> ([u8; 64], [u8; 32]) {
    let (pk, _) = so::sign_seed_keypair(seed);
    let a = secret_scalar(seed);
    let pk2 = so::ed25519_add(&pk, t_a).expect("A + torsion");
    let k = if prehashed {
        let ph = so::sha512(m);
        so::ed25519_scalar_reduce(&sha512_cat(&[DOM2_PH, r_enc, &pk2, &ph]))
    } else {
        so::ed25519_scalar_reduce(&sha512_cat(&[r_enc, &pk2, m]))
    };
    let s_ = so::ed25519_scalar_muladd(&k, &a, &[0u8; 32]);
    let mut sig = [0u8; 64];
    sig[..32].copy_from_slice(r_enc);
    sig[32..].copy_from_slice(&s_);
    (sig, pk2)
}

pub const C06: Registry = &[
    // (sig, m, pk) constructed by `small_order_r_forgery`; same body as verify_verdict
    ("verify_small_order_commitment", verify_verdict),
    // (sig, m, pk) constructed by `torsion_forgery`; same body as verify_verdict
    ("verify_torsion_component", verify_verdict),
    ("keypair_from_seed", keypair_from_seed),
    ("sign_combined", sign_combined),
    ("sign_detached", sign_detached),
    ("verify_s_plus_kl", verify_s_plus_kl),
    ("verify_verdict", verify_verdict),
    ("verify_small_order", verify_verdict),
    ("sign_prehashed", sign_prehashed),
    ("cross_mode", cross_mode),
    ("large_message", large_message),
];

fn h32(s: &str) -> [u8; 32] {
    let v = unhex(s).expect("hex");
    let mut a = [0u8; 32];
    a.copy_from_slice(&v);
    a
}

/// Small-order Ed25519 points and non-canonical encodings.
fn small_order_points() -> Vec<[u8; 32]> {
    vec![
        h32("0100000000000000000000000000000000000000000000000000000000000000"),
        h32("ecffffffffffffffffffffffffffffffffffffffffffffffffffffffffffff7f"),
        h32("0000000000000000000000000000000000000000000000000000000000000000"),
        h32("0000000000000000000000000000000000000000000000000000000000000080"),
        h32("26e8958fc2b227b045c3f489f2ef98f0d5dfac05d3c63339b13802886d53fc05"),
        h32("26e8958fc2b227b045c3f489f2ef98f0d5dfac05d3c63339b13802886d53fc85"),
        h32("c7176a703d4dd84fba3c0b760d10670f2a2053fa2c39ccc64ec7fd7792ac037a"),
        h32("c7176a703d4dd84fba3c0b760d10670f2a2053fa2c39ccc64ec7fd7792ac03fa"),
        // non-canonical encodings of small-order points
        h32("0100000000000000000000000000000000000000000000000000000000000080"),
        h32("ecffffffffffffffffffffffffffffffffffffffffffffffffffffffffffffff"),
        h32("edffffffffffffffffffffffffffffffffffffffffffffffffffffffffffff7f"),
        h32("edffffffffffffffffffffffffffffffffffffffffffffffffffffffffffffff"),
        h32("eeffffffffffffffffffffffffffffffffffffffffffffffffffffffffffff7f"),
        h32("eeffffffffffffffffffffffffffffffffffffffffffffffffffffffffffffff"),
    ]
}

pub fn c06(ctx: &mut Ctx) -> Search {
    let t = ctx.thorough;
    let lens: Vec<usize> = if t { lengths(true) } else { (0..=80).chain([127, 128, 129, 1000]).collect() };

    for (li, len) in lens.iter().enumerate() {
        let seed = ctx.rng.arr::<32>();
        let m = ctx.rng.bytes(*len);
        let base = Input::new().b("seed", &seed).b("m", &m);
        ctx.run("keypair_from_seed", Input::new().b("seed", &seed))?;
        ctx.run("sign_combined", base.clone())?;
        ctx.run("sign_detached", base.clone())?;
        ctx.run("sign_prehashed", base.clone())?;
        ctx.run("cross_mode", base.clone())?;
        ctx.run("verify_s_plus_kl", base.clone().u("k", 1))?;
        if t || li % 8 == 0 {
            // the whole family S + kL that fits in 256 bits
            let (_, sk) = so::sign_seed_keypair(&seed);
            let sig = so::sign_detached(&m, &sk);
            for k in 2..=15u32 {
                if add_kl(&sig[32..], k).is_some() {
                    ctx.run("verify_s_plus_kl", base.clone().u("k", k as u64))?;
                }
            }
        }

        // single-bit mutations of signature, message, public key
        let (pk, sk) = so::sign_seed_keypair(&seed);
        let sig = so::sign_detached(&m, &sk);
        let vin = |sig: &[u8], m: &[u8], pk: &[u8]| Input::new().b("sig", sig).b("m", m).b("pk", pk);
        ctx.run("verify_verdict", vin(&sig, &m, &pk))?;
        let nmut = if t { 24 } else { 6 };
        for _ in 0..nmut {
            let mut s2 = sig;
            s2[ctx.rng.below(64)] ^= 1 << ctx.rng.below(8);
            ctx.run("verify_verdict", vin(&s2, &m, &pk))?;
            let mut p2 = pk;
            p2[ctx.rng.below(32)] ^= 1 << ctx.rng.below(8);
            ctx.run("verify_verdict", vin(&sig, &m, &p2))?;
            if !m.is_empty() {
                let mut m2 = m.clone();
                let p = ctx.rng.below(m2.len());
                m2[p] ^= 1 << ctx.rng.below(8);
                ctx.run("verify_verdict", vin(&sig, &m2, &pk))?;
            }
        }
        // top bits of S (bit 253..255) set, S = L, S = L-1, S = 0
        for top in [0x20u8, 0x40, 0x80, 0xe0] {
            let mut s2 = sig;
            s2[63] |= top;
            ctx.run("verify_verdict", vin(&s2, &m, &pk))?;
        }
        let mut l_minus_1 = L;
        l_minus_1[0] -= 1;
        for sval in [[0u8; 32], L, l_minus_1] {
            let mut s2 = sig;
            s2[32..].copy_from_slice(&sval);
            ctx.run("verify_verdict", vin(&s2, &m, &pk))?;
        }
    }

    // messages of 64 KiB and more, around the multiples of 64 KiB (own generator state: the inputs below stay what they were)
    {
        let mut rng_l = Rng::new(0x1A26E + t as u64);
        let mut big: Vec<u64> = vec![65536, 65537, 70000, 131073];
        if t {
            big.extend_from_slice(&[65535, 65600, 131071, 131072, 196609, 262144 + 4096 + 1, (1 << 20) + 1, (3 << 20) + 77]);
        }
        for len in big {
            let seed = rng_l.arr::<32>();
            ctx.run("large_message", Input::new().b("seed", &seed).u("mseed", rng_l.next() >> 16).u("len", len))?;
        }
    }

    // small-order / non-canonical public keys and commitments R.  With
    // A = R = identity and S = 0 the verification equation holds trivially,
    // so only the explicit small-order checks reject these.
    let pts = small_order_points();
    let seed = ctx.rng.arr::<32>();
    let (pk, sk) = so::sign_seed_keypair(&seed);
    let m = ctx.rng.bytes(13);
    let good = so::sign_detached(&m, &sk);
    for a in &pts {
        for r in &pts {
            for s in [[0u8; 32], {
                let mut one = [0u8; 32];
                one[0] = 1;
                one
            }] {
                let mut sig = [0u8; 64];
                sig[..32].copy_from_slice(r);
                sig[32..].copy_from_slice(&s);
                ctx.run("verify_small_order", Input::new().b("sig", &sig).b("m", &m).b("pk", a))?;
            }
        }
        // small-order pk with an otherwise genuine signature, and small-order R
        // with a genuine S and genuine pk
        ctx.run("verify_small_order", Input::new().b("sig", &good).b("m", &m).b("pk", a))?;
        let mut sig = good;
        sig[..32].copy_from_slice(a);
        ctx.run("verify_small_order", Input::new().b("sig", &sig).b("m", &m).b("pk", &pk))?;
    }

    // small-order public keys with a well-formed (R, S) = (s*B, s): the
    // verification equation S*B = R + k*A holds whenever k*A is the identity
    // (always for A = identity, for 1/2 .. 1/8 of the messages otherwise), so
    // only the explicit rejection of small-order keys stands in the way -- in
    // pure mode and in the pre-hashed / incremental mode alike
    let mut scalars: Vec<[u8; 32]> = Vec::new();
    for v in [1u8, 2, 3, 8] {
        let mut sc = [0u8; 32];
        sc[0] = v;
        scalars.push(sc);
    }
    for _ in 0..2 {
        let mut sc = ctx.rng.arr::<32>();
        sc[31] &= 0x0f; // < 2^252 < L
        scalars.push(sc);
    }
    let nmsg = if t { 64 } else { 12 };
    for sc in &scalars {
        let rpt = match so::ed25519_base_noclamp(sc) {
            Some(p) => p,
            None => continue,
        };
        let mut sig = [0u8; 64];
        sig[..32].copy_from_slice(&rpt);
        sig[32..].copy_from_slice(sc);
        for a in &pts {
            for j in 0..nmsg {
                let m = ctx.rng.bytes(j % 40);
                ctx.run("verify_small_order", Input::new().b("sig", &sig).b("m", &m).b("pk", a))?;
            }
        }
    }

    // torsion components in R and / or A, pure and pre-hashed construction
    let tors = torsion_points();
    let mut accepted = 0usize;
    let mut rejected = 0usize;
    for round in 0..(if t { 6 } else { 2 }) {
        let seed = ctx.rng.arr::<32>();
        for mlen in [0usize, 17, 129].into_iter().take(if t { 3 } else { 2 }) {
            let m = ctx.rng.bytes(mlen + round);
            for t_r in &tors {
                for t_a in &tors {
                    for prehashed in [false, true] {
                        let (sig, pk2) = torsion_forgery(&seed, &m, t_r, t_a, prehashed);
                        let ok = if prehashed {
                            so::sign_ph_verify(&[&m], &sig, &pk2)
                        } else {
                            so::sign_verify_detached(&sig, &m, &pk2)
                        };
                        if ok {
                            accepted += 1;
                        } else {
                            rejected += 1;
                        }
                        ctx.run("verify_torsion_component", Input::new().b("sig", &sig).b("m", &m).b("pk", &pk2))?;
                    }
                }
            }
        }
    }
    // the sweep must contain both honest signatures (no torsion) and forgeries, or the construction is off
    if accepted < 4 || rejected < 100 {
        panic!("{} torsion sweep: libsodium accepted {} and rejected {}", HARNESS, accepted, rejected);
    }

    // small-order commitment R (every canonical encoding of the 8 torsion points, and the non-canonical / sign-bit
    // encodings of `small_order_points`) with S = H(R, A, M) * a mod L built from the secret scalar, for an honest A and
    // for A with a torsion component; pure and pre-hashed construction.  libsodium rejects all of them.
    // (own generator state: the inputs above stay what they were)
    let mut rng2 = ctx.rng.clone();
    let mut r_encodings: Vec<[u8; 32]> = tors.clone();
    for p in &pts {
        if !r_encodings.contains(p) {
            r_encodings.push(*p);
        }
    }
    for round in 0..(if t { 4 } else { 1 }) {
        let seed = rng2.arr::<32>();
        for r_enc in &r_encodings {
            for (ja, t_a) in tors.iter().enumerate() {
                // honest A: a few lengths; mixed-order A: enough messages for -[k]t_a to hit R now and then
                let nmsg = if ja == 0 { 4 } else if t { 16 } else { 6 };
                for j in 0..nmsg {
                    let m = rng2.bytes([0usize, 1, 17, 200][j % 4] + round + j / 4);
                    for prehashed in [false, true] {
                        let (sig, pk2) = small_order_r_forgery(&seed, &m, r_enc, t_a, prehashed);
                        let ok = if prehashed { so::sign_ph_verify(&[&m], &sig, &pk2) } else { so::sign_verify_detached(&sig, &m, &pk2) };
                        if ok {
                            panic!("{} libsodium accepted a signature with a small-order R", HARNESS);
                        }
                        ctx.run("verify_small_order_commitment", Input::new().b("sig", &sig).b("m", &m).b("pk", &pk2))?;
                    }
                }
            }
        }
    }
    Ok(())
}
