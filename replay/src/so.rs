//! Thin safe wrappers around libsodium (the oracle).  Every wrapper sizes its
//! own buffers so the unsafe surface stays in this file.

#![allow(dead_code)]

use libsodium_sys as ffi;
use std::mem::MaybeUninit;
use std::ptr::null;

pub type StreamState = ffi::crypto_secretstream_xchacha20poly1305_state;

pub fn init() {
    let rc = unsafe { ffi::sodium_init() };
    assert!(rc >= 0, "sodium_init failed");
}

#[inline]
fn ull(n: usize) -> libc::c_ulonglong {
    n as libc::c_ulonglong
}

// ------------------------------------------------------------ secretbox ----

pub fn secretbox_easy(m: &[u8], n: &[u8; 24], k: &[u8; 32]) -> Vec<u8> {
    let mut c = vec![0u8; m.len() + 16];
    let rc = unsafe { ffi::crypto_secretbox_easy(c.as_mut_ptr(), m.as_ptr(), ull(m.len()), n.as_ptr(), k.as_ptr()) };
    assert_eq!(rc, 0);
    c
}

pub fn secretbox_open_easy(c: &[u8], n: &[u8; 24], k: &[u8; 32]) -> Option<Vec<u8>> {
    let mut m = vec![0u8; c.len().saturating_sub(16)];
    let rc = unsafe { ffi::crypto_secretbox_open_easy(m.as_mut_ptr(), c.as_ptr(), ull(c.len()), n.as_ptr(), k.as_ptr()) };
    if rc == 0 {
        Some(m)
    } else {
        None
    }
}

pub fn secretbox_detached(m: &[u8], n: &[u8; 24], k: &[u8; 32]) -> (Vec<u8>, [u8; 16]) {
    let mut c = vec![0u8; m.len()];
    let mut mac = [0u8; 16];
    let rc = unsafe {
        ffi::crypto_secretbox_detached(c.as_mut_ptr(), mac.as_mut_ptr(), m.as_ptr(), ull(m.len()), n.as_ptr(), k.as_ptr())
    };
    assert_eq!(rc, 0);
    (c, mac)
}

// ------------------------------------------------------------------ box ----

pub fn box_easy(m: &[u8], n: &[u8; 24], pk: &[u8; 32], sk: &[u8; 32]) -> Option<Vec<u8>> {
    let mut c = vec![0u8; m.len() + 16];
    let rc = unsafe {
        ffi::crypto_box_easy(c.as_mut_ptr(), m.as_ptr(), ull(m.len()), n.as_ptr(), pk.as_ptr(), sk.as_ptr())
    };
    if rc == 0 {
        Some(c)
    } else {
        None
    }
}

pub fn box_open_easy(c: &[u8], n: &[u8; 24], pk: &[u8; 32], sk: &[u8; 32]) -> Option<Vec<u8>> {
    let mut m = vec![0u8; c.len().saturating_sub(16)];
    let rc = unsafe {
        ffi::crypto_box_open_easy(m.as_mut_ptr(), c.as_ptr(), ull(c.len()), n.as_ptr(), pk.as_ptr(), sk.as_ptr())
    };
    if rc == 0 {
        Some(m)
    } else {
        None
    }
}

pub fn box_detached(m: &[u8], n: &[u8; 24], pk: &[u8; 32], sk: &[u8; 32]) -> Option<(Vec<u8>, [u8; 16])> {
    let mut c = vec![0u8; m.len()];
    let mut mac = [0u8; 16];
    let rc = unsafe {
        ffi::crypto_box_detached(
            c.as_mut_ptr(),
            mac.as_mut_ptr(),
            m.as_ptr(),
            ull(m.len()),
            n.as_ptr(),
            pk.as_ptr(),
            sk.as_ptr(),
        )
    };
    if rc == 0 {
        Some((c, mac))
    } else {
        None
    }
}

/// `None` when libsodium refuses the key pair (all-zero shared secret).
pub fn box_beforenm(pk: &[u8; 32], sk: &[u8; 32]) -> Option<[u8; 32]> {
    let mut k = [0u8; 32];
    let rc = unsafe { ffi::crypto_box_beforenm(k.as_mut_ptr(), pk.as_ptr(), sk.as_ptr()) };
    if rc == 0 {
        Some(k)
    } else {
        None
    }
}

pub fn box_easy_afternm(m: &[u8], n: &[u8; 24], k: &[u8; 32]) -> Vec<u8> {
    let mut c = vec![0u8; m.len() + 16];
    let rc = unsafe { ffi::crypto_box_easy_afternm(c.as_mut_ptr(), m.as_ptr(), ull(m.len()), n.as_ptr(), k.as_ptr()) };
    assert_eq!(rc, 0);
    c
}

pub fn box_open_easy_afternm(c: &[u8], n: &[u8; 24], k: &[u8; 32]) -> Option<Vec<u8>> {
    let mut m = vec![0u8; c.len().saturating_sub(16)];
    let rc = unsafe {
        ffi::crypto_box_open_easy_afternm(m.as_mut_ptr(), c.as_ptr(), ull(c.len()), n.as_ptr(), k.as_ptr())
    };
    if rc == 0 {
        Some(m)
    } else {
        None
    }
}

pub fn box_seal(m: &[u8], pk: &[u8; 32]) -> Vec<u8> {
    let mut c = vec![0u8; m.len() + 48];
    let rc = unsafe { ffi::crypto_box_seal(c.as_mut_ptr(), m.as_ptr(), ull(m.len()), pk.as_ptr()) };
    assert_eq!(rc, 0);
    c
}

pub fn box_seal_open(c: &[u8], pk: &[u8; 32], sk: &[u8; 32]) -> Option<Vec<u8>> {
    let mut m = vec![0u8; c.len().saturating_sub(48)];
    let rc = unsafe { ffi::crypto_box_seal_open(m.as_mut_ptr(), c.as_ptr(), ull(c.len()), pk.as_ptr(), sk.as_ptr()) };
    if rc == 0 {
        Some(m)
    } else {
        None
    }
}

pub fn box_seed_keypair(seed: &[u8; 32]) -> ([u8; 32], [u8; 32]) {
    let (mut pk, mut sk) = ([0u8; 32], [0u8; 32]);
    let rc = unsafe { ffi::crypto_box_seed_keypair(pk.as_mut_ptr(), sk.as_mut_ptr(), seed.as_ptr()) };
    assert_eq!(rc, 0);
    (pk, sk)
}

// ---------------------------------------------------------- curve25519 ----

/// Returns (return code, q).  q is pre-filled with zeros: for the low-order
/// inputs libsodium's portable implementation returns -1 before writing q,
/// and the X25519 value for those inputs is the all-zero string anyway.
pub fn scalarmult(n: &[u8; 32], p: &[u8; 32]) -> (i32, [u8; 32]) {
    let mut q = [0u8; 32];
    let rc = unsafe { ffi::crypto_scalarmult(q.as_mut_ptr(), n.as_ptr(), p.as_ptr()) };
    (rc, q)
}

pub fn scalarmult_base(n: &[u8; 32]) -> [u8; 32] {
    let mut q = [0u8; 32];
    let rc = unsafe { ffi::crypto_scalarmult_base(q.as_mut_ptr(), n.as_ptr()) };
    assert_eq!(rc, 0);
    q
}

pub fn kx_seed_keypair(seed: &[u8; 32]) -> ([u8; 32], [u8; 32]) {
    let (mut pk, mut sk) = ([0u8; 32], [0u8; 32]);
    let rc = unsafe { ffi::crypto_kx_seed_keypair(pk.as_mut_ptr(), sk.as_mut_ptr(), seed.as_ptr()) };
    assert_eq!(rc, 0);
    (pk, sk)
}

/// (rx, tx) or None when libsodium refuses the peer key.
pub fn kx_client(client_pk: &[u8; 32], client_sk: &[u8; 32], server_pk: &[u8; 32]) -> Option<([u8; 32], [u8; 32])> {
    let (mut rx, mut tx) = ([0u8; 32], [0u8; 32]);
    let rc = unsafe {
        ffi::crypto_kx_client_session_keys(
            rx.as_mut_ptr(),
            tx.as_mut_ptr(),
            client_pk.as_ptr(),
            client_sk.as_ptr(),
            server_pk.as_ptr(),
        )
    };
    if rc == 0 {
        Some((rx, tx))
    } else {
        None
    }
}

pub fn kx_server(server_pk: &[u8; 32], server_sk: &[u8; 32], client_pk: &[u8; 32]) -> Option<([u8; 32], [u8; 32])> {
    let (mut rx, mut tx) = ([0u8; 32], [0u8; 32]);
    let rc = unsafe {
        ffi::crypto_kx_server_session_keys(
            rx.as_mut_ptr(),
            tx.as_mut_ptr(),
            server_pk.as_ptr(),
            server_sk.as_ptr(),
            client_pk.as_ptr(),
        )
    };
    if rc == 0 {
        Some((rx, tx))
    } else {
        None
    }
}

// ---------------------------------------------------------------- sign ----

pub fn sign_seed_keypair(seed: &[u8; 32]) -> ([u8; 32], [u8; 64]) {
    let (mut pk, mut sk) = ([0u8; 32], [0u8; 64]);
    let rc = unsafe { ffi::crypto_sign_seed_keypair(pk.as_mut_ptr(), sk.as_mut_ptr(), seed.as_ptr()) };
    assert_eq!(rc, 0);
    (pk, sk)
}

pub fn sign(m: &[u8], sk: &[u8; 64]) -> Vec<u8> {
    let mut sm = vec![0u8; m.len() + 64];
    let mut smlen: libc::c_ulonglong = 0;
    let rc = unsafe { ffi::crypto_sign(sm.as_mut_ptr(), &mut smlen, m.as_ptr(), ull(m.len()), sk.as_ptr()) };
    assert_eq!(rc, 0);
    assert_eq!(smlen as usize, sm.len());
    sm
}

pub fn sign_open(sm: &[u8], pk: &[u8; 32]) -> Option<Vec<u8>> {
    // libsodium needs room for smlen bytes in m in the worst case
    let mut m = vec![0u8; sm.len().max(1)];
    let mut mlen: libc::c_ulonglong = 0;
    let rc = unsafe { ffi::crypto_sign_open(m.as_mut_ptr(), &mut mlen, sm.as_ptr(), ull(sm.len()), pk.as_ptr()) };
    if rc == 0 {
        m.truncate(mlen as usize);
        Some(m)
    } else {
        None
    }
}

pub fn sign_detached(m: &[u8], sk: &[u8; 64]) -> [u8; 64] {
    let mut sig = [0u8; 64];
    let mut siglen: libc::c_ulonglong = 0;
    let rc = unsafe { ffi::crypto_sign_detached(sig.as_mut_ptr(), &mut siglen, m.as_ptr(), ull(m.len()), sk.as_ptr()) };
    assert_eq!(rc, 0);
    sig
}

pub fn sign_verify_detached(sig: &[u8; 64], m: &[u8], pk: &[u8; 32]) -> bool {
    unsafe { ffi::crypto_sign_verify_detached(sig.as_ptr(), m.as_ptr(), ull(m.len()), pk.as_ptr()) == 0 }
}

fn sign_ph_state(pieces: &[&[u8]]) -> ffi::crypto_sign_state {
    let mut st = MaybeUninit::<ffi::crypto_sign_state>::zeroed();
    unsafe {
        ffi::crypto_sign_init(st.as_mut_ptr());
        for p in pieces {
            ffi::crypto_sign_update(st.as_mut_ptr(), p.as_ptr(), ull(p.len()));
        }
        st.assume_init()
    }
}

pub fn sign_ph_create(pieces: &[&[u8]], sk: &[u8; 64]) -> [u8; 64] {
    let mut st = sign_ph_state(pieces);
    let mut sig = [0u8; 64];
    let mut siglen: libc::c_ulonglong = 0;
    let rc = unsafe { ffi::crypto_sign_final_create(&mut st, sig.as_mut_ptr(), &mut siglen, sk.as_ptr()) };
    assert_eq!(rc, 0);
    sig
}

pub fn sign_ph_verify(pieces: &[&[u8]], sig: &[u8; 64], pk: &[u8; 32]) -> bool {
    let mut st = sign_ph_state(pieces);
    unsafe { ffi::crypto_sign_final_verify(&mut st, sig.as_ptr(), pk.as_ptr()) == 0 }
}

pub fn ed_pk_to_curve(pk: &[u8; 32]) -> Option<[u8; 32]> {
    let mut x = [0u8; 32];
    let rc = unsafe { ffi::crypto_sign_ed25519_pk_to_curve25519(x.as_mut_ptr(), pk.as_ptr()) };
    if rc == 0 {
        Some(x)
    } else {
        None
    }
}

pub fn ed_sk_to_curve(sk: &[u8; 64]) -> [u8; 32] {
    let mut x = [0u8; 32];
    let rc = unsafe { ffi::crypto_sign_ed25519_sk_to_curve25519(x.as_mut_ptr(), sk.as_ptr()) };
    assert_eq!(rc, 0);
    x
}

// -------------------------------------------------------------- hashes ----

/// `key` empty = unkeyed.  None when libsodium rejects the parameters.
pub fn generichash(outlen: usize, m: &[u8], key: &[u8]) -> Option<Vec<u8>> {
    let mut out = vec![0u8; outlen];
    let kp = if key.is_empty() { null() } else { key.as_ptr() };
    let rc = unsafe { ffi::crypto_generichash(out.as_mut_ptr(), outlen, m.as_ptr(), ull(m.len()), kp, key.len()) };
    if rc == 0 {
        Some(out)
    } else {
        None
    }
}

pub fn sha512(m: &[u8]) -> [u8; 64] {
    let mut out = [0u8; 64];
    unsafe { ffi::crypto_hash_sha512(out.as_mut_ptr(), m.as_ptr(), ull(m.len())) };
    out
}

pub fn auth(m: &[u8], k: &[u8; 32]) -> [u8; 32] {
    let mut out = [0u8; 32];
    unsafe { ffi::crypto_auth(out.as_mut_ptr(), m.as_ptr(), ull(m.len()), k.as_ptr()) };
    out
}

pub fn auth_verify(mac: &[u8; 32], m: &[u8], k: &[u8; 32]) -> bool {
    unsafe { ffi::crypto_auth_verify(mac.as_ptr(), m.as_ptr(), ull(m.len()), k.as_ptr()) == 0 }
}

pub fn onetimeauth(m: &[u8], k: &[u8; 32]) -> [u8; 16] {
    let mut out = [0u8; 16];
    unsafe { ffi::crypto_onetimeauth(out.as_mut_ptr(), m.as_ptr(), ull(m.len()), k.as_ptr()) };
    out
}

pub fn onetimeauth_verify(mac: &[u8; 16], m: &[u8], k: &[u8; 32]) -> bool {
    unsafe { ffi::crypto_onetimeauth_verify(mac.as_ptr(), m.as_ptr(), ull(m.len()), k.as_ptr()) == 0 }
}

/// XSalsa20 keystream: bytes 0..32 are the one-time Poly1305 key of a
/// secretbox / box under (k, n), bytes 32.. encrypt the message.
pub fn stream_xsalsa20(len: usize, n: &[u8; 24], k: &[u8; 32]) -> Vec<u8> {
    let mut out = vec![0u8; len];
    let rc = unsafe { ffi::crypto_stream_xsalsa20(out.as_mut_ptr(), ull(len), n.as_ptr(), k.as_ptr()) };
    assert_eq!(rc, 0);
    out
}

/// Encoding of s*B on edwards25519 (s not clamped); None for s = 0 / s >= L.
pub fn ed25519_base_noclamp(s: &[u8; 32]) -> Option<[u8; 32]> {
    let mut q = [0u8; 32];
    let rc = unsafe { ffi::crypto_scalarmult_ed25519_base_noclamp(q.as_mut_ptr(), s.as_ptr()) };
    if rc == 0 {
        Some(q)
    } else {
        None
    }
}

/// p + q on edwards25519 (any two points on the curve, small-order ones included); None if an input does not decode.
pub fn ed25519_add(p: &[u8; 32], q: &[u8; 32]) -> Option<[u8; 32]> {
    let mut r = [0u8; 32];
    let rc = unsafe { ffi::crypto_core_ed25519_add(r.as_mut_ptr(), p.as_ptr(), q.as_ptr()) };
    if rc == 0 {
        Some(r)
    } else {
        None
    }
}

/// 64-byte little-endian integer mod L.
pub fn ed25519_scalar_reduce(wide: &[u8; 64]) -> [u8; 32] {
    let mut r = [0u8; 32];
    unsafe { ffi::crypto_core_ed25519_scalar_reduce(r.as_mut_ptr(), wide.as_ptr()) };
    r
}

/// k * a + r mod L
pub fn ed25519_scalar_muladd(k: &[u8; 32], a: &[u8; 32], r: &[u8; 32]) -> [u8; 32] {
    let (mut ka, mut s) = ([0u8; 32], [0u8; 32]);
    unsafe {
        ffi::crypto_core_ed25519_scalar_mul(ka.as_mut_ptr(), k.as_ptr(), a.as_ptr());
        ffi::crypto_core_ed25519_scalar_add(s.as_mut_ptr(), ka.as_ptr(), r.as_ptr());
    }
    s
}

pub fn shorthash(m: &[u8], k: &[u8; 16]) -> [u8; 8] {
    let mut out = [0u8; 8];
    unsafe { ffi::crypto_shorthash(out.as_mut_ptr(), m.as_ptr(), ull(m.len()), k.as_ptr()) };
    out
}

pub fn hsalsa20(input: &[u8; 16], k: &[u8; 32], c: Option<&[u8; 16]>) -> [u8; 32] {
    let mut out = [0u8; 32];
    let cp = c.map(|c| c.as_ptr()).unwrap_or(null());
    unsafe { ffi::crypto_core_hsalsa20(out.as_mut_ptr(), input.as_ptr(), k.as_ptr(), cp) };
    out
}

pub fn hchacha20(input: &[u8; 16], k: &[u8; 32], c: Option<&[u8; 16]>) -> [u8; 32] {
    let mut out = [0u8; 32];
    let cp = c.map(|c| c.as_ptr()).unwrap_or(null());
    unsafe { ffi::crypto_core_hchacha20(out.as_mut_ptr(), input.as_ptr(), k.as_ptr(), cp) };
    out
}

pub fn increment(b: &mut [u8]) {
    unsafe { ffi::sodium_increment(b.as_mut_ptr(), b.len()) }
}

// ------------------------------------------------------------- pwhash ----

pub const ALG_ARGON2I13: i32 = 1;
pub const ALG_ARGON2ID13: i32 = 2;

pub fn pwhash(outlen: usize, pw: &[u8], salt: &[u8; 16], ops: u64, mem: usize, alg: i32) -> Option<Vec<u8>> {
    let mut out = vec![0u8; outlen];
    let rc = unsafe {
        ffi::crypto_pwhash(
            out.as_mut_ptr(),
            ull(outlen),
            pw.as_ptr() as *const libc::c_char,
            ull(pw.len()),
            salt.as_ptr(),
            ops as libc::c_ulonglong,
            mem,
            alg,
        )
    };
    if rc == 0 {
        Some(out)
    } else {
        None
    }
}

extern "C" {
    /// libsodium's internal Argon2 entry point (argon2.c; present in the statically linked library): RFC 9106 for any t >= 1
    fn argon2_hash(
        t_cost: u32, m_cost: u32, parallelism: u32, pwd: *const u8, pwdlen: usize, salt: *const u8, saltlen: usize,
        hash: *mut u8, hashlen: usize, encoded: *mut u8, encodedlen: usize, type_: i32,
    ) -> i32;
}

/// Argon2 v1.3, one lane, straight from libsodium's core: covers parameter sets crypto_pwhash refuses (Argon2i with t < 3)
pub fn argon2_core(outlen: usize, pw: &[u8], salt: &[u8], t: u32, m_kib: u32, alg: i32) -> Option<Vec<u8>> {
    let mut out = vec![0u8; outlen];
    let rc = unsafe {
        ffi::sodium_init();
        argon2_hash(t, m_kib, 1, pw.as_ptr(), pw.len(), salt.as_ptr(), salt.len(), out.as_mut_ptr(), out.len(), std::ptr::null_mut(), 0, alg)
    };
    if rc == 0 { Some(out) } else { None }
}

/// libsodium's verdict on an encoded Argon2 hash (`$argon2id$v=19$m=..,t=..,p=1$salt$hash`).  The decoder takes salts
/// and hashes of ANY length (>= 8 / >= 16 bytes) and recomputes Argon2 over the decoded salt, so this is an
/// independent Argon2 for parameter sets crypto_pwhash itself cannot express (salt length != 16).
pub fn pwhash_str_verify(encoded: &str, pw: &[u8]) -> bool {
    // NUL-terminated, at least crypto_pwhash_STRBYTES long (the prototype takes a char[128]; only strlen is used)
    let mut z: Vec<libc::c_char> = encoded.bytes().map(|b| b as libc::c_char).collect();
    z.push(0);
    while z.len() < 128 {
        z.push(0);
    }
    unsafe { ffi::crypto_pwhash_str_verify(z.as_ptr(), pw.as_ptr() as *const libc::c_char, ull(pw.len())) == 0 }
}

/// libsodium's crypto_pwhash_str_needs_rehash: Some(false) = the string carries exactly these limits, Some(true) = other
/// limits, None = not a string libsodium can decode (or limits out of range).  Parses only; nothing is hashed.
pub fn pwhash_str_needs_rehash(encoded: &str, ops: u64, mem: usize) -> Option<bool> {
    let mut z: Vec<libc::c_char> = encoded.bytes().map(|b| b as libc::c_char).collect();
    z.push(0);
    while z.len() < 128 {
        z.push(0);
    }
    match unsafe { ffi::crypto_pwhash_str_needs_rehash(z.as_ptr(), ops as libc::c_ulonglong, mem) } {
        0 => Some(false),
        1 => Some(true),
        _ => None,
    }
}

// ----------------------------------------------------------------- kdf ----

pub fn kdf_derive(len: usize, id: u64, ctx: &[u8; 8], key: &[u8; 32]) -> Option<Vec<u8>> {
    let mut out = vec![0u8; len];
    let rc = unsafe {
        ffi::crypto_kdf_derive_from_key(out.as_mut_ptr(), len, id, ctx.as_ptr() as *const libc::c_char, key.as_ptr())
    };
    if rc == 0 {
        Some(out)
    } else {
        None
    }
}

// -------------------------------------------------------- secretstream ----

pub fn stream_state(k: [u8; 32], nonce: [u8; 12]) -> StreamState {
    StreamState { k, nonce, _pad: [0u8; 8] }
}

/// The libsodium state is the same struct for push and pull, so this is also
/// how a push state with a chosen header is obtained.
pub fn stream_init_pull(header: &[u8; 24], k: &[u8; 32]) -> StreamState {
    let mut st = stream_state([0u8; 32], [0u8; 12]);
    let rc = unsafe { ffi::crypto_secretstream_xchacha20poly1305_init_pull(&mut st, header.as_ptr(), k.as_ptr()) };
    assert_eq!(rc, 0);
    st
}

pub fn stream_push(st: &mut StreamState, m: &[u8], ad: Option<&[u8]>, tag: u8) -> Vec<u8> {
    let mut c = vec![0u8; m.len() + 17];
    let mut clen: libc::c_ulonglong = 0;
    let (adp, adlen) = match ad {
        Some(a) => (a.as_ptr(), a.len()),
        None => (null(), 0),
    };
    let rc = unsafe {
        ffi::crypto_secretstream_xchacha20poly1305_push(
            st,
            c.as_mut_ptr(),
            &mut clen,
            m.as_ptr(),
            ull(m.len()),
            adp,
            ull(adlen),
            tag,
        )
    };
    assert_eq!(rc, 0);
    assert_eq!(clen as usize, c.len());
    c
}

pub fn stream_pull(st: &mut StreamState, c: &[u8], ad: Option<&[u8]>) -> Option<(Vec<u8>, u8)> {
    let mut m = vec![0u8; c.len().saturating_sub(17)];
    let mut mlen: libc::c_ulonglong = 0;
    let mut tag: u8 = 0;
    let (adp, adlen) = match ad {
        Some(a) => (a.as_ptr(), a.len()),
        None => (null(), 0),
    };
    let rc = unsafe {
        ffi::crypto_secretstream_xchacha20poly1305_pull(
            st,
            m.as_mut_ptr(),
            &mut mlen,
            &mut tag,
            c.as_ptr(),
            ull(c.len()),
            adp,
            ull(adlen),
        )
    };
    if rc == 0 {
        m.truncate(mlen as usize);
        Some((m, tag))
    } else {
        None
    }
}

pub fn stream_rekey(st: &mut StreamState) {
    unsafe { ffi::crypto_secretstream_xchacha20poly1305_rekey(st) }
}

/// libsodium's own password hash string (argon2id), used as a valid seed for
/// parser mutations.
pub fn pwhash_str(pw: &[u8], ops: u64, mem: usize) -> String {
    let mut out = [0 as libc::c_char; 128];
    let rc = unsafe {
        ffi::crypto_pwhash_str(
            out.as_mut_ptr(),
            pw.as_ptr() as *const libc::c_char,
            ull(pw.len()),
            ops as libc::c_ulonglong,
            mem,
        )
    };
    assert_eq!(rc, 0);
    let bytes: Vec<u8> = out.iter().take_while(|c| **c != 0).map(|c| *c as u8).collect();
    String::from_utf8(bytes).expect("ascii")
}
