//! C03: secretstream in lockstep with libsodium.

use dryoc::classic::crypto_secretstream_xchacha20poly1305 as ss;
use dryoc::dryocstream::{DryocStream, Header, Key, Tag};
use dryoc::types::ByteArray;

use crate::so;
use crate::util::*;

// ---------------------------------------------------------------------
// dryoc's `State { k: [u8; 32], nonce: [u8; 12] }` has private fields and no
// constructor taking a counter.  To start from counter values other than 1
// (wrap-around to zero => automatic rekey) the harness locates the nonce
// inside the 44-byte struct by probing a freshly initialised state against
// libsodium's, and then overwrites the 4 counter bytes.  All 44 bytes are
// plain u8 (alignment 1, no padding), so reading/writing them is sound.  If
// the probe does not recognise the layout the non-initial-counter sub-cases
// are skipped by the generator (and a replay of them reports a harness error).
// ---------------------------------------------------------------------

const STATE_SIZE: usize = 44;

fn state_bytes(st: &ss::State) -> Option<[u8; STATE_SIZE]> {
    if std::mem::size_of::<ss::State>() != STATE_SIZE {
        return None;
    }
    let mut out = [0u8; STATE_SIZE];
    unsafe {
        std::ptr::copy_nonoverlapping(st as *const ss::State as *const u8, out.as_mut_ptr(), STATE_SIZE);
    }
    Some(out)
}

/// Offset of `nonce` (counter first) inside dryoc's State, if recognisable.
pub fn probe_nonce_offset() -> Option<usize> {
    let mut header = [0u8; 24];
    let mut k = [0u8; 32];
    for (i, b) in header.iter_mut().enumerate() {
        *b = 0x40 + i as u8;
    }
    for (i, b) in k.iter_mut().enumerate() {
        *b = 0x80 + i as u8;
    }
    let s = so::stream_init_pull(&header, &k);
    let mut d = ss::State::new();
    ss::crypto_secretstream_xchacha20poly1305_init_pull(&mut d, &header, &k);
    let bytes = state_bytes(&d)?;
    if bytes[..32] == s.k && bytes[32..] == s.nonce {
        Some(32)
    } else if bytes[..12] == s.nonce && bytes[12..] == s.k {
        Some(0)
    } else {
        None
    }
}

fn set_counter(st: &mut ss::State, off: usize, counter: &[u8; 4]) {
    unsafe {
        let p = (st as *mut ss::State as *mut u8).add(off);
        std::ptr::copy_nonoverlapping(counter.as_ptr(), p, 4);
    }
}

/// (k, nonce) of a dryoc state in libsodium's order.
fn state_k_nonce(st: &ss::State, off: usize) -> Option<([u8; 32], [u8; 12])> {
    let b = state_bytes(st)?;
    let (mut k, mut n) = ([0u8; 32], [0u8; 12]);
    if off == 32 {
        k.copy_from_slice(&b[..32]);
        n.copy_from_slice(&b[32..]);
    } else {
        n.copy_from_slice(&b[..12]);
        k.copy_from_slice(&b[12..]);
    }
    Some((k, n))
}

// ------------------------------------------------------------------ ops ----

pub const OP_PUSH: u8 = 0; // push with Some(ad)
pub const OP_REKEY: u8 = 1; // explicit rekey on every state
pub const OP_PUSH_NOAD: u8 = 2; // push with None

/// 5 bytes per op: kind, tag, adlen, mlen (big endian u16)
pub fn op(kind: u8, tag: u8, adlen: usize, mlen: usize) -> [u8; 5] {
    [kind, tag, adlen as u8, (mlen >> 8) as u8, mlen as u8]
}

fn parse_ops(ops: &[u8]) -> Vec<(u8, u8, usize, usize)> {
    if ops.len() % 5 != 0 {
        panic!("{} ops must be a multiple of 5 bytes", HARNESS);
    }
    ops.chunks(5)
        .map(|o| (o[0], o[1], o[2] as usize, ((o[3] as usize) << 8) | o[4] as usize))
        .collect()
}

fn d_push(st: &mut ss::State, m: &[u8], ad: Option<&[u8]>, tag: u8, idx: usize) -> Result<Vec<u8>, Fail> {
    let mut c = vec![0u8; m.len() + 17];
    must_ok(
        ss::crypto_secretstream_xchacha20poly1305_push(st, &mut c, m, ad, tag),
        &format!("push #{}", idx),
    )?;
    Ok(c)
}

fn d_pull(st: &mut ss::State, c: &[u8], ad: Option<&[u8]>) -> Result<(Vec<u8>, u8), String> {
    let mut m = vec![0u8; c.len().saturating_sub(17)];
    let mut tag = 0u8;
    match ss::crypto_secretstream_xchacha20poly1305_pull(st, &mut m, &mut tag, c, ad) {
        Ok(n) => {
            m.truncate(n);
            Ok((m, tag))
        }
        Err(e) => Err(format!("{:?}", e)),
    }
}

/// Classic API.  Inputs: k, header, ops, dseed, optional counter (4 bytes LE
/// as stored in the state).
fn lockstep(i: &Input) -> Outcome {
    let (k, header) = (i.arr::<32>("k"), i.arr::<24>("header"));
    let ops = parse_ops(i.get("ops"));
    let mut data = Rng::new(i.num("dseed"));

    // identical states on both sides: init_pull(header, key) gives exactly the
    // state init_push would have produced for that header
    let mut dp = ss::State::new();
    ss::crypto_secretstream_xchacha20poly1305_init_pull(&mut dp, &header, &k);
    let mut dl = dp.clone();
    let mut sp = so::stream_init_pull(&header, &k);
    let mut sl = so::stream_init_pull(&header, &k);

    let off = probe_nonce_offset();
    if i.has("counter") {
        let counter = i.arr::<4>("counter");
        let off = match off {
            Some(o) => o,
            None => panic!("{} dryoc State layout not recognised, cannot set counter", HARNESS),
        };
        set_counter(&mut dp, off, &counter);
        set_counter(&mut dl, off, &counter);
        sp.nonce[..4].copy_from_slice(&counter);
        sl.nonce[..4].copy_from_slice(&counter);
    }

    for (idx, (kind, tag, adlen, mlen)) in ops.into_iter().enumerate() {
        if kind == OP_REKEY {
            ss::crypto_secretstream_xchacha20poly1305_rekey(&mut dp);
            ss::crypto_secretstream_xchacha20poly1305_rekey(&mut dl);
            so::stream_rekey(&mut sp);
            so::stream_rekey(&mut sl);
        } else {
            let m = data.bytes(mlen);
            let adv = data.bytes(adlen);
            let ad: Option<&[u8]> = if kind == OP_PUSH_NOAD { None } else { Some(&adv) };

            let cs = so::stream_push(&mut sp, &m, ad, tag);
            let cd = d_push(&mut dp, &m, ad, tag, idx)?;
            eq(
                &format!("ciphertext of push #{} (mlen {}, adlen {}, tag {})", idx, mlen, adlen, tag),
                &cs,
                &cd,
            )?;

            // crosswise: dryoc pulls libsodium's ciphertext, libsodium pulls dryoc's
            match d_pull(&mut dl, &cs, ad) {
                Ok((pm, pt)) => {
                    eq(&format!("message pulled by dryoc at #{}", idx), &m, &pm)?;
                    eq(&format!("tag pulled by dryoc at #{}", idx), &[tag], &[pt])?;
                }
                Err(e) => {
                    return fail(
                        "Ok",
                        format!("Err({})", e),
                        format!("dryoc pull rejects libsodium's ciphertext #{}", idx),
                    )
                }
            }
            match so::stream_pull(&mut sl, &cd, ad) {
                Some((pm, pt)) => {
                    eq(&format!("message pulled by libsodium at #{}", idx), &m, &pm)?;
                    eq(&format!("tag pulled by libsodium at #{}", idx), &[tag], &[pt])?;
                }
                None => return fail("Ok", "Err", format!("libsodium pull rejects dryoc's ciphertext #{}", idx)),
            }
        }
        // states must stay byte-identical (key, counter, inonce)
        if let Some(off) = off {
            for (name, d, s) in [("push", &dp, &sp), ("pull", &dl, &sl)] {
                if let Some((dk, dn)) = state_k_nonce(d, off) {
                    eq(&format!("{} state key after op #{}", name, idx), &s.k, &dk)?;
                    eq(&format!("{} state nonce after op #{}", name, idx), &s.nonce, &dn)?;
                }
            }
        }
    }
    Ok(())
}

/// Object API (and classic init_push): the header is chosen by dryoc, the
/// libsodium states are derived from it.  Inputs: k, ops (tags 0..=3), dseed.
fn lockstep_object(i: &Input) -> Outcome {
    let k = i.arr::<32>("k");
    let ops = parse_ops(i.get("ops"));
    let mut data = Rng::new(i.num("dseed"));
    let key = Key::from(k);

    // classic init_push must produce the state init_pull derives from its header
    let mut st = ss::State::new();
    let mut hdr = [0u8; 24];
    ss::crypto_secretstream_xchacha20poly1305_init_push(&mut st, &mut hdr, &k);
    let mut st2 = ss::State::new();
    ss::crypto_secretstream_xchacha20poly1305_init_pull(&mut st2, &hdr, &k);
    if st != st2 {
        return fail(
            "equal states",
            "different states",
            format!("init_push state differs from init_pull(header) state, header={}", hex(&hdr)),
        );
    }
    {
        // one message through the classic init_push state
        let mut sl = so::stream_init_pull(&hdr, &k);
        let c = d_push(&mut st, b"init_push", None, 0, 0)?;
        match so::stream_pull(&mut sl, &c, None) {
            Some((pm, _)) => eq("libsodium pull after classic init_push", b"init_push", &pm)?,
            None => return fail("Ok", "Err", format!("libsodium rejects first push after init_push, header={}", hex(&hdr))),
        }
    }

    let (mut push, header): (_, Header) = DryocStream::init_push(&key);
    let mut pull = DryocStream::init_pull(&key, &header);
    let h: [u8; 24] = *header.as_array();
    let mut sp = so::stream_init_pull(&h, &k);
    let mut sl = so::stream_init_pull(&h, &k);

    for (idx, (kind, tag, adlen, mlen)) in ops.into_iter().enumerate() {
        if kind == OP_REKEY {
            push.rekey();
            pull.rekey();
            so::stream_rekey(&mut sp);
            so::stream_rekey(&mut sl);
            continue;
        }
        let t = match Tag::from_bits(tag) {
            Some(t) => t,
            None => panic!("{} lockstep_object only takes tags 0..=3", HARNESS),
        };
        let m = data.bytes(mlen);
        let adv = data.bytes(adlen);
        let ad_d: Option<&Vec<u8>> = if kind == OP_PUSH_NOAD { None } else { Some(&adv) };
        let ad_s: Option<&[u8]> = if kind == OP_PUSH_NOAD { None } else { Some(&adv) };

        let cs = so::stream_push(&mut sp, &m, ad_s, tag);
        let cd = must_ok(push.push_to_vec(&m, ad_d, t), &format!("DryocStream::push #{}", idx))?;
        eq(
            &format!("DryocStream ciphertext #{} (header {})", idx, hex(&h)),
            &cs,
            &cd,
        )?;
        let (pm, pt) = must_ok(pull.pull_to_vec(&cs, ad_d), &format!("DryocStream::pull #{}", idx))?;
        eq(&format!("DryocStream pulled message #{}", idx), &m, &pm)?;
        eq(&format!("DryocStream pulled tag #{}", idx), &[tag], &[pt.bits()])?;
        match so::stream_pull(&mut sl, &cd, ad_s) {
            Some((pm, pt)) => {
                eq(&format!("libsodium pulled message #{}", idx), &m, &pm)?;
                eq(&format!("libsodium pulled tag #{}", idx), &[tag], &[pt])?;
            }
            None => return fail("Ok", "Err", format!("libsodium rejects DryocStream ciphertext #{}", idx)),
        }
    }
    Ok(())
}

/// A replayed / reordered / wrong-AD / corrupted / truncated ciphertext is
/// rejected and the genuine continuation is still accepted afterwards.
/// Inputs: k, header, dseed, kind (0..=4).
fn reject_then_continue(i: &Input) -> Outcome {
    let (k, header) = (i.arr::<32>("k"), i.arr::<24>("header"));
    let kind = i.num("kind");
    let mut data = Rng::new(i.num("dseed"));

    // three genuine messages produced by libsodium
    let mut sp = so::stream_init_pull(&header, &k);
    let mut msgs = Vec::new();
    for j in 0..3usize {
        let l = 1 + data.below(40);
        let m = data.bytes(l);
        let ad = data.bytes(j * 3);
        let tag = [0u8, 1, 0][j];
        let c = so::stream_push(&mut sp, &m, Some(&ad), tag);
        msgs.push((m, ad, tag, c));
    }
    let (bad_c, bad_ad): (Vec<u8>, Vec<u8>) = match kind {
        0 => (msgs[0].3.clone(), msgs[0].1.clone()), // replay of #0
        1 => (msgs[2].3.clone(), msgs[2].1.clone()), // #2 presented before #1
        2 => (msgs[1].3.clone(), [&msgs[1].1[..], &[1u8][..]].concat()), // wrong AD
        3 => {
            let mut c = msgs[1].3.clone();
            let p = c.len() / 2;
            c[p] ^= 0x10;
            (c, msgs[1].1.clone())
        }
        4 => (msgs[1].3[..msgs[1].3.len() - 1].to_vec(), msgs[1].1.clone()), // truncated
        _ => panic!("{} kind must be 0..=4", HARNESS),
    };
    let what = ["replayed", "reordered", "wrong-AD", "corrupted", "truncated"][kind as usize];

    // oracle agrees that the bad one is bad
    {
        let mut sl = so::stream_init_pull(&header, &k);
        assert!(so::stream_pull(&mut sl, &msgs[0].3, Some(&msgs[0].1)).is_some());
        if so::stream_pull(&mut sl, &bad_c, Some(&bad_ad)).is_some() {
            panic!("{} libsodium accepted the {} ciphertext", HARNESS, what);
        }
    }

    // classic
    let mut dl = ss::State::new();
    ss::crypto_secretstream_xchacha20poly1305_init_pull(&mut dl, &header, &k);
    match d_pull(&mut dl, &msgs[0].3, Some(&msgs[0].1)) {
        Ok((pm, _)) => eq("first genuine message", &msgs[0].0, &pm)?,
        Err(e) => return fail("Ok", format!("Err({})", e), "pull rejects the first genuine message"),
    }
    if d_pull(&mut dl, &bad_c, Some(&bad_ad)).is_ok() {
        return fail("Err", "Ok", format!("pull accepted a {} ciphertext", what));
    }
    for j in 1..3 {
        match d_pull(&mut dl, &msgs[j].3, Some(&msgs[j].1)) {
            Ok((pm, pt)) => {
                eq(&format!("genuine message #{} after the rejected one", j), &msgs[j].0, &pm)?;
                eq(&format!("tag of genuine message #{}", j), &[msgs[j].2], &[pt])?;
            }
            Err(e) => {
                return fail(
                    "Ok",
                    format!("Err({})", e),
                    format!("pull rejects genuine message #{} after a {} ciphertext was rejected", j, what),
                )
            }
        }
    }

    // object API
    let mut pull = DryocStream::init_pull(&Key::from(k), &Header::from(header));
    let (pm, _) = must_ok(pull.pull_to_vec(&msgs[0].3, Some(&msgs[0].1)), "DryocStream::pull first genuine message")?;
    eq("DryocStream first genuine message", &msgs[0].0, &pm)?;
    if pull.pull_to_vec(&bad_c, Some(&bad_ad)).is_ok() {
        return fail("Err", "Ok", format!("DryocStream::pull accepted a {} ciphertext", what));
    }
    for j in 1..3 {
        let (pm, pt) = must_ok(
            pull.pull_to_vec(&msgs[j].3, Some(&msgs[j].1)),
            &format!("DryocStream::pull genuine message #{} after a {} ciphertext was rejected", j, what),
        )?;
        eq(&format!("DryocStream genuine message #{}", j), &msgs[j].0, &pm)?;
        eq(&format!("DryocStream tag #{}", j), &[msgs[j].2], &[pt.bits()])?;
    }
    Ok(())
}

/// Every tag byte travels through the object API unchanged.  Inputs: k,
/// header, tags (one message per byte), dseed.  Three directions per message:
/// libsodium pushes / DryocStream pulls, classic push / DryocStream pulls,
/// DryocStream pushes (Tag::from_bits_retain) / libsodium and DryocStream pull.
/// All streams carry the same messages, so they stay in lockstep (a tag with
/// the REKEY bit rekeys every one of them).
fn tag_bytes_object(i: &Input) -> Outcome {
    let (k, header) = (i.arr::<32>("k"), i.arr::<24>("header"));
    let tags = i.get("tags");
    let mut data = Rng::new(i.num("dseed"));
    let key = Key::from(k);

    // chosen header: libsodium push -> DryocStream pull, classic push -> DryocStream pull
    let mut sp = so::stream_init_pull(&header, &k);
    let mut cp = ss::State::new();
    ss::crypto_secretstream_xchacha20poly1305_init_pull(&mut cp, &header, &k);
    let mut pull_s = DryocStream::init_pull(&key, &Header::from(header));
    let mut pull_c = DryocStream::init_pull(&key, &Header::from(header));
    // dryoc's own header: DryocStream push -> libsodium pull, DryocStream pull
    let (mut push, h2): (_, Header) = DryocStream::init_push(&key);
    let h2a: [u8; 24] = *h2.as_array();
    let mut sl = so::stream_init_pull(&h2a, &k);
    let mut pull_d = DryocStream::init_pull(&key, &h2);

    for (idx, tag) in tags.iter().copied().enumerate() {
        let mlen = data.below(40);
        let m = data.bytes(mlen);
        let adlen = data.below(9);
        let adv = data.bytes(adlen);
        let (ad_d, ad_s): (Option<&Vec<u8>>, Option<&[u8]>) =
            if adlen == 0 { (None, None) } else { (Some(&adv), Some(&adv)) };
        let what = format!("message #{} pushed with tag byte {:#04x}", idx, tag);

        let cs = so::stream_push(&mut sp, &m, ad_s, tag);
        let (pm, pt) = must_ok(pull_s.pull_to_vec(&cs, ad_d), &format!("DryocStream::pull of libsodium's {}", what))?;
        eq(&format!("DryocStream::pull message, libsodium's {}", what), &m, &pm)?;
        eq(&format!("tag reported by DryocStream::pull for libsodium's {}", what), &[tag], &[pt.bits()])?;

        let cc = d_push(&mut cp, &m, ad_s, tag, idx)?;
        eq(&format!("classic push ciphertext, {}", what), &cs, &cc)?;
        let r: Result<(Vec<u8>, Tag), _> = pull_c.pull(&cc, ad_d);
        let (pm, pt) = must_ok(r, &format!("DryocStream::pull of the classic API's {}", what))?;
        eq(&format!("DryocStream::pull message, classic {}", what), &m, &pm)?;
        eq(&format!("tag reported by DryocStream::pull for the classic API's {}", what), &[tag], &[pt.bits()])?;

        let cd = must_ok(
            push.push_to_vec(&m, ad_d, Tag::from_bits_retain(tag)),
            &format!("DryocStream::push, {}", what),
        )?;
        match so::stream_pull(&mut sl, &cd, ad_s) {
            Some((pm, pt)) => {
                eq(&format!("libsodium pull of DryocStream's {}", what), &m, &pm)?;
                eq(&format!("tag reported by libsodium for DryocStream's {}", what), &[tag], &[pt])?;
            }
            None => return fail("Ok", "Err", format!("libsodium rejects DryocStream's {}", what)),
        }
        let (pm, pt) = must_ok(pull_d.pull_to_vec(&cd, ad_d), &format!("DryocStream::pull of DryocStream's {}", what))?;
        eq(&format!("DryocStream::pull message, DryocStream's {}", what), &m, &pm)?;
        eq(&format!("tag reported by DryocStream::pull for DryocStream's {}", what), &[tag], &[pt.bits()])?;
    }
    Ok(())
}

pub const C03: Registry = &[
    ("tag_bytes_object", tag_bytes_object),
    ("lockstep", lockstep),
    ("lockstep_object", lockstep_object),
    ("reject_then_continue", reject_then_continue),
];

pub fn c03(ctx: &mut Ctx) -> Search {
    let t = ctx.thorough;
    let mut dseed = 1u64;
    let mut mk = |ctx: &mut Ctx, ops: &[[u8; 5]], counter: Option<[u8; 4]>, object: bool| -> Search {
        let k = ctx.rng.arr::<32>();
        let header = ctx.rng.arr::<24>();
        dseed += 1;
        let flat: Vec<u8> = ops.iter().flatten().copied().collect();
        if object {
            ctx.run("lockstep_object", Input::new().b("k", &k).b("ops", &flat).u("dseed", dseed))
        } else {
            let mut inp = Input::new().b("k", &k).b("header", &header).b("ops", &flat).u("dseed", dseed);
            if let Some(c) = counter {
                inp = inp.b("counter", &c);
            }
            ctx.run("lockstep", inp)
        }
    };

    // 1. message length sweep (all residues mod 16 and mod 64), 8 pushes per
    //    stream, AD length and tag cycling
    let lens = lengths(t);
    for (ci, chunk) in lens.chunks(8).enumerate() {
        let ops: Vec<[u8; 5]> = chunk
            .iter()
            .enumerate()
            .map(|(j, l)| op(OP_PUSH, ((ci + j) % 4) as u8, (ci * 8 + j) % 21, *l))
            .collect();
        mk(ctx, &ops, None, false)?;
        mk(ctx, &ops, None, true)?;
    }
    // 2. AD length sweep 0..=20 and the None form, for two message lengths
    for mlen in [5usize, 64] {
        let mut ops: Vec<[u8; 5]> = (0..=20).map(|a| op(OP_PUSH, 0, a, mlen)).collect();
        ops.push(op(OP_PUSH_NOAD, 0, 0, mlen));
        ops.push(op(OP_PUSH, 1, 3, mlen));
        mk(ctx, &ops, None, false)?;
        mk(ctx, &ops, None, true)?;
    }
    // 3. every tag, explicit rekeys in between
    let ops = vec![
        op(OP_PUSH, 0, 0, 10),
        op(OP_REKEY, 0, 0, 0),
        op(OP_PUSH, 1, 1, 11),
        op(OP_PUSH, 2, 2, 12),
        op(OP_PUSH, 0, 3, 13),
        op(OP_REKEY, 0, 0, 0),
        op(OP_REKEY, 0, 0, 0),
        op(OP_PUSH, 3, 4, 14),
        op(OP_PUSH, 0, 5, 15),
        op(OP_PUSH_NOAD, 2, 0, 0),
        op(OP_PUSH, 0, 0, 0),
    ];
    mk(ctx, &ops, None, false)?;
    mk(ctx, &ops, None, true)?;
    // 4. tag bytes outside the named four (classic API takes any u8)
    let ops: Vec<[u8; 5]> = [4u8, 5, 6, 7, 0x10, 0x7f, 0x80, 0x82, 0xfd, 0xfe, 0xff]
        .iter()
        .map(|tg| op(OP_PUSH, *tg, 2, 20))
        .collect();
    mk(ctx, &ops, None, false)?;
    // 4b. all 256 tag bytes through the object API, both directions (one
    //     short stream per byte first, then streams carrying all of them)
    {
        let mut tseed = 5000u64;
        let (k, header) = (ctx.rng.arr::<32>(), ctx.rng.arr::<24>());
        let all: Vec<u8> = (0..=255u8).collect();
        for tg in all.iter().copied() {
            tseed += 1;
            ctx.run(
                "tag_bytes_object",
                Input::new().b("k", &k).b("header", &header).b("tags", &[tg, 0, tg]).u("dseed", tseed),
            )?;
        }
        tseed += 1;
        ctx.run(
            "tag_bytes_object",
            Input::new().b("k", &k).b("header", &header).b("tags", &all).u("dseed", tseed),
        )?;
        let rev: Vec<u8> = all.iter().rev().copied().collect();
        tseed += 1;
        ctx.run(
            "tag_bytes_object",
            Input::new().b("k", &k).b("header", &header).b("tags", &rev).u("dseed", tseed),
        )?;
    }
    // 5. counter values near the wrap (automatic rekey when it reaches 0)
    if probe_nonce_offset().is_some() {
        for start in [1u32, 0x7fff_ffff, 0xffff_fffe, 0xffff_ffff, 0x0000_ffff, 0x00ff_ffff] {
            let ops = vec![
                op(OP_PUSH, 0, 0, 7),
                op(OP_PUSH, 0, 4, 33),
                op(OP_PUSH, 1, 0, 0),
                op(OP_PUSH, 0, 17, 64),
                op(OP_PUSH, 2, 1, 5),
                op(OP_PUSH, 0, 0, 5),
            ];
            mk(ctx, &ops, Some(start.to_le_bytes()), false)?;
        }
    }
    // 6. random scripts
    let scripts = if t { 300 } else { 30 };
    for s in 0..scripts {
        let n = 1 + ctx.rng.below(12);
        let mut ops = Vec::new();
        for _ in 0..n {
            let r = ctx.rng.below(10);
            let kind = if r == 0 {
                OP_REKEY
            } else if r == 1 {
                OP_PUSH_NOAD
            } else {
                OP_PUSH
            };
            let mlen = if ctx.rng.below(8) == 0 { ctx.rng.below(1200) } else { ctx.rng.below(130) };
            ops.push(op(kind, ctx.rng.below(4) as u8, ctx.rng.below(21), mlen));
        }
        mk(ctx, &ops, None, s % 2 == 1)?;
    }
    // 7. rejected ciphertexts do not derail the stream
    let rounds = if t { 20 } else { 3 };
    for r in 0..rounds {
        for kind in 0..5u64 {
            let k = ctx.rng.arr::<32>();
            let header = ctx.rng.arr::<24>();
            ctx.run(
                "reject_then_continue",
                Input::new().b("k", &k).b("header", &header).u("dseed", 1000 + r).u("kind", kind),
            )?;
        }
    }
    Ok(())
}
