//! C04: every function that consumes attacker-supplied bytes returns Ok or
//! Err -- it never panics.  The case bodies simply call the function; the
//! runner turns a panic into a finding.  (The binary is built with
//! overflow-checks on, so arithmetic overflow inside dryoc also shows up as
//! a panic, exactly as in every debug build of the crate.)

use dryoc::classic::crypto_auth::crypto_auth_verify;
use dryoc::classic::crypto_box::*;
use dryoc::classic::crypto_onetimeauth::crypto_onetimeauth_verify;
use dryoc::classic::crypto_pwhash::{crypto_pwhash_str_needs_rehash, crypto_pwhash_str_verify};
use dryoc::classic::crypto_secretbox::*;
use dryoc::classic::crypto_secretstream_xchacha20poly1305 as ss;
use dryoc::classic::crypto_sign::{crypto_sign_open, crypto_sign_verify_detached};

use crate::polymath;
use crate::so;
use crate::util::*;

fn t_secretbox_open_easy(i: &Input) -> Outcome {
    let (k, n, x) = (i.arr::<32>("k"), i.arr::<24>("n"), i.get("x"));
    let mut m = vec![0u8; x.len().saturating_sub(16)];
    let _ = crypto_secretbox_open_easy(&mut m, x, &n, &k);
    let mut data = x.to_vec();
    let _ = crypto_secretbox_open_easy_inplace(&mut data, &n, &k);
    Ok(())
}

fn t_box_open_easy(i: &Input) -> Outcome {
    let (pk, sk, n, x) = (i.arr::<32>("pk"), i.arr::<32>("sk"), i.arr::<24>("n"), i.get("x"));
    let mut m = vec![0u8; x.len().saturating_sub(16)];
    let _ = crypto_box_open_easy(&mut m, x, &n, &pk, &sk);
    let mut data = x.to_vec();
    let _ = crypto_box_open_easy_inplace(&mut data, &n, &pk, &sk);
    Ok(())
}

fn t_seal_open(i: &Input) -> Outcome {
    let (pk, sk, x) = (i.arr::<32>("pk"), i.arr::<32>("sk"), i.get("x"));
    let mut m = vec![0u8; x.len().saturating_sub(48)];
    let _ = crypto_box_seal_open(&mut m, x, &pk, &sk);
    Ok(())
}

fn t_stream_pull(i: &Input) -> Outcome {
    let (k, header, x) = (i.arr::<32>("k"), i.arr::<24>("header"), i.get("x"));
    let mut st = ss::State::new();
    ss::crypto_secretstream_xchacha20poly1305_init_pull(&mut st, &header, &k);
    let mut m = vec![0u8; x.len().saturating_sub(17)];
    let mut tag = 0u8;
    let _ = ss::crypto_secretstream_xchacha20poly1305_pull(&mut st, &mut m, &mut tag, x, None);
    let _ = ss::crypto_secretstream_xchacha20poly1305_pull(&mut st, &mut m, &mut tag, x, Some(b"ad"));
    Ok(())
}

fn t_stream_pull_object(i: &Input) -> Outcome {
    use dryoc::dryocstream::{DryocStream, Header, Key, Tag};
    let (k, header, x) = (i.arr::<32>("k"), i.arr::<24>("header"), i.get("x").to_vec());
    let mut pull = DryocStream::init_pull(&Key::from(k), &Header::from(header));
    let _ = pull.pull_to_vec(&x, None);
    let r: Result<(Vec<u8>, Tag), _> = pull.pull(&x, Some(&b"ad".to_vec()));
    let _ = r;
    Ok(())
}

fn t_secretbox_from_bytes(i: &Input) -> Outcome {
    use dryoc::dryocsecretbox::{Key, Nonce, VecBox};
    let x = i.get("x");
    if let Ok(b) = VecBox::from_bytes(x) {
        let _ = b.decrypt_to_vec(&Nonce::from([1u8; 24]), &Key::from([2u8; 32]));
        let _ = b.to_vec();
    }
    Ok(())
}

fn t_box_from_bytes(i: &Input) -> Outcome {
    use dryoc::dryocbox::{KeyPair, Nonce, PublicKey, SecretKey, VecBox};
    let (pk, sk, x) = (i.arr::<32>("pk"), i.arr::<32>("sk"), i.get("x"));
    let (pk, sk) = (PublicKey::from(pk), SecretKey::from(sk));
    if let Ok(b) = VecBox::from_bytes(x) {
        let _ = b.decrypt_to_vec(&Nonce::from([1u8; 24]), &pk, &sk);
        let _ = b.to_vec();
    }
    if let Ok(b) = VecBox::from_sealed_bytes(x) {
        let _ = b.unseal_to_vec(&KeyPair {
            public_key: pk,
            secret_key: sk,
        });
        let _ = b.to_vec();
    }
    Ok(())
}

fn t_sign_open(i: &Input) -> Outcome {
    use dryoc::sign::{PublicKey, VecSignedMessage};
    let (pk, x) = (i.arr::<32>("pk"), i.get("x"));
    let mut m = vec![0u8; x.len().saturating_sub(64)];
    let _ = crypto_sign_open(&mut m, x, &pk);
    if let Ok(sm) = VecSignedMessage::from_bytes(x) {
        let _ = sm.verify(&PublicKey::from(pk));
        let _ = sm.to_vec();
    }
    Ok(())
}

fn t_sign_verify_detached(i: &Input) -> Outcome {
    let (sig, pk, x) = (i.arr::<64>("sig"), i.arr::<32>("pk"), i.get("x"));
    let _ = crypto_sign_verify_detached(&sig, x, &pk);
    Ok(())
}

fn t_mac_verify(i: &Input) -> Outcome {
    let (k, x) = (i.arr::<32>("k"), i.get("x"));
    let mac32 = i.arr::<32>("mac");
    let mac16: [u8; 16] = mac32[..16].try_into().unwrap();
    let _ = crypto_auth_verify(&mac32, x, &k);
    let _ = crypto_onetimeauth_verify(&mac16, x, &k);
    Ok(())
}

/// n authentic messages in a row pushed by libsodium and pulled by dryoc on one stream: no pull may panic.
fn t_stream_long_run(i: &Input) -> Outcome {
    let (k, header) = (i.arr::<32>("k"), i.arr::<24>("header"));
    let n = i.num("n") as usize;
    let mut sl = so::stream_init_pull(&header, &k); // same state as a push stream with this header
    let mut st = ss::State::new();
    ss::crypto_secretstream_xchacha20poly1305_init_pull(&mut st, &header, &k);
    for j in 0..n {
        let m = [j as u8; 3];
        let c = so::stream_push(&mut sl, &m, None, 0);
        let mut out = vec![0u8; 3];
        let mut tag = 0u8;
        let r = ss::crypto_secretstream_xchacha20poly1305_pull(&mut st, &mut out, &mut tag, &c, None);
        if r.is_err() || out != m {
            return fail("authentic message accepted", format!("{:?}", r.is_ok()), format!("message #{} of a long in-order run", j));
        }
    }
    Ok(())
}

/// Object-API MAC verification with a Vec-backed MAC of ANY length: must never panic, and must accept only the MAC of
/// exactly the right length (a correct MAC followed by extra bytes, or a prefix of it, is a different value).
fn t_mac_verify_object(i: &Input) -> Outcome {
    use dryoc::auth::Auth;
    use dryoc::onetimeauth::OnetimeAuth;
    let (k, x) = (i.arr::<32>("k"), i.get("x"));
    let len = i.num("len") as usize;
    // candidate = the correct MAC truncated / extended with zero bytes to `len`
    let good: Vec<u8> = Auth::compute_to_vec(dryoc::auth::Key::from(k), &x.to_vec());
    let mut cand = good.clone();
    cand.resize(len, 0);
    let r = Auth::compute_and_verify(&cand, dryoc::auth::Key::from(k), &x.to_vec());
    if r.is_ok() != (len == 32) {
        return fail(format!("Ok only for the 32-byte MAC (len {})", len), format!("{:?}", r.is_ok()), "Auth::compute_and_verify accept/reject decision for a MAC of this length");
    }
    let good1: Vec<u8> = OnetimeAuth::compute_to_vec(dryoc::onetimeauth::Key::from(k), &x.to_vec());
    let mut cand1 = good1.clone();
    cand1.resize(len, 0);
    let r1 = OnetimeAuth::compute_and_verify(&cand1, dryoc::onetimeauth::Key::from(k), &x.to_vec());
    if r1.is_ok() != (len == 16) {
        return fail(format!("Ok only for the 16-byte MAC (len {})", len), format!("{:?}", r1.is_ok()), "OnetimeAuth::compute_and_verify accept/reject decision for a MAC of this length");
    }
    // the incremental verifiers (new / update / verify), candidate held in a Vec and in a borrowed slice
    let split = x.len() / 2;
    let mut a = Auth::new(dryoc::auth::Key::from(k));
    a.update(&x[..split].to_vec());
    a.update(&x[split..].to_vec());
    let r = a.verify(&cand);
    if r.is_ok() != (len == 32) {
        return fail(format!("Ok only for the 32-byte MAC (len {})", len), format!("{:?}", r.is_ok()), "Auth::new/update/verify accept/reject decision for a Vec MAC of this length");
    }
    let mut a = Auth::new(dryoc::auth::Key::from(k));
    a.update(&x.to_vec());
    let r = a.verify(&cand.as_slice());
    if r.is_ok() != (len == 32) {
        return fail(format!("Ok only for the 32-byte MAC (len {})", len), format!("{:?}", r.is_ok()), "Auth::new/update/verify accept/reject decision for a &[u8] MAC of this length");
    }
    let mut a = OnetimeAuth::new(dryoc::onetimeauth::Key::from(k));
    a.update(&x[..split].to_vec());
    a.update(&x[split..].to_vec());
    let r = a.verify(&cand1);
    if r.is_ok() != (len == 16) {
        return fail(format!("Ok only for the 16-byte MAC (len {})", len), format!("{:?}", r.is_ok()), "OnetimeAuth::new/update/verify accept/reject decision for a Vec MAC of this length");
    }
    let mut a = OnetimeAuth::new(dryoc::onetimeauth::Key::from(k));
    a.update(&x.to_vec());
    let r = a.verify(&cand1.as_slice());
    if r.is_ok() != (len == 16) {
        return fail(format!("Ok only for the 16-byte MAC (len {})", len), format!("{:?}", r.is_ok()), "OnetimeAuth::new/update/verify accept/reject decision for a &[u8] MAC of this length");
    }
    Ok(())
}

/// An authentic message whose (encrypted) tag byte is `tag`, produced by the
/// classic push, pulled through the object API.
fn t_stream_tag_object(i: &Input) -> Outcome {
    use dryoc::dryocstream::{DryocStream, Header, Key};
    let (k, header, m) = (i.arr::<32>("k"), i.arr::<24>("header"), i.get("m"));
    let tag = i.num("tag") as u8;
    let mut st = ss::State::new();
    ss::crypto_secretstream_xchacha20poly1305_init_pull(&mut st, &header, &k);
    let mut c = vec![0u8; m.len() + 17];
    must_ok(
        ss::crypto_secretstream_xchacha20poly1305_push(&mut st, &mut c, m, None, tag),
        "classic push",
    )?;
    // libsodium accepts this message and reports the tag byte
    let mut sl = so::stream_init_pull(&header, &k);
    let oracle = so::stream_pull(&mut sl, &c, None);
    let mut pull = DryocStream::init_pull(&Key::from(k), &Header::from(header));
    let r = pull.pull_to_vec(&c, None); // a panic here is the finding
    if let (Some((pm, _)), Ok((dm, _))) = (&oracle, &r) {
        eq("message pulled through the object API", pm, dm)?;
    }
    Ok(())
}

fn as_str(i: &Input) -> String {
    // lossless for the generator's strings; replay gives the same bytes
    String::from_utf8_lossy(i.get("s")).into_owned()
}

fn t_pwhash_str_verify(i: &Input) -> Outcome {
    let s = as_str(i);
    let _ = crypto_pwhash_str_verify(&s, b"password");
    Ok(())
}

fn t_pwhash_str_needs_rehash(i: &Input) -> Outcome {
    let s = as_str(i);
    let _ = crypto_pwhash_str_needs_rehash(&s, 1, 8192);
    Ok(())
}

fn t_pwhash_from_string(i: &Input) -> Outcome {
    use dryoc::pwhash::VecPwHash;
    let s = as_str(i);
    if let Ok(p) = VecPwHash::from_string(&s) {
        let _ = p.verify(&b"password".to_vec());
        let _ = p.to_string();
    }
    Ok(())
}

/// s: a WELL-FORMED Argon2 string `$argon2id$v=19$m=<M>,t=<T>,p=1$<salt>$<hash>` whose memory parameter may be as large as
/// the format allows (M up to 2^32 - 1 KiB).  The string is only PARSED (nothing is hashed: that would need M KiB):
/// `crypto_pwhash_str_needs_rehash` decides as libsodium does, `PwHash::from_string` returns without panicking, and the
/// parsed configuration carries exactly 1024 * M bytes and T passes (seen through the serialised Config and through the
/// `to_string()` round trip).
fn t_pwhash_parse_costs(i: &Input) -> Outcome {
    use dryoc::pwhash::VecPwHash;
    let s = as_str(i);
    let num_after = |key: &str| -> u64 {
        let seg = s.split('$').find(|seg| seg.starts_with("m=")).unwrap_or_else(|| panic!("{} no parameter segment in '{}'", HARNESS, s));
        let item = seg.split(',').find(|it| it.starts_with(key)).unwrap_or_else(|| panic!("{} no {} in '{}'", HARNESS, key, s));
        item[key.len()..].parse::<u64>().unwrap_or_else(|_| panic!("{} bad number in '{}'", HARNESS, item))
    };
    let (m_kib, t) = (num_after("m="), num_after("t="));
    if m_kib > u32::MAX as u64 || t > u32::MAX as u64 {
        panic!("{} pwhash_parse_costs needs m and t that fit in 32 bits", HARNESS);
    }
    let mem = (m_kib * 1024) as usize;
    // libsodium must accept the string as well formed (harness check) ...
    if so::pwhash_str_needs_rehash(&s, t, mem) != Some(false) || so::pwhash_str_needs_rehash(&s, t + 1, mem) != Some(true) {
        panic!("{} libsodium does not read '{}' as m={} KiB, t={}", HARNESS, s, m_kib, t);
    }
    // ... and so must dryoc, with the same decisions
    for (ops, lim) in [(t, mem), (t + 1, mem), (t, mem - 1024), (t, 8192), (1, 8192)] {
        let want = so::pwhash_str_needs_rehash(&s, ops, lim);
        let got = crypto_pwhash_str_needs_rehash(&s, ops, lim).ok();
        if want != got {
            return fail(
                format!("{:?}", want),
                format!("{:?}", got),
                format!("crypto_pwhash_str_needs_rehash('{}', opslimit {}, memlimit {}) differs from libsodium (None = error)", s, ops, lim),
            );
        }
    }
    let p = must_ok(VecPwHash::from_string(&s), &format!("PwHash::from_string('{}')", s))?;
    let back = p.to_string();
    let (hash, _salt, config) = p.into_parts();
    let view = match serde_json::to_value(&config) {
        Ok(v) => v,
        Err(e) => panic!("{} cannot serialise Config: {}", HARNESS, e),
    };
    let field = |name: &str| -> u64 {
        match view.get(name).and_then(|v| v.as_u64()) {
            Some(v) => v,
            None => panic!("{} serialised Config has no numeric field {}: {}", HARNESS, name, view),
        }
    };
    for (name, want) in [("memlimit", mem as u64), ("opslimit", t), ("hash_length", hash.len() as u64)] {
        if field(name) != want {
            return fail(
                want.to_string(),
                field(name).to_string(),
                format!("PwHash::from_string('{}'): Config::{} of the parsed hash (string says m={} KiB, t={})", s, name, m_kib, t),
            );
        }
    }
    if back != s {
        return fail(s.clone(), back, "PwHash::from_string(s).to_string() does not reproduce the string");
    }
    Ok(())
}

// ---------------------------------------------------------------------
// Constructed inputs: the Poly1305 accumulator ends on p-2 .. 2^130+1 after the last block (in particular in
// [p, 2^130), where the final conditional subtraction of p is taken).  Random data reaches this with probability
// ~2^-128; whoever knows the one-time key (the sender of a box; any sender of a sealed box with a small-order
// ephemeral key) can aim at it.  The functions must return Ok or Err (a panic is turned into a finding by the
// runner) and the decision must be libsodium's.
// ---------------------------------------------------------------------

/// k (one-time key), x (message)
fn t_mac_verify_poly1305_edge(i: &Input) -> Outcome {
    use dryoc::onetimeauth::OnetimeAuth;
    let (k, x) = (i.arr::<32>("k"), i.get("x"));
    let tag = so::onetimeauth(x, &k);
    if !so::onetimeauth_verify(&tag, x, &k) {
        panic!("{} libsodium rejects its own one-time MAC", HARNESS);
    }
    let mut bad = tag;
    bad[0] ^= 1;
    for (name, mac) in [("authentic", tag), ("forged", bad)] {
        let want = so::onetimeauth_verify(&mac, x, &k);
        verdict(
            &format!("crypto_onetimeauth_verify ({} MAC)", name),
            want,
            crypto_onetimeauth_verify(&mac, x, &k).is_ok(),
        )?;
        verdict(
            &format!("OnetimeAuth::compute_and_verify ({} MAC)", name),
            want,
            OnetimeAuth::compute_and_verify(&mac, k, &x.to_vec()).is_ok(),
        )?;
        let cut = x.len().min(7);
        let mut st = OnetimeAuth::new(k);
        st.update(&x[..cut].to_vec());
        st.update(&x[cut..].to_vec());
        verdict(
            &format!("OnetimeAuth::new/update/update/verify ({} MAC)", name),
            want,
            st.verify(&mac).is_ok(),
        )?;
    }
    Ok(())
}

/// k, n, c = tag || body as presented
fn t_secretbox_open_poly1305_edge(i: &Input) -> Outcome {
    use dryoc::dryocsecretbox::{DryocSecretBox, Key, Mac, Nonce, VecBox};
    let (k, n, c) = (i.arr::<32>("k"), i.arr::<24>("n"), i.get("c"));
    if c.len() < 16 {
        panic!("{} c must hold a tag", HARNESS);
    }
    let oracle = so::secretbox_open_easy(c, &n, &k);
    let accept = oracle.is_some();
    let mlen = c.len() - 16;
    let mac: [u8; 16] = c[..16].try_into().unwrap();

    let mut out = vec![0u8; mlen];
    let r = crypto_secretbox_open_easy(&mut out, c, &n, &k);
    verdict("crypto_secretbox_open_easy", accept, r.is_ok())?;
    if let Some(p) = &oracle {
        eq("crypto_secretbox_open_easy plaintext", p, &out)?;
    }
    let mut out = vec![0u8; mlen];
    let r = crypto_secretbox_open_detached(&mut out, &mac, &c[16..], &n, &k);
    verdict("crypto_secretbox_open_detached", accept, r.is_ok())?;
    let mut data = c.to_vec();
    let r = crypto_secretbox_open_easy_inplace(&mut data, &n, &k);
    verdict("crypto_secretbox_open_easy_inplace", accept, r.is_ok())?;

    let r = VecBox::from_bytes(c).and_then(|b| b.decrypt_to_vec(&Nonce::from(n), &Key::from(k)));
    verdict("DryocSecretBox::from_bytes + decrypt_to_vec", accept, r.is_ok())?;
    if let (Some(p), Ok(q)) = (&oracle, &r) {
        eq("DryocSecretBox::decrypt_to_vec plaintext", p, q)?;
    }
    let b: DryocSecretBox<Mac, Vec<u8>> = must_ok(DryocSecretBox::from_bytes(c), "DryocSecretBox::from_bytes")?;
    let r: Result<Vec<u8>, _> = b.decrypt(&n, &k);
    verdict("DryocSecretBox::decrypt", accept, r.is_ok())
}

/// pk (sender public), sk (recipient secret), n, c = tag || body as presented
fn t_box_open_poly1305_edge(i: &Input) -> Outcome {
    use dryoc::dryocbox::{Nonce, PublicKey, SecretKey, VecBox};
    let (pk, sk, n, c) = (i.arr::<32>("pk"), i.arr::<32>("sk"), i.arr::<24>("n"), i.get("c"));
    if c.len() < 16 {
        panic!("{} c must hold a tag", HARNESS);
    }
    let oracle = so::box_open_easy(c, &n, &pk, &sk);
    let accept = oracle.is_some();
    let mlen = c.len() - 16;
    let mac: [u8; 16] = c[..16].try_into().unwrap();

    let mut out = vec![0u8; mlen];
    let r = crypto_box_open_easy(&mut out, c, &n, &pk, &sk);
    verdict("crypto_box_open_easy", accept, r.is_ok())?;
    if let Some(p) = &oracle {
        eq("crypto_box_open_easy plaintext", p, &out)?;
    }
    let mut out = vec![0u8; mlen];
    let r = crypto_box_open_detached(&mut out, &mac, &c[16..], &n, &pk, &sk);
    verdict("crypto_box_open_detached", accept, r.is_ok())?;
    let mut data = c.to_vec();
    let r = crypto_box_open_easy_inplace(&mut data, &n, &pk, &sk);
    verdict("crypto_box_open_easy_inplace", accept, r.is_ok())?;
    if let Some(key) = so::box_beforenm(&pk, &sk) {
        let mut out = vec![0u8; mlen];
        let r = crypto_box_open_detached_afternm(&mut out, &mac, &c[16..], &n, &key);
        verdict("crypto_box_open_detached_afternm", accept, r.is_ok())?;
    }
    let r = VecBox::from_bytes(c).and_then(|b| b.decrypt_to_vec(&Nonce::from(n), &PublicKey::from(pk), &SecretKey::from(sk)));
    verdict("DryocBox::from_bytes + decrypt_to_vec", accept, r.is_ok())
}

/// sk (recipient secret key), c = epk || tag || body as presented
fn t_seal_open_poly1305_edge(i: &Input) -> Outcome {
    use dryoc::dryocbox::{KeyPair, PublicKey, SecretKey, VecBox};
    let (sk, c) = (i.arr::<32>("sk"), i.get("c"));
    if c.len() < 48 {
        panic!("{} c must hold an ephemeral key and a tag", HARNESS);
    }
    let pk = so::scalarmult_base(&sk);
    let oracle = so::box_seal_open(c, &pk, &sk);
    let mut out = vec![0u8; c.len() - 48];
    let r = crypto_box_seal_open(&mut out, c, &pk, &sk); // a panic here is the finding
    let kp = KeyPair {
        public_key: PublicKey::from(pk),
        secret_key: SecretKey::from(sk),
    };
    let r2 = VecBox::from_sealed_bytes(c).and_then(|b| b.unseal_to_vec(&kp));
    // The decision is compared whenever libsodium opens the box.  With a small-order ephemeral key libsodium refuses
    // the key agreement itself (crypto_box_beforenm returns -1); dryoc's crypto_box_beforenm has no error path
    // (see curve.rs, `beforenm`), so for those boxes only totality is checked.
    if let Some(p) = &oracle {
        verdict("crypto_box_seal_open", true, r.is_ok())?;
        eq("crypto_box_seal_open plaintext", p, &out)?;
        verdict("DryocBox::from_sealed_bytes + unseal_to_vec", true, r2.is_ok())?;
    }
    Ok(())
}

pub const C04: Registry = &[
    ("mac_verify_poly1305_edge", t_mac_verify_poly1305_edge),
    ("secretbox_open_poly1305_edge", t_secretbox_open_poly1305_edge),
    ("box_open_poly1305_edge", t_box_open_poly1305_edge),
    ("seal_open_poly1305_edge", t_seal_open_poly1305_edge),
    ("secretbox_open_easy", t_secretbox_open_easy),
    ("box_open_easy", t_box_open_easy),
    ("seal_open", t_seal_open),
    ("stream_pull", t_stream_pull),
    ("stream_pull_object", t_stream_pull_object),
    ("secretbox_from_bytes", t_secretbox_from_bytes),
    ("box_from_bytes", t_box_from_bytes),
    ("sign_open", t_sign_open),
    ("sign_verify_detached", t_sign_verify_detached),
    ("mac_verify", t_mac_verify),
    ("mac_verify_object", t_mac_verify_object),
    ("stream_long_run", t_stream_long_run),
    ("stream_tag_object", t_stream_tag_object),
    ("pwhash_str_verify", t_pwhash_str_verify),
    ("pwhash_str_needs_rehash", t_pwhash_str_needs_rehash),
    ("pwhash_from_string", t_pwhash_from_string),
    ("pwhash_parse_costs", t_pwhash_parse_costs),
];

/// Keeps the password-hash strings cheap: any m= / t= number that parses as
/// u32 must be small.  Unparseable numbers are fine (the parser rejects them).
fn cheap(s: &str) -> bool {
    for (pfx, max) in [("m=", 4096u64), ("t=", 16u64)] {
        let mut rest = s;
        while let Some(p) = rest.find(pfx) {
            let tail = &rest[p + 2..];
            let digits: String = tail.chars().take_while(|c| c.is_ascii_digit()).collect();
            if let Ok(v) = digits.parse::<u64>() {
                if v <= u32::MAX as u64 && v > max {
                    return false;
                }
            }
            rest = tail;
        }
    }
    true
}

fn pwhash_strings(rng: &mut Rng, thorough: bool) -> Vec<String> {
    let salt = "c2FsdHNhbHRzYWx0c2FsdA"; // 16 bytes
    let hash = "aGFzaGhhc2hoYXNoaGFzaGhhc2hoYXNoaGFzaGhhc2g"; // 32 bytes
    let valid = so::pwhash_str(b"password", 1, 8192);
    let mut v: Vec<String> = vec![
        "".into(),
        "$".into(),
        "$$".into(),
        "$$$$$$$".into(),
        "argon2id".into(),
        "$argon2id".into(),
        "$argon2id$".into(),
        "$argon2i$".into(),
        "$argon2$v=19$m=8,t=1,p=1$c2FsdHNhbHQ$aGFzaA".into(),
        "$argon2d$v=19$m=8,t=1,p=1$c2FsdHNhbHQ$aGFzaA".into(),
        format!("$argon2i$v=19$m=8,t=3,p=1${}${}", salt, hash),
        format!("$argon2id$v=19$m=8,t=1,p=1${}${}", salt, hash),
        format!("$argon2id$v=16$m=8,t=1,p=1${}${}", salt, hash),
        format!("$argon2id$v=$m=8,t=1,p=1${}${}", salt, hash),
        format!("$argon2id$v=x$m=8,t=1,p=1${}${}", salt, hash),
        format!("$argon2id$v=-1$m=8,t=1,p=1${}${}", salt, hash),
        format!("$argon2id$v=99999999999$m=8,t=1,p=1${}${}", salt, hash),
        format!("$argon2id$m=8,t=1,p=1${}${}", salt, hash),
        format!("$argon2id$v=19$m=,t=,p=${}${}", salt, hash),
        format!("$argon2id$v=19$m=8,t=1${}${}", salt, hash),
        format!("$argon2id$v=19$m=8,t=1,p=0${}${}", salt, hash),
        format!("$argon2id$v=19$m=8,t=1,p=2${}${}", salt, hash),
        format!("$argon2id$v=19$m=8,t=1,p=4294967296${}${}", salt, hash),
        format!("$argon2id$v=19$m=0,t=1,p=1${}${}", salt, hash),
        format!("$argon2id$v=19$m=1,t=1,p=1${}${}", salt, hash),
        format!("$argon2id$v=19$m=7,t=1,p=1${}${}", salt, hash),
        format!("$argon2id$v=19$m=9,t=1,p=1${}${}", salt, hash),
        format!("$argon2id$v=19$m=8,t=0,p=1${}${}", salt, hash),
        format!("$argon2id$v=19$m=99999999999,t=1,p=1${}${}", salt, hash),
        format!("$argon2id$v=19$m=8,t=99999999999,p=1${}${}", salt, hash),
        format!("$argon2id$v=19$m=-8,t=-1,p=1${}${}", salt, hash),
        format!("$argon2id$v=19$t=1,m=8,p=1${}${}", salt, hash),
        format!("$argon2id$v=19$m=8,t=1,p=1,m=8${}${}", salt, hash),
        format!("$argon2id$v=19$ m=8, t=1, p=1${}${}", salt, hash),
        format!("$argon2id$v=19$m=8,t=1,p=1$${}", hash),
        format!("$argon2id$v=19$m=8,t=1,p=1$YQ${}", hash),
        format!("$argon2id$v=19$m=8,t=1,p=1$c2FsdHNhbA${}", hash),
        format!("$argon2id$v=19$m=8,t=1,p=1${}$", salt),
        format!("$argon2id$v=19$m=8,t=1,p=1${}", salt),
        format!("$argon2id$v=19$m=8,t=1,p=1${}$YQ", salt),
        format!("$argon2id$v=19$m=8,t=1,p=1${}$aGFzaGhhc2hoYXNoaGFzaA", salt),
        format!("$argon2id$v=19$m=8,t=1,p=1${}${}{}", salt, hash, hash),
        format!("$argon2id$v=19$m=8,t=1,p=1$!!!!${}", hash),
        format!("$argon2id$v=19$m=8,t=1,p=1${}$!!!!", salt),
        format!("$argon2id$v=19$m=8,t=1,p=1$c2FsdA==${}", hash),
        format!("$argon2id$v=19$m=8,t=1,p=1$s\u{e4}lt$h\u{e4}sh"),
        format!("$argon2id$v=19$m=8,t=1,p=1${}${}$", salt, hash),
        format!("$argon2id$v=19$m=8,t=1,p=1${}${}$extra$more", salt, hash),
        format!("$argon2id$v=19$m=8,t=1,p=1${}\0${}", salt, hash),
        format!("$argon2id$v=19$m=8,t=1,p=1${}${}", "A".repeat(1000), hash),
        format!("$argon2id$v=19$m=8,t=1,p=1${}${}", salt, "A".repeat(1000)),
        format!("$argon2id$argon2i$v=19$v=19$m=8,t=1,p=1${}${}", salt, hash),
        "$7$C6..../....SodiumChloride$kBGj9fHznVYFQMEn/qDCfrDevf9YDtcDdKvEqHJLV8D".into(),
        valid.clone(),
    ];
    // every prefix of a valid string
    for l in 0..valid.len() {
        v.push(valid[..l].to_string());
    }
    // single character replacements / deletions of a valid string
    let n = if thorough { 2000 } else { 200 };
    let alphabet: Vec<char> = "$,=0123456789abcxyzAZ+/ -\u{e9}".chars().collect();
    for _ in 0..n {
        let mut chars: Vec<char> = valid.chars().collect();
        let p = rng.below(chars.len());
        if rng.below(4) == 0 {
            chars.remove(p);
        } else {
            chars[p] = alphabet[rng.below(alphabet.len())];
        }
        v.push(chars.into_iter().collect());
    }
    v.extend(pwhash_param_segments(thorough).into_iter().enumerate().map(|(j, seg)| {
        let alg = if j % 5 == 4 { "argon2i" } else { "argon2id" };
        format!("${}$v=19${}${}${}", alg, seg, salt, hash)
    }));
    v.retain(|s| cheap(s));
    v
}

/// Parameter segments of a password-hash string in which each of the items `m=`, `t=`, `p=` (in every order) is, in turn,
/// well formed / not the start of a comma-separated item (prefix characters, missing or swapped separator) / without a value
/// / duplicated / malformed -- one item at a time, every pair of items, and (thorough) all three.
fn pwhash_param_segments(thorough: bool) -> Vec<String> {
    const NDEC: usize = 17;
    // (separator written before the item, item text)
    fn decorate(d: usize, key: char, val: &str, other: char) -> (&'static str, String) {
        let kv = format!("{}={}", key, val);
        match d {
            0 => (",", kv),
            1 => (",", format!("x{}", kv)),
            2 => (",", format!(" {}", kv)),
            3 => (",", format!("{}{}", key, kv)),
            4 => (",", format!("{}{}", other, kv)),
            5 => (",", format!("{}=", key)),
            6 => (",", kv.to_uppercase()),
            7 => ("", kv),
            8 => (";", kv),
            9 => (" ", kv),
            10 => (",,", kv),
            11 => (",", format!("{},{}", kv, kv)),
            12 => (",", format!("{}=={}", key, val)),
            13 => (",", format!("{}=+{}", key, val)),
            14 => (",", format!("{} ", kv)),
            15 => (",", format!("{}=-{}", key, val)),
            _ => (",", format!("{}={}x", key, val)),
        }
    }
    let orders: [[usize; 3]; 6] = [[0, 1, 2], [0, 2, 1], [1, 0, 2], [1, 2, 0], [2, 0, 1], [2, 1, 0]];
    let items: [(char, &str); 3] = [('m', "8"), ('t', "3"), ('p', "1")];
    let mut out = Vec::new();
    for order in orders {
        for d0 in 0..NDEC {
            for d1 in 0..NDEC {
                for d2 in 0..NDEC {
                    let ds = [d0, d1, d2];
                    let changed = ds.iter().filter(|d| **d != 0).count();
                    if changed == 3 && !thorough {
                        continue;
                    }
                    let mut seg = String::new();
                    for (pos, idx) in order.iter().enumerate() {
                        let (key, val) = items[*idx];
                        let other = items[(*idx + 1) % 3].0;
                        let (sep, text) = decorate(ds[pos], key, val, other);
                        // (the first item's separator is written only when it is not the plain comma)
                        if pos > 0 || ds[pos] >= 7 && ds[pos] <= 10 {
                            seg.push_str(sep);
                        }
                        seg.push_str(&text);
                    }
                    out.push(seg);
                }
            }
        }
    }
    out
}

/// Messages for the one-time key `polykey` whose final accumulator is p-2 .. 2^130+1 (see polymath.rs).
fn poly1305_edge_messages(rng: &mut Rng, polykey: &[u8; 32], thorough: bool) -> Vec<Vec<u8>> {
    let mut out = Vec::new();
    for (off, _) in polymath::FINAL_TARGETS {
        let shapes: &[(usize, usize)] = if thorough { &[(0, 16), (1, 16), (3, 16), (6, 16), (1, 15)] } else { &[(1, 16), (4, 16)] };
        for (nprefix, last_len) in shapes {
            if let Some(m) = polymath::message_with_final_accumulator(rng, polykey, *off, *nprefix, *last_len) {
                out.push(m);
            }
        }
    }
    out
}

/// tag || body, and the same with one bit of the tag / of the body flipped
fn edge_box_variants(polykey: &[u8; 32], body: &[u8]) -> Vec<Vec<u8>> {
    let tag = so::onetimeauth(body, polykey);
    let good = [&tag[..], body].concat();
    let mut bad_tag = good.clone();
    bad_tag[3] ^= 0x10;
    let mut v = vec![good.clone(), bad_tag];
    if !body.is_empty() {
        // (this moves the accumulator away from the edge again; kept as the plain tampered-body class)
        let mut bad_body = good;
        let last = bad_body.len() - 1;
        bad_body[last] ^= 0x01;
        v.push(bad_body);
    }
    v
}

fn c04_poly1305_edges(ctx: &mut Ctx) -> Search {
    let t = ctx.thorough;
    // --- one-time MAC verification: random keys, and the key class r = 1 (accumulator = plain sum of the blocks:
    // two all-0xff blocks give h = 2^130 - 2)
    let mut keys: Vec<[u8; 32]> = (0..if t { 12 } else { 3 }).map(|_| ctx.rng.arr::<32>()).collect();
    let mut r1 = [0u8; 32];
    r1[0] = 1;
    ctx.rng.fill(&mut r1[16..]);
    keys.push(r1);
    ctx.run("mac_verify_poly1305_edge", Input::new().b("k", &r1).b("x", &[0xffu8; 32]))?;
    ctx.run("mac_verify_poly1305_edge", Input::new().b("k", &r1).b("x", &[0xffu8; 16]))?;
    for k in &keys {
        for m in poly1305_edge_messages(&mut ctx.rng, k, t) {
            ctx.run("mac_verify_poly1305_edge", Input::new().b("k", k).b("x", &m))?;
        }
    }
    // --- secret box / box / sealed box: the one-time key is the first 32 bytes of the XSalsa20 keystream
    for _ in 0..(if t { 8 } else { 2 }) {
        let (k, n) = (ctx.rng.arr::<32>(), ctx.rng.arr::<24>());
        let polykey: [u8; 32] = so::stream_xsalsa20(32, &n, &k)[..32].try_into().unwrap();
        for body in poly1305_edge_messages(&mut ctx.rng, &polykey, t) {
            for c in edge_box_variants(&polykey, &body) {
                ctx.run("secretbox_open_poly1305_edge", Input::new().b("k", &k).b("n", &n).b("c", &c))?;
            }
        }

        let (ska, skb) = (ctx.rng.arr::<32>(), ctx.rng.arr::<32>());
        let pka = so::scalarmult_base(&ska);
        let shared = match so::box_beforenm(&pka, &skb) {
            Some(s) => s,
            None => continue,
        };
        let polykey: [u8; 32] = so::stream_xsalsa20(32, &n, &shared)[..32].try_into().unwrap();
        for body in poly1305_edge_messages(&mut ctx.rng, &polykey, t) {
            for c in edge_box_variants(&polykey, &body) {
                ctx.run("box_open_poly1305_edge", Input::new().b("pk", &pka).b("sk", &skb).b("n", &n).b("c", &c))?;
            }
        }

        // sealed box from an anonymous sender that uses a small-order ephemeral key (all-zero here): X25519 gives
        // the all-zero shared secret for every recipient, so the box key HSalsa20(0^32; 0^16) is a public constant
        let rsk = ctx.rng.arr::<32>();
        let rpk = so::scalarmult_base(&rsk);
        let epk = [0u8; 32];
        let key = so::hsalsa20(&[0u8; 16], &[0u8; 32], None);
        let nonce: [u8; 24] = so::generichash(24, &[&epk[..], &rpk[..]].concat(), &[])
            .expect("generichash(24)")
            .try_into()
            .unwrap();
        let polykey: [u8; 32] = so::stream_xsalsa20(32, &nonce, &key)[..32].try_into().unwrap();
        for body in poly1305_edge_messages(&mut ctx.rng, &polykey, t) {
            for c in edge_box_variants(&polykey, &body) {
                let sealed = [&epk[..], &c[..]].concat();
                ctx.run("seal_open_poly1305_edge", Input::new().b("sk", &rsk).b("c", &sealed))?;
            }
        }
    }
    Ok(())
}

pub fn c04(ctx: &mut Ctx) -> Search {
    let t = ctx.thorough;
    let maxlen = if t { 200 } else { 100 };

    let k = ctx.rng.arr::<32>();
    let n = ctx.rng.arr::<24>();
    let header = ctx.rng.arr::<24>();
    let sk = ctx.rng.arr::<32>();
    let pk = so::scalarmult_base(&sk);
    let (spk, ssk) = so::sign_seed_keypair(&ctx.rng.arr::<32>());

    // authentic material for the valid-prefix / valid-with-mutation classes
    let msg = ctx.rng.bytes(maxlen);
    let valid_secretbox = so::secretbox_easy(&msg, &n, &k);
    let valid_box = so::box_easy(&msg, &n, &pk, &sk).expect("honest keys");
    let valid_seal = so::box_seal(&msg, &pk);
    let mut st = so::stream_init_pull(&header, &k);
    let valid_stream = so::stream_push(&mut st, &msg, None, 0);
    let valid_signed = so::sign(&msg, &ssk);

    for len in 0..=maxlen {
        let random = ctx.rng.bytes(len);
        let mutated = |v: &[u8], rng: &mut Rng| -> Vec<u8> {
            let mut x = v[..len.min(v.len())].to_vec();
            if !x.is_empty() {
                let p = rng.below(x.len());
                x[p] ^= 1 << rng.below(8);
            }
            x
        };
        let classes: Vec<(&str, Vec<u8>)> = vec![("zeros", vec![0u8; len]), ("ff", vec![0xffu8; len]), ("random", random)];
        for (_, x) in &classes {
            ctx.run("secretbox_open_easy", Input::new().b("k", &k).b("n", &n).b("x", x))?;
            ctx.run("box_open_easy", Input::new().b("pk", &pk).b("sk", &sk).b("n", &n).b("x", x))?;
            ctx.run("seal_open", Input::new().b("pk", &pk).b("sk", &sk).b("x", x))?;
            ctx.run("stream_pull", Input::new().b("k", &k).b("header", &header).b("x", x))?;
            ctx.run("stream_pull_object", Input::new().b("k", &k).b("header", &header).b("x", x))?;
            ctx.run("secretbox_from_bytes", Input::new().b("x", x))?;
            ctx.run("box_from_bytes", Input::new().b("pk", &pk).b("sk", &sk).b("x", x))?;
            ctx.run("sign_open", Input::new().b("pk", &spk).b("x", x))?;
        }
        // valid prefix and valid-with-one-bit-flipped, per primitive
        for mutate in [false, true] {
            let pick = |v: &[u8], rng: &mut Rng| -> Vec<u8> {
                if mutate {
                    mutated(v, rng)
                } else {
                    v[..len.min(v.len())].to_vec()
                }
            };
            let x = pick(&valid_secretbox, &mut ctx.rng);
            ctx.run("secretbox_open_easy", Input::new().b("k", &k).b("n", &n).b("x", &x))?;
            ctx.run("secretbox_from_bytes", Input::new().b("x", &x))?;
            let x = pick(&valid_box, &mut ctx.rng);
            ctx.run("box_open_easy", Input::new().b("pk", &pk).b("sk", &sk).b("n", &n).b("x", &x))?;
            let x = pick(&valid_seal, &mut ctx.rng);
            ctx.run("seal_open", Input::new().b("pk", &pk).b("sk", &sk).b("x", &x))?;
            ctx.run("box_from_bytes", Input::new().b("pk", &pk).b("sk", &sk).b("x", &x))?;
            let x = pick(&valid_stream, &mut ctx.rng);
            ctx.run("stream_pull", Input::new().b("k", &k).b("header", &header).b("x", &x))?;
            ctx.run("stream_pull_object", Input::new().b("k", &k).b("header", &header).b("x", &x))?;
            let x = pick(&valid_signed, &mut ctx.rng);
            ctx.run("sign_open", Input::new().b("pk", &spk).b("x", &x))?;
        }
        // signature / MAC verification: fixed-size tag of each content class,
        // message of this length; public keys of each class too
        let x = ctx.rng.bytes(len);
        for fill in [0u8, 0xff, 0x5a] {
            let (sig, mac, pkx): ([u8; 64], [u8; 32], [u8; 32]) = if fill == 0x5a {
                (ctx.rng.arr(), ctx.rng.arr(), ctx.rng.arr())
            } else {
                ([fill; 64], [fill; 32], [fill; 32])
            };
            ctx.run("sign_verify_detached", Input::new().b("sig", &sig).b("pk", &pkx).b("x", &x))?;
            ctx.run("sign_verify_detached", Input::new().b("sig", &sig).b("pk", &spk).b("x", &x))?;
            ctx.run("sign_open", Input::new().b("pk", &pkx).b("x", &x))?;
            ctx.run("mac_verify", Input::new().b("k", &k).b("mac", &mac).b("x", &x))?;
        }
    }

    // a long run of authentic messages on one stream (the 32-bit counter's low byte passes 0xff)
    ctx.run("stream_long_run", Input::new().b("k", &k).b("header", &header).u("n", 300))?;

    // object-API MAC verification with Vec-backed MACs of every length
    for len in 0..=70u64 {
        let x = ctx.rng.bytes((len % 9) as usize);
        ctx.run("mac_verify_object", Input::new().b("k", &k).b("x", &x).u("len", len))?;
    }

    // authentic stream messages carrying every tag byte
    for tag in 0..=255u64 {
        let m = ctx.rng.bytes((tag % 5) as usize);
        ctx.run(
            "stream_tag_object",
            Input::new().b("k", &k).b("header", &header).b("m", &m).u("tag", tag),
        )?;
    }

    // password hash strings
    for s in pwhash_strings(&mut ctx.rng, t) {
        for case in ["pwhash_str_verify", "pwhash_str_needs_rehash", "pwhash_from_string"] {
            ctx.run(case, Input::new().b("s", s.as_bytes()))?;
        }
    }

    // well-formed strings with memory / pass parameters up to the 32-bit maximum: parsed only, never verified
    {
        use base64::Engine as _;
        let b64 = base64::engine::general_purpose::STANDARD_NO_PAD;
        let mut rng_p = Rng::new(0xC0477 + t as u64);
        let mut ms: Vec<u64> = vec![8, 65536, 1048576, 4194303, 4194304, 4194305, 8388608, 4294967295];
        let mut ts: Vec<u64> = vec![1, 3, 4294967294];
        if t {
            ms.extend_from_slice(&[9, 1000, 2097152, 4194306, 6291456, 2147483647, 2147483648, 4294967294]);
            ts.extend_from_slice(&[2, 65536, 2147483648]);
        }
        for (j, m) in ms.iter().enumerate() {
            for (k2, tc) in ts.iter().enumerate() {
                if !t && k2 > 0 && j % 3 != k2 % 3 {
                    continue;
                }
                // (libsodium only decodes strings shorter than crypto_pwhash_STRBYTES = 128 characters)
                let (salt_len, hash_len) = ([16usize, 8, 24][(j + k2) % 3], [32usize, 16, 24][(j + 2 * k2) % 3]);
                let (salt, hash) = (rng_p.bytes(salt_len), rng_p.bytes(hash_len));
                let alg = if *tc >= 3 && (j + k2) % 4 == 3 { "argon2i" } else { "argon2id" };
                let s = format!("${}$v=19$m={},t={},p=1${}${}", alg, m, tc, b64.encode(&salt), b64.encode(&hash));
                ctx.run("pwhash_parse_costs", Input::new().b("s", s.as_bytes()))?;
            }
        }
    }

    // well-formed strings whose salt / hash are SHORT (0..=20 bytes) with cheap costs: everything below Argon2's minimum
    // lengths must be refused by parameter validation, never reach an assertion of the hash core
    {
        use base64::Engine;
        let b64 = base64::engine::general_purpose::STANDARD_NO_PAD;
        for hl in 0..=20usize {
            for (sl, alg, tc) in [(16usize, "argon2id", 1u32), (8, "argon2id", 2), (16, "argon2i", 3)] {
                let (salt, hash) = (ctx.rng.bytes(sl), ctx.rng.bytes(hl));
                let s = format!("${}$v=19$m=8,t={},p=1${}${}", alg, tc, b64.encode(&salt), b64.encode(&hash));
                for case in ["pwhash_str_verify", "pwhash_from_string"] {
                    ctx.run(case, Input::new().b("s", s.as_bytes()))?;
                }
            }
        }
        for sl in 0..=20usize {
            let (salt, hash) = (ctx.rng.bytes(sl), ctx.rng.bytes(32));
            let s = format!("$argon2id$v=19$m=8,t=1,p=1${}${}", b64.encode(&salt), b64.encode(&hash));
            for case in ["pwhash_str_verify", "pwhash_from_string"] {
                ctx.run(case, Input::new().b("s", s.as_bytes()))?;
            }
        }
    }

    // constructed inputs: Poly1305 accumulator on its edge values
    c04_poly1305_edges(ctx)
}
