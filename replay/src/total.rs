//! C04: every function that consumes attacker-supplied bytes returns Ok or
//! Err -- it never panics.  The case bodies simply call the function; the
//! runner turns a panic into a finding.  (The binary is built with
//! overflow-checks on, so arithmetic overflow inside dryoc also shows up as
//! a panic, exactly as in every debug build of the crate.)

use dryoc::classic::crypto_auth::crypto_auth_verify;
use dryoc::classic::crypto_box::*;
use dryoc::classic::crypto_onetimeauth::crypto_onetimeauth_verify;
use dryoc::classic::crypto_pwhash::{crypto_pwhash_str_needs_rehash, crypto_pwhash_str_verify};
use dryoc::classic::crypto_secretbox::*;
use dryoc::classic::crypto_secretstream_xchacha20poly1305 as ss;
use dryoc::classic::crypto_sign::{crypto_sign_open, crypto_sign_verify_detached};

use crate::so;
use crate::util::*;

fn t_secretbox_open_easy(i: &Input) -> Outcome {
    let (k, n, x) = (i.arr::<32>("k"), i.arr::<24>("n"), i.get("x"));
    let mut m = vec![0u8; x.len().saturating_sub(16)];
    let _ = crypto_secretbox_open_easy(&mut m, x, &n, &k);
    let mut data = x.to_vec();
    let _ = crypto_secretbox_open_easy_inplace(&mut data, &n, &k);
    Ok(())
}

fn t_box_open_easy(i: &Input) -> Outcome {
    let (pk, sk, n, x) = (i.arr::<32>("pk"), i.arr::<32>("sk"), i.arr::<24>("n"), i.get("x"));
    let mut m = vec![0u8; x.len().saturating_sub(16)];
    let _ = crypto_box_open_easy(&mut m, x, &n, &pk, &sk);
    let mut data = x.to_vec();
    let _ = crypto_box_open_easy_inplace(&mut data, &n, &pk, &sk);
    Ok(())
}

fn t_seal_open(i: &Input) -> Outcome {
    let (pk, sk, x) = (i.arr::<32>("pk"), i.arr::<32>("sk"), i.get("x"));
    let mut m = vec![0u8; x.len().saturating_sub(48)];
    let _ = crypto_box_seal_open(&mut m, x, &pk, &sk);
    Ok(())
}

fn t_stream_pull(i: &Input) -> Outcome {
    let (k, header, x) = (i.arr::<32>("k"), i.arr::<24>("header"), i.get("x"));
    let mut st = ss::State::new();
    ss::crypto_secretstream_xchacha20poly1305_init_pull(&mut st, &header, &k);
    let mut m = vec![0u8; x.len().saturating_sub(17)];
    let mut tag = 0u8;
    let _ = ss::crypto_secretstream_xchacha20poly1305_pull(&mut st, &mut m, &mut tag, x, None);
    let _ = ss::crypto_secretstream_xchacha20poly1305_pull(&mut st, &mut m, &mut tag, x, Some(b"ad"));
    Ok(())
}

fn t_stream_pull_object(i: &Input) -> Outcome {
    use dryoc::dryocstream::{DryocStream, Header, Key, Tag};
    let (k, header, x) = (i.arr::<32>("k"), i.arr::<24>("header"), i.get("x").to_vec());
    let mut pull = DryocStream::init_pull(&Key::from(k), &Header::from(header));
    let _ = pull.pull_to_vec(&x, None);
    let r: Result<(Vec<u8>, Tag), _> = pull.pull(&x, Some(&b"ad".to_vec()));
    let _ = r;
    Ok(())
}

fn t_secretbox_from_bytes(i: &Input) -> Outcome {
    use dryoc::dryocsecretbox::{Key, Nonce, VecBox};
    let x = i.get("x");
    if let Ok(b) = VecBox::from_bytes(x) {
        let _ = b.decrypt_to_vec(&Nonce::from([1u8; 24]), &Key::from([2u8; 32]));
        let _ = b.to_vec();
    }
    Ok(())
}

fn t_box_from_bytes(i: &Input) -> Outcome {
    use dryoc::dryocbox::{KeyPair, Nonce, PublicKey, SecretKey, VecBox};
    let (pk, sk, x) = (i.arr::<32>("pk"), i.arr::<32>("sk"), i.get("x"));
    let (pk, sk) = (PublicKey::from(pk), SecretKey::from(sk));
    if let Ok(b) = VecBox::from_bytes(x) {
        let _ = b.decrypt_to_vec(&Nonce::from([1u8; 24]), &pk, &sk);
        let _ = b.to_vec();
    }
    if let Ok(b) = VecBox::from_sealed_bytes(x) {
        let _ = b.unseal_to_vec(&KeyPair {
            public_key: pk,
            secret_key: sk,
        });
        let _ = b.to_vec();
    }
    Ok(())
}

fn t_sign_open(i: &Input) -> Outcome {
    use dryoc::sign::{PublicKey, VecSignedMessage};
    let (pk, x) = (i.arr::<32>("pk"), i.get("x"));
    let mut m = vec![0u8; x.len().saturating_sub(64)];
    let _ = crypto_sign_open(&mut m, x, &pk);
    if let Ok(sm) = VecSignedMessage::from_bytes(x) {
        let _ = sm.verify(&PublicKey::from(pk));
        let _ = sm.to_vec();
    }
    Ok(())
}

fn t_sign_verify_detached(i: &Input) -> Outcome {
    let (sig, pk, x) = (i.arr::<64>("sig"), i.arr::<32>("pk"), i.get("x"));
    let _ = crypto_sign_verify_detached(&sig, x, &pk);
    Ok(())
}

fn t_mac_verify(i: &Input) -> Outcome {
    let (k, x) = (i.arr::<32>("k"), i.get("x"));
    let mac32 = i.arr::<32>("mac");
    let mac16: [u8; 16] = mac32[..16].try_into().unwrap();
    let _ = crypto_auth_verify(&mac32, x, &k);
    let _ = crypto_onetimeauth_verify(&mac16, x, &k);
    Ok(())
}

/// n authentic messages in a row pushed by libsodium and pulled by dryoc on one stream: no pull may panic.
fn t_stream_long_run(i: &Input) -> Outcome {
    let (k, header) = (i.arr::<32>("k"), i.arr::<24>("header"));
    let n = i.num("n") as usize;
    let mut sl = so::stream_init_pull(&header, &k); // same state as a push stream with this header
    let mut st = ss::State::new();
    ss::crypto_secretstream_xchacha20poly1305_init_pull(&mut st, &header, &k);
    for j in 0..n {
        let m = [j as u8; 3];
        let c = so::stream_push(&mut sl, &m, None, 0);
        let mut out = vec![0u8; 3];
        let mut tag = 0u8;
        let r = ss::crypto_secretstream_xchacha20poly1305_pull(&mut st, &mut out, &mut tag, &c, None);
        if r.is_err() || out != m {
            return fail("authentic message accepted", format!("{:?}", r.is_ok()), format!("message #{} of a long in-order run", j));
        }
    }
    Ok(())
}

/// Object-API MAC verification with a Vec-backed MAC of ANY length: must never panic, and must accept only the MAC of
/// exactly the right length (a correct MAC followed by extra bytes, or a prefix of it, is a different value).
fn t_mac_verify_object(i: &Input) -> Outcome {
    use dryoc::auth::Auth;
    use dryoc::onetimeauth::OnetimeAuth;
    let (k, x) = (i.arr::<32>("k"), i.get("x"));
    let len = i.num("len") as usize;
    // candidate = the correct MAC truncated / extended with zero bytes to `len`
    let good: Vec<u8> = Auth::compute_to_vec(dryoc::auth::Key::from(k), &x.to_vec());
    let mut cand = good.clone();
    cand.resize(len, 0);
    let r = Auth::compute_and_verify(&cand, dryoc::auth::Key::from(k), &x.to_vec());
    if r.is_ok() != (len == 32) {
        return fail(format!("Ok only for the 32-byte MAC (len {})", len), format!("{:?}", r.is_ok()), "Auth::compute_and_verify accept/reject decision for a MAC of this length");
    }
    let good1: Vec<u8> = OnetimeAuth::compute_to_vec(dryoc::onetimeauth::Key::from(k), &x.to_vec());
    let mut cand1 = good1.clone();
    cand1.resize(len, 0);
    let r1 = OnetimeAuth::compute_and_verify(&cand1, dryoc::onetimeauth::Key::from(k), &x.to_vec());
    if r1.is_ok() != (len == 16) {
        return fail(format!("Ok only for the 16-byte MAC (len {})", len), format!("{:?}", r1.is_ok()), "OnetimeAuth::compute_and_verify accept/reject decision for a MAC of this length");
    }
    Ok(())
}

/// An authentic message whose (encrypted) tag byte is `tag`, produced by the
/// classic push, pulled through the object API.
fn t_stream_tag_object(i: &Input) -> Outcome {
    use dryoc::dryocstream::{DryocStream, Header, Key};
    let (k, header, m) = (i.arr::<32>("k"), i.arr::<24>("header"), i.get("m"));
    let tag = i.num("tag") as u8;
    let mut st = ss::State::new();
    ss::crypto_secretstream_xchacha20poly1305_init_pull(&mut st, &header, &k);
    let mut c = vec![0u8; m.len() + 17];
    must_ok(
        ss::crypto_secretstream_xchacha20poly1305_push(&mut st, &mut c, m, None, tag),
        "classic push",
    )?;
    // libsodium accepts this message and reports the tag byte
    let mut sl = so::stream_init_pull(&header, &k);
    let oracle = so::stream_pull(&mut sl, &c, None);
    let mut pull = DryocStream::init_pull(&Key::from(k), &Header::from(header));
    let r = pull.pull_to_vec(&c, None); // a panic here is the finding
    if let (Some((pm, _)), Ok((dm, _))) = (&oracle, &r) {
        eq("message pulled through the object API", pm, dm)?;
    }
    Ok(())
}

fn as_str(i: &Input) -> String {
    // lossless for the generator's strings; replay gives the same bytes
    String::from_utf8_lossy(i.get("s")).into_owned()
}

fn t_pwhash_str_verify(i: &Input) -> Outcome {
    let s = as_str(i);
    let _ = crypto_pwhash_str_verify(&s, b"password");
    Ok(())
}

fn t_pwhash_str_needs_rehash(i: &Input) -> Outcome {
    let s = as_str(i);
    let _ = crypto_pwhash_str_needs_rehash(&s, 1, 8192);
    Ok(())
}

fn t_pwhash_from_string(i: &Input) -> Outcome {
    use dryoc::pwhash::VecPwHash;
    let s = as_str(i);
    if let Ok(p) = VecPwHash::from_string(&s) {
        let _ = p.verify(&b"password".to_vec());
        let _ = p.to_string();
    }
    Ok(())
}

pub const C04: Registry = &[
    ("secretbox_open_easy", t_secretbox_open_easy),
    ("box_open_easy", t_box_open_easy),
    ("seal_open", t_seal_open),
    ("stream_pull", t_stream_pull),
    ("stream_pull_object", t_stream_pull_object),
    ("secretbox_from_bytes", t_secretbox_from_bytes),
    ("box_from_bytes", t_box_from_bytes),
    ("sign_open", t_sign_open),
    ("sign_verify_detached", t_sign_verify_detached),
    ("mac_verify", t_mac_verify),
    ("mac_verify_object", t_mac_verify_object),
    ("stream_long_run", t_stream_long_run),
    ("stream_tag_object", t_stream_tag_object),
    ("pwhash_str_verify", t_pwhash_str_verify),
    ("pwhash_str_needs_rehash", t_pwhash_str_needs_rehash),
    ("pwhash_from_string", t_pwhash_from_string),
];

/// Keeps the password-hash strings cheap: any m= / t= number that parses as
/// u32 must be small.  Unparseable numbers are fine (the parser rejects them).
fn cheap(s: &str) -> bool {
    for (pfx, max) in [("m=", 4096u64), ("t=", 16u64)] {
        let mut rest = s;
        while let Some(p) = rest.find(pfx) {
            let tail = &rest[p + 2..];
            let digits: String = tail.chars().take_while(|c| c.is_ascii_digit()).collect();
            if let Ok(v) = digits.parse::<u64>() {
                if v <= u32::MAX as u64 && v > max {
                    return false;
                }
            }
            rest = tail;
        }
    }
    true
}

fn pwhash_strings(rng: &mut Rng, thorough: bool) -> Vec<String> {
    let salt = "c2FsdHNhbHRzYWx0c2FsdA"; // 16 bytes
    let hash = "aGFzaGhhc2hoYXNoaGFzaGhhc2hoYXNoaGFzaGhhc2g"; // 32 bytes
    let valid = so::pwhash_str(b"password", 1, 8192);
    let mut v: Vec<String> = vec![
        "".into(),
        "$".into(),
        "$$".into(),
        "$$$$$$$".into(),
        "argon2id".into(),
        "$argon2id".into(),
        "$argon2id$".into(),
        "$argon2i$".into(),
        "$argon2$v=19$m=8,t=1,p=1$c2FsdHNhbHQ$aGFzaA".into(),
        "$argon2d$v=19$m=8,t=1,p=1$c2FsdHNhbHQ$aGFzaA".into(),
        format!("$argon2i$v=19$m=8,t=3,p=1${}${}", salt, hash),
        format!("$argon2id$v=19$m=8,t=1,p=1${}${}", salt, hash),
        format!("$argon2id$v=16$m=8,t=1,p=1${}${}", salt, hash),
        format!("$argon2id$v=$m=8,t=1,p=1${}${}", salt, hash),
        format!("$argon2id$v=x$m=8,t=1,p=1${}${}", salt, hash),
        format!("$argon2id$v=-1$m=8,t=1,p=1${}${}", salt, hash),
        format!("$argon2id$v=99999999999$m=8,t=1,p=1${}${}", salt, hash),
        format!("$argon2id$m=8,t=1,p=1${}${}", salt, hash),
        format!("$argon2id$v=19$m=,t=,p=${}${}", salt, hash),
        format!("$argon2id$v=19$m=8,t=1${}${}", salt, hash),
        format!("$argon2id$v=19$m=8,t=1,p=0${}${}", salt, hash),
        format!("$argon2id$v=19$m=8,t=1,p=2${}${}", salt, hash),
        format!("$argon2id$v=19$m=8,t=1,p=4294967296${}${}", salt, hash),
        format!("$argon2id$v=19$m=0,t=1,p=1${}${}", salt, hash),
        format!("$argon2id$v=19$m=1,t=1,p=1${}${}", salt, hash),
        format!("$argon2id$v=19$m=7,t=1,p=1${}${}", salt, hash),
        format!("$argon2id$v=19$m=9,t=1,p=1${}${}", salt, hash),
        format!("$argon2id$v=19$m=8,t=0,p=1${}${}", salt, hash),
        format!("$argon2id$v=19$m=99999999999,t=1,p=1${}${}", salt, hash),
        format!("$argon2id$v=19$m=8,t=99999999999,p=1${}${}", salt, hash),
        format!("$argon2id$v=19$m=-8,t=-1,p=1${}${}", salt, hash),
        format!("$argon2id$v=19$t=1,m=8,p=1${}${}", salt, hash),
        format!("$argon2id$v=19$m=8,t=1,p=1,m=8${}${}", salt, hash),
        format!("$argon2id$v=19$ m=8, t=1, p=1${}${}", salt, hash),
        format!("$argon2id$v=19$m=8,t=1,p=1$${}", hash),
        format!("$argon2id$v=19$m=8,t=1,p=1$YQ${}", hash),
        format!("$argon2id$v=19$m=8,t=1,p=1$c2FsdHNhbA${}", hash),
        format!("$argon2id$v=19$m=8,t=1,p=1${}$", salt),
        format!("$argon2id$v=19$m=8,t=1,p=1${}", salt),
        format!("$argon2id$v=19$m=8,t=1,p=1${}$YQ", salt),
        format!("$argon2id$v=19$m=8,t=1,p=1${}$aGFzaGhhc2hoYXNoaGFzaA", salt),
        format!("$argon2id$v=19$m=8,t=1,p=1${}${}{}", salt, hash, hash),
        format!("$argon2id$v=19$m=8,t=1,p=1$!!!!${}", hash),
        format!("$argon2id$v=19$m=8,t=1,p=1${}$!!!!", salt),
        format!("$argon2id$v=19$m=8,t=1,p=1$c2FsdA==${}", hash),
        format!("$argon2id$v=19$m=8,t=1,p=1$s\u{e4}lt$h\u{e4}sh"),
        format!("$argon2id$v=19$m=8,t=1,p=1${}${}$", salt, hash),
        format!("$argon2id$v=19$m=8,t=1,p=1${}${}$extra$more", salt, hash),
        format!("$argon2id$v=19$m=8,t=1,p=1${}\0${}", salt, hash),
        format!("$argon2id$v=19$m=8,t=1,p=1${}${}", "A".repeat(1000), hash),
        format!("$argon2id$v=19$m=8,t=1,p=1${}${}", salt, "A".repeat(1000)),
        format!("$argon2id$argon2i$v=19$v=19$m=8,t=1,p=1${}${}", salt, hash),
        "$7$C6..../....SodiumChloride$kBGj9fHznVYFQMEn/qDCfrDevf9YDtcDdKvEqHJLV8D".into(),
        valid.clone(),
    ];
    // every prefix of a valid string
    for l in 0..valid.len() {
        v.push(valid[..l].to_string());
    }
    // single character replacements / deletions of a valid string
    let n = if thorough { 2000 } else { 200 };
    let alphabet: Vec<char> = "$,=0123456789abcxyzAZ+/ -\u{e9}".chars().collect();
    for _ in 0..n {
        let mut chars: Vec<char> = valid.chars().collect();
        let p = rng.below(chars.len());
        if rng.below(4) == 0 {
            chars.remove(p);
        } else {
            chars[p] = alphabet[rng.below(alphabet.len())];
        }
        v.push(chars.into_iter().collect());
    }
    v.retain(|s| cheap(s));
    v
}

pub fn c04(ctx: &mut Ctx) -> Search {
    let t = ctx.thorough;
    let maxlen = if t { 200 } else { 100 };

    let k = ctx.rng.arr::<32>();
    let n = ctx.rng.arr::<24>();
    let header = ctx.rng.arr::<24>();
    let sk = ctx.rng.arr::<32>();
    let pk = so::scalarmult_base(&sk);
    let (spk, ssk) = so::sign_seed_keypair(&ctx.rng.arr::<32>());

    // authentic material for the valid-prefix / valid-with-mutation classes
    let msg = ctx.rng.bytes(maxlen);
    let valid_secretbox = so::secretbox_easy(&msg, &n, &k);
    let valid_box = so::box_easy(&msg, &n, &pk, &sk).expect("honest keys");
    let valid_seal = so::box_seal(&msg, &pk);
    let mut st = so::stream_init_pull(&header, &k);
    let valid_stream = so::stream_push(&mut st, &msg, None, 0);
    let valid_signed = so::sign(&msg, &ssk);

    for len in 0..=maxlen {
        let random = ctx.rng.bytes(len);
        let mutated = |v: &[u8], rng: &mut Rng| -> Vec<u8> {
            let mut x = v[..len.min(v.len())].to_vec();
            if !x.is_empty() {
                let p = rng.below(x.len());
                x[p] ^= 1 << rng.below(8);
            }
            x
        };
        let classes: Vec<(&str, Vec<u8>)> = vec![("zeros", vec![0u8; len]), ("ff", vec![0xffu8; len]), ("random", random)];
        for (_, x) in &classes {
            ctx.run("secretbox_open_easy", Input::new().b("k", &k).b("n", &n).b("x", x))?;
            ctx.run("box_open_easy", Input::new().b("pk", &pk).b("sk", &sk).b("n", &n).b("x", x))?;
            ctx.run("seal_open", Input::new().b("pk", &pk).b("sk", &sk).b("x", x))?;
            ctx.run("stream_pull", Input::new().b("k", &k).b("header", &header).b("x", x))?;
            ctx.run("stream_pull_object", Input::new().b("k", &k).b("header", &header).b("x", x))?;
            ctx.run("secretbox_from_bytes", Input::new().b("x", x))?;
            ctx.run("box_from_bytes", Input::new().b("pk", &pk).b("sk", &sk).b("x", x))?;
            ctx.run("sign_open", Input::new().b("pk", &spk).b("x", x))?;
        }
        // valid prefix and valid-with-one-bit-flipped, per primitive
        for mutate in [false, true] {
            let pick = |v: &[u8], rng: &mut Rng| -> Vec<u8> {
                if mutate {
                    mutated(v, rng)
                } else {
                    v[..len.min(v.len())].to_vec()
                }
            };
            let x = pick(&valid_secretbox, &mut ctx.rng);
            ctx.run("secretbox_open_easy", Input::new().b("k", &k).b("n", &n).b("x", &x))?;
            ctx.run("secretbox_from_bytes", Input::new().b("x", &x))?;
            let x = pick(&valid_box, &mut ctx.rng);
            ctx.run("box_open_easy", Input::new().b("pk", &pk).b("sk", &sk).b("n", &n).b("x", &x))?;
            let x = pick(&valid_seal, &mut ctx.rng);
            ctx.run("seal_open", Input::new().b("pk", &pk).b("sk", &sk).b("x", &x))?;
            ctx.run("box_from_bytes", Input::new().b("pk", &pk).b("sk", &sk).b("x", &x))?;
            let x = pick(&valid_stream, &mut ctx.rng);
            ctx.run("stream_pull", Input::new().b("k", &k).b("header", &header).b("x", &x))?;
            ctx.run("stream_pull_object", Input::new().b("k", &k).b("header", &header).b("x", &x))?;
            let x = pick(&valid_signed, &mut ctx.rng);
            ctx.run("sign_open", Input::new().b("pk", &spk).b("x", &x))?;
        }
        // signature / MAC verification: fixed-size tag of each content class,
        // message of this length; public keys of each class too
        let x = ctx.rng.bytes(len);
        for fill in [0u8, 0xff, 0x5a] {
            let (sig, mac, pkx): ([u8; 64], [u8; 32], [u8; 32]) = if fill == 0x5a {
                (ctx.rng.arr(), ctx.rng.arr(), ctx.rng.arr())
            } else {
                ([fill; 64], [fill; 32], [fill; 32])
            };
            ctx.run("sign_verify_detached", Input::new().b("sig", &sig).b("pk", &pkx).b("x", &x))?;
            ctx.run("sign_verify_detached", Input::new().b("sig", &sig).b("pk", &spk).b("x", &x))?;
            ctx.run("sign_open", Input::new().b("pk", &pkx).b("x", &x))?;
            ctx.run("mac_verify", Input::new().b("k", &k).b("mac", &mac).b("x", &x))?;
        }
    }

    // a long run of authentic messages on one stream (the 32-bit counter's low byte passes 0xff)
    ctx.run("stream_long_run", Input::new().b("k", &k).b("header", &header).u("n", 300))?;

    // object-API MAC verification with Vec-backed MACs of every length
    for len in 0..=70u64 {
        let x = ctx.rng.bytes((len % 9) as usize);
        ctx.run("mac_verify_object", Input::new().b("k", &k).b("x", &x).u("len", len))?;
    }

    // authentic stream messages carrying every tag byte
    for tag in 0..=255u64 {
        let m = ctx.rng.bytes((tag % 5) as usize);
        ctx.run(
            "stream_tag_object",
            Input::new().b("k", &k).b("header", &header).b("m", &m).u("tag", tag),
        )?;
    }

    // password hash strings
    for s in pwhash_strings(&mut ctx.rng, t) {
        for case in ["pwhash_str_verify", "pwhash_str_needs_rehash", "pwhash_from_string"] {
            ctx.run(case, Input::new().b("s", s.as_bytes()))?;
        }
    }
    Ok(())
}
