//! Small shared helpers: PRNG, hex, named inputs, case runner, panic capture.

use std::cell::RefCell;
use std::panic::{catch_unwind, AssertUnwindSafe};

/// Marker prefix for panics raised by the harness itself (bad replay input).
pub const HARNESS: &str = "HARNESS:";

// ---------------------------------------------------------------- PRNG ----

/// xorshift64* -- the only source of test data (never the OS RNG).
#[derive(Clone)]
pub struct Rng(u64);

impl Rng {
    pub fn new(seed: u64) -> Self {
        // splitmix64 step so that small seeds give well mixed states
        let mut z = seed.wrapping_add(0x9E37_79B9_7F4A_7C15);
        z = (z ^ (z >> 30)).wrapping_mul(0xBF58_476D_1CE4_E5B9);
        z = (z ^ (z >> 27)).wrapping_mul(0x94D0_49BB_1331_11EB);
        z ^= z >> 31;
        if z == 0 {
            z = 0x1234_5678_9ABC_DEF1;
        }
        Rng(z)
    }

    pub fn next(&mut self) -> u64 {
        let mut x = self.0;
        x ^= x >> 12;
        x ^= x << 25;
        x ^= x >> 27;
        self.0 = x;
        x.wrapping_mul(0x2545_F491_4F6C_DD1D)
    }

    pub fn fill(&mut self, out: &mut [u8]) {
        for chunk in out.chunks_mut(8) {
            let v = self.next().to_le_bytes();
            chunk.copy_from_slice(&v[..chunk.len()]);
        }
    }

    pub fn bytes(&mut self, n: usize) -> Vec<u8> {
        let mut v = vec![0u8; n];
        self.fill(&mut v);
        v
    }

    pub fn arr<const N: usize>(&mut self) -> [u8; N] {
        let mut a = [0u8; N];
        self.fill(&mut a);
        a
    }

    pub fn below(&mut self, n: usize) -> usize {
        (self.next() % (n as u64)) as usize
    }
}

// ----------------------------------------------------------------- hex ----

pub fn hex(b: &[u8]) -> String {
    const T: &[u8; 16] = b"0123456789abcdef";
    let mut s = String::with_capacity(b.len() * 2);
    for x in b {
        s.push(T[(x >> 4) as usize] as char);
        s.push(T[(x & 15) as usize] as char);
    }
    s
}

pub fn unhex(s: &str) -> Option<Vec<u8>> {
    let s = s.as_bytes();
    if s.len() % 2 != 0 {
        return None;
    }
    let nib = |c: u8| -> Option<u8> {
        match c {
            b'0'..=b'9' => Some(c - b'0'),
            b'a'..=b'f' => Some(c - b'a' + 10),
            b'A'..=b'F' => Some(c - b'A' + 10),
            _ => None,
        }
    };
    let mut v = Vec::with_capacity(s.len() / 2);
    for p in s.chunks(2) {
        v.push((nib(p[0])? << 4) | nib(p[1])?);
    }
    Some(v)
}

// -------------------------------------------------------------- inputs ----

/// Ordered list of named byte strings: the complete input of one case.
/// Integers are stored as minimal big-endian byte strings.
#[derive(Clone, Default)]
pub struct Input(pub Vec<(String, Vec<u8>)>);

impl Input {
    pub fn new() -> Self {
        Input(Vec::new())
    }

    pub fn b(mut self, name: &str, v: &[u8]) -> Self {
        self.0.push((name.to_string(), v.to_vec()));
        self
    }

    pub fn u(mut self, name: &str, v: u64) -> Self {
        let be = v.to_be_bytes();
        let skip = be.iter().take_while(|x| **x == 0).count().min(7);
        self.0.push((name.to_string(), be[skip..].to_vec()));
        self
    }

    pub fn has(&self, name: &str) -> bool {
        self.0.iter().any(|(n, _)| n == name)
    }

    pub fn get(&self, name: &str) -> &[u8] {
        match self.0.iter().find(|(n, _)| n == name) {
            Some((_, v)) => v,
            None => panic!("{} missing input '{}'", HARNESS, name),
        }
    }

    pub fn arr<const N: usize>(&self, name: &str) -> [u8; N] {
        let v = self.get(name);
        if v.len() != N {
            panic!(
                "{} input '{}' must be {} bytes, got {}",
                HARNESS,
                name,
                N,
                v.len()
            );
        }
        let mut a = [0u8; N];
        a.copy_from_slice(v);
        a
    }

    pub fn num(&self, name: &str) -> u64 {
        let v = self.get(name);
        if v.len() > 8 {
            panic!("{} input '{}' is not a u64", HARNESS, name);
        }
        v.iter().fold(0u64, |a, x| (a << 8) | *x as u64)
    }

    pub fn to_json(&self) -> serde_json::Value {
        let mut m = serde_json::Map::new();
        for (n, v) in &self.0 {
            m.insert(n.clone(), serde_json::Value::String(hex(v)));
        }
        serde_json::Value::Object(m)
    }

    pub fn to_args(&self) -> String {
        self.0
            .iter()
            .map(|(n, v)| format!("{}={}", n, hex(v)))
            .collect::<Vec<_>>()
            .join(" ")
    }
}

// ------------------------------------------------------------ outcomes ----

pub struct Fail {
    pub expected: String,
    pub actual: String,
    pub detail: String,
}

pub type Outcome = Result<(), Fail>;

pub fn fail<T>(expected: impl Into<String>, actual: impl Into<String>, detail: impl Into<String>) -> Result<T, Fail> {
    Err(Fail {
        expected: expected.into(),
        actual: actual.into(),
        detail: detail.into(),
    })
}

/// Byte-for-byte comparison; `what` names the value being compared.
pub fn eq(what: &str, expected: &[u8], actual: &[u8]) -> Outcome {
    if expected == actual {
        Ok(())
    } else {
        fail(hex(expected), hex(actual), format!("{} differs", what))
    }
}

/// dryoc returned Err where the property demands success.
pub fn must_ok<T, E: std::fmt::Debug>(r: Result<T, E>, what: &str) -> Result<T, Fail> {
    match r {
        Ok(v) => Ok(v),
        Err(e) => fail("Ok", format!("Err({:?})", e), format!("{} returned Err", what)),
    }
}

/// dryoc returned Ok where the property demands rejection.
pub fn must_err<T, E>(r: Result<T, E>, what: &str) -> Outcome {
    match r {
        Ok(_) => fail("Err", "Ok", format!("{} accepted input that must be rejected", what)),
        Err(_) => Ok(()),
    }
}

/// Accept/reject decision must equal the oracle's.
pub fn verdict(what: &str, oracle_accepts: bool, dryoc_accepts: bool) -> Outcome {
    if oracle_accepts == dryoc_accepts {
        Ok(())
    } else {
        let s = |b: bool| if b { "Ok" } else { "Err" };
        fail(
            s(oracle_accepts),
            s(dryoc_accepts),
            format!("{}: accept/reject decision differs from libsodium", what),
        )
    }
}

// -------------------------------------------------------- panic capture ----

thread_local! {
    static LAST_PANIC: RefCell<Option<String>> = const { RefCell::new(None) };
}

pub fn install_silent_panic_hook() {
    std::panic::set_hook(Box::new(|info| {
        let msg = if let Some(s) = info.payload().downcast_ref::<&str>() {
            s.to_string()
        } else if let Some(s) = info.payload().downcast_ref::<String>() {
            s.clone()
        } else {
            "<non-string panic payload>".to_string()
        };
        let loc = info
            .location()
            .map(|l| format!(" at {}:{}", l.file(), l.line()))
            .unwrap_or_default();
        LAST_PANIC.with(|p| *p.borrow_mut() = Some(format!("{}{}", msg, loc)));
    }));
}

/// Runs `f`; a panic is turned into `Err(message)`.
pub fn catch<T>(f: impl FnOnce() -> T) -> Result<T, String> {
    LAST_PANIC.with(|p| *p.borrow_mut() = None);
    match catch_unwind(AssertUnwindSafe(f)) {
        Ok(v) => Ok(v),
        Err(payload) => Err(LAST_PANIC.with(|p| p.borrow_mut().take()).unwrap_or_else(|| {
            // resume_unwind does not go through the hook
            if let Some(s) = payload.downcast_ref::<String>() {
                s.clone()
            } else if let Some(s) = payload.downcast_ref::<&str>() {
                s.to_string()
            } else {
                "<panic>".to_string()
            }
        })),
    }
}

// --------------------------------------------------------- case runner ----

pub type CaseFn = fn(&Input) -> Outcome;
pub type Registry = &'static [(&'static str, CaseFn)];

pub struct Found {
    pub case: String,
    pub input: Input,
    pub fail: Fail,
}

pub struct Ctx {
    pub thorough: bool,
    pub rng: Rng,
    pub cases_run: u64,
    pub registry: Registry,
    pub trace: bool,
    /// `--all`: keep searching after a failure and remember the first
    /// witness of every failing case name (with a count).
    pub collect_all: bool,
    pub failures: Vec<(Box<Found>, u64)>,
}

/// Executes one case with panic capture.  Harness errors are re-raised.
pub fn run_case(f: CaseFn, input: &Input) -> Outcome {
    match catch(|| f(input)) {
        Ok(o) => o,
        Err(msg) => {
            if msg.starts_with(HARNESS) {
                // not a finding: propagate as a harness/usage error
                std::panic::resume_unwind(Box::new(msg));
            }
            let note = if msg.contains("overflow") {
                " [witness is built with overflow-checks=on, as every debug build of dryoc is]"
            } else {
                ""
            };
            fail("no panic (Ok or Err)", "panic", format!("panicked: {}{}", msg, note))
        }
    }
}

impl Ctx {
    pub fn lookup(&self, case: &str) -> Option<CaseFn> {
        self.registry.iter().find(|(n, _)| *n == case).map(|(_, f)| *f)
    }

    /// Runs one directed case; `Err(Found)` stops the search.
    pub fn run(&mut self, case: &str, input: Input) -> Result<(), Box<Found>> {
        let f = match self.lookup(case) {
            Some(f) => f,
            None => panic!("{} case '{}' not registered", HARNESS, case),
        };
        self.cases_run += 1;
        if self.trace {
            // lets run_witness.py name the case when the process dies hard
            // (abort / segfault cannot be caught in-process)
            eprintln!("TRACE {} --input {}", case, input.to_args());
        }
        match run_case(f, &input) {
            Ok(()) => Ok(()),
            Err(fail) => {
                let found = Box::new(Found {
                    case: case.to_string(),
                    input,
                    fail,
                });
                if !self.collect_all {
                    return Err(found);
                }
                match self.failures.iter_mut().find(|(f, _)| f.case == found.case) {
                    Some((_, n)) => *n += 1,
                    None => self.failures.push((found, 1)),
                }
                Ok(())
            }
        }
    }
}

pub type Search = Result<(), Box<Found>>;

/// Message / input lengths every sweep uses.
pub fn lengths(thorough: bool) -> Vec<usize> {
    let mut v: Vec<usize> = (0..=80).collect();
    // multi-KiB lengths as well: a size-dependent code path (chunking, buffering thresholds) is a realistic place for a defect
    v.extend_from_slice(&[127, 128, 129, 255, 256, 257, 1000, 4095, 4096, 4097, 8192, 16389, 65536]);
    if thorough {
        v.extend_from_slice(&[81, 95, 96, 97, 191, 192, 193, 511, 512, 513, 1023, 1024, 1025, 2048, 12288, 32768, 131075]);
    }
    v
}
