#!/bin/bash
# Run once after a fresh restore (offline): builds the third-party dependency rlibs with Verus' pinned
# toolchain into /verif/cache/vdeps (keyed by the hash of /repo/Cargo.lock + Cargo.toml) and the replay crate's
# dependencies. The dryoc crate itself is never cached: every check re-snapshots /repo/src.
set -e
cd "$(dirname "$(readlink -f "$0")")"
export CARGO_NET_OFFLINE=true
python3 - <<'PY'
import sys, os
sys.path.insert(0, 'tools')
import engine
engine.ensure_deps()
print('dependency rlibs ready in', engine.VDEPS)
PY
if [ -x replay/build.sh ]; then replay/build.sh; fi
