#!/bin/bash
# Run once after a fresh restore (offline): builds the third-party dependency rlibs with Verus' pinned
# toolchain into /verif/cache/vdeps (keyed by the hash of /repo/Cargo.lock + Cargo.toml) and the replay crate's
# dependencies. The dryoc crate itself is never cached: every check re-snapshots /repo/src.
set -e
cd "$(dirname "$(readlink -f "$0")")"
export CARGO_NET_OFFLINE=true
python3 - <<'PY'
import sys, os
sys.path.insert(0, 'tools')
import engine
engine.ensure_deps()
print('dependency rlibs ready in', engine.VDEPS)
PY
if [ -x replay/build.sh ]; then replay/build.sh; fi
# second flavour of the witness binary (nightly-only containers of dryoc; used by the `serde` configuration)
VERIF_WITNESS_FLAVOUR=nightly python3 replay/run_witness.py C16 --tier quick >/dev/null 2>&1 || true
VERIF_WITNESS_FLAVOUR=simd python3 replay/run_witness.py C12 --tier quick >/dev/null 2>&1 || true
# warm the Kani build cache (dependency artefacts only; every check re-snapshots the crate itself)
python3 - <<'PY'
import sys
sys.path.insert(0, 'tools')
import engine
for u in engine.kani_units():
    if u.get('mode', 'always') != 'always' and u['name'] != 'vk_pad16':
        continue   # stand-by units run only when needed (one cheap one is run here to compile Kani's dependencies)
    r = engine.run_kani(u)
    print('kani warm-up', u['name'], r['verdict'], '%.0fs' % r['wall_s'])
PY
