//@ props=C01,C05,C06,C13
//! Assumed contracts on curve25519-dalek 4.1.3 (third-party, not verified). Each shim's body is the
//! original call (rule R2); its `ensures` is the assumption.
use vstd::prelude::*;
use crate::verif_spec::*;
use crate::spec_curve::*;

verus! {

#[verifier::external_type_specification]
#[verifier::external_body]
pub struct ExScalar(curve25519_dalek::scalar::Scalar);

#[verifier::external_type_specification]
pub struct ExMontgomeryPoint(curve25519_dalek::montgomery::MontgomeryPoint);

/// group order L = 2^252 + 27742317777372353535851937790883648493
pub open spec fn ed25519_l() -> nat {
    0x1000_0000_0000_0000_0000_0000_0000_0000nat * 0x1000_0000_0000_0000_0000_0000_0000_0000nat / 16
        + 27742317777372353535851937790883648493nat
}

/// canonical integer value of a dalek Scalar (always < L)
pub uninterp spec fn scalar_val(s: &curve25519_dalek::scalar::Scalar) -> nat;

/// R2 shim for `Scalar::from_bytes_mod_order(bytes)`: value = le(bytes) mod L
#[verifier::external_body]
pub fn shim_scalar_from_bytes_mod_order(bytes: [u8; 32]) -> (s: curve25519_dalek::scalar::Scalar)
    ensures
        scalar_val(&s) == le_nat(bytes@) % ed25519_l(),
{
    curve25519_dalek::scalar::Scalar::from_bytes_mod_order(bytes)
}

/// R2 shim for `(ED25519_BASEPOINT_TABLE * &sk).to_montgomery()`: the Montgomery u-coordinate of sk·B
/// (ASSUMED equal to the RFC 7748 ladder on the integer sk and u = 9)
#[verifier::external_body]
pub fn shim_basepoint_mul_to_montgomery(sk: &curve25519_dalek::scalar::Scalar) -> (p: curve25519_dalek::montgomery::MontgomeryPoint)
    ensures
        p.0@ == x25519_ladder(scalar_val(sk), basepoint9()),
{
    (curve25519_dalek::constants::ED25519_BASEPOINT_TABLE * sk).to_montgomery()
}

/// R2 shim for `scalar * montgomery_point`: ladder on the scalar's canonical representative
#[verifier::external_body]
pub fn shim_scalar_mul_montgomery(sk: curve25519_dalek::scalar::Scalar, p: curve25519_dalek::montgomery::MontgomeryPoint) -> (q: curve25519_dalek::montgomery::MontgomeryPoint)
    ensures
        q.0@ == x25519_ladder(scalar_val(&sk), p.0@),
{
    sk * p
}

/// R2 shim for `MontgomeryPoint(p).mul_clamped(n)`: RFC 7748 X25519 (clamps n, ladder on that integer)
#[verifier::external_body]
pub fn shim_mont_mul_clamped(p: curve25519_dalek::montgomery::MontgomeryPoint, n: [u8; 32]) -> (q: curve25519_dalek::montgomery::MontgomeryPoint)
    ensures
        q.0@ == x25519(n@, p.0@),
{
    p.mul_clamped(n)
}

/// R2 shim for `point.as_bytes()`
#[verifier::external_body]
pub fn shim_mont_as_bytes(p: &curve25519_dalek::montgomery::MontgomeryPoint) -> (r: &[u8; 32])
    ensures
        r@ == p.0@,
{
    p.as_bytes()
}

/// Curve fact (assumed): the base point u=9 has prime order L, so the ladder on it depends on k mod L only.
pub broadcast axiom fn axiom_ladder_base_mod_l(k: nat)
    ensures
        #[trigger] x25519_ladder(k % ed25519_l(), basepoint9()) == x25519_ladder(k, basepoint9()),
;

} // verus!
