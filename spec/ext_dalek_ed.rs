//@ props=C04,C06,C08,C13,C16
//! Assumed contracts on curve25519-dalek 4.1.3's *Edwards* side (third-party, not verified), over an ABSTRACT
//! group: `EdPoint` is an opaque ghost type, the group operations are uninterpreted. Inherent dalek methods get an
//! `assume_specification`; trait-operator overloads (`*`, `+`, unary `-`, `==`, `zeroize`, `From<CtOption>`) and
//! calls whose generic/`?`-conversion machinery Verus cannot ingest get a monomorphic R2 shim whose body is the
//! original expression. Every `ensures` below is an assumption.
use vstd::prelude::*;
use crate::verif_spec::*;
use crate::spec_curve::*;
use crate::ext_dalek::*;
use crate::verif_types::BytesSpec;

verus! {

#[verifier::external_type_specification]
#[verifier::external_body]
pub struct ExEdwardsPoint(curve25519_dalek::edwards::EdwardsPoint);

/// transparent: `CompressedEdwardsY(pub [u8; 32])`
#[verifier::external_type_specification]
pub struct ExCompressedEdwardsY(curve25519_dalek::edwards::CompressedEdwardsY);

// ---- the abstract group -------------------------------------------------------------------------
/// an element of the Ed25519 curve group E(F_p) (order 8·L), opaque
#[verifier::external_body]
pub struct EdPoint {
    _opaque: (),
}

/// the group element represented by a dalek EdwardsPoint (projective representation forgotten)
pub uninterp spec fn ed_view(p: &curve25519_dalek::edwards::EdwardsPoint) -> EdPoint;

/// [k]B for the RFC 8032 base point B
pub uninterp spec fn ed_basemul(k: nat) -> EdPoint;

/// [k]P
pub uninterp spec fn ed_mul(k: nat, p: EdPoint) -> EdPoint;

/// P + Q
pub uninterp spec fn ed_add(p: EdPoint, q: EdPoint) -> EdPoint;

/// -P
pub uninterp spec fn ed_neg(p: EdPoint) -> EdPoint;

/// RFC 8032 §5.1.2 encoding (canonical, 32 bytes)
pub uninterp spec fn ed_compress(p: EdPoint) -> Seq<u8>;

/// dalek's decoder `CompressedEdwardsY::decompress`: RFC 8032 §5.1.3 decoding EXCEPT that it is lenient: a
/// non-canonical y (>= p) is reduced and "x = 0 with sign bit 1" is accepted (assumption A-NONCANON of DESIGN.md).
pub uninterp spec fn ed_decompress(enc: Seq<u8>) -> Option<EdPoint>;

/// the point has order 1, 2, 4 or 8
pub uninterp spec fn ed_small_order(p: EdPoint) -> bool;

/// birational map to the Montgomery curve: encoding of u = (1+y)/(1-y), 32 bytes
pub uninterp spec fn ed_to_montgomery(p: EdPoint) -> Seq<u8>;

pub broadcast axiom fn axiom_ed_compress_len(p: EdPoint)
    ensures
        #[trigger] ed_compress(p).len() == 32,
;

/// Curve fact (assumed): B has prime order L
pub broadcast axiom fn axiom_ed_basemul_mod_l(k: nat)
    ensures
        #[trigger] ed_basemul(k % ed25519_l()) == ed_basemul(k),
;

/// Curve fact (assumed): decoding the canonical encoding gives the point back
pub broadcast axiom fn axiom_ed_decompress_compress(p: EdPoint)
    ensures
        #[trigger] ed_decompress(ed_compress(p)) == Some(p),
;

/// Curve fact (assumed): the Montgomery u-coordinate of [k]B is the RFC 7748 ladder on (k, 9)
/// (same assumption as `shim_basepoint_mul_to_montgomery` in ext_dalek.rs)
pub broadcast axiom fn axiom_ed_basemul_to_montgomery(k: nat)
    ensures
        #[trigger] ed_to_montgomery(ed_basemul(k)) == x25519_ladder(k, basepoint9()),
;

// ---- group laws (assumed curve facts; used ONLY by the theorem `lemma_honest_signature_verifies`, not by any contract)
/// [a+b]B = [a]B + [b]B
pub axiom fn axiom_ed_basemul_add(a: nat, b: nat)
    ensures
        ed_basemul(a + b) == ed_add(ed_basemul(a), ed_basemul(b)),
;

/// [k](-[a]B) = -[k*a]B
pub axiom fn axiom_ed_mul_neg_basemul(k: nat, a: nat)
    ensures
        ed_mul(k, ed_neg(ed_basemul(a))) == ed_neg(ed_basemul(k * a)),
;

/// abelian group: -P + (Q + P) = Q
pub axiom fn axiom_ed_cancel(p: EdPoint, q: EdPoint)
    ensures
        ed_add(ed_neg(p), ed_add(q, p)) == q,
;

/// B generates the prime-order subgroup: [k]B has small order (is the identity) iff L | k
pub axiom fn axiom_ed_basemul_small_order(k: nat)
    ensures
        ed_small_order(ed_basemul(k)) <==> k % ed25519_l() == 0,
;

// ---- Scalar ---------------------------------------------------------------------------------------
/// `Scalar::from_bytes_mod_order_wide(&b)`: value = le(b) mod L
pub assume_specification[ curve25519_dalek::scalar::Scalar::from_bytes_mod_order_wide ](input: &[u8; 64]) -> (s: curve25519_dalek::scalar::Scalar)
    ensures
        scalar_val(&s) == le_nat(input@) % ed25519_l(),
;

/// `Scalar::as_bytes()`: the 32-byte little-endian canonical representative
pub assume_specification[ curve25519_dalek::scalar::Scalar::as_bytes ](s: &curve25519_dalek::scalar::Scalar) -> (r: &[u8; 32])
    ensures
        r@ == nat_to_le(scalar_val(s), 32),
;

/// R2 shim for `Option::<Scalar>::from(Scalar::from_canonical_bytes(b))` (dalek returns subtle::CtOption):
/// Some(s) with value le(b) iff le(b) < L
#[verifier::external_body]
pub fn shim_scalar_from_canonical_bytes(bytes: [u8; 32]) -> (r: Option<curve25519_dalek::scalar::Scalar>)
    ensures
        r.is_some() <==> le_nat(bytes@) < ed25519_l(),
        r.is_some() ==> scalar_val(&r.unwrap()) == le_nat(bytes@),
{
    Option::<curve25519_dalek::scalar::Scalar>::from(curve25519_dalek::scalar::Scalar::from_canonical_bytes(bytes))
}

/// R2 shim for `a * b` on scalars: product mod L
#[verifier::external_body]
pub fn shim_scalar_mul(a: curve25519_dalek::scalar::Scalar, b: curve25519_dalek::scalar::Scalar) -> (s: curve25519_dalek::scalar::Scalar)
    ensures
        scalar_val(&s) == (scalar_val(&a) * scalar_val(&b)) % ed25519_l(),
{
    a * b
}

/// R2 shim for `a + b` on scalars: sum mod L
#[verifier::external_body]
pub fn shim_scalar_add(a: curve25519_dalek::scalar::Scalar, b: curve25519_dalek::scalar::Scalar) -> (s: curve25519_dalek::scalar::Scalar)
    ensures
        scalar_val(&s) == (scalar_val(&a) + scalar_val(&b)) % ed25519_l(),
{
    a + b
}

/// R2 shim for `scalar.zeroize()` (no functional contract: the value is dead afterwards)
#[verifier::external_body]
pub fn shim_scalar_zeroize(s: &mut curve25519_dalek::scalar::Scalar) {
    use zeroize::Zeroize;
    s.zeroize()
}

// ---- Edwards points -------------------------------------------------------------------------------
/// R2 shim for `ED25519_BASEPOINT_TABLE * &s`: [s]B on the scalar's canonical value
#[verifier::external_body]
pub fn shim_ed_basepoint_mul(s: &curve25519_dalek::scalar::Scalar) -> (p: curve25519_dalek::edwards::EdwardsPoint)
    ensures
        ed_view(&p) == ed_basemul(scalar_val(s)),
{
    curve25519_dalek::constants::ED25519_BASEPOINT_TABLE * s
}

pub assume_specification[ curve25519_dalek::edwards::EdwardsPoint::compress ](p: &curve25519_dalek::edwards::EdwardsPoint) -> (c: curve25519_dalek::edwards::CompressedEdwardsY)
    ensures
        c.0@ == ed_compress(ed_view(p)),
;

pub assume_specification[ curve25519_dalek::edwards::CompressedEdwardsY::as_bytes ](c: &curve25519_dalek::edwards::CompressedEdwardsY) -> (r: &[u8; 32])
    ensures
        r@ == c.0@,
;

pub assume_specification[ curve25519_dalek::edwards::CompressedEdwardsY::decompress ](c: &curve25519_dalek::edwards::CompressedEdwardsY) -> (r: Option<curve25519_dalek::edwards::EdwardsPoint>)
    ensures
        r.is_some() <==> ed_decompress(c.0@).is_some(),
        r.is_some() ==> ed_view(&r.unwrap()) == ed_decompress(c.0@).unwrap(),
;

pub assume_specification[ curve25519_dalek::edwards::EdwardsPoint::is_small_order ](p: &curve25519_dalek::edwards::EdwardsPoint) -> (r: bool)
    ensures
        r == ed_small_order(ed_view(p)),
;

pub assume_specification[ curve25519_dalek::edwards::EdwardsPoint::to_montgomery ](p: &curve25519_dalek::edwards::EdwardsPoint) -> (m: curve25519_dalek::montgomery::MontgomeryPoint)
    ensures
        m.0@ == ed_to_montgomery(ed_view(p)),
;

/// `EdwardsPoint::vartime_double_scalar_mul_basepoint(a, A, b)` = [a]A + [b]B
pub assume_specification[ curve25519_dalek::edwards::EdwardsPoint::vartime_double_scalar_mul_basepoint ](
    a: &curve25519_dalek::scalar::Scalar,
    big_a: &curve25519_dalek::edwards::EdwardsPoint,
    b: &curve25519_dalek::scalar::Scalar,
) -> (p: curve25519_dalek::edwards::EdwardsPoint)
    ensures
        ed_view(&p) == ed_add(ed_mul(scalar_val(a), ed_view(big_a)), ed_basemul(scalar_val(b))),
;

/// R2 shim for unary `-p`
#[verifier::external_body]
pub fn shim_ed_neg(p: curve25519_dalek::edwards::EdwardsPoint) -> (q: curve25519_dalek::edwards::EdwardsPoint)
    ensures
        ed_view(&q) == ed_neg(ed_view(&p)),
{
    -p
}

/// R2 shim for `p == q` (dalek: constant-time projective equality = equality of group elements)
#[verifier::external_body]
pub fn shim_ed_eq(p: &curve25519_dalek::edwards::EdwardsPoint, q: &curve25519_dalek::edwards::EdwardsPoint) -> (r: bool)
    ensures
        r == (ed_view(p) == ed_view(q)),
{
    p == q
}

/// R2 shim for `CompressedEdwardsY::from_slice(s)?` (the `?` converts TryFromSliceError into dryoc's Error with
/// `From`, which Verus cannot ingest): Ok iff the slice has 32 bytes
#[verifier::external_body]
pub fn shim_compressed_from_slice(s: &[u8]) -> (r: Result<curve25519_dalek::edwards::CompressedEdwardsY, crate::error::Error>)
    ensures
        r.is_ok() <==> s@.len() == 32,
        r.is_ok() ==> r.unwrap().0@ == s@,
{
    Ok(curve25519_dalek::edwards::CompressedEdwardsY::from_slice(s)?)
}

// ---- std conversions without a vstd specification ------------------------------------------------
/// R2 shim for `<&[u8; 32]>::try_from(s).map_err(|_| dryoc_error!(..))`: Ok iff s has 32 bytes
#[verifier::external_body]
pub fn shim_slice_as_array32(s: &[u8]) -> (r: Result<&[u8; 32], crate::error::Error>)
    ensures
        r.is_ok() <==> s@.len() == 32,
        r.is_ok() ==> r.unwrap()@ == s@,
{
    <&[u8; 32]>::try_from(s).map_err(|_| crate::verif_extern::mk_error())
}

/// R2 shim for `<&[u8; 64]>::try_from(s).unwrap()` (panics unless s has 64 bytes)
#[verifier::external_body]
pub fn shim_slice_as_array64(s: &[u8]) -> (r: &[u8; 64])
    requires
        s@.len() == 64,
    ensures
        r@ == s@,
{
    <&[u8; 64]>::try_from(s).unwrap()
}

/// R2 shim for `<&mut [u8; 64]>::try_from(s).unwrap()` (panics unless s has 64 bytes)
#[verifier::external_body]
pub fn shim_slice_as_array64_mut(s: &mut [u8]) -> (r: &mut [u8; 64])
    requires
        old(s)@.len() == 64,
    ensures
        r@ == old(s)@,
        final(s)@ == final(r)@,
{
    <&mut [u8; 64]>::try_from(s).unwrap()
}

/// R2 shim for `Vec::from(slice)` (std `impl From<&[T]> for Vec<T>`: a copy of the slice)
#[verifier::external_body]
pub fn shim_vec_from_slice(s: &[u8]) -> (v: Vec<u8>)
    ensures
        v@ == s@,
{
    Vec::from(s)
}

// ---- dryoc container trait `ResizableBytes` --------------------------------------------------------
/// R2 shim for `data.resize(new_len, value)` through dryoc's trait `ResizableBytes`. The trait has no `Bytes`
/// supertrait, so no trait-level contract can relate it to `bview()`; ASSUMED here for every implementor: afterwards
/// the container holds exactly `new_len` bytes (dryoc's impls for Vec<u8> / HeapBytes forward to std `Vec::resize`).
#[verifier::external_body]
pub fn shim_bytes_resize<B: crate::types::Bytes + crate::types::ResizableBytes>(data: &mut B, new_len: usize, value: u8)
    ensures
        final(data).bview().len() == new_len,
{
    data.resize(new_len, value)
}

} // verus!
