//@ props=C14,C19
//! ASSUMED contracts of the operating-system interface used by src/protected.rs (libc crate, unix branch)
//! and of the few std items without a vstd specification.  Every item in this file is an ASSUMPTION.
//! None of the libc contracts promises success: a call may always be refused.
use vstd::prelude::*;
use crate::spec_protected::*;

verus! {

// ---- types -----------------------------------------------------------------------------------------------
#[verifier::external_type_specification]
#[verifier::external_body]
pub struct ExIoError(std::io::Error);

#[verifier::external_type_specification]
#[verifier::external_body]
pub struct Exc_void(std::ffi::c_void);

/// `std::io::Error::last_os_error()`: reads errno, never panics
pub assume_specification[ std::io::Error::last_os_error ]() -> std::io::Error;

/// `<[T]>::as_ptr`: the address of the first element
pub assume_specification<T>[ <[T]>::as_ptr ](s: &[T]) -> (p: *const T)
    ensures
        p as int == slice_addr(s),
;

// ---- libc (foreign functions; the contracts say what a call MEANS, never that it succeeds) ---------------
/// mprotect(2): 0 = the protection of the pages in [addr, addr+len) was changed to `prot`
pub assume_specification[ libc::mprotect ](addr: *mut std::ffi::c_void, len: usize, prot: i32) -> (r: i32)
    ensures
        mprotect_called(addr as int, len as int, prot as int),
        r == 0 ==> kernel_prot_set(addr as int, len as int, prot as int),
;

/// mlock(2): 0 = the pages in [addr, addr+len) are locked; may be refused (RLIMIT_MEMLOCK, ENOMEM, EPERM)
pub assume_specification[ libc::mlock ](addr: *const std::ffi::c_void, len: usize) -> (r: i32)
    ensures
        r == 0 ==> kernel_locked(addr as int, len as int),
;

/// munlock(2)
pub assume_specification[ libc::munlock ](addr: *const std::ffi::c_void, len: usize) -> (r: i32)
    ensures
        r == 0 ==> kernel_unlocked(addr as int, len as int),
;

/// madvise(2): advisory only, result ignored by the source; no effect on the model
pub assume_specification[ libc::madvise ](addr: *mut std::ffi::c_void, len: usize, advice: i32) -> (r: i32);

/// free(3)
pub assume_specification[ libc::free ](p: *mut std::ffi::c_void)
    ensures
        freed(p as int),
;

} // verus!

verus! {

// ---- libc constants: R2 shims (Verus has no specification form for foreign consts; the body IS the libc
// constant, the `ensures` is its value on linux/macos/bsd) ---------------------------------------------------
#[verifier::external_body]
pub exec const PROT_NONE: i32
    ensures PROT_NONE == 0
{ libc::PROT_NONE }

#[verifier::external_body]
pub exec const PROT_READ: i32
    ensures PROT_READ == 1
{ libc::PROT_READ }

#[verifier::external_body]
pub exec const PROT_WRITE: i32
    ensures PROT_WRITE == 2
{ libc::PROT_WRITE }

#[verifier::external_body]
pub exec const MADV_DONTDUMP: i32
    ensures true
{ libc::MADV_DONTDUMP }

#[verifier::external_body]
pub exec const MADV_DODUMP: i32
    ensures true
{ libc::MADV_DODUMP }

} // verus!
