//@ props=C14,C19
//! ASSUMED contracts of the operating-system interface used by src/protected.rs (libc crate, unix branch)
//! and of the few std items without a vstd specification.  Every item in this file is an ASSUMPTION.
//! None of the libc contracts promises success: a call may always be refused.
use vstd::prelude::*;
use crate::spec_protected::*;
use crate::verif_types::BytesSpec;

verus! {

// ---- types -----------------------------------------------------------------------------------------------
#[verifier::external_type_specification]
#[verifier::external_body]
pub struct ExIoError(std::io::Error);

#[verifier::external_type_specification]
#[verifier::external_body]
pub struct Exc_void(std::ffi::c_void);

/// `std::io::Error::last_os_error()`: reads errno, never panics
pub assume_specification[ std::io::Error::last_os_error ]() -> std::io::Error;

/// `<[T]>::as_ptr`: the address of the first element.  Only for NON-EMPTY slices: all empty slices are the same
/// mathematical value (see `seq_addr`), so giving them an address would be contradictory.
pub assume_specification<T>[ <[T]>::as_ptr ](s: &[T]) -> (p: *const T)
    ensures
        s@.len() > 0 ==> p as int == slice_addr(s),
;

// ---- libc (foreign functions; the contracts say what a call MEANS, never that it succeeds) ---------------
/// mprotect(2): 0 = the protection of the pages in [addr, addr+len) was changed to `prot`
pub assume_specification[ libc::mprotect ](addr: *mut std::ffi::c_void, len: usize, prot: i32) -> (r: i32)
    ensures
        mprotect_called(addr as int, len as int, prot as int),
        r == 0 ==> kernel_prot_set(addr as int, len as int, prot as int),
;

/// mlock(2): 0 = the pages in [addr, addr+len) are locked; may be refused (RLIMIT_MEMLOCK, ENOMEM, EPERM)
pub assume_specification[ libc::mlock ](addr: *const std::ffi::c_void, len: usize) -> (r: i32)
    ensures
        r == 0 ==> kernel_locked(addr as int, len as int),
;

/// munlock(2)
pub assume_specification[ libc::munlock ](addr: *const std::ffi::c_void, len: usize) -> (r: i32)
    ensures
        munlock_called(addr as int, len as int),
        r == 0 ==> kernel_unlocked(addr as int, len as int),
;

/// madvise(2): advisory only, result ignored by the source; no effect on the model
pub assume_specification[ libc::madvise ](addr: *mut std::ffi::c_void, len: usize, advice: i32) -> (r: i32);

/// free(3)
pub assume_specification[ libc::free ](p: *mut std::ffi::c_void)
    ensures
        freed(p as int),
;

} // verus!

verus! {

// ---- libc constants: R2 shims (Verus has no specification form for foreign consts; the body IS the libc
// constant, the `ensures` is its value on linux/macos/bsd) ---------------------------------------------------
#[verifier::external_body]
pub exec const PROT_NONE: i32
    ensures PROT_NONE == 0
{ libc::PROT_NONE }

#[verifier::external_body]
pub exec const PROT_READ: i32
    ensures PROT_READ == 1
{ libc::PROT_READ }

#[verifier::external_body]
pub exec const PROT_WRITE: i32
    ensures PROT_WRITE == 2
{ libc::PROT_WRITE }

#[verifier::external_body]
pub exec const MADV_DONTDUMP: i32
    ensures true
{ libc::MADV_DONTDUMP }

#[verifier::external_body]
pub exec const MADV_DODUMP: i32
    ensures true
{ libc::MADV_DODUMP }

} // verus!

verus! {

// ---- allocator types (std, no vstd specification) --------------------------------------------------------
#[verifier::external_type_specification]
#[verifier::external_body]
pub struct ExLayout(std::alloc::Layout);

#[verifier::external_type_specification]
pub struct ExAllocError(std::alloc::AllocError);

#[verifier::external_type_specification]
#[verifier::external_body]
#[verifier::accept_recursive_types(T)]
pub struct ExNonNull<T: std::marker::PointeeSized>(std::ptr::NonNull<T>);

pub uninterp spec fn layout_size(l: std::alloc::Layout) -> nat;

/// `Layout::size()`: a Layout's size never exceeds isize::MAX (documented invariant of std::alloc::Layout)
pub assume_specification[ std::alloc::Layout::size ](l: &std::alloc::Layout) -> (r: usize)
    ensures
        r == layout_size(*l),
        r <= isize::MAX,
;

/// address / length of a `NonNull<[u8]>`
pub uninterp spec fn nonnull_slice_addr(p: std::ptr::NonNull<[u8]>) -> int;
pub uninterp spec fn nonnull_slice_len(p: std::ptr::NonNull<[u8]>) -> nat;
pub uninterp spec fn nonnull_addr<T: std::marker::PointeeSized>(p: std::ptr::NonNull<T>) -> int;

// ---- raw pointers: UNSAFE code, its meaning is assumed ---------------------------------------------------
/// stride of `<*mut T>::add` (= size_of::<T>()); assumed 1 for u8 and c_void (c_void is a 1-byte repr(u8) enum)
pub uninterp spec fn ptr_stride<T>() -> int;

#[verifier::external_body]
pub broadcast proof fn axiom_stride_u8()
    ensures
        #[trigger] ptr_stride::<u8>() == 1,
{
}

#[verifier::external_body]
pub broadcast proof fn axiom_stride_c_void()
    ensures
        #[trigger] ptr_stride::<std::ffi::c_void>() == 1,
{
}

/// `p.add(count)`: address arithmetic only (wrapping/provenance rules are the caller's unsafe obligation)
pub assume_specification<T>[ <*mut T>::add ](p: *mut T, count: usize) -> (r: *mut T)
    ensures
        r as int == p as int + count * ptr_stride::<T>(),
;

/// `p.offset(count)`
pub assume_specification<T>[ <*mut T>::offset ](p: *mut T, count: isize) -> (r: *mut T)
    ensures
        r as int == p as int + count * ptr_stride::<T>(),
;

/// `std::slice::from_raw_parts_mut(p, len)`: the slice that starts at p and has len elements (address fact only for
/// len > 0, same reason as `as_ptr`)
pub assume_specification<'a, T>[ std::slice::from_raw_parts_mut ](p: *mut T, len: usize) -> (r: &'a mut [T])
    ensures
        len > 0 ==> slice_addr(&*r) == p as int,
        r@.len() == len,
;

pub assume_specification<T: std::marker::PointeeSized>[ std::ptr::NonNull::<T>::as_ptr ](p: std::ptr::NonNull<T>) -> (r: *mut T)
    ensures
        r as int == nonnull_addr(p),
;

} // verus!

verus! {

/// R2 shim for `posix_memalign(&mut out, align, size)` (the source passes `&mut *mut c_void` where C expects
/// `void **`).  0 = `out` is the start of a fresh block of `size` bytes, aligned to `align`, inside the address space.
#[verifier::external_body]
pub unsafe fn shim_posix_memalign(out: &mut *mut std::ffi::c_void, align: usize, size: usize) -> (r: i32)
    ensures
        r == 0 ==> kernel_allocated(*final(out) as int, align as int, size as int)
            && (*final(out) as int) % (align as int) == 0
            && *final(out) as int > 0
            && *final(out) as int + size <= usize::MAX,
{
    libc::posix_memalign(out, align, size)
}

/// R2 shim for `ptr::NonNull::new_unchecked(slice)` on a `&mut [u8]`
#[verifier::external_body]
pub unsafe fn shim_nonnull_slice(s: &mut [u8]) -> (r: std::ptr::NonNull<[u8]>)
    ensures
        old(s)@.len() > 0 ==> nonnull_slice_addr(r) == slice_addr(&*old(s)),
        nonnull_slice_len(r) == old(s)@.len(),
{
    std::ptr::NonNull::new_unchecked(s)
}

/// R2 shim for `<Result>.map_err(|err| eprintln!(<fmt>, err)).ok();` — logging only
#[verifier::external_body]
pub fn shim_report(r: Result<(), std::io::Error>, fmt: &str) {
    r.map_err(|err| eprintln!("{} {:?}", fmt, err)).ok();
}

/// R2 shim for `std::io::Error::new(std::io::ErrorKind::InvalidData, <msg>)` (generic `Into<Box<dyn Error>>`
/// argument is outside Verus' reach); allocation of an error value, never panics
#[verifier::external_body]
pub fn shim_io_error_invalid_data(msg: &'static str) -> std::io::Error {
    std::io::Error::new(std::io::ErrorKind::InvalidData, msg)
}

/// R2 shim for `x.zeroize()` on a generic `A: Zeroize + Bytes` container.
/// ASSUMPTION (zeroize crate): every byte the container still holds afterwards is 0; the length never grows
/// (it stays the same for slices/arrays/HeapBytes/HeapByteArray, `Vec<u8>::zeroize` also clears).
#[verifier::external_body]
pub fn shim_zeroize_bytes<A: zeroize::Zeroize + crate::types::Bytes>(a: &mut A)
    ensures
        final(a).bview().len() <= old(a).bview().len(),
        forall|i: int| 0 <= i < final(a).bview().len() ==> #[trigger] final(a).bview()[i] == 0u8,
{
    a.zeroize()
}

/// `Result::and_then` (std documentation: calls `f` on the Ok value, passes an Err through untouched)
pub assume_specification<T, E, U, F>[ std::result::Result::<T, E>::and_then ](r: std::result::Result<T, E>, f: F) -> (out: std::result::Result<U, E>)
    where F: std::ops::FnOnce(T) -> std::result::Result<U, E> + std::marker::Destruct
    requires
        r is Ok ==> f.requires((r->Ok_0,)),
    ensures
        r is Ok ==> f.ensures((r->Ok_0,), out),
        r is Err ==> out is Err && out->Err_0 == r->Err_0,
;

// ---- "allowed panic" shims ----------------------------------------------------------------------------------
// ASSUMPTION (all four): the PANIC PATH of a function that C14/C19 allow to panic (no `Result` in its signature:
// Clone::clone, Default::default, ResizableBytes::resize, NewBytes::new_bytes on locked types) is NOT verified —
// `Clone::clone` etc. cannot carry a precondition.  What IS verified is everything on the path that RETURNS:
// if `expect`/`unwrap` returns, the value was Ok/Some and is the one returned; `panic!` does not return.

/// R2 shim for `<Result>.expect(msg)`
#[verifier::external_body]
pub fn shim_expect_granted<T, E: std::fmt::Debug>(r: Result<T, E>, msg: &str) -> (v: T)
    ensures
        r is Ok,
        v == r->Ok_0,
{
    r.expect(msg)
}

/// R2 shim for `<Option>.unwrap()`
#[verifier::external_body]
pub fn shim_unwrap_some<T>(o: Option<T>) -> (v: T)
    ensures
        o is Some,
        v == o->Some_0,
{
    o.unwrap()
}

/// R2 shim for `panic!(msg, ..)`
#[verifier::external_body]
pub fn shim_allowed_panic<T>(msg: &str) -> (v: T)
    ensures
        false,
{
    panic!("{}", msg)
}

/// R2 shim for `x.clone()` on a byte container.  ASSUMPTION: `Clone` of a `Bytes` container copies the bytes
/// (HeapBytes / HeapByteArray derive Clone over a Vec).
#[verifier::external_body]
pub fn shim_clone_bytes<A: std::clone::Clone + crate::types::Bytes>(a: &A) -> (r: A)
    ensures
        r.bview() == a.bview(),
{
    a.clone()
}

} // verus!
