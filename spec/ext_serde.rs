//@ props=C04,C16
//! Assumed contracts of the third-party `serde` crate used by src/bytes_serde.rs. Shims are rule R2 (body = the original call).
use vstd::prelude::*;
use crate::verif_types::BytesSpec;

verus! {

// ---- trait declarations -------------------------------------------------------------------------------------------------
// A verified function generic over `A: SeqAccess<'de>` / `E: serde::de::Error` needs these third-party traits DECLARED to
// Verus (with their exact supertraits and associated-type bounds); no method gets a contract here — every call goes through
// one of the R2 shims below. (`std::error::Error` is a supertrait of serde's Error and is not declared by vstd.)
// `serde::de::Visitor` itself needs no declaration: Verus accepts the `impl Visitor for ..` blocks inside verus!{} and
// verifies the listed methods as ordinary functions (the trait gives them no contract); `Deserialize`/`Deserializer`
// (`fn deserialize`, which only hands the visitor to the format) stay outside verus!{}.
#[verifier::external_trait_specification]
pub trait ExStdError: core::fmt::Debug + core::fmt::Display {
    type ExternalTraitSpecificationFor: core::error::Error;
}

#[verifier::external_trait_specification]
pub trait ExSerdeDeError: Sized + std::error::Error {
    type ExternalTraitSpecificationFor: serde::de::Error;
}

#[verifier::external_trait_specification]
pub trait ExSeqAccess<'de> {
    type ExternalTraitSpecificationFor: serde::de::SeqAccess<'de>;
    type Error: serde::de::Error;
}

/// ASSUMPTION about Rust objects: a byte container that exists at run time holds at most isize::MAX bytes (no Rust object
/// or allocation is larger; for `[u8; N]` rustc rejects the type at monomorphisation). It is what vstd's
/// `layout_for_val_is_valid` + `layout_of_slices` give for the slice returned by `as_slice()`; those are exec functions taking
/// `Tracked<&V>` and cannot be called from proof code. The parameter is `tracked` so that the fact is available only for
/// values that really exist, not for `arbitrary()`.
pub axiom fn axiom_bytes_len_fits<T: crate::types::Bytes + ?Sized>(tracked a: &T)
    ensures
        a.bview().len() <= isize::MAX,
;

/// Ghost model of a serde sequence access: the u8 elements it will still yield (in order) before reporting the end.
/// ASSUMPTION (A-SEQ): every SeqAccess holds a finite sequence of elements; `next_element::<u8>()` either yields its head,
/// or reports the end exactly when nothing remains, or fails (format error, element not a u8) with no further promise.
pub uninterp spec fn seq_remaining<'de, A: serde::de::SeqAccess<'de>>(a: &A) -> Seq<u8>;

/// "this access is well behaved": it will report no error while it is read as u8 elements (well-formed input, every
/// element a u8) and its size hint, if any, is the number of remaining elements
pub uninterp spec fn seq_clean<'de, A: serde::de::SeqAccess<'de>>(a: &A) -> bool;

/// R2 shim for `seq.next_element()` at element type u8
#[verifier::external_body]
pub fn shim_next_u8<'de, A: serde::de::SeqAccess<'de>>(a: &mut A) -> (r: Result<Option<u8>, A::Error>)
    ensures
        r matches Ok(Some(x)) ==> seq_remaining(old(a)).len() > 0 && x == seq_remaining(old(a))[0] && seq_remaining(final(a)) == seq_remaining(old(a)).skip(1),
        r matches Ok(None) ==> seq_remaining(old(a)).len() == 0 && seq_remaining(final(a)) == seq_remaining(old(a)),
        seq_clean(old(a)) ==> r.is_ok() && seq_clean(final(a)),
{
    a.next_element()
}

/// R2 shim for `seq.size_hint()`. serde documents it as "the number of elements remaining, if known". For an arbitrary access
/// NOTHING is assumed (a hint may be wrong: the safety clauses of the visitors do not rely on it); only a well-behaved
/// (`seq_clean`) access is assumed to give an honest hint.
#[verifier::external_body]
pub fn shim_size_hint<'de, A: serde::de::SeqAccess<'de>>(a: &A) -> (r: Option<usize>)
    ensures
        seq_clean(a) ==> (r matches Some(n) ==> n == seq_remaining(a).len()),
{
    a.size_hint()
}

/// R2 shim for `Error::invalid_length(n, &stringify!(LENGTH))`: builds an error value (ASSUMED: does not panic)
#[verifier::external_body]
pub fn shim_invalid_length<E: serde::de::Error>(n: usize) -> (e: E)
{
    serde::de::Error::invalid_length(n, &"LENGTH")
}

} // verus!

verus! {

// ---- serialisation side -------------------------------------------------------------------------------------------------
#[verifier::external_trait_specification]
pub trait ExSerdeSerError: Sized + std::error::Error {
    type ExternalTraitSpecificationFor: serde::ser::Error;
}

#[verifier::external_trait_specification]
pub trait ExSerializer: Sized {
    type ExternalTraitSpecificationFor: serde::Serializer;
    type Ok;
    type Error: serde::ser::Error;
}

/// Ghost model of `Serializer::serialize_bytes`: what a format does with a byte string is an uninterpreted function of the
/// serializer and the bytes handed to it (ASSUMPTION A-SER: the result depends on nothing else).
pub uninterp spec fn ser_bytes_spec<S: serde::Serializer>(s: S, b: Seq<u8>) -> Result<S::Ok, S::Error>;

/// R2 shim for `serializer.serialize_bytes(bytes)`
#[verifier::external_body]
pub fn shim_serialize_bytes<S: serde::Serializer>(s: S, b: &[u8]) -> (r: Result<S::Ok, S::Error>)
    ensures
        r == ser_bytes_spec(s, b@),
{
    s.serialize_bytes(b)
}

} // verus!
