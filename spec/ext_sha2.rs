//@ props=C01,C06,C07,C08,C13
//! Assumed contract of the third-party `sha2` crate: SHA-512 as the uninterpreted function sha512_spec of the
//! absorbed bytes. Shims are rule R2 (body = the original call).
use vstd::prelude::*;
use crate::verif_spec::*;
use crate::spec_hash::*;

verus! {

use crate::verif_extern::U512ish;

#[verifier::reject_recursive_types(T)]
#[verifier::external_type_specification]
#[verifier::external_body]
#[verifier::allow(undeclared_external_trait)]
pub struct ExCoreWrapper<T>(sha2::digest::core_api::CoreWrapper<T>) where
    <<T as salsa20::cipher::BlockSizeUser>::BlockSize as generic_array::typenum::IsLess<U512ish>>::Output: generic_array::typenum::NonZero,
    <T as salsa20::cipher::BlockSizeUser>::BlockSize: generic_array::typenum::IsLess<U512ish>,
    T: sha2::digest::core_api::BufferKindUser;

#[verifier::reject_recursive_types(T)]
#[verifier::reject_recursive_types(OutSize)]
#[verifier::reject_recursive_types(O)]
#[verifier::external_type_specification]
#[verifier::external_body]
#[verifier::allow(undeclared_external_trait)]
pub struct ExCtVariableCoreWrapper<T, OutSize, O>(sha2::digest::core_api::CtVariableCoreWrapper<T, OutSize, O>) where
    T: sha2::digest::core_api::VariableOutputCore,
    OutSize: generic_array::ArrayLength<u8> + generic_array::typenum::IsLessOrEqual<T::OutputSize>,
    generic_array::typenum::LeEq<OutSize, T::OutputSize>: generic_array::typenum::NonZero,
    T::BlockSize: generic_array::typenum::IsLess<generic_array::typenum::U256>,
    generic_array::typenum::Le<T::BlockSize, generic_array::typenum::U256>: generic_array::typenum::NonZero;

#[verifier::external_type_specification]
#[verifier::external_body]
pub struct ExSha512VarCore(sha2::Sha512VarCore);

#[verifier::external_type_specification]
#[verifier::external_body]
pub struct ExOidSha512(sha2::OidSha512);

/// bytes absorbed so far by a sha2::Sha512 hasher (ghost view)
pub uninterp spec fn sha_absorbed(h: &sha2::Sha512) -> Seq<u8>;

/// R2 shim for `Sha512Impl::new()`
#[verifier::external_body]
pub fn shim_sha512_new() -> (h: sha2::Sha512)
    ensures
        sha_absorbed(&h) == Seq::<u8>::empty(),
{
    use sha2::Digest;
    sha2::Sha512::new()
}

/// R2 shim for `hasher.update(bytes)`
#[verifier::external_body]
pub fn shim_sha512_update(h: &mut sha2::Sha512, data: &[u8])
    ensures
        sha_absorbed(final(h)) == sha_absorbed(old(h)) + data@,
{
    use sha2::Digest;
    h.update(data)
}

/// R2 shim for `hasher.finalize_into_reset(GenericArray::<_, U64>::from_mut_slice(out))`
/// (`from_mut_slice` panics unless out.len() == 64)
#[verifier::external_body]
pub fn shim_sha512_finalize_into_reset(h: &mut sha2::Sha512, out: &mut [u8])
    requires
        old(out)@.len() == 64,
    ensures
        final(out)@ == sha512_spec(sha_absorbed(old(h))),
        sha_absorbed(final(h)) == Seq::<u8>::empty(),
{
    use sha2::Digest;
    let arr = generic_array::GenericArray::<_, generic_array::typenum::U64>::from_mut_slice(out);
    h.finalize_into_reset(arr);
}

} // verus!
