//@ props=C18
use vstd::prelude::*;
verus! {
}
