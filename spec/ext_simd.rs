//@ props=C07,C08,C09,C12,C18
//! ASSUMED model of `core::simd::Simd<u64, N>` (nightly portable SIMD), used by contracts/blake2b_simd.vc.
//!
//! Verus has no model of std::simd. The type is declared opaque (external_type_specification) and gets a GHOST
//! view: lane i of a vector v is `simd_lane(v, i)`, the whole vector is `simd_view(v)` (a Seq<u64> of N lanes).
//! Every operation of std::simd that src/blake2b/blake2b_simd.rs uses is reached through an R2 shim below
//! (`external_body`; the body is the ORIGINAL std::simd expression, the contract is its documented lane-wise
//! meaning). EACH SHIM IS AN ASSUMPTION about std::simd and is listed in the evidence; nothing else is assumed.
//!
//!   A1  Simd::from([u64; 4]) / Simd::<u64, 4>::from(..)   lane i = array[i]                (core_simd vector.rs `From<[T; N]>`)
//!   A2  Simd::<u64, 2>::from([u64; 2])                    lane i = array[i]
//!   A3  Simd::<u64, 4>::from_slice(s)                     lane i = s[i]; panics unless s.len() >= 4 (-> requires)
//!   A4  a + b, a += b                                     lane-wise WRAPPING addition      (core_simd ops.rs: "wrapping")
//!   A5  a ^ b, a ^= b, a | b                              lane-wise bit operations
//!   A6  a >> s, a << s                                    lane-wise shifts, stated only for shift counts < 64
//!   A7  simd_swizzle!(v, IDX)                             lane i = v[IDX[i]]               (swizzle.rs `Swizzle::swizzle`)
//!   A8  simd_swizzle!(x, y, IDX)                          lane i = concat(x, y)[IDX[i]]    (swizzle.rs `Swizzle::concat_swizzle`)
//!   A9  v[i]  (Index<usize>)                              = lane i; panics unless i < 4 (-> requires)
//!   A10 Simd::splat(x)                                    every lane = x
use vstd::prelude::*;
use core::simd::Simd;
#[allow(unused_imports)]
use core::simd::simd_swizzle;
#[allow(unused_imports)]
use crate::spec_blake2b::b2_add64;

verus! {

/// the std type, opaque to Verus
#[verifier::external_type_specification]
#[verifier::external_body]
#[verifier::accept_recursive_types(T)]
pub struct ExSimd<T: core::simd::SimdElement, const N: usize>(Simd<T, N>);

/// GHOST: lane i of v (meaningful for 0 <= i < N)
pub uninterp spec fn simd_lane<const N: usize>(v: Simd<u64, N>, i: int) -> u64;

/// GHOST: the N lanes of v
pub open spec fn simd_view<const N: usize>(v: Simd<u64, N>) -> Seq<u64> {
    Seq::new(N as nat, |i: int| simd_lane(v, i))
}

/// lane-wise wrapping addition
pub open spec fn simd_add_spec(a: Seq<u64>, b: Seq<u64>) -> Seq<u64> {
    Seq::new(a.len(), |i: int| b2_add64(a[i], b[i]))
}

/// lane-wise exclusive or
pub open spec fn simd_xor_spec(a: Seq<u64>, b: Seq<u64>) -> Seq<u64> {
    Seq::new(a.len(), |i: int| a[i] ^ b[i])
}

/// lane-wise or
pub open spec fn simd_or_spec(a: Seq<u64>, b: Seq<u64>) -> Seq<u64> {
    Seq::new(a.len(), |i: int| a[i] | b[i])
}

/// lane-wise logical shift right (lane i of `a` by lane i of `s`)
pub open spec fn simd_shr_spec(a: Seq<u64>, s: Seq<u64>) -> Seq<u64> {
    Seq::new(a.len(), |i: int| a[i] >> s[i])
}

/// lane-wise shift left
pub open spec fn simd_shl_spec(a: Seq<u64>, s: Seq<u64>) -> Seq<u64> {
    Seq::new(a.len(), |i: int| a[i] << s[i])
}

/// `simd_swizzle!(v, [i0, i1, i2, i3])`: lane k of the result = v[i_k]
pub open spec fn simd_swizzle1_spec(v: Seq<u64>, i0: int, i1: int, i2: int, i3: int) -> Seq<u64> {
    seq![v[i0], v[i1], v[i2], v[i3]]
}

/// `simd_swizzle!(x, y, [i0, i1, i2, i3])`: lane k of the result = (x ++ y)[i_k]
pub open spec fn simd_swizzle2_spec(x: Seq<u64>, y: Seq<u64>, i0: int, i1: int, i2: int, i3: int) -> Seq<u64> {
    seq![(x + y)[i0], (x + y)[i1], (x + y)[i2], (x + y)[i3]]
}

// ---- A1, A2, A3, A10: construction ---------------------------------------------------------------------------
/// A1: R2 shim for `Simd::from([a, b, c, d])` / `Simd::<u64, 4>::from([..])`
#[verifier::external_body]
pub fn shim_simd4_from(a: [u64; 4]) -> (r: Simd<u64, 4>)
    ensures
        simd_view(r) == a@,
{
    Simd::from(a)
}

/// A2: R2 shim for `Simd::<u64, 2>::from([a, b])`
#[verifier::external_body]
pub fn shim_simd2_from(a: [u64; 2]) -> (r: Simd<u64, 2>)
    ensures
        simd_view(r) == a@,
{
    Simd::<u64, 2>::from(a)
}

/// A3: R2 shim for `Simd::<u64, 4>::from_slice(s)` / `Simd::from_slice(s)` (documented to panic if s.len() < 4)
#[verifier::external_body]
pub fn shim_simd4_from_slice(s: &[u64]) -> (r: Simd<u64, 4>)
    requires
        s@.len() >= 4,
    ensures
        simd_view(r) == s@.subrange(0, 4),
{
    Simd::<u64, 4>::from_slice(s)
}

/// A10: R2 shim for `Simd::splat(x)`
#[verifier::external_body]
pub fn shim_simd4_splat(x: u64) -> (r: Simd<u64, 4>)
    ensures
        simd_view(r) == Seq::new(4, |i: int| x),
{
    Simd::splat(x)
}

// ---- A4, A5, A6: lane-wise operators -------------------------------------------------------------------------
/// A4: R2 shim for `a + b` (wrapping in every lane)
#[verifier::external_body]
pub fn shim_simd4_add(a: Simd<u64, 4>, b: Simd<u64, 4>) -> (r: Simd<u64, 4>)
    ensures
        simd_view(r) == simd_add_spec(simd_view(a), simd_view(b)),
{
    a + b
}

/// A4: R2 shim for `*a += b`
#[verifier::external_body]
pub fn shim_simd4_add_assign(a: &mut Simd<u64, 4>, b: Simd<u64, 4>)
    ensures
        simd_view(*final(a)) == simd_add_spec(simd_view(*old(a)), simd_view(b)),
{
    *a += b
}

/// A5: R2 shim for `a ^ b`
#[verifier::external_body]
pub fn shim_simd4_xor(a: Simd<u64, 4>, b: Simd<u64, 4>) -> (r: Simd<u64, 4>)
    ensures
        simd_view(r) == simd_xor_spec(simd_view(a), simd_view(b)),
{
    a ^ b
}

/// A5: R2 shim for `*a ^= b`
#[verifier::external_body]
pub fn shim_simd4_xor_assign(a: &mut Simd<u64, 4>, b: Simd<u64, 4>)
    ensures
        simd_view(*final(a)) == simd_xor_spec(simd_view(*old(a)), simd_view(b)),
{
    *a ^= b
}

/// A5: R2 shim for `a | b`
#[verifier::external_body]
pub fn shim_simd4_or(a: Simd<u64, 4>, b: Simd<u64, 4>) -> (r: Simd<u64, 4>)
    ensures
        simd_view(r) == simd_or_spec(simd_view(a), simd_view(b)),
{
    a | b
}

/// A6: R2 shim for `a >> s` (only used / specified with every shift count < 64)
#[verifier::external_body]
pub fn shim_simd4_shr(a: Simd<u64, 4>, s: Simd<u64, 4>) -> (r: Simd<u64, 4>)
    requires
        forall|i: int| 0 <= i < 4 ==> simd_view(s)[i] < 64,
    ensures
        simd_view(r) == simd_shr_spec(simd_view(a), simd_view(s)),
{
    a >> s
}

/// A6: R2 shim for `a << s` (only used / specified with every shift count < 64)
#[verifier::external_body]
pub fn shim_simd4_shl(a: Simd<u64, 4>, s: Simd<u64, 4>) -> (r: Simd<u64, 4>)
    requires
        forall|i: int| 0 <= i < 4 ==> simd_view(s)[i] < 64,
    ensures
        simd_view(r) == simd_shl_spec(simd_view(a), simd_view(s)),
{
    a << s
}

// ---- A9: lane read -------------------------------------------------------------------------------------------
/// A9: R2 shim for `v[i]` (Index<usize> for Simd: panics if i >= 4)
#[verifier::external_body]
pub fn shim_simd4_lane(v: &Simd<u64, 4>, i: usize) -> (r: u64)
    requires
        i < 4,
    ensures
        r == simd_view(*v)[i as int],
{
    v[i]
}

} // verus!

// ---- A7, A8: simd_swizzle! with a literal index array ------------------------------------------------------------
// `simd_swizzle!` needs a CONSTANT index array (it builds a local `impl Swizzle`), so there is one shim per index
// pattern that occurs in blake2b_simd.rs; all of them are instances of the same two assumptions A7 / A8, generated by
// the two macros below (shim name = indices appended, so the R2 rewrite `simd_swizzle!(x, y, [a, b, c, d])` ->
// `shim_swz2_abcd(x, y)` carries a mutated index into the name: an index pattern without shim does not compile).
macro_rules! simd_swizzle1_shim {
    ($name:ident, $n:literal, [$i0:literal, $i1:literal, $i2:literal, $i3:literal]) => {
        verus! {
        /// A7: R2 shim for `simd_swizzle!(v, [..])`
        #[verifier::external_body]
        pub fn $name(v: Simd<u64, $n>) -> (r: Simd<u64, 4>)
            ensures
                simd_view(r) == simd_swizzle1_spec(simd_view(v), $i0, $i1, $i2, $i3),
        {
            simd_swizzle!(v, [$i0, $i1, $i2, $i3])
        }
        }
    };
}

macro_rules! simd_swizzle2_shim {
    ($name:ident, [$i0:literal, $i1:literal, $i2:literal, $i3:literal]) => {
        verus! {
        /// A8: R2 shim for `simd_swizzle!(x, y, [..])`
        #[verifier::external_body]
        pub fn $name(x: Simd<u64, 4>, y: Simd<u64, 4>) -> (r: Simd<u64, 4>)
            ensures
                simd_view(r) == simd_swizzle2_spec(simd_view(x), simd_view(y), $i0, $i1, $i2, $i3),
        {
            simd_swizzle!(x, y, [$i0, $i1, $i2, $i3])
        }
        }
    };
}

simd_swizzle1_shim!(shim_swz1x2_0101, 2, [0, 1, 0, 1]);
simd_swizzle1_shim!(shim_swz1_3012, 4, [3, 0, 1, 2]);
simd_swizzle1_shim!(shim_swz1_2301, 4, [2, 3, 0, 1]);
simd_swizzle1_shim!(shim_swz1_1230, 4, [1, 2, 3, 0]);
simd_swizzle1_shim!(shim_swz1_1032, 4, [1, 0, 3, 2]);
simd_swizzle2_shim!(shim_swz2_0426, [0, 4, 2, 6]);
simd_swizzle2_shim!(shim_swz2_1537, [1, 5, 3, 7]);
simd_swizzle2_shim!(shim_swz2_0167, [0, 1, 6, 7]);
simd_swizzle2_shim!(shim_swz2_5072, [5, 0, 7, 2]);
simd_swizzle2_shim!(shim_swz2_4163, [4, 1, 6, 3]);
