//@ props=C04,C10,C16
//! R2 shims for the `str` / base64 calls of the password-hash STRING consumers (src/classic/crypto_pwhash.rs
//! `Pwhash::parse_encoded_pwhash`). Verus has no model of `str::split/starts_with/strip_prefix/contains/parse` nor of the
//! `base64` crate: every such call is routed through an `external_body` function whose BODY IS THE ORIGINAL EXPRESSION.
//! What is ASSUMED about them (A-STR): each of them returns for every argument (std / base64 documentation: none panics on
//! any `&str`) and is a FUNCTION of its arguments — the result is named by an UNINTERPRETED spec function of the arguments
//! (`str_split_spec`, `str_parse_u32_spec`, `b64_decode_spec`, ...). Nothing is assumed about WHAT they compute: totality of
//! the callers is proved for arbitrary such functions; the uninterpreted names only make "the parse result of this string"
//! expressible in the contracts of the callers.
use vstd::prelude::*;

verus! {

// ---- opaque third-party / std types ---------------------------------------------------------------------------------------
#[verifier::external_type_specification]
#[verifier::external_body]
pub struct ExGeneralPurpose(base64::engine::general_purpose::GeneralPurpose);

#[verifier::external_type_specification]
#[verifier::external_body]
pub struct ExDecodeError(base64::DecodeError);

#[verifier::external_type_specification]
#[verifier::external_body]
pub struct ExParseIntError(core::num::ParseIntError);

// ---- std ------------------------------------------------------------------------------------------------------------------
/// `<Vec<T> as AsRef<[T]>>::as_ref` (std: `fn as_ref(&self) -> &[T] { self }`): the slice of the vector's elements
pub assume_specification<T, A>[ <std::vec::Vec<T, A> as std::convert::AsRef<[T]>>::as_ref ](v: &std::vec::Vec<T, A>) -> (r: &[T]) where
    A: std::alloc::Allocator,

    ensures
        r@ == v@,
;

/// std: `impl<T> From<T> for T { fn from(t: T) -> T { t } }` — the reflexive conversion is the identity (vstd gives no
/// `FromSpecImpl` for it; stated for `Vec<u8>`, the container of `PwHash::from_string_with_defaults`)
pub axiom fn axiom_vec_u8_from_self_obeys()
    ensures
        <Vec<u8> as vstd::std_specs::convert::FromSpec<Vec<u8>>>::obeys_from_spec(),
;

pub broadcast axiom fn axiom_vec_u8_from_self(v: Vec<u8>)
    ensures
        #[trigger] <Vec<u8> as vstd::std_specs::convert::FromSpec<Vec<u8>>>::from_spec(v) == v,
;

// ---- base64 ---------------------------------------------------------------------------------------------------------------
/// the engine `GeneralPurpose::new(&alphabet::STANDARD, NO_PAD)` (uninterpreted)
pub uninterp spec fn b64_standard_no_pad() -> base64::engine::general_purpose::GeneralPurpose;

/// result of `engine.decode(s)`: `None` = `Err(_)` (uninterpreted)
pub uninterp spec fn b64_decode_spec(engine: &base64::engine::general_purpose::GeneralPurpose, s: &str) -> Option<Seq<u8>>;

/// R2 shim for `base64::engine::general_purpose::GeneralPurpose::new(&base64::alphabet::STANDARD,
/// base64::engine::general_purpose::NO_PAD)` (a `const fn` building a table from two constants)
#[verifier::external_body]
pub fn shim_b64_engine_standard_no_pad() -> (r: base64::engine::general_purpose::GeneralPurpose)
    ensures
        r == b64_standard_no_pad(),
{
    base64::engine::general_purpose::GeneralPurpose::new(
        &base64::alphabet::STANDARD,
        base64::engine::general_purpose::NO_PAD,
    )
}

/// R2 shim for `engine.decode(s)` (`base64::Engine::decode`: "Decode the input into a new Vec", `Err` on malformed input)
#[verifier::external_body]
pub fn shim_b64_decode(engine: &base64::engine::general_purpose::GeneralPurpose, s: &str) -> (r: Result<Vec<u8>, base64::DecodeError>)
    ensures
        r matches Ok(v) ==> b64_decode_spec(engine, s) == Some(v@),
        r is Err ==> b64_decode_spec(engine, s) is None,
{
    use base64::Engine;
    engine.decode(s)
}

/// text of `general_purpose::STANDARD_NO_PAD.encode(b)` (uninterpreted function of the bytes)
pub uninterp spec fn b64_encode_spec(b: Seq<u8>) -> Seq<char>;

/// R2 shim for `general_purpose::STANDARD_NO_PAD.encode(b)` (`base64::Engine::encode`: "Encode arbitrary octets as base64", total)
#[verifier::external_body]
pub fn shim_b64_encode_standard_no_pad(b: &[u8]) -> (r: String)
    ensures
        r@ == b64_encode_spec(b@),
{
    use base64::Engine;
    base64::engine::general_purpose::STANDARD_NO_PAD.encode(b)
}

/// text of `format!("${}$v={}$m={},t={},p=1${}${}", name, v, m, t, salt, hash)`: an uninterpreted function of the six arguments
/// (ASSUMPTION: `format!` is total and its result depends only on the displayed values, in this order)
pub uninterp spec fn fmt_pwhash_spec(name: Seq<char>, v: u32, m: u32, t: u32, salt: Seq<char>, hash: Seq<char>) -> Seq<char>;

/// R2 shim for exactly that `format!` invocation (the rewrite pattern contains the literal format string: a changed
/// format string no longer matches and the unit becomes undecided)
#[verifier::external_body]
pub fn shim_format_pwhash(name: &str, v: u32, m: u32, t: u32, salt: String, hash: String) -> (r: String)
    ensures
        r@ == fmt_pwhash_spec(name@, v, m, t, salt@, hash@),
{
    format!("${}$v={}$m={},t={},p=1${}${}", name, v, m, t, salt, hash)
}

// ---- str ------------------------------------------------------------------------------------------------------------------
/// the items `s.split(c)` yields, in order (uninterpreted)
pub uninterp spec fn str_split_spec<'a>(s: &'a str, c: char) -> Seq<&'a str>;

pub uninterp spec fn str_is_empty_spec(s: &str) -> bool;

pub uninterp spec fn str_starts_with_spec(s: &str, p: &str) -> bool;

pub uninterp spec fn str_contains_spec(s: &str, p: &str) -> bool;

pub uninterp spec fn str_strip_prefix_spec<'a>(s: &'a str, p: &str) -> Option<&'a str>;

/// result of `s.parse::<u32>()`: `None` = `Err(_)` (uninterpreted)
pub uninterp spec fn str_parse_u32_spec(s: &str) -> Option<u32>;

/// R1+R2 shim for `s.split(c)` used as the iterator of a `for` loop: the items the iterator yields, in order, collected
/// into a vector (the loop then runs over the vector: same items, same order; the borrowed string cannot change meanwhile)
#[verifier::external_body]
pub fn shim_str_split<'a>(s: &'a str, c: char) -> (r: Vec<&'a str>)
    ensures
        r@ == str_split_spec(s, c),
{
    s.split(c).collect()
}

/// R2 shim for `s.is_empty()`
#[verifier::external_body]
pub fn shim_str_is_empty(s: &str) -> (r: bool)
    ensures
        r == str_is_empty_spec(s),
{
    s.is_empty()
}

/// R2 shim for `s.starts_with(p)` with a `&str` pattern
#[verifier::external_body]
pub fn shim_str_starts_with(s: &str, p: &str) -> (r: bool)
    ensures
        r == str_starts_with_spec(s, p),
{
    s.starts_with(p)
}

/// R2 shim for `s.contains(p)` with a `&str` pattern
#[verifier::external_body]
pub fn shim_str_contains(s: &str, p: &str) -> (r: bool)
    ensures
        r == str_contains_spec(s, p),
{
    s.contains(p)
}

/// R2 shim for `s.strip_prefix(p)` with a `&str` pattern
#[verifier::external_body]
pub fn shim_str_strip_prefix<'a>(s: &'a str, p: &str) -> (r: Option<&'a str>)
    ensures
        r == str_strip_prefix_spec(s, p),
{
    s.strip_prefix(p)
}

/// R2 shim for `s.parse::<u32>()`
#[verifier::external_body]
pub fn shim_str_parse_u32(s: &str) -> (r: Result<u32, core::num::ParseIntError>)
    ensures
        r matches Ok(v) ==> str_parse_u32_spec(s) == Some(v),
        r is Err ==> str_parse_u32_spec(s) is None,
{
    s.parse::<u32>()
}

} // verus!
