//@ props=C09
//! RFC 9106 section 3.5 / 3.6 in the RFC's own shape (P on 16 words, G on an 8x8 matrix of 16-byte registers) and the
//! proof that the in-place formulation used by the code contracts (spec_argon2::g_spec) is the same function.
use vstd::prelude::*;
use crate::spec_argon2::*;

verus! {

/// the words of s at the positions ix
pub open spec fn gather(s: Seq<u64>, ix: Seq<int>) -> Seq<u64> {
    Seq::new(ix.len(), |k: int| s[ix[k]])
}

/// 16 pairwise different positions inside a sequence of n words
pub open spec fn ix_ok(ix: Seq<int>, n: int) -> bool {
    &&& ix.len() == 16
    &&& forall|k: int| 0 <= k < 16 ==> 0 <= #[trigger] ix[k] < n
    &&& forall|k: int, l: int| 0 <= k < 16 && 0 <= l < 16 && k != l ==> #[trigger] ix[k] != #[trigger] ix[l]
}

pub open spec fn not_in(ix: Seq<int>, j: int) -> bool {
    forall|k: int| 0 <= k < 16 ==> #[trigger] ix[k] != j
}

pub proof fn lemma_gather_update(s: Seq<u64>, ix: Seq<int>, a: int, v: u64)
    requires
        ix_ok(ix, s.len() as int),
        0 <= a < 16,
    ensures
        gather(s.update(ix[a], v), ix) == gather(s, ix).update(a, v),
{
    assert(gather(s.update(ix[a], v), ix) =~= gather(s, ix).update(a, v));
}

/// GB at the positions ix[a], ix[b], ix[c], ix[d] acts on the gathered words like GB at a, b, c, d, and touches
/// nothing else
pub proof fn lemma_gb_gather(s: Seq<u64>, ix: Seq<int>, a: int, b: int, c: int, d: int)
    requires
        ix_ok(ix, s.len() as int),
        0 <= a < 16,
        0 <= b < 16,
        0 <= c < 16,
        0 <= d < 16,
    ensures
        gb_spec(s, ix[a], ix[b], ix[c], ix[d]).len() == s.len(),
        gather(gb_spec(s, ix[a], ix[b], ix[c], ix[d]), ix) == gb_spec(gather(s, ix), a, b, c, d),
        forall|j: int| 0 <= j < s.len() && not_in(ix, j) ==> #[trigger] gb_spec(s, ix[a], ix[b], ix[c], ix[d])[j] == s[j],
{
    reveal(gb_spec);
    let (ia, ib, ic, id) = (ix[a], ix[b], ix[c], ix[d]);
    let g0 = gather(s, ix);
    let s1 = s.update(ia, fblamka_spec(s[ia], s[ib]));
    let g1 = g0.update(a, fblamka_spec(g0[a], g0[b]));
    lemma_gather_update(s, ix, a, fblamka_spec(s[ia], s[ib]));
    assert(gather(s1, ix) == g1);
    let s2 = s1.update(id, crate::verif_spec::spec_rotr64(s1[id] ^ s1[ia], 32));
    let g2 = g1.update(d, crate::verif_spec::spec_rotr64(g1[d] ^ g1[a], 32));
    lemma_gather_update(s1, ix, d, crate::verif_spec::spec_rotr64(s1[id] ^ s1[ia], 32));
    assert(gather(s2, ix) == g2);
    let s3 = s2.update(ic, fblamka_spec(s2[ic], s2[id]));
    let g3 = g2.update(c, fblamka_spec(g2[c], g2[d]));
    lemma_gather_update(s2, ix, c, fblamka_spec(s2[ic], s2[id]));
    assert(gather(s3, ix) == g3);
    let s4 = s3.update(ib, crate::verif_spec::spec_rotr64(s3[ib] ^ s3[ic], 24));
    let g4 = g3.update(b, crate::verif_spec::spec_rotr64(g3[b] ^ g3[c], 24));
    lemma_gather_update(s3, ix, b, crate::verif_spec::spec_rotr64(s3[ib] ^ s3[ic], 24));
    assert(gather(s4, ix) == g4);
    let s5 = s4.update(ia, fblamka_spec(s4[ia], s4[ib]));
    let g5 = g4.update(a, fblamka_spec(g4[a], g4[b]));
    lemma_gather_update(s4, ix, a, fblamka_spec(s4[ia], s4[ib]));
    assert(gather(s5, ix) == g5);
    let s6 = s5.update(id, crate::verif_spec::spec_rotr64(s5[id] ^ s5[ia], 16));
    let g6 = g5.update(d, crate::verif_spec::spec_rotr64(g5[d] ^ g5[a], 16));
    lemma_gather_update(s5, ix, d, crate::verif_spec::spec_rotr64(s5[id] ^ s5[ia], 16));
    assert(gather(s6, ix) == g6);
    let s7 = s6.update(ic, fblamka_spec(s6[ic], s6[id]));
    let g7 = g6.update(c, fblamka_spec(g6[c], g6[d]));
    lemma_gather_update(s6, ix, c, fblamka_spec(s6[ic], s6[id]));
    assert(gather(s7, ix) == g7);
    let s8 = s7.update(ib, crate::verif_spec::spec_rotr64(s7[ib] ^ s7[ic], 63));
    let g8 = g7.update(b, crate::verif_spec::spec_rotr64(g7[b] ^ g7[c], 63));
    lemma_gather_update(s7, ix, b, crate::verif_spec::spec_rotr64(s7[ib] ^ s7[ic], 63));
    assert(gather(s8, ix) == g8);
    assert(gb_spec(s, ia, ib, ic, id) == s8);
    assert(gb_spec(g0, a, b, c, d) == g8);
}


/// P at the positions ix acts on the gathered words like P on 16 words, and touches nothing else
pub proof fn lemma_p_gather(s: Seq<u64>, ix: Seq<int>)
    requires
        ix_ok(ix, s.len() as int),
    ensures
        p_at(s, ix).len() == s.len(),
        gather(p_at(s, ix), ix) == p16(gather(s, ix)),
        forall|j: int| 0 <= j < s.len() && not_in(ix, j) ==> #[trigger] p_at(s, ix)[j] == s[j],
{
    let g0 = gather(s, ix);
    let s1 = gb_spec(s, ix[0], ix[4], ix[8], ix[12]);
    lemma_gb_gather(s, ix, 0, 4, 8, 12);
    let g1 = gb_spec(g0, 0, 4, 8, 12);
    let s2 = gb_spec(s1, ix[1], ix[5], ix[9], ix[13]);
    lemma_gb_gather(s1, ix, 1, 5, 9, 13);
    let g2 = gb_spec(g1, 1, 5, 9, 13);
    let s3 = gb_spec(s2, ix[2], ix[6], ix[10], ix[14]);
    lemma_gb_gather(s2, ix, 2, 6, 10, 14);
    let g3 = gb_spec(g2, 2, 6, 10, 14);
    let s4 = gb_spec(s3, ix[3], ix[7], ix[11], ix[15]);
    lemma_gb_gather(s3, ix, 3, 7, 11, 15);
    let g4 = gb_spec(g3, 3, 7, 11, 15);
    let s5 = gb_spec(s4, ix[0], ix[5], ix[10], ix[15]);
    lemma_gb_gather(s4, ix, 0, 5, 10, 15);
    let g5 = gb_spec(g4, 0, 5, 10, 15);
    let s6 = gb_spec(s5, ix[1], ix[6], ix[11], ix[12]);
    lemma_gb_gather(s5, ix, 1, 6, 11, 12);
    let g6 = gb_spec(g5, 1, 6, 11, 12);
    let s7 = gb_spec(s6, ix[2], ix[7], ix[8], ix[13]);
    lemma_gb_gather(s6, ix, 2, 7, 8, 13);
    let g7 = gb_spec(g6, 2, 7, 8, 13);
    let s8 = gb_spec(s7, ix[3], ix[4], ix[9], ix[14]);
    lemma_gb_gather(s7, ix, 3, 4, 9, 14);
    let g8 = gb_spec(g7, 3, 4, 9, 14);
    assert(p_at(s, ix) == s8);
    assert(p16(g0) == g8);
    assert(gather(s8, ix) == g8);
}

pub proof fn lemma_row_ix_ok(i: int)
    requires
        0 <= i < 8,
    ensures
        ix_ok(row_ix(i), 128),
{
}

pub proof fn lemma_col_ix_ok(i: int)
    requires
        0 <= i < 8,
    ensures
        ix_ok(col_ix(i), 128),
{
    assert forall|k: int, l: int| 0 <= k < 16 && 0 <= l < 16 && k != l implies col_ix(i)[k] != col_ix(i)[l] by {
        assert(k == 2 * (k / 2) + k % 2);
        assert(l == 2 * (l / 2) + l % 2);
    }
}

/// rows 0 .. n-1 hold P(row), the other rows are untouched
pub proof fn lemma_rows(r: Seq<u64>, n: nat)
    requires
        r.len() == 128,
        n <= 8,
    ensures
        rows_spec(r, n).len() == 128,
        forall|j: int| 0 <= j < 16 * n ==> #[trigger] rows_spec(r, n)[j] == g_rows(r)[j],
        forall|j: int| 16 * n <= j < 128 ==> #[trigger] rows_spec(r, n)[j] == r[j],
    decreases n,
{
    if n > 0 {
        let i = (n - 1) as int;
        let prev = rows_spec(r, (n - 1) as nat);
        lemma_rows(r, (n - 1) as nat);
        lemma_row_ix_ok(i);
        lemma_p_gather(prev, row_ix(i));
        let cur = p_at(prev, row_ix(i));
        assert(gather(prev, row_ix(i)) =~= row_of(r, i));
        assert forall|j: int| 0 <= j < 16 * n implies #[trigger] cur[j] == g_rows(r)[j] by {
            if j < 16 * i {
                assert(not_in(row_ix(i), j));
            } else {
                let k = j - 16 * i;
                assert(row_ix(i)[k] == j);
                assert(gather(cur, row_ix(i))[k] == cur[j]);
                assert(j / 16 == i && j % 16 == k);
            }
        }
        assert forall|j: int| 16 * n <= j < 128 implies #[trigger] cur[j] == r[j] by {
            assert(not_in(row_ix(i), j));
        }
    }
}


pub proof fn lemma_col_ix_facts(i: int, j: int)
    requires
        0 <= i < 8,
        0 <= j < 128,
    ensures
        (j / 2) % 8 != i ==> not_in(col_ix(i), j),
        (j / 2) % 8 == i ==> 0 <= 2 * ((j / 2) / 8) + j % 2 < 16 && col_ix(i)[2 * ((j / 2) / 8) + j % 2] == j,
{
    if (j / 2) % 8 != i {
        assert forall|k: int| 0 <= k < 16 implies #[trigger] col_ix(i)[k] != j by {
            let c = col_ix(i)[k];
            assert(c == 2 * (i + 8 * (k / 2)) + k % 2);
            assert(c / 2 == i + 8 * (k / 2));
            assert((c / 2) % 8 == i);
        }
    }
}

/// columns 0 .. n-1 hold P(column), the other columns are untouched
pub proof fn lemma_cols(q: Seq<u64>, n: nat)
    requires
        q.len() == 128,
        n <= 8,
    ensures
        cols_spec(q, n).len() == 128,
        forall|j: int| 0 <= j < 128 && (j / 2) % 8 < n ==> #[trigger] cols_spec(q, n)[j] == g_cols(q)[j],
        forall|j: int| 0 <= j < 128 && (j / 2) % 8 >= n ==> #[trigger] cols_spec(q, n)[j] == q[j],
    decreases n,
{
    if n > 0 {
        let i = (n - 1) as int;
        let prev = cols_spec(q, (n - 1) as nat);
        lemma_cols(q, (n - 1) as nat);
        lemma_col_ix_ok(i);
        lemma_p_gather(prev, col_ix(i));
        let cur = p_at(prev, col_ix(i));
        assert(gather(prev, col_ix(i)) =~= col_of(q, i)) by {
            assert forall|k: int| 0 <= k < 16 implies gather(prev, col_ix(i))[k] == col_of(q, i)[k] by {
                let c = col_ix(i)[k];
                assert(c == 2 * (i + 8 * (k / 2)) + k % 2);
                assert((c / 2) % 8 == i);
            }
        }
        assert forall|j: int| 0 <= j < 128 && (j / 2) % 8 < n implies #[trigger] cur[j] == g_cols(q)[j] by {
            lemma_col_ix_facts(i, j);
            if (j / 2) % 8 == i {
                let k = 2 * ((j / 2) / 8) + j % 2;
                assert(gather(cur, col_ix(i))[k] == cur[j]);
            }
        }
        assert forall|j: int| 0 <= j < 128 && (j / 2) % 8 >= n implies #[trigger] cur[j] == q[j] by {
            lemma_col_ix_facts(i, j);
        }
    }
}

/// the in-place formulation used by the contracts of fill_block is RFC 9106's G
pub proof fn lemma_g_spec_is_rfc(x: Seq<u64>, y: Seq<u64>)
    requires
        x.len() == 128,
        y.len() == 128,
    ensures
        g_spec(x, y) == g_rfc(x, y),
{
    let r = xor_seq(x, y);
    lemma_rows(r, 8);
    let q = rows_spec(r, 8);
    assert(q =~= g_rows(r));
    lemma_cols(q, 8);
    assert(cols_spec(q, 8) =~= g_cols(q));
}

} // verus!
