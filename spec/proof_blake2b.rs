//@ props=C01,C05,C07,C08,C09,C12,C13,C18
//! Lemmas (all proved, nothing assumed) used by contracts/blake2b_soft.vc to connect the real code of
//! src/blake2b/blake2b_soft.rs with the RFC 7693 definitions of spec_blake2b.rs.
use vstd::prelude::*;
use crate::verif_spec::*;
use crate::spec_blake2b::*;

verus! {

// ---- 128-bit counter ------------------------------------------------------------------------------
pub proof fn lemma_blake2b_counter_join(t0: u64, t1: u64)
    ensures
        (((t1 as u128) << 64) | t0 as u128) as nat == blake2b_counter(t0, t1),
{
    let c = ((t1 as u128) << 64) | t0 as u128;
    assert(c == add(mul(t1 as u128, 0x1_0000_0000_0000_0000u128), t0 as u128)) by (bit_vector)
        requires
            c == ((t1 as u128) << 64) | t0 as u128,
    ;
}

pub proof fn lemma_blake2b_counter_split(c: u128)
    ensures
        blake2b_counter(c as u64, (c >> 64) as u64) == c,
{
    assert((c as u64) as u128 == c % 0x1_0000_0000_0000_0000u128 && ((c >> 64) as u64) as u128 == c
        / 0x1_0000_0000_0000_0000u128) by (bit_vector);
}

// ---- compress: work vector initialisation ---------------------------------------------------------
/// the code's `tv[12] = st[0] ^ IV[4]` ... is the RFC's v[12] ^= t mod 2^64, v[13] ^= t >> 64, v[14] ^= 0xFF..FF if f
pub proof fn lemma_blake2b_init_work(h: Seq<u64>, t0: u64, t1: u64, f0: u64, f1: u64, v: Seq<u64>)
    requires
        h.len() == 8,
        v.len() == 16,
        forall|i: int| 0 <= i < 8 ==> v[i] == h[i],
        v[8] == blake2b_iv(0) && v[9] == blake2b_iv(1) && v[10] == blake2b_iv(2) && v[11] == blake2b_iv(3),
        v[12] == t0 ^ blake2b_iv(4),
        v[13] == t1 ^ blake2b_iv(5),
        v[14] == f0 ^ blake2b_iv(6),
        v[15] == f1 ^ blake2b_iv(7),
        f1 == 0,
        f0 == 0 || f0 == 0xFFFF_FFFF_FFFF_FFFFu64,
    ensures
        v == blake2b_init_work(h, blake2b_counter(t0, t1), f0 != 0),
{
    let t = blake2b_counter(t0, t1);
    assert(t % blake2b_two64() == t0 as nat);
    assert((t / blake2b_two64()) % blake2b_two64() == t1 as nat);
    let i4 = blake2b_iv(4);
    let i5 = blake2b_iv(5);
    let i6 = blake2b_iv(6);
    let i7 = blake2b_iv(7);
    assert(t0 ^ i4 == i4 ^ t0) by (bit_vector);
    assert(t1 ^ i5 == i5 ^ t1) by (bit_vector);
    assert(0u64 ^ i6 == i6) by (bit_vector);
    assert(0xFFFF_FFFF_FFFF_FFFFu64 ^ i6 == i6 ^ 0xFFFF_FFFF_FFFF_FFFFu64) by (bit_vector);
    assert(0u64 ^ i7 == i7) by (bit_vector);
    assert(v =~= blake2b_init_work(h, t, f0 != 0));
}

// ---- C08: buffering / held-back last block ------------------------------------------------------
/// k blocks taken from d, compressed with f = FALSE, counter running from t: what the two loops of `update` do
pub open spec fn blake2b_absorb_from(h: Seq<u64>, t: nat, d: Seq<u8>, k: nat) -> Seq<u64>
    decreases k,
{
    if k == 0 {
        h
    } else {
        compress_rfc(blake2b_absorb_from(h, t, d, (k - 1) as nat), d.subrange(128 * (k - 1), 128 * k as int), t + 128 * k, false)
    }
}

/// (h, t, buf) is the state reached from chaining value `hinit` after the data bytes `data`: all blocks but the
/// last one are compressed, the last (possibly full!) block is held back in buf; buf is empty only if data is
pub open spec fn blake2b_state_rep(h: Seq<u64>, tv: nat, buf: Seq<u8>, hinit: Seq<u64>, data: Seq<u8>) -> bool {
    let n = blake2b_blocks_before_last(data.len());
    &&& h == blake2b_absorb_blocks(hinit, data, n)
    &&& tv == 128 * n
    &&& buf == data.subrange(128 * n as int, data.len() as int)
}

/// blake2b_absorb_blocks(.., n) only depends on the first 128 n bytes
pub proof fn lemma_blake2b_absorb_prefix(h: Seq<u64>, d1: Seq<u8>, d2: Seq<u8>, n: nat)
    requires
        128 * n <= d1.len(),
        128 * n <= d2.len(),
        forall|i: int| 0 <= i < 128 * n ==> d1[i] == d2[i],
    ensures
        blake2b_absorb_blocks(h, d1, n) == blake2b_absorb_blocks(h, d2, n),
    decreases n,
{
    if n > 0 {
        let m = (n - 1) as nat;
        lemma_blake2b_absorb_prefix(h, d1, d2, m);
        assert(d1.subrange(128 * m as int, 128 * n as int) =~= d2.subrange(128 * m as int, 128 * n as int));
    }
}

/// continuing after block n of `data` with k blocks read from d, where d[0 .. 128 k] = data[128 n .. 128 (n + k)]
pub proof fn lemma_blake2b_absorb_from(h: Seq<u64>, data: Seq<u8>, n: nat, d: Seq<u8>, k: nat)
    requires
        128 * (n + k) <= data.len(),
        128 * k <= d.len(),
        forall|i: int| 0 <= i < 128 * k ==> d[i] == data[128 * n + i],
    ensures
        blake2b_absorb_from(blake2b_absorb_blocks(h, data, n), 128 * n, d, k) == blake2b_absorb_blocks(h, data, n + k),
    decreases k,
{
    if k > 0 {
        let j = (k - 1) as nat;
        lemma_blake2b_absorb_from(h, data, n, d, j);
        assert(d.subrange(128 * j as int, 128 * k as int) =~= data.subrange(128 * (n + j) as int, 128 * (n + k) as int));
        assert((n + k - 1) as nat == n + j);
        assert(128 * n + 128 * k == 128 * (n + k));
    }
}

pub proof fn lemma_blake2b_rep_buf_len(h: Seq<u64>, tv: nat, buf: Seq<u8>, hinit: Seq<u64>, data: Seq<u8>)
    requires
        blake2b_state_rep(h, tv, buf, hinit, data),
    ensures
        buf.len() <= 128,
        tv + buf.len() == data.len(),
        data.len() > 0 ==> buf.len() > 0,
{
}

/// `update`, first branch: the input still fits into the buffer
pub proof fn lemma_blake2b_rep_append_small(h: Seq<u64>, tv: nat, buf: Seq<u8>, hinit: Seq<u64>, data: Seq<u8>, input: Seq<u8>)
    requires
        blake2b_state_rep(h, tv, buf, hinit, data),
        buf.len() + input.len() <= 128,
    ensures
        blake2b_state_rep(h, tv, buf + input, hinit, data + input),
{
    let n = blake2b_blocks_before_last(data.len());
    let d2 = data + input;
    if input.len() == 0 {
        assert(d2 =~= data);
        assert(buf + input =~= buf);
    } else {
        assert(blake2b_blocks_before_last(d2.len()) == n);
        lemma_blake2b_absorb_prefix(hinit, data, d2, n);
        assert(buf + input =~= d2.subrange(128 * n as int, d2.len() as int));
    }
}

/// block counting of `update`'s second branch (pure arithmetic)
pub proof fn lemma_blake2b_update_counts(len: nat, b: nat, m: nat, start: int, c1: nat, c2: nat)
    requires
        b == len - 128 * blake2b_blocks_before_last(len),
        b + m > 128,
        start == (if 0 < b < 128 { 128 - b } else { 0 }),
        c1 == (if b > 0 { 1nat } else { 0nat }),
        c2 == blake2b_blocks_before_last((m - start) as nat),
    ensures
        b <= 128,
        0 <= start < m,
        start + 128 * c2 < m,
        m - (start + 128 * c2) <= 128,
        blake2b_blocks_before_last(len + m) == blake2b_blocks_before_last(len) + c1 + c2,
        b > 0 ==> b + start == 128,
{
    let n = blake2b_blocks_before_last(len);
    let r = (m - start) as nat;
    if len > 0 {
        assert(len - 1 == 128 * n + (len - 1) % 128);
    }
    assert(r >= 1);
    assert(r - 1 == 128 * c2 + (r - 1) % 128);
    if b > 0 {
        // len + m = 128 (n + 1) + r
        assert(len + m - 1 == 128 * (n + 1) + (r - 1));
        assert((len + m - 1) / 128 == n + 1 + (r - 1) / 128) by {
            lemma_b2_div_add_multiple((r - 1) as int, (n + 1) as int);
        }
    } else {
        assert(len == 0 && n == 0);
    }
}

/// the three-way choice of `end` in `update` is start + 128 * (number of blocks before the last one of the rest)
pub proof fn lemma_blake2b_update_end(len: int, start: int, end: int)
    requires
        0 <= start < len,
        end == (if len - start > 128 && (len - start) % 128 == 0 {
            len - 128
        } else if len - start > 128 {
            len - (len - start) % 128
        } else {
            start
        }),
    ensures
        end == start + 128 * blake2b_blocks_before_last((len - start) as nat),
        start <= end < len,
        (end - start) % 128 == 0,
{
    let r = len - start;
    assert(r == 128 * (r / 128) + r % 128);
    assert(r - 1 == 128 * ((r - 1) / 128) + (r - 1) % 128);
}

pub proof fn lemma_b2_div_add_multiple(x: int, q: int)
    requires
        x >= 0,
        q >= 0,
    ensures
        (128 * q + x) / 128 == q + x / 128,
{
}

/// where the bytes that `update`'s second branch compresses / keeps sit in data ++ input (pure sequence facts)
pub proof fn lemma_blake2b_update_layout(data: Seq<u8>, input: Seq<u8>, buf: Seq<u8>, filled: Seq<u8>, n: nat, start: int, end: int, c1: nat, c2: nat)
    requires
        data.len() == 128 * n + buf.len(),
        buf == data.subrange(128 * n as int, data.len() as int),
        buf.len() <= 128,
        c1 == (if buf.len() > 0 { 1nat } else { 0nat }),
        start == (if 0 < buf.len() < 128 { 128 - buf.len() } else { 0 }),
        filled == (if 0 < buf.len() < 128 { buf + input.subrange(0, start) } else { buf }),
        0 <= start <= end <= input.len(),
        end == start + 128 * c2,
    ensures
        filled.len() == 128 * c1,
        forall|i: int| 0 <= i < 128 * c1 ==> filled[i] == (data + input)[128 * n + i],
        forall|i: int| 0 <= i < 128 * c2 ==> input.subrange(start, end)[i] == (data + input)[128 * (n + c1) + i],
        input.subrange(end, input.len() as int) == (data + input).subrange(128 * (n + c1 + c2) as int, (data + input).len() as int),
{
    let d2 = data + input;
    assert(128 * (n + c1) == 128 * n + 128 * c1);
    assert(128 * (n + c1 + c2) == 128 * n + 128 * c1 + 128 * c2);
    if buf.len() > 0 {
        assert(buf.len() + start == 128);
    }
    assert forall|i: int| 0 <= i < 128 * c1 implies filled[i] == d2[128 * n + i] by {
        if i < buf.len() {
            assert(filled[i] == buf[i]);
            assert(buf[i] == data[128 * n + i]);
        } else {
            assert(filled[i] == input[i - buf.len()]);
        }
    }
    assert forall|i: int| 0 <= i < 128 * c2 implies input.subrange(start, end)[i] == d2[128 * (n + c1) + i] by {
        assert(input.subrange(start, end)[i] == input[start + i]);
        assert(d2[128 * (n + c1) + i] == input[128 * (n + c1) + i - data.len()]);
    }
    assert(input.subrange(end, input.len() as int) =~= d2.subrange(128 * (n + c1 + c2) as int, d2.len() as int));
}

/// `update`, second branch: top up the buffer (start), compress it, compress the blocks input[start..end], keep the
/// rest; `end` is such that at least one byte and at most one full block are kept
pub proof fn lemma_blake2b_rep_append_big(
    h: Seq<u64>,
    tv: nat,
    buf: Seq<u8>,
    hinit: Seq<u64>,
    data: Seq<u8>,
    input: Seq<u8>,
    start: int,
    end: int,
    filled: Seq<u8>,
    h1: Seq<u64>,
    h2: Seq<u64>,
)
    requires
        blake2b_state_rep(h, tv, buf, hinit, data),
        buf.len() + input.len() > 128,
        start == (if 0 < buf.len() < 128 { 128 - buf.len() } else { 0 }),
        filled == (if 0 < buf.len() < 128 { buf + input.subrange(0, start) } else { buf }),
        end == start + 128 * blake2b_blocks_before_last((input.len() - start) as nat),
        h1 == blake2b_absorb_from(h, tv, filled, filled.len() / 128),
        h2 == blake2b_absorb_from(h1, tv + 128 * (filled.len() / 128), input.subrange(start, end), ((end - start) / 128) as nat),
    ensures
        0 <= start <= end < input.len(),
        blake2b_state_rep(
            h2,
            (tv + 128 * (filled.len() / 128) + (end - start)) as nat,
            input.subrange(end, input.len() as int),
            hinit,
            data + input,
        ),
{
    let n = blake2b_blocks_before_last(data.len());
    let d2 = data + input;
    let c1: nat = if buf.len() > 0 { 1 } else { 0 };
    let r = (input.len() - start) as nat;
    let c2 = blake2b_blocks_before_last(r);
    lemma_blake2b_update_counts(data.len(), buf.len(), input.len(), start, c1, c2);
    lemma_blake2b_update_layout(data, input, buf, filled, n, start, end, c1, c2);
    assert(filled.len() / 128 == c1);
    assert((end - start) / 128 == c2) by {
        lemma_b2_div_add_multiple(0, c2 as int);
    }
    assert(d2.len() == data.len() + input.len());
    lemma_blake2b_absorb_prefix(hinit, data, d2, n);
    lemma_blake2b_absorb_from(hinit, d2, n, filled, c1);
    assert(h1 == blake2b_absorb_blocks(hinit, d2, n + c1));
    assert(tv + 128 * c1 == 128 * (n + c1));
    lemma_blake2b_absorb_from(hinit, d2, n + c1, input.subrange(start, end), c2);
    assert(h2 == blake2b_absorb_blocks(hinit, d2, n + c1 + c2));
    assert(blake2b_blocks_before_last(d2.len()) == n + c1 + c2);
}

// ---- output serialisation -------------------------------------------------------------------------
pub proof fn lemma_b2_nat_to_le_len(v: nat, n: nat)
    ensures
        nat_to_le(v, n).len() == n,
    decreases n,
{
    if n > 0 {
        lemma_b2_nat_to_le_len(v / 256, (n - 1) as nat);
    }
}

/// b is the concatenation of the 8-byte little-endian encodings of the words of h
pub proof fn lemma_blake2b_words_to_bytes(h: Seq<u64>, b: Seq<u8>)
    requires
        b.len() == 8 * h.len(),
        forall|i: int| 0 <= i < h.len() ==> #[trigger] b.subrange(8 * i, 8 * i + 8) == nat_to_le(h[i] as nat, 8),
    ensures
        b == blake2b_words_to_bytes(h),
    decreases h.len(),
{
    if h.len() == 0 {
        assert(b =~= Seq::<u8>::empty());
    } else {
        let h1 = h.subrange(1, h.len() as int);
        let b1 = b.subrange(8, b.len() as int);
        assert forall|i: int| 0 <= i < h1.len() implies #[trigger] b1.subrange(8 * i, 8 * i + 8) == nat_to_le(h1[i] as nat, 8) by {
            assert(b1.subrange(8 * i, 8 * i + 8) =~= b.subrange(8 * (i + 1), 8 * (i + 1) + 8));
        }
        lemma_blake2b_words_to_bytes(h1, b1);
        assert(b.subrange(8 * 0int, 8 * 0int + 8) == nat_to_le(h[0] as nat, 8));
        assert(b =~= b.subrange(0, 8) + b1);
    }
}

pub proof fn lemma_blake2b_words_to_bytes_len(h: Seq<u64>)
    ensures
        blake2b_words_to_bytes(h).len() == 8 * h.len(),
    decreases h.len(),
{
    if h.len() > 0 {
        lemma_b2_nat_to_le_len(h[0] as nat, 8);
        lemma_blake2b_words_to_bytes_len(h.subrange(1, h.len() as int));
    }
}

/// the digest has `outlen` bytes (outlen <= 64)
pub proof fn lemma_blake2b_rfc_len(outlen: nat, key: Seq<u8>, salt: Seq<u8>, personal: Seq<u8>, msg: Seq<u8>)
    requires
        outlen <= 64,
    ensures
        blake2b_rfc_full(outlen, key, salt, personal, msg).len() == 64,
        blake2b_rfc(outlen, key, salt, personal, msg).len() == outlen,
{
    hide(blake2b_rounds);
    reveal(compress_rfc);
    lemma_blake2b_words_to_bytes_len(blake2b_final_h(outlen, key, salt, personal, msg));
}

} // verus!
